(* Property C11 — parent status = hook status + observedGeneration; nothing else is
   touched.  Statements about Model/Composite.v update_parent_status and finish_sync. *)
From MC Require Import Generated Model.Composite Model.TracePreds Model.Safe Proofs.SafeLemmas Proofs.C11Proofs.

Theorem C11_status_calls :
  forall (G : call -> answer -> Prop) (c : ccfg) (parent st : json) (h : hist),
         safe G (C11_phi c parent st) h (update_parent_status c parent st).
Proof. exact (@C11_status_calls). Qed.
Print Assumptions C11_status_calls.

Theorem C11_put_only_status :
  forall (c : ccfg) (parent st : json) (h : hist) (cl : call),
         C11_phi c parent st h cl ->
         forall q : req,
         cl = CApi q ->
         q_verb q <> VGet ->
         q_verb q = (if p_has_status c then VUpdateStatus else VUpdate) /\
         (exists cur : json,
            (exists rest : list (call * answer), h = (status_get c parent, AObj cur) :: rest) /\
            (forall key : string,
             key <> "status" -> alookup key (obj_map (q_body q)) = alookup key (obj_map cur))).
Proof. exact (@C11_put_only_status). Qed.
Print Assumptions C11_put_only_status.

Theorem C11_no_put_when_equal :
  forall (c : ccfg) (parent st cur : json),
         get_uid cur = get_uid parent ->
         jeqb (jget "status" (obj_map cur)) (desired_status parent st) = true ->
         exists k : answer -> prog apires,
           update_parent_status c parent st = Do (status_get c parent) k /\ k (AObj cur) = Ret (ROk cur).
Proof. exact (@C11_no_put_when_equal). Qed.
Print Assumptions C11_no_put_when_equal.

Theorem C11_bounded_run :
  forall (c : ccfg) (parent st : json) (e : env),
         count_calls is_get_call (fst (run (update_parent_status c parent st) e [])) <= 4 /\
         count_calls is_put_call (fst (run (update_parent_status c parent st) e [])) <= 4.
Proof. exact (@C11_bounded_run). Qed.
Print Assumptions C11_bounded_run.

Theorem C11_status_after_children :
  forall (c : ccfg) (p : json) (obs : umap) (r : hook_resp) (ds : list json) 
           (e : env) (h : list (call * answer)),
         let ch :=
           run (children_phase c p obs (fold_left (fun (m : umap) (o : json) => uinsert o m) ds [])) e h in
         let stt := run (update_parent_status c p (hr_status r)) e (fst ch) in
         run (after_labels c p obs r ds) e h = (fst stt, status_result (snd ch) (snd stt)).
Proof. exact (@C11_status_after_children). Qed.
Print Assumptions C11_status_after_children.

Theorem C11_child_error_reported :
  forall (c : ccfg) (p : json) (obs : umap) (r : hook_resp) (ds : list json) 
           (e : env) (h : list (call * answer)) (o : json),
         snd (run (children_phase c p obs (fold_left (fun (m : umap) (o0 : json) => uinsert o0 m) ds [])) e h) =
         true ->
         snd
           (run (update_parent_status c p (hr_status r)) e
              (fst
                 (run (children_phase c p obs (fold_left (fun (m : umap) (o0 : json) => uinsert o0 m) ds [])) e
                    h))) = ROk o -> snd (run (after_labels c p obs r ds) e h) = SErr.
Proof. exact (@C11_child_error_reported). Qed.
Print Assumptions C11_child_error_reported.

Theorem C11_child_error_always_reported :
  forall (c : ccfg) (p : json) (obs : umap) (r : hook_resp) (ds : list json) 
           (e : env) (h : list (call * answer)),
         snd (run (children_phase c p obs (fold_left (fun (m : umap) (o : json) => uinsert o m) ds [])) e h) =
         true -> snd (run (after_labels c p obs r ds) e h) = SErr.
Proof. exact (@C11_child_error_always_reported). Qed.
Print Assumptions C11_child_error_always_reported.

(* add this Require line (after the file's existing Require line, or right before the appended block:
   both placements were test-compiled against a copy of the current Properties file) *)
From MC Require Import Proofs.Round3Proofs.

Theorem C11_status_answered :
  forall (c : ccfg) (parent st : json), answered_by (C11_next c parent st) (update_parent_status c parent st).
Proof. exact (@C11_status_answered). Qed.
Print Assumptions C11_status_answered.

Theorem C11_put_when_different :
  forall (c : ccfg) (parent st cur : json),
       get_uid cur = get_uid parent ->
       jeqb (jget "status" (obj_map cur)) (desired_status parent st) = false ->
       exists k k2 : answer -> prog apires,
         update_parent_status c parent st = Do (status_get c parent) k /\
         k (AObj cur) = Do (status_put c parent (status_body parent st cur)) k2.
Proof. exact (@C11_put_when_different). Qed.
Print Assumptions C11_put_when_different.

Theorem C11_put_iff_different :
  forall (c : ccfg) (parent st cur : json),
       get_uid cur = get_uid parent ->
       exists k : answer -> prog apires,
         update_parent_status c parent st = Do (status_get c parent) k /\
         ((exists (cl : call) (k2 : answer -> prog apires), k (AObj cur) = Do cl k2) <->
          jeqb (jget "status" (obj_map cur)) (desired_status parent st) = false) /\
         (forall (cl : call) (k2 : answer -> prog apires),
          k (AObj cur) = Do cl k2 ->
          cl = status_put c parent (status_body parent st cur) /\
          jget "status" (obj_map (status_body parent st cur)) = desired_status parent st).
Proof. exact (@C11_put_iff_different). Qed.
Print Assumptions C11_put_iff_different.

Theorem C11_written_when_different_run :
  forall (c : ccfg) (parent st : json) (e : env) (post : list (call * answer)) (cur : json)
         (pre : list (call * answer)),
       fst (run (update_parent_status c parent st) e []) = (post ++ (status_get c parent, AObj cur) :: pre)%list ->
       get_uid cur = get_uid parent ->
       jeqb (jget "status" (obj_map cur)) (desired_status parent st) = false ->
       exists (post' : list (call * answer)) (a : answer),
         post = (post' ++ [(status_put c parent (status_body parent st cur), a)])%list.
Proof. exact (@C11_written_when_different_run). Qed.
Print Assumptions C11_written_when_different_run.

Theorem C11_written_only_when_different_run :
  forall (c : ccfg) (parent st : json) (e : env) (post : list (call * answer)) (q : req)
         (a : answer) (pre : list (call * answer)),
       fst (run (update_parent_status c parent st) e []) = (post ++ (CApi q, a) :: pre)%list ->
       q_verb q <> VGet ->
       exists (cur : json) (rest : list (call * answer)),
         pre = (status_get c parent, AObj cur) :: rest /\
         CApi q = status_put c parent (status_body parent st cur) /\
         get_uid cur = get_uid parent /\ jeqb (jget "status" (obj_map cur)) (desired_status parent st) = false.
Proof. exact (@C11_written_only_when_different_run). Qed.
Print Assumptions C11_written_only_when_different_run.

Theorem C11_written_when_different_inhabited :
  let body := status_body R3C11.parent R3C11.st R3C11.cur in
       get_uid R3C11.cur = get_uid R3C11.parent /\
       jeqb (jget "status" (obj_map R3C11.cur)) (desired_status R3C11.parent R3C11.st) = false /\
       desired_status R3C11.parent R3C11.st = R3C11.want /\
       map fst (trace_of (update_parent_status R3C11.cfg R3C11.parent R3C11.st) R3C11.e_conflict_once) =
       [status_get R3C11.cfg R3C11.parent; status_put R3C11.cfg R3C11.parent body; status_get R3C11.cfg R3C11.parent;
        status_put R3C11.cfg R3C11.parent body] /\
       status_put R3C11.cfg R3C11.parent body =
       CApi
         {|
           q_verb := VUpdateStatus;
           q_res := "parents.ctl.example.com/v1";
           q_ns := "ns";
           q_name := "p";
           q_body := body;
           q_uid_pre := "";
           q_prop := ""
         |} /\
       status_put R3C11.cfg_nostatus R3C11.parent body =
       CApi
         {|
           q_verb := VUpdate;
           q_res := "parents.ctl.example.com/v1";
           q_ns := "ns";
           q_name := "p";
           q_body := body;
           q_uid_pre := "";
           q_prop := ""
         |} /\ jget "status" (obj_map body) = R3C11.want.
Proof. exact (@C11_written_when_different_inhabited). Qed.
Print Assumptions C11_written_when_different_inhabited.
