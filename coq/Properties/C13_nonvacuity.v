(* Non-vacuity evidence for Properties/C13.v: the composite sync of C12_nonvacuity.v (plus an
   orphan that is adopted before the hook is called), run against hooks that answer with
   malformed bodies, transport errors, or 429; hypotheses of the conditional C13 theorems
   met by these runs, conclusions computed. *)
From MC Require Import Generated Model.Composite Model.TracePreds Model.Safe Model.Rolling Proofs.SafeLemmas Proofs.C04Proofs Proofs.C06Proofs Proofs.RollPanic Proofs.C13Proofs.
Local Open Scope list_scope.

Module C13NV.
  Definition kid : child_cfg := mkChild "v1" "things" "Thing" true "InPlace".
  Definition cfg : ccfg :=
    mkCfg "cc" "ctl.example.com/v1" "Parent" "parents" true true true sel_everything [kid] true false
          [kid] false false [["spec"]] [].
  Definition parent : json :=
    JObj [("apiVersion", JStr "ctl.example.com/v1"); ("kind", JStr "Parent");
          ("metadata", JObj [("name", JStr "p"); ("namespace", JStr "ns"); ("uid", JStr "uid-p");
                             ("generation", JInt 2)]);
          ("spec", JObj [("replicas", JInt 2)])].
  Definition pref : json :=
    JObj [("apiVersion", JStr "ctl.example.com/v1"); ("blockOwnerDeletion", JBool true);
          ("controller", JBool true); ("kind", JStr "Parent"); ("name", JStr "p"); ("uid", JStr "uid-p")].
  Definition child (name uid : string) (x : Z) : json :=
    JObj [("apiVersion", JStr "v1"); ("kind", JStr "Thing");
          ("metadata", JObj [("name", JStr name); ("namespace", JStr "ns"); ("uid", JStr uid);
                             ("labels", JObj [("controller-uid", JStr "uid-p")]);
                             ("ownerReferences", JArr [pref])]);
          ("spec", JObj [("x", JInt x)])].
  Definition child_a := child "a" "uid-a" 1.     (* owned, differs from desired: updated *)
  Definition child_b := child "b" "uid-b" 1.     (* owned, no longer desired: deleted *)
  Definition desired (name : string) (x : Z) : json :=
    JObj [("apiVersion", JStr "v1"); ("kind", JStr "Thing");
          ("metadata", JObj [("name", JStr name); ("namespace", JStr "ns")]); ("spec", JObj [("x", JInt x)])].
  Definition k0 : cache := mkCache (Some parent) [("things.v1", [child_a; child_b])].
  Definition hook_body : json :=
    JObj [("status", JObj [("ready", JInt 1)]); ("children", JArr [desired "a" 2; desired "c" 3])].
  (* the server: the parent is served; writes to children are answered by [child_ans] *)
  Definition env_with (hook : answer) (child_ans : req -> answer) : env := fun _ cl =>
    match cl with
    | CHook _ _ => hook
    | CApi q => if String.eqb (q_res q) (p_res cfg)
                then match q_verb q with VGet => AObj parent | _ => AObj (q_body q) end
                else child_ans q
    end.
  Definition accept (q : req) : answer := match q_verb q with VDelete => AObj JNull | _ => AObj (q_body q) end.
  Definition e_ok : env := env_with (AHook hook_body) accept.
  Definition call_sig (cl : call) : verb * string * string :=
    match cl with CApi q => (q_verb q, q_res q, q_name q) | CHook _ _ => (VGet, "hook", "") end.
  Definition sigs {R} (p : prog R) (e : env) := map (fun ca => call_sig (fst ca)) (trace_of p e).
  Definition P := "parents.ctl.example.com/v1".
  Definition T := "things.v1".
  Definition child_writes {R} (p : prog R) (e : env) : nat :=
    List.length (filter (fun ca => match fst ca with
                                   | CApi q => String.eqb (q_res q) T && is_write q | _ => false end)
                        (trace_of p e)).
  Definition child_o : json :=     (* a matching orphan: adopted before the hook is called *)
    JObj [("apiVersion", JStr "v1"); ("kind", JStr "Thing");
          ("metadata", JObj [("name", JStr "o"); ("namespace", JStr "ns"); ("uid", JStr "uid-o");
                             ("labels", JObj [("controller-uid", JStr "uid-p")])]);
          ("spec", JObj [("x", JInt 1)])].
  Definition k1 : cache := mkCache (Some parent) [("things.v1", [child_a; child_b; child_o])].
  Definition serve (q : req) : answer :=
    match q_verb q with VGet => AObj child_o | VDelete => AObj JNull | _ => AObj (q_body q) end.
  Definition e_hook (a : answer) : env := env_with a serve.
  (* malformed CompositeHookResponse bodies *)
  Definition bad_children : json := JObj [("children", JStr "oops")].
  Definition bad_status : json := JObj [("status", JStr "ready"); ("children", JArr [])].
  Definition bad_child_entry : json := JObj [("children", JArr [JObj [("metadata", JObj [("name", JStr "c")])]])].  (* no kind *)
  Definition bad_finalized : json := JObj [("finalized", JStr "yes")].
  Definition bad_resync : json := JObj [("resyncAfterSeconds", JStr "soon")].
  Definition bad_toplevel : json := JArr [].
  (* odd but decodable: a null child entry, a child whose spec clashes with the observed one *)
  Definition odd_null_child : json := JObj [("children", JArr [JNull; desired "a" 1; desired "b" 1; desired "o" 1])].
  Definition clash : json :=
    JObj [("apiVersion", JStr "v1"); ("kind", JStr "Thing");
          ("metadata", JObj [("name", JStr "a"); ("namespace", JStr "ns")]); ("spec", JStr "not-a-map")].
  Definition odd_clash : json := JObj [("children", JArr [clash; desired "b" 1; desired "o" 1])].
  (* the same controller with a rolling strategy, no revision stored yet *)
  Definition kid_r : child_cfg := mkChild "v1" "things" "Thing" true "RollingInPlace".
  Definition cfg_r : ccfg :=
    mkCfg "cc" "ctl.example.com/v1" "Parent" "parents" true true true sel_everything [kid_r] true false
          [kid_r] false false [["spec"]] [].
  Definition k1_r : cache :=
    mkCache (Some parent) [("things.v1", [child_a; child_b; child_o]); ("fresh-revision-name", [JStr "p-r1"])].
  Definition last_is_hook (tr : list (call * answer)) (a : answer) : bool :=
    match rev tr with
    | (CHook hk _, a') :: _ => negb (hook_kind_eqb hk HCustomize) &&
                               match a, a' with
                               | AHook x, AHook y => jeqb x y
                               | AHookErr, AHookErr => true
                               | AHook429 n, AHook429 m => Z.eqb n m
                               | AObj x, AObj y => jeqb x y
                               | _, _ => false end
    | _ => false end.
  Definition prelude := [(VGet, P, "p"); (VGet, T, "o"); (VUpdate, T, "o")].
End C13NV.
Import C13NV.

(* the malformed bodies are rejected by the decoder; the odd ones are not *)
Example C13_malformed_bodies :
  map decode_composite [bad_children; bad_status; bad_child_entry; bad_finalized; bad_resync; bad_toplevel] =
    [None; None; None; None; None; None] /\
  map (fun b => hook_outcome (AHook b)) [bad_children; bad_status; bad_child_entry] = [Some SErr; Some SErr; Some SErr] /\
  hook_outcome AHookErr = Some SErr /\ hook_outcome (AObj JNull) = Some SErr /\ hook_outcome (AHook429 9) = Some (SRequeue 9) /\
  option_map hr_children (decode_composite odd_null_child) =
    Some [None; Some (desired "a" 1); Some (desired "b" 1); Some (desired "o" 1)] /\
  hook_outcome (AHook odd_clash) = None.
Proof. vm_compute. repeat split; reflexivity. Qed.

(* C13_rejected_SErr, C13_rejected_is_last: a sync-hook entry of the trace whose answer is a
   malformed body; it is the last call (the adoption made before it is the only write),
   the result is SErr *)
Example C13_rejected_SErr_inhabited :
  (exists hk body, In (CHook hk body, AHook bad_children) (trace_of (sync_parent_object cfg k1 parent) (e_hook (AHook bad_children))) /\
                   hk <> HCustomize /\ decode_composite bad_children = None /\
                   hook_outcome (AHook bad_children) = Some SErr) /\
  sigs (sync_parent_object cfg k1 parent) (e_hook (AHook bad_children)) = prelude ++ [(VGet, "hook", "")] /\
  last_is_hook (trace_of (sync_parent_object cfg k1 parent) (e_hook (AHook bad_children))) (AHook bad_children) = true /\
  result_of (sync_parent_object cfg k1 parent) (e_hook (AHook bad_children)) = SErr /\
  (* the same for every other malformed body *)
  map (fun b => (sigs (sync_parent_object cfg k1 parent) (e_hook (AHook b)),
                 result_of (sync_parent_object cfg k1 parent) (e_hook (AHook b))))
      [bad_status; bad_child_entry; bad_finalized; bad_resync; bad_toplevel] =
    repeat (prelude ++ [(VGet, "hook", "")], SErr) 5 /\
  (* a healthy answer: the writes do happen *)
  sigs (sync_parent_object cfg k1 parent) (e_hook (AHook hook_body)) =
    prelude ++ [(VGet, "hook", ""); (VDelete, T, "b"); (VDelete, T, "o"); (VUpdate, T, "a"); (VCreate, T, "c");
                (VGet, P, "p"); (VUpdateStatus, P, "p")].
Proof.
  split.
  { eexists. eexists. split; [vm_compute; do 3 right; left; reflexivity|].
    split; [discriminate|]. vm_compute. split; reflexivity. }
  vm_compute. repeat split; reflexivity.
Qed.

(* the other disjuncts of C13_rejected_SErr: a transport error, an answer that is not a hook answer *)
Example C13_rejected_other_inhabited :
  (exists hk body, In (CHook hk body, AHookErr) (trace_of (sync_parent_object cfg k1 parent) (e_hook AHookErr)) /\
                   hk <> HCustomize) /\
  last_is_hook (trace_of (sync_parent_object cfg k1 parent) (e_hook AHookErr)) AHookErr = true /\
  result_of (sync_parent_object cfg k1 parent) (e_hook AHookErr) = SErr /\
  (exists hk body o, In (CHook hk body, AObj o) (trace_of (sync_parent_object cfg k1 parent) (e_hook (AObj JNull))) /\
                     hk <> HCustomize) /\
  last_is_hook (trace_of (sync_parent_object cfg k1 parent) (e_hook (AObj JNull))) (AObj JNull) = true /\
  result_of (sync_parent_object cfg k1 parent) (e_hook (AObj JNull)) = SErr.
Proof.
  split.
  { eexists. eexists. split; [vm_compute; do 3 right; left; reflexivity|discriminate]. }
  split; [vm_compute; reflexivity|]. split; [vm_compute; reflexivity|]. split.
  { eexists. eexists. eexists. split; [vm_compute; do 3 right; left; reflexivity|discriminate]. }
  split; vm_compute; reflexivity.
Qed.

(* C13_429_SRequeue *)
Example C13_429_inhabited :
  (exists hk body, In (CHook hk body, AHook429 9) (trace_of (sync_parent_object cfg k1 parent) (e_hook (AHook429 9))) /\
                   hk <> HCustomize) /\
  last_is_hook (trace_of (sync_parent_object cfg k1 parent) (e_hook (AHook429 9))) (AHook429 9) = true /\
  sigs (sync_parent_object cfg k1 parent) (e_hook (AHook429 9)) = prelude ++ [(VGet, "hook", "")] /\
  result_of (sync_parent_object cfg k1 parent) (e_hook (AHook429 9)) = SRequeue 9.
Proof.
  split.
  { eexists. eexists. split; [vm_compute; do 3 right; left; reflexivity|discriminate]. }
  vm_compute. repeat split; reflexivity.
Qed.

(* C13_rejected_r_not_done (and C13_no_panic_r): the rolling variant, malformed body: neither
   a ControllerRevision nor a child is written after the hook, the sync fails *)
Example C13_rolling_rejected_inhabited :
  any_rolling cfg_r = true /\
  (exists hk body, In (CHook hk body, AHook bad_status)
                      (fst (run (sync_parent_object_r cfg_r k1_r parent) (e_hook (AHook bad_status)) [])) /\
                   hk <> HCustomize /\ rejected (AHook bad_status)) /\
  sigs (sync_parent_object_r cfg_r k1_r parent) (e_hook (AHook bad_status)) = prelude ++ [(VGet, "hook", "")] /\
  result_of (sync_parent_object_r cfg_r k1_r parent) (e_hook (AHook bad_status)) = SErr /\
  (* with a healthy hook the same sync does write the revision and the children *)
  sigs (sync_parent_object_r cfg_r k1_r parent) (e_hook (AHook hook_body)) =
    prelude ++ [(VGet, "hook", ""); (VCreate, rev_res, "p-r1");
                (VDelete, T, "b"); (VDelete, T, "o"); (VUpdate, T, "a"); (VCreate, T, "c");
                (VGet, P, "p"); (VUpdateStatus, P, "p")].
Proof.
  split; [vm_compute; reflexivity|]. split.
  { eexists. eexists. split; [vm_compute; left; reflexivity|]. split; [discriminate|vm_compute; discriminate]. }
  vm_compute. repeat split; reflexivity.
Qed.

(* C13_child_decision_no_panic, C13_no_panic on inputs that would crash a careless
   implementation: a null child entry is dropped; a desired child whose spec clashes with the
   observed one is an error for that child only, the others are still reconciled *)
Example C13_no_panic_inhabited :
  child_decision cfg kid parent (Some child_a) clash = ActError /\
  child_decision cfg kid parent (Some JNull) (JStr "x") <> ActPanic /\
  result_of (sync cfg k1) (e_hook (AHook odd_null_child)) = SDone /\
  sigs (sync cfg k1) (e_hook (AHook odd_clash)) =
    prelude ++ [(VGet, "hook", ""); (VUpdate, T, "b"); (VUpdate, T, "o"); (VGet, P, "p"); (VUpdateStatus, P, "p")] /\
  result_of (sync cfg k1) (e_hook (AHook odd_clash)) = SErr.
Proof. vm_compute. repeat split; try reflexivity; try discriminate. Qed.
