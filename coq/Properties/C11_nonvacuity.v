(* Non-vacuity evidence for Properties/C11.v: update_parent_status and the tail of
   finish_sync on a concrete parent, against servers that accept, conflict, or
   reject child writes; hypotheses of the conditional C11 theorems met, conclusions computed. *)
From MC Require Import Generated Model.Composite Model.TracePreds Model.Safe Proofs.SafeLemmas Proofs.C11Proofs.
Local Open Scope list_scope.

Module C11NV.
  Definition kid : child_cfg := mkChild "v1" "things" "Thing" true "InPlace".
  Definition cfg : ccfg :=
    mkCfg "cc" "ctl.example.com/v1" "Parent" "parents" true true true sel_everything [kid] true false
          [kid] false false [["spec"]] [].
  Definition pobj (rv : string) (status : list (string * json)) : json :=
    JObj ([("apiVersion", JStr "ctl.example.com/v1"); ("kind", JStr "Parent");
           ("metadata", JObj [("name", JStr "p"); ("namespace", JStr "ns"); ("uid", JStr "uid-p");
                              ("generation", JInt 2); ("resourceVersion", JStr rv);
                              ("labels", JObj [("team", JStr "x")])]);
           ("spec", JObj [("replicas", JInt 2)])] ++ status).
  Definition parent : json := pobj "5" [("status", JObj [("ready", JInt 0); ("observedGeneration", JInt 1)])].
  (* the live object moved on (resourceVersion 7) since the cache was filled *)
  Definition cur : json := pobj "7" [("status", JObj [("ready", JInt 0); ("observedGeneration", JInt 1)])].
  Definition st : json := JObj [("ready", JInt 1)].
  Definition want : json := JObj [("ready", JInt 1); ("observedGeneration", JInt 2)].
  Definition cur_done : json := pobj "8" [("status", want)].
  Definition put_body : json := JObj (aset "status" want (obj_map cur)).
  Definition e_accept (live : json) : env := fun _ cl =>
    match cl with
    | CApi q => match q_verb q with VGet => AObj live | _ => AObj (q_body q) end
    | _ => AHookErr end.
  Definition e_conflict : env := fun _ cl =>
    match cl with
    | CApi q => match q_verb q with VGet => AObj cur | _ => AFail EConflict end
    | _ => AHookErr end.
  (* child writes are rejected, the parent is served *)
  Definition e_bad_children : env := fun _ cl =>
    match cl with
    | CApi q => if String.eqb (q_res q) (p_res cfg)
                then match q_verb q with VGet => AObj cur | _ => AObj (q_body q) end
                else AFail EInvalid
    | _ => AHookErr end.
  Definition desired (name : string) : json :=
    JObj [("apiVersion", JStr "v1"); ("kind", JStr "Thing");
          ("metadata", JObj [("name", JStr name); ("namespace", JStr "ns");
                             ("labels", JObj [("controller-uid", JStr "uid-p")])])].
  Definition ds : list json := [desired "a"; desired "b"].
  Definition resp : hook_resp := mkHR st [Some (desired "a"); Some (desired "b")] JNull false.
  Definition dmap : umap := fold_left (fun (m : umap) (o : json) => uinsert o m) ds [].
  Definition call_sig (cl : call) : verb * string * string :=
    match cl with CApi q => (q_verb q, q_res q, q_name q) | CHook _ _ => (VGet, "hook", "") end.
  Definition P := "parents.ctl.example.com/v1".
End C11NV.
Import C11NV.

(* the run behind C11_status_calls: read the live parent, write it back with only .status
   replaced by hook status + observedGeneration, through the status subresource *)
Example C11_status_run_inhabited :
  desired_status parent st = want /\
  trace_of (update_parent_status cfg parent st) (e_accept cur) =
    [(status_get cfg parent, AObj cur); (status_put cfg parent put_body, AObj put_body)] /\
  status_put cfg parent put_body = CApi (mkRq VUpdateStatus P "ns" "p" put_body "" "") /\
  jget "status" (obj_map put_body) = want /\ get_rv put_body = "7" /\
  only_status_differs cur put_body = true /\ jeqb cur put_body = false /\
  result_of (update_parent_status cfg parent st) (e_accept cur) = ROk put_body.
Proof. vm_compute. repeat split; reflexivity. Qed.

(* C11_put_only_status: its three hypotheses, for the PUT of that run *)
Example C11_put_only_status_inhabited :
  C11_phi cfg parent st [(status_get cfg parent, AObj cur)] (status_put cfg parent put_body) /\
  (exists q, status_put cfg parent put_body = CApi q /\ q_verb q <> VGet /\
             q_verb q = (if p_has_status cfg then VUpdateStatus else VUpdate) /\
             forallb (fun key => match alookup key (obj_map (q_body q)), alookup key (obj_map cur) with
                                 | Some a, Some b => jeqb a b | None, None => true | _, _ => false end)
                     ["apiVersion"; "kind"; "metadata"; "spec"] = true).
Proof.
  split.
  - right. exists cur, []. repeat split; vm_compute; reflexivity.
  - eexists. split; [reflexivity|]. vm_compute. repeat split; try reflexivity. discriminate.
Qed.

(* C11_no_put_when_equal: same uid, status already as wanted: one GET, no PUT *)
Example C11_no_put_when_equal_inhabited :
  get_uid cur_done = get_uid parent /\
  jeqb (jget "status" (obj_map cur_done)) (desired_status parent st) = true /\
  map fst (trace_of (update_parent_status cfg parent st) (e_accept cur_done)) = [status_get cfg parent] /\
  result_of (update_parent_status cfg parent st) (e_accept cur_done) = ROk cur_done.
Proof. vm_compute. repeat split; reflexivity. Qed.

(* C11_bounded_run is tight: a server that always answers Conflict gets 4 reads and 4 writes *)
Example C11_bounded_run_inhabited :
  count_calls is_get_call (fst (run (update_parent_status cfg parent st) e_conflict [])) = 4 /\
  count_calls is_put_call (fst (run (update_parent_status cfg parent st) e_conflict [])) = 4 /\
  result_of (update_parent_status cfg parent st) e_conflict = RErr EConflict.
Proof. vm_compute. repeat split; reflexivity. Qed.

(* C11_child_error_reported, C11_child_error_always_reported, C11_status_after_children: both
   child creates are rejected; the status is written all the same, after them, and the
   sync reports an error *)
Example C11_child_error_inhabited :
  snd (run (children_phase cfg parent [] dmap) e_bad_children []) = true /\
  snd (run (update_parent_status cfg parent (hr_status resp)) e_bad_children
           (fst (run (children_phase cfg parent [] dmap) e_bad_children []))) = ROk put_body /\
  map (fun ca => call_sig (fst ca)) (trace_of (after_labels cfg parent [] resp ds) e_bad_children) =
    [(VCreate, "things.v1", "a"); (VCreate, "things.v1", "b"); (VGet, P, "p"); (VUpdateStatus, P, "p")] /\
  result_of (after_labels cfg parent [] resp ds) e_bad_children = SErr /\
  result_of (after_labels cfg parent [] resp ds) (e_accept cur) = SDone /\
  run (after_labels cfg parent [] resp ds) e_bad_children [] =
    (fst (run (update_parent_status cfg parent (hr_status resp)) e_bad_children
              (fst (run (children_phase cfg parent [] dmap) e_bad_children []))),
     status_result true (ROk put_body)).
Proof. vm_compute. repeat split; reflexivity. Qed.
