(* Property C16 — a decorator changes only labels, annotations, status and its own
   finalizer on the target; only selected targets are decorated; attachments are
   recognised by controller reference + marker.  Statements about Model/Decorator.v
   (update_string_map, d_matches, sync_d, update_target, finish_d, get_children_d,
   stamp_all); the executable predicates of Model/DecoratorPreds.v are evaluated on the
   implementation's traces by Check/Decorator_check.v. *)
From MC Require Import Generated Model.Decorator Model.DecoratorPreds Model.Safe Proofs.SafeLemmas Proofs.C16Proofs.
Local Open Scope list_scope.
Local Open Scope string_scope.

(* ---- 1. updateStringMap ---- *)
Theorem C16_update_string_map_spec :
  forall (dest : smap) (updates : list (string * option string)) (dest' : smap) (changed : bool),
    NoDup (map fst updates) ->
    update_string_map dest updates = (dest', changed) ->
    (forall k v, In (k, Some v) updates -> slookup k dest' = Some v) /\
    (forall k, In (k, None) updates -> slookup k dest' = None) /\
    (forall k, ~ In k (map fst updates) -> slookup k dest' = slookup k dest) /\
    (changed = false <-> smap_equiv dest' dest).
Proof. exact (@C16Proofs.C16_update_string_map_spec). Qed.
Print Assumptions C16_update_string_map_spec.

Example C16_usm_example :
  update_string_map [("a", "1"); ("b", "2"); ("c", "3")]
                    [("a", Some "9"); ("b", None); ("d", Some "4"); ("zz", None); ("c", Some "3")]
  = ([("a", "9"); ("c", "3"); ("d", "4")], true) /\
  update_string_map [("a", "1"); ("b", "2")] [("a", Some "1"); ("zz", None)] = ([("a", "1"); ("b", "2")], false).
Proof. vm_compute. split; reflexivity. Qed.

Example C16_usm_hypothesis_met :
  NoDup (map fst [("a", Some "9"); ("b", None); ("d", Some "4"); ("zz", @None string); ("c", Some "3")]).
Proof. repeat constructor; cbn; intuition discriminate. Qed.

(* ---- 2. the selector is the conjunction of the rule's two selectors ---- *)
Theorem C16_selector_conjunction :
  forall (c : dcfg) (target : json),
    d_matches c target = true <->
    exists r, rule_for c target = Some r /\
              sel_matches (rl_label_sel r) (get_labels target) = true /\
              sel_matches (rl_annot_sel r) (annots_of target) = true.
Proof. exact (@C16Proofs.C16_selector_conjunction). Qed.
Print Assumptions C16_selector_conjunction.

Theorem C16_unknown_kind_never_matches :
  forall (c : dcfg) (target : json),
    (forall r, In r (dc_rules c) ->
               ~ (group_of (rl_api_version r) = group_of (get_api_version target) /\ rl_kind r = get_kind target)) ->
    d_matches c target = false.
Proof. exact (@C16Proofs.C16_unknown_kind_never_matches). Qed.
Print Assumptions C16_unknown_kind_never_matches.

(* a decorator over pods with both selectors (one of them an expression), one attachment rule *)
Definition ex_rule : drule :=
  mkDRule "v1" "Pod" "pods" true true
          (SelReqs [mkReq "managed" OpIn ["yes"]; mkReq "skip" OpDoesNotExist []])
          (SelReqs [mkReq "decorate" OpIn ["yes"]]).
Definition ex_cm : child_cfg := mkChild "v1" "configmaps" "ConfigMap" true "InPlace".
Definition ex_cfg : dcfg :=
  mkDCfg "deco" [ex_rule] [ex_cm] true false [mkChild "v1" "pods" "Pod" true ""; ex_cm].

Definition ex_pod (labels annots : amap) : json :=
  JObj [("apiVersion", JStr "v1"); ("kind", JStr "Pod");
        ("metadata", JObj [("name", JStr "t1"); ("namespace", JStr "ns1"); ("uid", JStr "uid-t1");
                           ("resourceVersion", JStr "7"); ("labels", JObj labels); ("annotations", JObj annots);
                           ("finalizers", JArr [JStr "example.com/hold"])]);
        ("spec", JObj [("replicas", JInt 2)]);
        ("status", JObj [("phase", JStr "Old")])].

Definition ex_target := ex_pod [("managed", JStr "yes"); ("app", JStr "a")] [("decorate", JStr "yes")].
Definition ex_labels_only := ex_pod [("managed", JStr "yes")] [("decorate", JStr "no")].
Definition ex_annots_only := ex_pod [("managed", JStr "yes"); ("skip", JStr "x")] [("decorate", JStr "yes")].

Example C16_selector_examples :
  d_matches ex_cfg ex_target = true /\ d_matches ex_cfg ex_labels_only = false /\
  d_matches ex_cfg ex_annots_only = false /\
  d_matches ex_cfg (JObj [("apiVersion", JStr "v1"); ("kind", JStr "ConfigMap")]) = false.
Proof. vm_compute. repeat split. Qed.

(* ---- 3. an unselected target without the finalizer: no call at all ---- *)
Theorem C16_only_selected :
  forall (c : dcfg) (k : dcache) (t : json),
    target_of c k = Some t ->
    d_matches c t = false ->
    has_finalizer t (d_finalizer_name c) = false ->
    sync_d c k = Ret SDone.
Proof. exact (@C16Proofs.C16_only_selected). Qed.
Print Assumptions C16_only_selected.

Theorem C16_no_target_no_call :
  forall (c : dcfg) (k : dcache),
    target_of c k = None -> sync_d c k = Ret SDone \/ sync_d c k = Ret SErr.
Proof. exact (@C16Proofs.C16_no_target_no_call). Qed.
Print Assumptions C16_no_target_no_call.

Definition ex_cache (t : json) (children : list json) : dcache :=
  mkDCache "v1:Pod:ns1:t1" [("pods.v1", [t])] [("configmaps.v1", children)].

Example C16_only_selected_hypotheses_met :
  target_of ex_cfg (ex_cache ex_labels_only []) = Some ex_labels_only /\
  d_matches ex_cfg ex_labels_only = false /\
  has_finalizer ex_labels_only (d_finalizer_name ex_cfg) = false /\
  sync_d ex_cfg (ex_cache ex_labels_only []) = Ret SDone.
Proof. vm_compute. repeat split. Qed.

(* the tombstone-style key "ns/name" (D10) and a key of an unknown kind: an error, no call *)
Example C16_odd_keys :
  sync_d ex_cfg (mkDCache "ns1/t1" [("pods.v1", [ex_target])] []) = Ret SErr /\
  sync_d ex_cfg (mkDCache "v1:Nope:ns1:t1" [("pods.v1", [ex_target])] []) = Ret SErr /\
  sync_d ex_cfg (mkDCache "v1:Pod:ns1:gone" [("pods.v1", [ex_target])] []) = Ret SDone /\
  split_key (queue_key ex_target) = Some ("v1", "Pod", "ns1", "t1").
Proof. vm_compute. repeat split. Qed.

(* ---- 4. the shape of every write to the target ---- *)
Theorem C16_target_write_shape :
  forall (G : call -> answer -> Prop) (c : dcfg) (rl : drule) (parent : json) (r : dresp) (p : target_plan) (h0 : hist),
    safe G (shape_phi c rl parent r p h0) h0 (update_target c rl parent r p).
Proof. exact (@C16Proofs.update_target_safe). Qed.
Print Assumptions C16_target_write_shape.

Theorem C16_spec_untouched :
  forall (c : dcfg) (rl : drule) (parent : json) (r : dresp) (p : target_plan) (h0 h : hist) (cl : call),
    shape_phi c rl parent r p h0 h cl ->
    exists q, cl = CApi q /\
              (q_verb q = VUpdate \/ q_verb q = VUpdateStatus) /\
              q_res q = rl_res rl /\ q_name q = get_name parent /\
              q_ns q = eff_ns (rl_namespaced rl) (get_ns parent) /\
              jget "spec" (obj_map (q_body q)) = jget "spec" (obj_map parent) /\
              untouched (q_body q) parent.
Proof. exact (@C16Proofs.C16_spec_untouched). Qed.
Print Assumptions C16_spec_untouched.

Theorem C16_target_writes_run :
  forall (c : dcfg) (rl : drule) (parent : json) (r : dresp) (p : target_plan) (e : env),
    Forall (fun hc : hist * call =>
              exists q, snd hc = CApi q /\
                        (q_verb q = VUpdate \/ q_verb q = VUpdateStatus) /\
                        q_res q = rl_res rl /\ q_name q = get_name parent /\
                        q_ns q = eff_ns (rl_namespaced rl) (get_ns parent) /\
                        jget "spec" (obj_map (q_body q)) = jget "spec" (obj_map parent) /\
                        untouched (q_body q) parent)
           (calls_with_history (fst (run (update_target c rl parent r p) e []))).
Proof. exact (@C16Proofs.C16_target_writes_run). Qed.
Print Assumptions C16_target_writes_run.

Theorem C16_at_most_two_target_writes :
  forall (c : dcfg) (rl : drule) (parent : json) (r : dresp) (p : target_plan) (e : env),
    List.length (fst (run (update_target c rl parent r p) e [])) <= 2.
Proof. exact (@C16Proofs.C16_at_most_two_target_writes). Qed.
Print Assumptions C16_at_most_two_target_writes.

(* a response with an overwrite, an addition, a null, a new status and finalized *)
Definition ex_resp : dresp :=
  mkDR [("app", Some "b"); ("new", Some "n"); ("managed", None)] [("note", Some "x")]
       (JObj [("phase", JStr "New")]) [] JNull true.
Definition ex_env : env :=
  fun h cl => match cl with
              | CApi q => AObj (set_rv (q_body q) "8")
              | _ => AHookErr end.
Definition ex_plan := plan_target ex_target (JObj [("phase", JStr "Old")]) ex_resp.

(* non-vacuity: both requests are made, the metadata write carries the status write's resourceVersion,
   the labels are merged, the spec is the cached one *)
Example C16_shape_example :
  let tr := rev (fst (run (update_target ex_cfg ex_rule ex_target ex_resp ex_plan) ex_env [])) in
  map (fun ca => match fst ca with CApi q => (q_verb q, get_rv (q_body q), get_labels (q_body q),
                                            jget "spec" (obj_map (q_body q)), jget "status" (obj_map (q_body q)))
                               | _ => (VGet, "", [], JNull, JNull) end) tr
  = [(VUpdateStatus, "7", [("app", "b"); ("new", "n")], JObj [("replicas", JInt 2)], JObj [("phase", JStr "New")]);
     (VUpdate, "8", [("app", "b"); ("new", "n")], JObj [("replicas", JInt 2)], JObj [("phase", JStr "New")])].
Proof. vm_compute. reflexivity. Qed.

(* a null status in the response leaves the "status" key exactly as it was: same value, and absent stays
   absent (regression: an absent status used to be sent as an explicit null, which a resource without
   status subresource stored and every later sync then failed to read) *)
Theorem C16_null_status_keeps_status_key :
  forall (c : dcfg) (parent st : json) (r : dresp) (rv : option string) (strip : bool),
    status_map parent = Some st ->
    is_null (dr_status r) = true ->
    alookup "status" (obj_map (target_body c parent (plan_target parent st r) rv strip)) =
    alookup "status" (obj_map parent).
Proof. exact (@C16Proofs.C16_null_status_keeps_status_key). Qed.
Print Assumptions C16_null_status_keeps_status_key.

(* a cluster-scoped target without status; the response changes a label and says status: null *)
Definition ex_widget : json :=
  JObj [("apiVersion", JStr "ctl.example.com/v1"); ("kind", JStr "ClusterWidget");
        ("metadata", JObj [("name", JStr "t1"); ("uid", JStr "uid-t1"); ("resourceVersion", JStr "7");
                           ("labels", JObj [("app", JStr "a")])]);
        ("spec", JObj [("size", JInt 3)])].
Definition ex_widget_rule : drule :=
  mkDRule "ctl.example.com/v1" "ClusterWidget" "clusterwidgets" false false sel_everything sel_everything.
Definition ex_label_only : dresp := mkDR [("deco", Some "1")] [] JNull [] JNull false.

Example C16_null_status_example :
  status_map ex_widget = Some JNull /\
  let tr := rev (fst (run (update_target ex_cfg ex_widget_rule ex_widget ex_label_only
                                          (plan_target ex_widget JNull ex_label_only)) ex_env [])) in
  map (fun ca => match fst ca with
                 | CApi q => (q_verb q, get_labels (q_body q), alookup "status" (obj_map (q_body q)))
                 | _ => (VGet, [], None) end) tr
  = [(VUpdate, [("app", "a"); ("deco", "1")], None)].
Proof. vm_compute. split; reflexivity. Qed.

(* ---- 5. no request when the response asks for nothing ---- *)
Theorem C16_no_request_when_unchanged :
  forall (c : dcfg) (rl : drule) (parent st : json) (r : dresp),
    status_map parent = Some st ->
    wf_json st = true ->
    resp_is_noop c parent r = true ->
    update_target c rl parent r (plan_target parent st r) = Ret None.
Proof. exact (@C16Proofs.C16_no_request_when_unchanged_model). Qed.
Print Assumptions C16_no_request_when_unchanged.

Theorem C16_unchanged_only_attachments :
  forall (c : dcfg) (rl : drule) (parent st : json) (observed : umap) (r : dresp),
    status_map parent = Some st ->
    wf_json st = true ->
    resp_is_noop c parent r = true ->
    finish_d c rl parent observed r = finish_attachments c parent observed r.
Proof. exact (@C16Proofs.C16_unchanged_only_attachments). Qed.
Print Assumptions C16_unchanged_only_attachments.

Definition ex_noop_resp : dresp :=
  mkDR [("app", Some "a"); ("absent", None)] [("decorate", Some "yes")] JNull [] JNull true.

Example C16_noop_hypotheses_met :
  status_map ex_target = Some (JObj [("phase", JStr "Old")]) /\
  wf_json (JObj [("phase", JStr "Old")]) = true /\
  resp_is_noop ex_cfg ex_target ex_noop_resp = true /\
  resp_is_noop ex_cfg ex_target ex_resp = false.
Proof. vm_compute. repeat split. Qed.

(* ---- 6. attachments ---- *)
Theorem C16_attachments_only_marked :
  forall (c : dcfg) (k : dcache) (parent o : json),
    In o (uobjects (get_children_d c k parent)) ->
    exists kc, In kc (dc_attachments c) /\ In o (cached_d k (ch_res kc)) /\
               visible_d parent o = true /\ controlled_by o (get_uid parent) = true /\ has_marker c o = true.
Proof. exact (@C16Proofs.C16_attachments_only_marked). Qed.
Print Assumptions C16_attachments_only_marked.

Theorem C16_attachments_marker :
  forall (c : dcfg) (k : dcache) (parent o : json),
    NoDup (map okey (all_attachments c k parent)) ->
    (In o (uobjects (get_children_d c k parent)) <->
     exists kc, In kc (dc_attachments c) /\ In o (cached_d k (ch_res kc)) /\
                visible_d parent o = true /\ controlled_by o (get_uid parent) = true /\ has_marker c o = true).
Proof. exact (@C16Proofs.C16_attachments_marker_iff). Qed.
Print Assumptions C16_attachments_marker.

Theorem C16_stamp_marker :
  forall (c : dcfg) (o : json),
    dc_name c <> "" -> meta_settable o = true -> has_marker c (stamp_marker c o) = true.
Proof. exact (@C16Proofs.C16_stamp_marker). Qed.
Print Assumptions C16_stamp_marker.

Theorem C16_desired_attachments_marked :
  forall (c : dcfg) (desired0 : umap) (x : json),
    dc_name c <> "" ->
    (forall o, In o (uobjects desired0) -> meta_settable o = true) ->
    In x (uobjects (stamp_all c desired0)) -> has_marker c x = true.
Proof. exact (@C16Proofs.C16_desired_attachments_marked). Qed.
Print Assumptions C16_desired_attachments_marked.

Definition ex_att (name ns : string) (owner_uid : string) (controller : bool) (marker : option string) : json :=
  JObj [("apiVersion", JStr "v1"); ("kind", JStr "ConfigMap");
        ("metadata", JObj ([("name", JStr name); ("namespace", JStr ns); ("uid", JStr ("uid-" ++ name));
                            ("ownerReferences", JArr [JObj [("apiVersion", JStr "v1"); ("kind", JStr "Pod"); ("name", JStr "t1");
                                                            ("uid", JStr owner_uid); ("controller", JBool controller)]])] ++
                           match marker with
                           | Some m => [("annotations", JObj [(decorator_controller_annotation, JStr m)])]
                           | None => [] end))].

Definition ex_children : list json :=
  [ex_att "ours" "ns1" "uid-t1" true (Some "deco");
   ex_att "no-marker" "ns1" "uid-t1" true None;
   ex_att "other-marker" "ns1" "uid-t1" true (Some "other");
   ex_att "other-owner" "ns1" "uid-x" true (Some "deco");
   ex_att "plain-ref" "ns1" "uid-t1" false (Some "deco");
   ex_att "other-ns" "ns9" "uid-t1" true (Some "deco")].

Example C16_attachments_example :
  map get_name (uobjects (get_children_d ex_cfg (ex_cache ex_target ex_children) ex_target)) = ["ours"] /\
  map get_name (all_attachments ex_cfg (ex_cache ex_target ex_children) ex_target) = ["ours"].
Proof. vm_compute. split; reflexivity. Qed.

Example C16_attachments_hypothesis_met :
  NoDup (map okey (all_attachments ex_cfg (ex_cache ex_target ex_children) ex_target)).
Proof. vm_compute. repeat constructor. intros []. Qed.

Example C16_stamp_example :
  dc_name ex_cfg <> "" /\
  meta_settable (JObj [("apiVersion", JStr "v1"); ("kind", JStr "ConfigMap"); ("metadata", JObj [("name", JStr "a0")])]) = true /\
  has_marker ex_cfg (JObj [("apiVersion", JStr "v1"); ("kind", JStr "ConfigMap"); ("metadata", JObj [("name", JStr "a0")])]) = false /\
  has_marker ex_cfg (stamp_marker ex_cfg (JObj [("apiVersion", JStr "v1"); ("kind", JStr "ConfigMap");
                                               ("metadata", JObj [("name", JStr "a0");
                                                                  ("annotations", JObj [(decorator_controller_annotation, JStr "somebody-else")])])])) = true.
Proof. vm_compute. repeat split. discriminate. Qed.

(* ---- a whole sync of the model against a scripted server: hook, status write, metadata write,
   creation of the desired attachment with marker and controller reference; the look-alikes are
   neither reported nor touched ---- *)
Definition ex_hook_answer : json :=
  JObj [("labels", JObj [("app", JStr "b"); ("managed", JNull)]);
        ("status", JObj [("phase", JStr "New")]);
        ("attachments", JArr [JObj [("apiVersion", JStr "v1"); ("kind", JStr "ConfigMap");
                                    ("metadata", JObj [("name", JStr "a0")]); ("data", JObj [("k", JStr "v")])]])].
Definition ex_sync_env : env :=
  fun h cl => match cl with
              | CApi q => AObj (set_rv (q_body q) "8")
              | CHook _ _ => AHook ex_hook_answer end.

Example C16_whole_sync_example :
  let '(h, res) := run (sync_d ex_cfg (ex_cache ex_target ex_children)) ex_sync_env [] in
  res = SDone /\
  map (fun ca => match fst ca with
                 | CHook _ body => ("hook", map fst (obj_map (jget "ConfigMap.v1" (obj_map (jget "attachments" (obj_map body))))))
                 | CApi q => (q_name q, match q_verb q with VUpdate => ["update"] | VUpdateStatus => ["updatestatus"]
                                                        | VCreate => ["create"; annotation_string (q_body q) decorator_controller_annotation]
                                                        | VDelete => ["delete"] | _ => ["other"] end)
                 end) (rev h)
  = [("hook", ["ours"]); ("t1", ["updatestatus"]); ("t1", ["update"]); ("ours", ["delete"]); ("a0", ["create"; "deco"])].
Proof. vm_compute. split; reflexivity. Qed.

(* ---- 7. child management deletes / updates recognised attachments only ---- *)
Theorem C16_foreign_attachments_untouched :
  forall (c : dcfg) (k : dcache) (parent : json) (desired : umap),
    all_calls (attachment_call_ok c k parent)
              (manage_children (ccfg_of c) parent (get_children_d c k parent) desired).
Proof. exact (@C16Proofs.C16_foreign_attachments_untouched). Qed.
Print Assumptions C16_foreign_attachments_untouched.

(* ---- 8. the whole sync, for every answer function consistent with [sane] ---- *)
Theorem C16_sync_calls :
  forall (c : dcfg) (k : dcache) (t : json) (rl : drule),
    target_of c k = Some t ->
    client_rule c t = Some rl ->
    safe sane (sync_phi c k rl t) [] (sync_d c k).
Proof. exact (@C16Proofs.C16_sync_calls). Qed.
Print Assumptions C16_sync_calls.

Theorem C16_sync_call_summary :
  forall (c : dcfg) (k : dcache) (rl : drule) (t : json) (h : hist) (cl : call),
    sync_phi c k rl t h cl -> call_summary c k rl t cl.
Proof. exact (@C16Proofs.C16_sync_call_summary). Qed.
Print Assumptions C16_sync_call_summary.

(* with safe_run: every call in every trace of a sync *)
Theorem C16_sync_trace :
  forall (c : dcfg) (k : dcache) (t : json) (rl : drule) (e : env),
    target_of c k = Some t ->
    client_rule c t = Some rl ->
    (forall h cl, sane cl (e h cl)) ->
    Forall (fun hc : hist * call => call_summary c k rl t (snd hc))
           (calls_with_history (fst (run (sync_d c k) e []))).
Proof. exact (@C16Proofs.C16_sync_trace). Qed.
Print Assumptions C16_sync_trace.

Example C16_sync_hypotheses_met :
  target_of ex_cfg (ex_cache ex_target ex_children) = Some ex_target /\
  client_rule ex_cfg ex_target = Some ex_rule /\
  forallb (fun ca => saneb (fst ca) (snd ca)) (fst (run (sync_d ex_cfg (ex_cache ex_target ex_children)) ex_sync_env [])) = true.
Proof. vm_compute. repeat split. Qed.

(* ---- queue keys ---- *)
Theorem C16_key_roundtrip :
  forall o : json,
    split_at colon (get_api_version o) = None -> split_at colon (get_kind o) = None -> split_at colon (get_ns o) = None ->
    split_key (queue_key o) = Some (get_api_version o, get_kind o, get_ns o, get_name o).
Proof. exact (@C16Proofs.C16_key_roundtrip). Qed.
Print Assumptions C16_key_roundtrip.
