(* Property C09 - rollout intent is persisted before acting; any crash resumes consistently. Statements about Model/Rolling.v sync_parent_object_r for every answer function. *)
From MC Require Import Generated Model.Composite Model.TracePreds Model.Safe Model.Rolling Proofs.SafeLemmas Proofs.C04Proofs Proofs.C06Proofs Proofs.RollCalls Proofs.RollClaims Proofs.RollMoves Proofs.C09Proofs.

Theorem C09_revisions_before_children :
  forall (c : ccfg) (k : cache) (parent : json),
         rev_res_separate c = true ->
         forall G : call -> answer -> Prop, safe G (C09_phi c) [] (sync_parent_object_r c k parent).
Proof. exact (@C09_revisions_before_children). Qed.
Print Assumptions C09_revisions_before_children.

Theorem C09_revisions_before_children_run :
  forall (c : ccfg) (k : cache) (parent : json) (e : env),
         rev_res_separate c = true ->
         forall (post : list (call * answer)) (cl : call) (a : answer) (pre : list (call * answer)),
         fst (run (sync_parent_object_r c k parent) e []) = (post ++ (cl, a) :: pre)%list ->
         is_rev_write cl = true ->
         forall (cl' : call) (a' : answer), In (cl', a') pre -> is_child_write c cl' = false.
Proof. exact (@C09_revisions_before_children_run). Qed.
Print Assumptions C09_revisions_before_children_run.

Theorem C09_only_ownership_edits_before_hooks :
  forall (c : ccfg) (k : cache) (parent : json) (G : call -> answer -> Prop),
         safe G (C09_before_hooks_phi c) [] (sync_parent_object_r c k parent).
Proof. exact (@C09_only_ownership_edits_before_hooks). Qed.
Print Assumptions C09_only_ownership_edits_before_hooks.

Theorem C09_manage_revisions_stops :
  forall (ns : string) (observed desired : list revision),
         stops_on_failure (manage_revisions ns observed desired).
Proof. exact (@C09_manage_revisions_stops). Qed.
Print Assumptions C09_manage_revisions_stops.

Theorem C09_failed_revision_no_children :
  forall (c : ccfg) (k : cache) (parent : json),
         rev_res_separate c = true ->
         forall G : call -> answer -> Prop, safe G C09_abort_phi [] (sync_parent_object_r c k parent).
Proof. exact (@C09_failed_revision_no_children). Qed.
Print Assumptions C09_failed_revision_no_children.

Theorem C09_failed_revision_no_children_run :
  forall (c : ccfg) (k : cache) (parent : json) (e : env),
         rev_res_separate c = true ->
         forall (post : list (call * answer)) (cl : call) (a : answer) (pre : list (call * answer)),
         fst (run (sync_parent_object_r c k parent) e []) = (post ++ (cl, a) :: pre)%list ->
         is_rev_write cl = true ->
         is_obj a = false ->
         has_hook pre = true -> post = [] /\ snd (run (sync_parent_object_r c k parent) e []) = SErr.
Proof. exact (@C09_failed_revision_no_children_run). Qed.
Print Assumptions C09_failed_revision_no_children_run.

Theorem C09_claims_after_sync_revision_claims :
  forall (c : ccfg) (ds : list (string * string * string * json)) (prs prs' : list prev) (cl' : claims),
         sync_revision_claims c ds 0 prs [] = (prs', cl') ->
         NoDup (map fst cl') /\
         Datatypes.length prs' = Datatypes.length prs /\
         (forall (k : claim_key) (j : nat),
          claimant cl' k = Some j -> exists p' : prev, nth_error prs' j = Some p' /\ lists (pr_rev p') k = true) /\
         (forall (p' : prev) (g kd n : string),
          In p' prs' ->
          lists (pr_rev p') (g, kd, n) = true ->
          find_desired ds g kd n <> None -> claimant cl' (g, kd, n) <> None) /\
         (forall (m : nat) (p' : prev),
          nth_error prs' m = Some p' ->
          exists p : prev,
            nth_error prs m = Some p /\
            (forall k : claim_key, lists (pr_rev p') k = true -> lists (pr_rev p) k = true)).
Proof. exact (@C09_claims_after_sync_revision_claims). Qed.
Print Assumptions C09_claims_after_sync_revision_claims.

Theorem C09_first_claimant_wins :
  forall (c : ccfg) (ds : list (string * string * string * json)) (i : nat) 
           (prs : list prev) (cl : claims) (prs' : list prev) (cl' : claims) (k : claim_key) 
           (j : nat),
         sync_revision_claims c ds i prs cl = (prs', cl') -> claimant cl k = Some j -> claimant cl' k = Some j.
Proof. exact (@C09_first_claimant_wins). Qed.
Print Assumptions C09_first_claimant_wins.

Theorem C09_claims_exclusive :
  forall (c : ccfg) (ds : list (string * string * string * json)) (prs prs' : list prev) (cl' : claims),
         sync_revision_claims c ds 0 prs [] = (prs', cl') ->
         (forall k : claim_key, count_listing prs' k <= 1) /\
         (forall (m : nat) (p' : prev) (g kd n : string),
          nth_error prs' m = Some p' ->
          lists (pr_rev p') (g, kd, n) = true ->
          is_rolling c g kd = true /\ find_desired ds g kd n <> None /\ claimant cl' (g, kd, n) = Some m).
Proof. exact (@C09_claims_exclusive). Qed.
Print Assumptions C09_claims_exclusive.

Theorem C09_revision_names_unique_claim :
  forall (c : ccfg) (pns : string) (observed : umap) (latest : prev) (rest prs2 : list prev)
           (st : rollout_state),
         sync_rolling_update c pns observed (latest :: rest) = Some (prs2, st) ->
         all_gk_unique (latest :: rest) = true -> forall k : claim_key, count_listing (prune prs2) k <= 1.
Proof. exact (@C09_revision_names_unique_claim). Qed.
Print Assumptions C09_revision_names_unique_claim.

Theorem C09_duplicate_group_counterexample :
  all_gk_unique cx9_prs_d = false /\
         (exists (prs2 : list prev) (st : rollout_state),
            sync_rolling_update cx9_cfg "" cx9_observed cx9_prs_d = Some (prs2, st) /\
            count_listing (prune prs2) ("", "Thing", "b") = 2).
Proof. exact (@C09_duplicate_group_counterexample). Qed.
Print Assumptions C09_duplicate_group_counterexample.

