(* Property C09 - rollout intent is persisted before acting; any crash resumes consistently. Statements about Model/Rolling.v sync_parent_object_r for every answer function. *)
From MC Require Import Generated Model.Composite Model.TracePreds Model.Safe Model.Rolling Proofs.SafeLemmas Proofs.C04Proofs Proofs.C06Proofs Proofs.RollCalls Proofs.RollClaims Proofs.RollMoves Proofs.C09Proofs.

Theorem C09_revisions_before_children :
  forall (c : ccfg) (k : cache) (parent : json),
         rev_res_separate c = true ->
         forall G : call -> answer -> Prop, safe G (C09_phi c) [] (sync_parent_object_r c k parent).
Proof. exact (@C09_revisions_before_children). Qed.
Print Assumptions C09_revisions_before_children.

Theorem C09_revisions_before_children_run :
  forall (c : ccfg) (k : cache) (parent : json) (e : env),
         rev_res_separate c = true ->
         forall (post : list (call * answer)) (cl : call) (a : answer) (pre : list (call * answer)),
         fst (run (sync_parent_object_r c k parent) e []) = (post ++ (cl, a) :: pre)%list ->
         is_rev_write cl = true ->
         forall (cl' : call) (a' : answer), In (cl', a') pre -> is_child_write c cl' = false.
Proof. exact (@C09_revisions_before_children_run). Qed.
Print Assumptions C09_revisions_before_children_run.

Theorem C09_only_ownership_edits_before_hooks :
  forall (c : ccfg) (k : cache) (parent : json) (G : call -> answer -> Prop),
         safe G (C09_before_hooks_phi c) [] (sync_parent_object_r c k parent).
Proof. exact (@C09_only_ownership_edits_before_hooks). Qed.
Print Assumptions C09_only_ownership_edits_before_hooks.

Theorem C09_manage_revisions_stops :
  forall (ns : string) (observed desired : list revision),
         stops_on_failure (manage_revisions ns observed desired).
Proof. exact (@C09_manage_revisions_stops). Qed.
Print Assumptions C09_manage_revisions_stops.

Theorem C09_failed_revision_no_children :
  forall (c : ccfg) (k : cache) (parent : json),
         rev_res_separate c = true ->
         forall G : call -> answer -> Prop, safe G C09_abort_phi [] (sync_parent_object_r c k parent).
Proof. exact (@C09_failed_revision_no_children). Qed.
Print Assumptions C09_failed_revision_no_children.

Theorem C09_failed_revision_no_children_run :
  forall (c : ccfg) (k : cache) (parent : json) (e : env),
         rev_res_separate c = true ->
         forall (post : list (call * answer)) (cl : call) (a : answer) (pre : list (call * answer)),
         fst (run (sync_parent_object_r c k parent) e []) = (post ++ (cl, a) :: pre)%list ->
         is_rev_write cl = true ->
         is_obj a = false ->
         has_hook pre = true -> post = [] /\ snd (run (sync_parent_object_r c k parent) e []) = SErr.
Proof. exact (@C09_failed_revision_no_children_run). Qed.
Print Assumptions C09_failed_revision_no_children_run.

Theorem C09_claims_after_sync_revision_claims :
  forall (c : ccfg) (ds : list (string * string * string * json)) (prs prs' : list prev) (cl' : claims),
         sync_revision_claims c ds 0 prs [] = (prs', cl') ->
         NoDup (map fst cl') /\
         Datatypes.length prs' = Datatypes.length prs /\
         (forall (k : claim_key) (j : nat),
          claimant cl' k = Some j -> exists p' : prev, nth_error prs' j = Some p' /\ lists (pr_rev p') k = true) /\
         (forall (p' : prev) (g kd n : string),
          In p' prs' ->
          lists (pr_rev p') (g, kd, n) = true ->
          find_desired ds g kd n <> None -> claimant cl' (g, kd, n) <> None) /\
         (forall (m : nat) (p' : prev),
          nth_error prs' m = Some p' ->
          exists p : prev,
            nth_error prs m = Some p /\
            (forall k : claim_key, lists (pr_rev p') k = true -> lists (pr_rev p) k = true)).
Proof. exact (@C09_claims_after_sync_revision_claims). Qed.
Print Assumptions C09_claims_after_sync_revision_claims.

Theorem C09_first_claimant_wins :
  forall (c : ccfg) (ds : list (string * string * string * json)) (i : nat) 
           (prs : list prev) (cl : claims) (prs' : list prev) (cl' : claims) (k : claim_key) 
           (j : nat),
         sync_revision_claims c ds i prs cl = (prs', cl') -> claimant cl k = Some j -> claimant cl' k = Some j.
Proof. exact (@C09_first_claimant_wins). Qed.
Print Assumptions C09_first_claimant_wins.

Theorem C09_claims_exclusive :
  forall (c : ccfg) (ds : list (string * string * string * json)) (prs prs' : list prev) (cl' : claims),
         sync_revision_claims c ds 0 prs [] = (prs', cl') ->
         (forall k : claim_key, count_listing prs' k <= 1) /\
         (forall (m : nat) (p' : prev) (g kd n : string),
          nth_error prs' m = Some p' ->
          lists (pr_rev p') (g, kd, n) = true ->
          is_rolling c g kd = true /\ find_desired ds g kd n <> None /\ claimant cl' (g, kd, n) = Some m).
Proof. exact (@C09_claims_exclusive). Qed.
Print Assumptions C09_claims_exclusive.

Theorem C09_revision_names_unique_claim :
  forall (c : ccfg) (pns : string) (observed : umap) (latest : prev) (rest prs2 : list prev)
           (st : rollout_state),
         sync_rolling_update c pns observed (latest :: rest) = Some (prs2, st) ->
         all_gk_unique (latest :: rest) = true -> forall k : claim_key, count_listing (prune prs2) k <= 1.
Proof. exact (@C09_revision_names_unique_claim). Qed.
Print Assumptions C09_revision_names_unique_claim.

Theorem C09_duplicate_group_counterexample :
  all_gk_unique cx9_prs_d = false /\
         (exists (prs2 : list prev) (st : rollout_state),
            sync_rolling_update cx9_cfg "" cx9_observed cx9_prs_d = Some (prs2, st) /\
            count_listing (prune prs2) ("", "Thing", "b") = 2).
Proof. exact (@C09_duplicate_group_counterexample). Qed.
Print Assumptions C09_duplicate_group_counterexample.

(* add this Require line (after the file's existing Require line, or right before the appended block:
   both placements were test-compiled against a copy of the current Properties file) *)
From MC Require Import Proofs.Round3Proofs.

Theorem C09_aggregate_children_entries :
  forall (pns : string) (latest : prev) (rest : list prev),
       aggregate_children pns (latest :: rest) =
       map (fun e : dentry => Some (snd (agg_entry pns rest e))) (pr_desired latest).
Proof. exact (@aggregate_children_entries). Qed.
Print Assumptions C09_aggregate_children_entries.

Theorem C09_unclaimed_child_from_latest :
  forall (pns : string) (latest : prev) (rest : list prev) (i : nat) (a k n : string) (x : json),
       all_wf pns rest = true ->
       nth_error (pr_desired latest) i = Some (a, k, n, x) ->
       count_listing rest (group_of a, k, n) = 0 ->
       nth_error (aggregate_children pns (latest :: rest)) i = Some (Some x).
Proof. exact (@C09_unclaimed_child_from_latest). Qed.
Print Assumptions C09_unclaimed_child_from_latest.

Theorem C09_child_follows_its_revision_partial :
  forall (pns : string) (latest : prev) (rest : list prev) (i : nat) (a k n : string)
         (x : json) (j : nat) (p : prev) (child : json),
       all_wf pns rest = true ->
       nth_error (pr_desired latest) i = Some (a, k, n, x) ->
       count_listing rest (group_of a, k, n) <= 1 ->
       nth_error rest j = Some p ->
       listsP p (group_of a, k, n) = true ->
       find_desired (pr_desired p) (group_of a) k n = Some child ->
       (get_api_version child =? a) = true ->
       nth_error (aggregate_children pns (latest :: rest)) i = Some (Some child).
Proof. exact (@C09_child_follows_its_revision_partial). Qed.
Print Assumptions C09_child_follows_its_revision_partial.

Theorem C09_claimed_child_other_version :
  forall (pns : string) (latest : prev) (rest : list prev) (i : nat) (a k n : string)
         (x : json) (j : nat) (p : prev) (child : json),
       all_wf pns rest = true ->
       nth_error (pr_desired latest) i = Some (a, k, n, x) ->
       count_listing rest (group_of a, k, n) <= 1 ->
       nth_error rest j = Some p ->
       listsP p (group_of a, k, n) = true ->
       find_desired (pr_desired p) (group_of a) k n = Some child ->
       (get_api_version child =? a) = false -> nth_error (aggregate_children pns (latest :: rest)) i = Some (Some x).
Proof. exact (@C09_claimed_child_other_version). Qed.
Print Assumptions C09_claimed_child_other_version.

Theorem C09_claimed_child_not_in_its_answer :
  forall (pns : string) (latest : prev) (rest : list prev) (i : nat) (a k n : string)
         (x : json) (j : nat) (p : prev),
       all_wf pns rest = true ->
       nth_error (pr_desired latest) i = Some (a, k, n, x) ->
       count_listing rest (group_of a, k, n) <= 1 ->
       nth_error rest j = Some p ->
       listsP p (group_of a, k, n) = true ->
       find_desired (pr_desired p) (group_of a) k n = None ->
       nth_error (aggregate_children pns (latest :: rest)) i = Some (Some x).
Proof. exact (@C09_claimed_child_not_in_its_answer). Qed.
Print Assumptions C09_claimed_child_not_in_its_answer.

Theorem C09_aggregate_children_follow :
  forall (pns : string) (latest : prev) (rest : list prev),
       all_wf pns rest = true -> child_follows pns latest rest (aggregate_children pns (latest :: rest)).
Proof. exact (@C09_aggregate_children_follow). Qed.
Print Assumptions C09_aggregate_children_follow.

Theorem C09_child_follows_its_revision_refuted :
  ~ C09_child_follows_its_revision_statement.
Proof. exact (@C09_child_follows_its_revision_refuted). Qed.
Print Assumptions C09_child_follows_its_revision_refuted.

Theorem C09_children_follow_their_revisions :
  forall (c : ccfg) (k : cache) (parent : json) (observed related : umap) (e : env)
         (h : list (call * answer)) (r : hook_resp),
       snd (run (sync_revisions_rolling c k parent observed related) e h) = HRResp r ->
       exists (claimed : list json) (h2 : list (call * answer)) (l3 : prev) (rest3 : list prev),
         snd (run (claim_revisions c k parent) e h) = Some claimed /\
         snd (run (manage_revisions (get_ns parent) (map revision_of_json claimed) (map pr_rev (l3 :: rest3))) e h2) =
         true /\
         Forall (fun p : prev => own_answer c parent observed related e (pd p)) (l3 :: rest3) /\
         child_follows (get_ns parent) l3 rest3 (hr_children r) /\
         (cache_revisions_gk_unique k = true -> forall key : claim_key, count_listing rest3 key <= 1).
Proof. exact (@C09_children_follow_their_revisions). Qed.
Print Assumptions C09_children_follow_their_revisions.

Theorem C09_children_follow_their_revisions_unique :
  forall (c : ccfg) (k : cache) (parent : json) (observed related : umap) (e : env)
         (h : list (call * answer)) (r : hook_resp),
       cache_revisions_gk_unique k = true ->
       snd (run (sync_revisions_rolling c k parent observed related) e h) = HRResp r ->
       exists (claimed : list json) (h2 : list (call * answer)) (l3 : prev) (rest3 : list prev),
         snd (run (claim_revisions c k parent) e h) = Some claimed /\
         snd (run (manage_revisions (get_ns parent) (map revision_of_json claimed) (map pr_rev (l3 :: rest3))) e h2) =
         true /\
         Forall (fun p : prev => own_answer c parent observed related e (pd p)) (l3 :: rest3) /\
         Datatypes.length (hr_children r) = Datatypes.length (pr_desired l3) /\
         (forall (i : nat) (a kd n : string) (x : json),
          nth_error (pr_desired l3) i = Some (a, kd, n, x) ->
          (count_listing rest3 (group_of a, kd, n) = 0 -> nth_error (hr_children r) i = Some (Some x)) /\
          (forall (j : nat) (p : prev),
           nth_error rest3 j = Some p ->
           listsP p (group_of a, kd, n) = true ->
           nth_error (hr_children r) i = Some (Some (own_obj (pr_desired p) a kd n x)))).
Proof. exact (@C09_children_follow_their_revisions_unique). Qed.
Print Assumptions C09_children_follow_their_revisions_unique.

Theorem C09_child_follows_its_revision_inhabited :
  all_wf "" [R3C09.old] = true /\
       nth_error (pr_desired R3C09.latest) 0 = Some ("apps/v1", "Thing", "a", R3C09.thing "apps/v1" "a" "new") /\
       count_listing [R3C09.old] ("apps", "Thing", "a") = 1 /\
       listsP R3C09.old (group_of "apps/v1", "Thing", "a") = true /\
       find_desired (pr_desired R3C09.old) (group_of "apps/v1") "Thing" "a" = Some (R3C09.thing "apps/v1" "a" "old") /\
       (get_api_version (R3C09.thing "apps/v1" "a" "old") =? "apps/v1") = true /\
       aggregate_children "" [R3C09.latest; R3C09.old] =
       [Some (R3C09.thing "apps/v1" "a" "old"); Some (R3C09.thing "apps/v1" "b" "new")] /\
       count_listing [R3C09.old_c] ("apps", "Thing", "b") = 0 /\
       aggregate_children "" [R3C09.latest; R3C09.old_c] =
       [Some (R3C09.thing "apps/v1" "a" "new"); Some (R3C09.thing "apps/v1" "b" "new")].
Proof. exact (@C09_child_follows_its_revision_inhabited). Qed.
Print Assumptions C09_child_follows_its_revision_inhabited.

Theorem C09_children_follow_their_revisions_inhabited :
  cache_revisions_gk_unique (R3X.cache_of R3X.parent R3X.owned) = true /\
       (exists r : hook_resp,
          result_of (sync_revisions_rolling R3X.cfg (R3X.cache_of R3X.parent R3X.owned) R3X.parent [] [])
            (R3X.e_ok R3X.parent false) = HRResp r /\
          hr_children r = [Some (R3X.thing "apps/v1" "a" "new"); Some (R3X.thing "apps/v1" "b" "old")]) /\
       (exists r : hook_resp,
          result_of (sync_revisions_rolling R3X.cfg (R3X.cache_of R3X.parent R3X.owned) R3X.parent [] [])
            (R3X.e_ok R3X.parent true) = HRResp r /\
          hr_children r = [Some (R3X.thing "apps/v1" "a" "new"); Some (R3X.thing "apps/v1" "b" "new")]) /\
       R3X.rev_children_written
         (trace_of (sync_revisions_rolling R3X.cfg (R3X.cache_of R3X.parent R3X.owned) R3X.parent [] [])
            (R3X.e_ok R3X.parent true)) = [("p-new", R3X.names ["a"]); ("p-old", R3X.names ["b"])] /\
       R3X.rev_children_written
         (trace_of (sync_revisions_rolling R3X.cfg (R3X.cache_of R3X.parent R3X.owned) R3X.parent [] [])
            (R3X.e_ok R3X.parent false)) = [("p-new", R3X.names ["a"]); ("p-old", R3X.names ["b"])].
Proof. exact (@C09_children_follow_their_revisions_inhabited). Qed.
Print Assumptions C09_children_follow_their_revisions_inhabited.

(* ---- the restarted process (leg C09m): no hosted controller syncs before the ControllerRevision
        cache has synced ----
   "a restarted metacontroller finds every rolling child assigned to at most one revision": it can only
   find what its ControllerRevision lister holds.  In every reachable state of the composite reconcile
   loop (Model/Meta.v, gstep), while the ControllerRevision informer has not synced no hosted
   controller is running, hence none syncs a parent on an empty lister (defect D37, fixed). *)
From MC Require Import Model.Meta Proofs.C20Proofs.

Theorem C09_no_sync_before_revision_cache : forall h n,
  g_rev_synced (grun Composite ginit h) = false ->
  runningb n (g_state (grun Composite ginit h)) = false.
Proof. exact C20Proofs.C09_no_sync_before_revision_cache. Qed.
Print Assumptions C09_no_sync_before_revision_cache.

(* ---- round 6 ---- *)
From MC Require Import Proofs.Round3Proofs Proofs.Round6Proofs.

Theorem C09_refused_claim_ends_sync :
  forall (c : ccfg) (k : cache) (parent : json) (observed related : umap),
       exists kont : option (list json) -> prog hook_result,
         sync_revisions_rolling c k parent observed related = ' oc <~ claim_revisions c k parent;; kont oc /\
         kont None = Ret HRErr.
Proof. exact Round6Proofs.C09_refused_claim_ends_sync. Qed.
Print Assumptions C09_refused_claim_ends_sync.

Theorem C09_refused_claim_ends_sync_run :
  forall (c : ccfg) (k : cache) (parent : json) (observed related : umap) (e : env) (h : list (call * answer)),
       snd (Prog.run (claim_revisions c k parent) e h) = None ->
       Prog.run (sync_revisions_rolling c k parent observed related) e h =
       (fst (Prog.run (claim_revisions c k parent) e h), HRErr).
Proof. exact Round6Proofs.C09_refused_claim_ends_sync_run. Qed.
Print Assumptions C09_refused_claim_ends_sync_run.

Theorem C09_refused_claim_only_claim_calls :
  forall (c : ccfg) (k : cache) (parent : json) (observed related : umap) (e : env) (h : list (call * answer)),
       snd (Prog.run (claim_revisions c k parent) e h) = None ->
       exists new : list (call * answer),
         fst (Prog.run (sync_revisions_rolling c k parent observed related) e h) = (new ++ h)%list /\
         Forall (fun ca : call * answer => revphase_api_call c (fst ca)) new /\
         Forall (fun ca : call * answer => is_hook_call (fst ca) = false /\ is_child_write c (fst ca) = false) new /\
         snd (Prog.run (sync_revisions_rolling c k parent observed related) e h) = HRErr.
Proof. exact Round6Proofs.C09_refused_claim_only_claim_calls. Qed.
Print Assumptions C09_refused_claim_only_claim_calls.

Theorem C09_refused_claim_ends_whole_sync :
  forall (c : ccfg) (k : cache) (parent : json) (e : env) (h : list (call * answer))
         (p1 : json) (observed : umap),
       ignores_parent c parent = false ->
       snd (Prog.run (sync_finalizer c parent) e h) = Composite.ROk p1 ->
       ignores_parent c p1 = false ->
       let h1 := fst (Prog.run (sync_finalizer c parent) e h) in
       snd (Prog.run (claim_children c k p1) e h1) = Some observed ->
       let h2 := fst (Prog.run (claim_children c k p1) e h1) in
       negb (any_rolling c) || is_deleting p1 && negb (should_finalize c p1) = false ->
       snd (Prog.run (claim_revisions c k p1) e h2) = None ->
       Prog.run (sync_parent_object_r c k parent) e h = (fst (Prog.run (claim_revisions c k p1) e h2), SErr).
Proof. exact Round6Proofs.C09_refused_claim_ends_whole_sync. Qed.
Print Assumptions C09_refused_claim_ends_whole_sync.

Theorem C09_refused_claim_ends_sync_inhabited :
  result_of (claim_revisions R3X.cfg R6X.k0 R3X.parent) R6X.e_refuse = None /\
       map (fun ca : call * answer => R3X.call_sig (fst ca))
         (trace_of (sync_revisions_rolling R3X.cfg R6X.k0 R3X.parent [] []) R6X.e_refuse) =
       [(VGet, R3X.P, "p"); (VGet, R3X.R, "p-old"); (VUpdate, R3X.R, "p-old")] /\
       result_of (sync_revisions_rolling R3X.cfg R6X.k0 R3X.parent [] []) R6X.e_refuse = HRErr /\
       map (fun ca : call * answer => R3X.call_sig (fst ca)) (trace_of (sync_r R3X.cfg R6X.k0) R6X.e_refuse) =
       [(VGet, R3X.P, "p"); (VGet, R3X.R, "p-old"); (VUpdate, R3X.R, "p-old")] /\
       result_of (sync_r R3X.cfg R6X.k0) R6X.e_refuse = SErr /\
       ignores_parent R3X.cfg R3X.parent = false /\
       snd (Prog.run (sync_finalizer R3X.cfg R3X.parent) R6X.e_refuse []) = Composite.ROk R3X.parent /\
       snd (Prog.run (claim_children R3X.cfg R6X.k0 R3X.parent) R6X.e_refuse []) = Some [("apps/v1", "Thing", [])] /\
       negb (any_rolling R3X.cfg) || is_deleting R3X.parent && negb (should_finalize R3X.cfg R3X.parent) = false.
Proof. exact Round6Proofs.C09_refused_claim_ends_sync_inhabited. Qed.
Print Assumptions C09_refused_claim_ends_sync_inhabited.

(* a ControllerRevision is deleted only when, after this sync's claim bookkeeping and move, it
   records no child: on the pure functions, on the requests of manage_revisions, and on every
   path of the rolling hook phase *)
From MC Require Proofs.Round6Rolling.
Theorem C09_deleted_revisions_record_no_children :
  forall (prs : list prev) (x : prev),
  In x prs ->
  (forall d : prev, In d (prune prs) -> rev_name (pr_rev d) <> rev_name (pr_rev x)) ->
  Round6Rolling.records_no_children (pr_rev x) /\ count_children (pr_rev x) = 0 /\
  (forall k : claim_key, lists (pr_rev x) k = false).
Proof. exact Round6Rolling.C09_deleted_revisions_record_no_children. Qed.
Print Assumptions C09_deleted_revisions_record_no_children.

Theorem C09_manage_revisions_deletes_only_emptied :
  forall (ns : string) (observed : list revision) (prs2 : list prev),
  all_calls (Round6Rolling.delete_justified prs2) (manage_revisions ns observed (map pr_rev (prune prs2))).
Proof. exact Round6Rolling.C09_manage_revisions_deletes_only_emptied. Qed.
Print Assumptions C09_manage_revisions_deletes_only_emptied.

Theorem C09_sync_revisions_rolling_deletes_only_emptied :
  forall (c : ccfg) (k : cache) (parent : json) (observed related : umap),
  all_calls (Round6Rolling.delete_justified_by_step c (get_ns parent) observed)
            (sync_revisions_rolling c k parent observed related).
Proof. exact Round6Rolling.C09_sync_revisions_rolling_deletes_only_emptied. Qed.
Print Assumptions C09_sync_revisions_rolling_deletes_only_emptied.
