(* Property C13 - no hook response, however malformed, can crash metacontroller or cause writes. Statements about Model/HookIO.v decode_composite and Model/Composite.v / Model/Rolling.v for every answer function (from the decoded JSON body on; bytes to JSON is library code). *)
From MC Require Import Generated Model.Composite Model.TracePreds Model.Safe Model.Rolling Proofs.SafeLemmas Proofs.C04Proofs Proofs.C06Proofs Proofs.RollPanic Proofs.C13Proofs.

Theorem C13_child_decision_no_panic :
  forall (c : ccfg) (kc : child_cfg) (parent : json) (observed : option json) (desired : json),
         child_decision c kc parent observed desired <> ActPanic.
Proof. exact (@C13_child_decision_no_panic). Qed.
Print Assumptions C13_child_decision_no_panic.

Theorem C13_no_panic :
  forall (c : ccfg) (k : cache) (e : env), result_of (sync c k) e <> SPanic.
Proof. exact (@C13_no_panic). Qed.
Print Assumptions C13_no_panic.

Theorem C13_no_panic_r :
  forall (c : ccfg) (k : cache) (e : env), result_of (sync_r c k) e <> SPanic.
Proof. exact (@C13_no_panic_r). Qed.
Print Assumptions C13_no_panic_r.

Theorem C13_rejected_no_writes :
  forall (c : ccfg) (k : cache) (parent : json),
         hist_post C13_phi (fun (h : hist) (r : sync_result) => C13_post h r /\ r <> SPanic) []
           (sync_parent_object c k parent).
Proof. exact (@C13_rejected_no_writes). Qed.
Print Assumptions C13_rejected_no_writes.

Theorem C13_rejected_is_last :
  forall (c : ccfg) (k : cache) (parent : json) (e : env) (hk : hook_kind) (body : json) 
           (a : answer) (res : sync_result),
         In (CHook hk body, a) (trace_of (sync_parent_object c k parent) e) ->
         hk <> HCustomize ->
         hook_outcome a = Some res ->
         (exists before : list (call * answer),
            trace_of (sync_parent_object c k parent) e = (before ++ [(CHook hk body, a)])%list) /\
         result_of (sync_parent_object c k parent) e = res.
Proof. exact (@C13_rejected_is_last). Qed.
Print Assumptions C13_rejected_is_last.

Theorem C13_rejected_SErr :
  forall (c : ccfg) (k : cache) (parent : json) (e : env) (hk : hook_kind) (body : json) (a : answer),
         In (CHook hk body, a) (trace_of (sync_parent_object c k parent) e) ->
         hk <> HCustomize ->
         a = AHookErr \/
         (exists o : json, a = AObj o) \/
         (exists x : eclass, a = AFail x) \/ (exists b : json, a = AHook b /\ decode_composite b = None) ->
         (exists before : list (call * answer),
            trace_of (sync_parent_object c k parent) e = (before ++ [(CHook hk body, a)])%list) /\
         result_of (sync_parent_object c k parent) e = SErr.
Proof. exact (@C13_rejected_SErr). Qed.
Print Assumptions C13_rejected_SErr.

Theorem C13_429_SRequeue :
  forall (c : ccfg) (k : cache) (parent : json) (e : env) (hk : hook_kind) (body : json) (n : Z),
         In (CHook hk body, AHook429 n) (trace_of (sync_parent_object c k parent) e) ->
         hk <> HCustomize ->
         (exists before : list (call * answer),
            trace_of (sync_parent_object c k parent) e = (before ++ [(CHook hk body, AHook429 n)])%list) /\
         result_of (sync_parent_object c k parent) e = SRequeue n.
Proof. exact (@C13_429_SRequeue). Qed.
Print Assumptions C13_429_SRequeue.

Theorem C13_rejected_no_writes_r :
  forall (c : ccfg) (k : cache) (parent : json),
         hist_post C13_phi_r (fun (h : hist) (r : sync_result) => C13_post_r c h r /\ r <> SPanic) []
           (sync_parent_object_r c k parent).
Proof. exact (@C13_rejected_no_writes_r). Qed.
Print Assumptions C13_rejected_no_writes_r.

Theorem C13_rejected_r_not_done :
  forall (c : ccfg) (k : cache) (parent : json) (e : env) (hk : hook_kind) (body : json) (a : answer),
         In (CHook hk body, a) (fst (run (sync_parent_object_r c k parent) e [])) ->
         hk <> HCustomize ->
         rejected a ->
         snd (run (sync_parent_object_r c k parent) e []) <> SDone /\
         snd (run (sync_parent_object_r c k parent) e []) <> SPanic.
Proof. exact (@C13_rejected_r_not_done). Qed.
Print Assumptions C13_rejected_r_not_done.

