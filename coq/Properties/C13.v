(* Property C13 - no hook response, however malformed, can crash metacontroller or cause writes. Statements about Model/HookIO.v decode_composite and Model/Composite.v / Model/Rolling.v for every answer function (from the decoded JSON body on; bytes to JSON is library code). *)
From MC Require Import Generated Model.Composite Model.TracePreds Model.Safe Model.Rolling Proofs.SafeLemmas Proofs.C04Proofs Proofs.C06Proofs Proofs.RollPanic Proofs.C13Proofs.

Theorem C13_child_decision_no_panic :
  forall (c : ccfg) (kc : child_cfg) (parent : json) (observed : option json) (desired : json),
         child_decision c kc parent observed desired <> ActPanic.
Proof. exact (@C13_child_decision_no_panic). Qed.
Print Assumptions C13_child_decision_no_panic.

Theorem C13_no_panic :
  forall (c : ccfg) (k : cache) (e : env), result_of (sync c k) e <> SPanic.
Proof. exact (@C13_no_panic). Qed.
Print Assumptions C13_no_panic.

Theorem C13_no_panic_r :
  forall (c : ccfg) (k : cache) (e : env), result_of (sync_r c k) e <> SPanic.
Proof. exact (@C13_no_panic_r). Qed.
Print Assumptions C13_no_panic_r.

Theorem C13_rejected_no_writes :
  forall (c : ccfg) (k : cache) (parent : json),
         hist_post C13_phi (fun (h : hist) (r : sync_result) => C13_post h r /\ r <> SPanic) []
           (sync_parent_object c k parent).
Proof. exact (@C13_rejected_no_writes). Qed.
Print Assumptions C13_rejected_no_writes.

Theorem C13_rejected_is_last :
  forall (c : ccfg) (k : cache) (parent : json) (e : env) (hk : hook_kind) (body : json) 
           (a : answer) (res : sync_result),
         In (CHook hk body, a) (trace_of (sync_parent_object c k parent) e) ->
         hk <> HCustomize ->
         hook_outcome a = Some res ->
         (exists before : list (call * answer),
            trace_of (sync_parent_object c k parent) e = (before ++ [(CHook hk body, a)])%list) /\
         result_of (sync_parent_object c k parent) e = res.
Proof. exact (@C13_rejected_is_last). Qed.
Print Assumptions C13_rejected_is_last.

Theorem C13_rejected_SErr :
  forall (c : ccfg) (k : cache) (parent : json) (e : env) (hk : hook_kind) (body : json) (a : answer),
         In (CHook hk body, a) (trace_of (sync_parent_object c k parent) e) ->
         hk <> HCustomize ->
         a = AHookErr \/
         (exists o : json, a = AObj o) \/
         (exists x : eclass, a = AFail x) \/ (exists b : json, a = AHook b /\ decode_composite b = None) ->
         (exists before : list (call * answer),
            trace_of (sync_parent_object c k parent) e = (before ++ [(CHook hk body, a)])%list) /\
         result_of (sync_parent_object c k parent) e = SErr.
Proof. exact (@C13_rejected_SErr). Qed.
Print Assumptions C13_rejected_SErr.

Theorem C13_429_SRequeue :
  forall (c : ccfg) (k : cache) (parent : json) (e : env) (hk : hook_kind) (body : json) (n : Z),
         In (CHook hk body, AHook429 n) (trace_of (sync_parent_object c k parent) e) ->
         hk <> HCustomize ->
         (exists before : list (call * answer),
            trace_of (sync_parent_object c k parent) e = (before ++ [(CHook hk body, AHook429 n)])%list) /\
         result_of (sync_parent_object c k parent) e = SRequeue n.
Proof. exact (@C13_429_SRequeue). Qed.
Print Assumptions C13_429_SRequeue.

Theorem C13_rejected_no_writes_r :
  forall (c : ccfg) (k : cache) (parent : json),
         hist_post C13_phi_r (fun (h : hist) (r : sync_result) => C13_post_r c h r /\ r <> SPanic) []
           (sync_parent_object_r c k parent).
Proof. exact (@C13_rejected_no_writes_r). Qed.
Print Assumptions C13_rejected_no_writes_r.

Theorem C13_rejected_r_not_done :
  forall (c : ccfg) (k : cache) (parent : json) (e : env) (hk : hook_kind) (body : json) (a : answer),
         In (CHook hk body, a) (fst (run (sync_parent_object_r c k parent) e [])) ->
         hk <> HCustomize ->
         rejected a ->
         snd (run (sync_parent_object_r c k parent) e []) <> SDone /\
         snd (run (sync_parent_object_r c k parent) e []) <> SPanic.
Proof. exact (@C13_rejected_r_not_done). Qed.
Print Assumptions C13_rejected_r_not_done.

From MC Require Import Model.Decorator Proofs.DecoratorLegs.

(* ---- C13 on the decorator: no answer panics sync_d; after a rejected answer (transport error, non-200,
   429, a body decode_decorator refuses) no further call is made and the sync fails ---- *)
Theorem C13d_rejected_no_call :
  forall (c : dcfg) (k : dcache),
    hist_post C13d_phi (fun (h : hist) (r : sync_result) => C13d_post h r /\ r <> SPanic) [] (sync_d c k).
Proof. exact (@DecoratorLegs.C13d_rejected_no_call). Qed.
Print Assumptions C13d_rejected_no_call.

Theorem C13d_no_panic :
  forall (c : dcfg) (k : dcache) (e : env), result_of (sync_d c k) e <> SPanic.
Proof. exact (@DecoratorLegs.C13d_no_panic). Qed.
Print Assumptions C13d_no_panic.

Theorem C13d_rejected_is_last :
  forall (c : dcfg) (k : dcache) (e : env) (hk : hook_kind) (body : json) (a : answer),
    In (CHook hk body, a) (trace_of (sync_d c k) e) ->
    hook_rejected_d a = true ->
    (exists before : list (call * answer), trace_of (sync_d c k) e = (before ++ [(CHook hk body, a)])%list) /\
    result_of (sync_d c k) e = SErr.
Proof. exact (@DecoratorLegs.C13d_rejected_is_last). Qed.
Print Assumptions C13d_rejected_is_last.

Theorem C13d_rejected_cases :
  forall (c : dcfg) (k : dcache) (e : env) (hk : hook_kind) (body : json) (a : answer),
    In (CHook hk body, a) (trace_of (sync_d c k) e) ->
    (a = AHookErr \/ (exists n, a = AHook429 n) \/ (exists o, a = AObj o) \/ (exists x, a = AFail x) \/
     (exists b, a = AHook b /\ decode_decorator b = None)) ->
    (exists before : list (call * answer), trace_of (sync_d c k) e = (before ++ [(CHook hk body, a)])%list) /\
    result_of (sync_d c k) e = SErr.
Proof. exact (@DecoratorLegs.C13d_rejected_cases). Qed.
Print Assumptions C13d_rejected_cases.

(* thirteen malformed answers (non-JSON / transport error, 429, non-object and kind-less attachment
   entries, a non-array attachments field, wrong types in labels / annotations / status / finalized /
   resyncAfterSeconds) are rejected, the sync fails and the hook call is its last call *)
Example C13d_rejected_examples :
  forallb hook_rejected_d LegsEx.bad_answers = true /\
  forallb (fun a => let e := LegsEx.env_of LegsEx.alive a in
                    match result_of (sync_d (LegsEx.cfg false) (LegsEx.cache LegsEx.alive [LegsEx.owned])) e with
                    | SErr => true | _ => false end &&
                    match rev (LegsEx.tags (LegsEx.cfg false) (LegsEx.cache LegsEx.alive [LegsEx.owned]) e) with
                    | "hook:sync" :: _ => true | _ => false end)
          LegsEx.bad_answers = true.
Proof. exact (@DecoratorLegs.LegsEx.C13d_rejected_examples). Qed.

(* accepted although odd: a null body, null attachment entries (dropped), null label values (deletions) *)
Example C13d_accepted_examples :
  forallb (fun a => negb (hook_rejected_d a) &&
                    match result_of (sync_d (LegsEx.cfg false) (LegsEx.cache LegsEx.alive [])) (LegsEx.env_of LegsEx.alive a) with
                    | SDone => true | _ => false end)
          [AHook JNull; AHook (JObj []); AHook (JObj [("attachments", JArr [JNull; JNull])]);
           AHook (JObj [("labels", JObj [("gone", JNull)]); ("status", JNull); ("attachments", JNull)])] = true.
Proof. exact (@DecoratorLegs.LegsEx.C13d_accepted_examples). Qed.
