(* Property C17 — shared caches stay read-only and concurrent syncs do not race.
   What a functional model can carry (see DESIGN.md): (1) what a hook is sent is a
   function of the cache snapshot handed to the sync and of that sync's own live
   reads; (2) syncs with disjoint footprints commute under every interleaving of
   their calls.  Aliasing of Go maps and the Go memory model are runtime behaviour:
   they are observed by the cache-fingerprint oracle and the race detector in the
   correspondence harness (tests, labelled so). *)
From MC Require Import Model.Json Model.Prog Model.Composite Model.Safe.
From MC Require Import Proofs.C17Proofs Proofs.C10Proofs.

(* under any interleaving each sync gets the answers, makes the calls and returns
   the result it would get running alone *)
Theorem C17_interleaving_is_serial :
  forall (key : call -> string) (A B : Type) (k1 k2 : string -> bool) (e : env),
    key_local key e ->
    (forall s, k1 s = true -> k2 s = false) -> (forall s, k2 s = true -> k1 s = false) ->
    forall (s : list bool) (p1 : prog A) (p2 : prog B) (h : C17Proofs.hist),
      uses key k1 p1 -> uses key k2 p2 ->
      let '(hf, a, b) := irun s p1 p2 e h in
      a = snd (run p1 e h) /\ b = snd (run p2 e h) /\
      on key k1 hf = on key k1 (fst (run p1 e h)) /\ on key k2 hf = on key k2 (fst (run p2 e h)).
Proof. exact (@interleaving_is_serial). Qed.
Print Assumptions C17_interleaving_is_serial.

(* hence all schedules agree with each other (and with both serial orders) *)
Theorem C17_schedules_agree :
  forall (key : call -> string) (A B : Type) (k1 k2 : string -> bool) (e : env) (s s' : list bool)
         (p1 : prog A) (p2 : prog B) (h : C17Proofs.hist),
    key_local key e ->
    (forall x, k1 x = true -> k2 x = false) -> (forall x, k2 x = true -> k1 x = false) ->
    uses key k1 p1 -> uses key k2 p2 ->
    let '(hf, a, b) := irun s p1 p2 e h in
    let '(hf', a', b') := irun s' p1 p2 e h in
    a = a' /\ b = b' /\ on key k1 hf = on key k1 hf' /\ on key k2 hf = on key k2 hf'.
Proof. exact (@schedules_agree). Qed.
Print Assumptions C17_schedules_agree.

(* the parent a hook is sent is the object the sync holds (cache snapshot or its own live read) *)
Theorem C17_hook_input_is_the_synced_parent :
  forall (G : call -> answer -> Prop) (c : ccfg) (parent : json) (observed related : umap) (h : Safe.hist),
    safe G
      (fun (_ : Safe.hist) (cl : call) =>
         exists body : json,
           cl = CHook (if want_finalize c parent then HFinalize else HSync) body /\
           jget "finalizing" (obj_map body) = JBool (want_finalize c parent) /\
           jget "parent" (obj_map body) = parent) h (call_hook c parent observed related).
Proof. exact (@C10_hook_choice). Qed.
Print Assumptions C17_hook_input_is_the_synced_parent.

(* non-vacuity: two one-call programs on different targets, both interleavings, same outcome *)
Example C17_example :
  let key := fun c : call => match c with CApi q => q_name q | CHook _ _ => "hook" end in
  let p1 : prog answer := Do (CApi (rq_get "pods.v1" "ns" "a")) (fun a => Ret a) in
  let p2 : prog answer := Do (CApi (rq_get "pods.v1" "ns" "b")) (fun a => Ret a) in
  let e : env := fun h c => AObj (JInt (Z.of_nat (List.length (filter (fun p => String.eqb (key (fst p)) (key c)) h)))) in
  snd (fst (irun [true; false] p1 p2 e [])) = snd (fst (irun [false; true] p1 p2 e [])) /\
  snd (irun [true; false] p1 p2 e []) = snd (irun [false; true] p1 p2 e []).
Proof. vm_compute. split; reflexivity. Qed.
