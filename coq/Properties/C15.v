(* Property C15 — with a customize hook, the `related` map sent to sync and
   finalize holds exactly the objects the returned rules select, confined to the
   parent's namespace for namespaced parents; a rule that mixes both selection
   styles or names a foreign namespace for a namespaced parent is an error; the
   hook is asked at most once per parent UID and generation while cached; every
   object in the related map also wakes the parent.
   Statements about Model/Customize.v (pkg/controller/common/customize/manager.go:
   GetRelatedObjects, determineSelectionType, matchesRelatedRule,
   getCustomizeHookResponse) and the wire format of Model/HookIO.v. *)
From MC Require Import Generated Model.CustomizePreds Model.Safe Proofs.SafeLemmas Proofs.C03Proofs Proofs.RollCalls Proofs.C15Proofs.
Local Open Scope string_scope.
Local Open Scope list_scope.

(* ---------- 1. selection ---------- *)
Theorem C15_selection :
  forall (c : ccfg) (k : cache) (parent : json) (rules : list (option rule)) (m : umap),
    parent_has_ns c parent -> cache_distinct c k ->
    get_related_objects c k parent rules = Ok m ->
    (forall o, In o (uobjects m) <-> selected_by c k parent rules o) /\
    (forall o, selected_by c k parent rules o ->
               uin (get_api_version o) (get_kind o) (qualified_name o) o m) /\
    (forall r kc, In (Some r) rules -> lookup_res c (r_api_version r) (r_resource r) = Some kc ->
                  In (ch_api_version kc, ch_kind kc) (ukeys m)) /\
    NoDup (ukeys m) /\
    (forall o, In o (wire_objects (get_ns parent) m) <->
               selected_by c k parent rules o /\ (get_ns parent = "" \/ get_ns o = get_ns parent)).
Proof. exact C15_selection_lemma. Qed.
Print Assumptions C15_selection.

(* what "a rule selects an object" means: spec_selects is the constant the check evaluates *)
Theorem C15_rule_selects_meaning :
  forall pn parent objs r o,
    rule_selects pn parent objs r o <->
    In o objs /\
    match selection_type r with
    | SelLabels => exists sel, to_selector (r_selector r) = Some sel /\ sel_matches sel (get_labels o) = true /\
                               (pn = true -> get_ns o = get_ns parent)
    | SelNamesNs => (r_namespace r = "" \/ get_ns o = r_namespace r) /\
                    (r_names r = [] \/ mem_str (get_name o) (r_names r) = true)
    | SelInvalid => False
    end.
Proof. exact rule_selects_meaning. Qed.
Print Assumptions C15_rule_selects_meaning.

Theorem C15_wire_view :
  forall (c : ccfg) (k : cache) (parent : json) (rules : list (option rule)) (m : umap),
    get_related_objects c k parent rules = Ok m ->
    kinds_no_dot m = true ->
    forall av kd os, In (av, kd, os) m ->
    NoDup (map (rel_key (get_ns parent)) (filter (seen (get_ns parent)) os)) ->
    forall n o,
      alookup n (obj_map (jget (gvk_text av kd) (obj_map (convert (get_ns parent) m)))) = Some o <->
      exists key, In (key, o) os /\ relative_name (get_ns parent) o = n /\
                  (get_ns parent = "" \/ get_ns o = get_ns parent).
Proof. exact C15_wire_convert. Qed.
Print Assumptions C15_wire_view.

(* ---------- 2. invalid rules ---------- *)
Theorem C15_invalid_rule_refused :
  forall (c : ccfg) (k : cache) (parent : json) (rules : list (option rule)),
    refused_for c parent rules -> get_related_objects c k parent rules = Err.
Proof. exact C15_invalid_rule_lemma. Qed.
Print Assumptions C15_invalid_rule_refused.

(* the refused shapes: a null entry; a rule with both styles or a foreign namespace (rule_bad) *)
Theorem C15_null_entry_refused :
  forall c parent rules, In None rules -> refused_for c parent rules.
Proof. exact null_entry_refused. Qed.
Print Assumptions C15_null_entry_refused.

Theorem C15_bad_rule_refused :
  forall c parent rules r,
    In (Some r) rules -> rule_bad (p_namespaced c) parent r = true -> refused_for c parent rules.
Proof. exact bad_rule_refused. Qed.
Print Assumptions C15_bad_rule_refused.

(* GetRelatedObjects never panics, whatever the hook answered *)
Theorem C15_related_never_panics :
  forall c k parent rules, is_panic (get_related_objects c k parent rules) = false.
Proof. exact C15_related_never_panics_lemma. Qed.
Print Assumptions C15_related_never_panics.

Theorem C15_both_styles_always_refused :
  forall pn parent r, selection_type r = SelInvalid -> rule_bad pn parent r = true.
Proof. exact invalid_is_bad. Qed.
Print Assumptions C15_both_styles_always_refused.

(* the whole sync: whatever the API server and the hooks answer, as long as the customize
   hook's rules (fresh or cached) contain a refused rule, every call is a read, the finalizer /
   ownership edits of the prelude, or the customize call itself *)
Theorem C15_invalid_rule_no_sync :
  forall (c : ccfg) (cc : ccache) (k : cache) (parent : json) (e : env),
    has_customize c = true -> cache_refusing c cc ->
    (forall h cl, customize_env c cl (e h cl)) ->
    Forall (fun hc => C15_quiet_call c (snd hc)) (calls_with_history (fst (run (sync_c c cc k parent) e []))).
Proof. exact C15_invalid_sync_lemma. Qed.
Print Assumptions C15_invalid_rule_no_sync.

Theorem C15_invalid_rule_not_done :
  forall (c : ccfg) (cc : ccache) (k : cache) (parent : json) (observed : umap) (e : env),
    has_customize c = true -> cache_refusing c cc ->
    (forall h cl, customize_env c cl (e h cl)) ->
    Forall (fun hc => C15_quiet_call c (snd hc))
           (calls_with_history (fst (run (sync_tail_c c cc k parent observed) e []))) /\
    fst (snd (run (sync_tail_c c cc k parent observed) e [])) <> SDone /\
    fst (snd (run (sync_tail_c c cc k parent observed) e [])) <> SPanic.
Proof. exact C15_invalid_tail_lemma. Qed.
Print Assumptions C15_invalid_rule_not_done.

Theorem C15_quiet_is_no_hook_no_child_write :
  forall c cl, C15_quiet_call c cl ->
    match cl with CHook HSync _ | CHook HFinalize _ => False | _ => True end /\
    match cl with CApi q => q_verb q = VGet \/ q_verb q = VUpdate | _ => True end.
Proof. exact quiet_call_meaning. Qed.
Print Assumptions C15_quiet_is_no_hook_no_child_write.

(* ---------- 3. selected implies trigger ---------- *)
(* full strength (no hypothesis on the parent) is false of the model: *)
Theorem C15_selected_implies_trigger_refuted :
  exists m, get_related_objects refute_cfg refute_cache refute_parent refute_rules = Ok m /\
            In refute_pod (wire_objects (get_ns refute_parent) m) /\
            triggers refute_cfg refute_parent (some_rules refute_rules) refute_pod = false.
Proof. exact C15_selected_implies_trigger_refuted_lemma. Qed.
Print Assumptions C15_selected_implies_trigger_refuted.

(* with "an object of a namespaced parent kind has a namespace" it holds *)
Theorem C15_selected_implies_trigger_partial :
  forall (c : ccfg) (k : cache) (parent : json) (rules : list (option rule)) (m : umap),
    parent_has_ns c parent -> cache_kinds c k ->
    get_related_objects c k parent rules = Ok m ->
    forall o, In o (wire_objects (get_ns parent) m) ->
      (exists r kc, In (Some r) rules /\ lookup_res c (r_api_version r) (r_resource r) = Some kc /\
                    matches_related_rule (p_namespaced c) parent o (Some r) (ch_kind kc) = Ok true) /\
      triggers c parent (some_rules rules) o = true /\
      every_selecting_rule_triggers c parent (some_rules rules) o = true.
Proof. exact C15_selected_implies_trigger_lemma. Qed.
Print Assumptions C15_selected_implies_trigger_partial.

(* the related-object event handler (findRelatedParents, one parent, one changed object) is that
   predicate: null rules skipped, unknown resources and failing rules skipped *)
Theorem C15_handler_is_triggers :
  forall c parent rules o,
    parent_woken_by c parent rules [o] = triggers c parent (some_rules rules) o.
Proof. exact parent_woken_by_triggers. Qed.
Print Assumptions C15_handler_is_triggers.

(* an UPDATE of a related object: the handler looks at the old and at the new state, so an object that is in the
   related map wakes the parent also when the update takes it out of the selection *)
Theorem C15_update_wakes :
  forall (c : ccfg) (k : cache) (parent : json) (rules : list (option rule)) (m : umap),
    parent_has_ns c parent -> cache_kinds c k ->
    get_related_objects c k parent rules = Ok m ->
    forall o, In o (wire_objects (get_ns parent) m) ->
    forall other, woken_by_update c parent rules o other = true /\ woken_by_update c parent rules other o = true.
Proof. exact C15_update_wakes_lemma. Qed.
Print Assumptions C15_update_wakes.

Theorem C15_update_wakes_meaning :
  forall c parent rules old new,
    woken_by_update c parent rules old new =
    triggers c parent (some_rules rules) old || triggers c parent (some_rules rules) new.
Proof. exact woken_by_update_spec. Qed.
Print Assumptions C15_update_wakes_meaning.

(* ---------- 4. asked once ---------- *)
Theorem C15_customize_once_thm :
  forall (c : ccfg) (steps : list (cache * json)) (e : env),
    C15_customize_once (fst (run (related_seq c [] steps) e [])) = true /\
    forall key, count_served key (fst (run (related_seq c [] steps) e [])) <= 1.
Proof. exact C15_customize_once_lemma. Qed.
Print Assumptions C15_customize_once_thm.

Theorem C15_customize_once_from_any_cache :
  forall (c : ccfg) (e : env) (steps : list (cache * json)) (cc : ccache) (h : list (call * answer)),
    C15_customize_once h = true -> cache_covers cc h ->
    C15_customize_once (fst (run (related_seq c cc steps) e h)) = true /\
    cache_covers (snd (snd (run (related_seq c cc steps) e h))) (fst (run (related_seq c cc steps) e h)).
Proof. exact related_seq_once. Qed.
Print Assumptions C15_customize_once_from_any_cache.

Theorem C15_failed_call_retried :
  forall (c : ccfg) (cc : ccache) (k : cache) (parent : json) (e : env) (h : list (call * answer)),
    has_customize c = true -> customize_lookup cc (parent_key parent) = None ->
    decodable (e h (CHook HCustomize (customize_request parent))) = false ->
    fst (run (related_phase_c c cc k parent) e h) =
      (CHook HCustomize (customize_request parent), e h (CHook HCustomize (customize_request parent))) :: h /\
    snd (snd (run (related_phase_c c cc k parent) e h)) = cc /\
    (forall m, fst (snd (run (related_phase_c c cc k parent) e h)) <> RelOk m).
Proof. exact C15_failed_call_retried_lemma. Qed.
Print Assumptions C15_failed_call_retried.

Theorem C15_cached_not_asked :
  forall (c : ccfg) (cc : ccache) (k : cache) (parent : json) (rules : list (option rule)) (e : env) (h : list (call * answer)),
    customize_lookup cc (parent_key parent) = Some rules ->
    fst (run (related_phase_c c cc k parent) e h) = h.
Proof. exact C15_cached_not_asked_lemma. Qed.
Print Assumptions C15_cached_not_asked.

(* ================= non-vacuity ================= *)
Definition ex_known : list child_cfg :=
  [mkChild "v1" "pods" "Pod" true ""; mkChild "apps.example.com/v1" "widgets" "Widget" true "";
   mkChild "v1" "namespaces" "Namespace" false ""].
Definition ex_cfg : ccfg :=
  mkCfg "x" "ctl.example.com/v1" "Thing" "things" true true false sel_everything []
        true false ex_known false true [["spec"]] [].
Definition ex_obj (av kd ns name : string) (labels : list (string * json)) : json :=
  JObj [("apiVersion", JStr av); ("kind", JStr kd);
        ("metadata", JObj [("labels", JObj labels); ("name", JStr name); ("namespace", JStr ns)])].
Definition ex_pod_a1 := ex_obj "v1" "Pod" "ns1" "a" [("tier", JStr "x")].
Definition ex_pod_a2 := ex_obj "v1" "Pod" "ns2" "a" [("tier", JStr "x")].
Definition ex_pod_b1 := ex_obj "v1" "Pod" "ns1" "b" [("tier", JStr "y")].
Definition ex_parent : json :=
  JObj [("apiVersion", JStr "ctl.example.com/v1"); ("kind", JStr "Thing");
        ("metadata", JObj [("generation", JInt 1); ("labels", JObj []); ("name", JStr "p"); ("namespace", JStr "ns1"); ("uid", JStr "u1")]);
        ("spec", JObj [("selector", JObj [("matchLabels", JObj [("app", JStr "own")])])])].
Definition ex_cache : cache := mkCache (Some ex_parent) [("pods.v1", [ex_pod_a1; ex_pod_a2; ex_pod_b1])].
Definition ex_rules : list (option rule) :=
  [Some (mkRule "v1" "pods" None "" ["a"]);
   Some (mkRule "v1" "pods" (Some (mkSel [("tier", "y")] [])) "" []);
   Some (mkRule "apps.example.com/v1" "widgets" None "" [])].

Example ex_parent_has_ns : parent_has_ns ex_cfg ex_parent.
Proof. intros _. vm_compute. discriminate. Qed.

Example ex_cached o : cachedP ex_cfg ex_cache o -> o = ex_pod_a1 \/ o = ex_pod_a2 \/ o = ex_pod_b1.
Proof.
  intros [kc [Hk Ho]]. cbn [known ex_cfg ex_known In] in Hk.
  destruct Hk as [<- | [<- | [<- | []]]]; vm_compute in Ho; intuition auto.
Qed.

Example ex_cache_distinct : cache_distinct ex_cfg ex_cache.
Proof.
  intros o1 o2 H1 H2 Hav Hkd Hq.
  destruct (ex_cached o1 H1) as [-> | [-> | ->]]; destruct (ex_cached o2 H2) as [-> | [-> | ->]];
    try reflexivity; vm_compute in Hq; discriminate.
Qed.

Example ex_cache_kinds : cache_kinds ex_cfg ex_cache.
Proof.
  intros kc o Hk Ho. cbn [known ex_cfg ex_known In] in Hk.
  destruct Hk as [<- | [<- | [<- | []]]]; vm_compute in Ho; try contradiction.
  destruct Ho as [<- | [<- | [<- | []]]]; vm_compute; split; reflexivity.
Qed.

(* three objects selected (one of them by two rules' resource group), two reach the wire; the
   widgets group is there although empty *)
Example ex_selection_nontrivial :
  exists m, get_related_objects ex_cfg ex_cache ex_parent ex_rules = Ok m /\
            List.length (uobjects m) = 3 /\ List.length (wire_objects (get_ns ex_parent) m) = 2 /\
            ukeys m = [("v1", "Pod"); ("apps.example.com/v1", "Widget")] /\
            kinds_no_dot m = true /\
            convert (get_ns ex_parent) m =
              JObj [("Pod.v1", JObj [("a", ex_pod_a1); ("b", ex_pod_b1)]); ("Widget.apps.example.com/v1", JObj [])].
Proof. eexists. split; [vm_compute; reflexivity|]. repeat split; vm_compute; reflexivity. Qed.

Example ex_expected_agrees :
  C15_expected ex_cfg ex_cache ex_parent (some_rules ex_rules) =
  JObj [("Pod.v1", JObj [("a", ex_pod_a1); ("b", ex_pod_b1)]); ("Widget.apps.example.com/v1", JObj [])].
Proof. vm_compute. reflexivity. Qed.

(* invalid rules: both styles; a foreign namespace for the namespaced parent *)
Definition ex_both : rule := mkRule "v1" "pods" (Some (mkSel [] [])) "" ["a"].
Definition ex_foreign : rule := mkRule "v1" "pods" None "ns2" [].

Example ex_refused_both : refused_for ex_cfg ex_parent [Some (mkRule "v1" "pods" None "" []); Some ex_both].
Proof. exists (Some ex_both). split; [right; left; reflexivity | reflexivity]. Qed.

Example ex_refused_foreign : refused_for ex_cfg ex_parent [Some ex_foreign].
Proof. exists (Some ex_foreign). split; [left; reflexivity | vm_compute; reflexivity]. Qed.

Example ex_refused_results :
  get_related_objects ex_cfg ex_cache ex_parent [Some (mkRule "v1" "pods" None "" []); Some ex_both] = Err /\
  get_related_objects ex_cfg ex_cache ex_parent [Some ex_foreign] = Err /\
  get_related_objects ex_cfg ex_cache ex_parent [None] = Err /\
  (* a null entry behind a valid rule: still an error *)
  get_related_objects ex_cfg ex_cache ex_parent [Some (mkRule "v1" "pods" None "" []); None] = Err.
Proof. repeat split; vm_compute; reflexivity. Qed.

(* an environment whose customize hook always answers with a both-styles rule *)
Definition ex_bad_body : json :=
  JObj [("relatedResources", JArr [JObj [("apiVersion", JStr "v1"); ("resource", JStr "pods");
                                           ("labelSelector", JObj []); ("names", JArr [JStr "a"])]])].
Definition ex_bad_env : env :=
  fun _ cl => match cl with
              | CHook HCustomize _ => AHook ex_bad_body
              | CHook _ _ => AHook (JObj [])
              | CApi _ => AFail EOther
              end.

Example ex_bad_env_ok : forall h cl, customize_env ex_cfg cl (ex_bad_env h cl).
Proof.
  intros h cl. destruct cl as [q | hk body]; [exact I|]. destruct hk; try exact I.
  cbn [ex_bad_env customize_env]. intros rules Hd. vm_compute in Hd. injection Hd as <-.
  eexists (Some _). split; [left; reflexivity|]. cbn [entry_bad]. apply invalid_is_bad. reflexivity.
Qed.

Example ex_bad_env_run :
  map fst (rev (fst (run (sync_c ex_cfg [] ex_cache ex_parent) ex_bad_env []))) =
    [CHook HCustomize (customize_request ex_parent)] /\
  fst (snd (run (sync_c ex_cfg [] ex_cache ex_parent) ex_bad_env [])) = SErr.
Proof. split; vm_compute; reflexivity. Qed.

Example ex_cache_refusing_nil : cache_refusing ex_cfg [].
Proof. intros parent rules H. discriminate. Qed.

(* asked once: the same parent three times, then a new generation, then the first again *)
Definition ex_parent_gen2 : json :=
  JObj [("apiVersion", JStr "ctl.example.com/v1"); ("kind", JStr "Thing");
        ("metadata", JObj [("generation", JInt 2); ("labels", JObj []); ("name", JStr "p"); ("namespace", JStr "ns1"); ("uid", JStr "u1")])].
Definition ex_good_env : env :=
  fun _ cl => match cl with
              | CHook HCustomize _ =>
                  AHook (JObj [("relatedResources", JArr [JObj [("apiVersion", JStr "v1"); ("resource", JStr "pods"); ("names", JArr [JStr "a"])]])])
              | _ => AHookErr
              end.
Definition ex_steps : list (cache * json) :=
  [(ex_cache, ex_parent); (ex_cache, ex_parent); (ex_cache, ex_parent_gen2); (ex_cache, ex_parent); (ex_cache, ex_parent_gen2)].

Example ex_once_run :
  List.length (fst (run (related_seq ex_cfg [] ex_steps) ex_good_env [])) = 2 /\
  count_served (parent_key ex_parent) (fst (run (related_seq ex_cfg [] ex_steps) ex_good_env [])) = 1 /\
  List.length (fst (snd (run (related_seq ex_cfg [] ex_steps) ex_good_env []))) = 5.
Proof. repeat split; vm_compute; reflexivity. Qed.

(* a failing hook is asked again each time *)
Example ex_retry_run :
  List.length (fst (run (related_seq ex_cfg [] ex_steps) (fun _ _ => AHookErr) [])) = 5.
Proof. vm_compute. reflexivity. Qed.

(* every wire object triggers *)
Example ex_triggers :
  forallb (fun o => triggers ex_cfg ex_parent (some_rules ex_rules) o)
          (match get_related_objects ex_cfg ex_cache ex_parent ex_rules with
           | Ok m => wire_objects (get_ns ex_parent) m | _ => [] end) = true /\
  (* the foreign-namespace pod sits in the map but not on the wire, and would not wake the parent *)
  triggers ex_cfg ex_parent (some_rules ex_rules) ex_pod_a2 = false.
Proof. split; vm_compute; reflexivity. Qed.
