(* Non-vacuity evidence for Properties/C09.v: a complete run of sync_parent_object_r
   on the rollout of C07_nonvacuity.v (cached children, a stored ControllerRevision of
   the previous parent spec, a hook answering per revision), against a healthy API
   server and against one that rejects ControllerRevision writes. *)
From MC Require Import Generated Model.Composite Model.TracePreds Model.Safe Model.Rolling Proofs.SafeLemmas Proofs.C04Proofs Proofs.C06Proofs Proofs.RollCalls Proofs.RollClaims Proofs.RollMoves Proofs.C09Proofs.
Local Open Scope list_scope.

Module C09NV.
  (* One rolling child kind; the parent moved from spec.v = 1 (revision p-r1) to
     spec.v = 2 (revision p-r2).  The hook derives children a and b from v; child c
     does not depend on it.  Children are healthy when their Ready condition is True. *)
  Definition kid_m (m : string) : child_cfg := mkChild "v1" "things" "Thing" true m.
  Definition cfg_m (m : string) : ccfg :=
    mkCfg "cc" "ctl.example.com/v1" "Parent" "parents" true true true sel_everything [kid_m m] true false
          [kid_m m] false false [["spec"]] [("things.v1", [("Ready", Some "True", None)])].
  Definition kid := kid_m "RollingRecreate".
  Definition cfg := cfg_m "RollingRecreate".
  Definition parent (v : Z) : json :=
    JObj [("apiVersion", JStr "ctl.example.com/v1"); ("kind", JStr "Parent");
          ("metadata", JObj [("name", JStr "p"); ("namespace", JStr "ns"); ("uid", JStr "uid-p")]);
          ("spec", JObj [("v", JInt v)])].
  Definition pref : json :=
    JObj [("apiVersion", JStr "ctl.example.com/v1"); ("blockOwnerDeletion", JBool true);
          ("controller", JBool true); ("kind", JStr "Parent"); ("name", JStr "p"); ("uid", JStr "uid-p")].
  Definition thing (name : string) (v : Z) : json :=
    JObj [("apiVersion", JStr "v1"); ("kind", JStr "Thing");
          ("metadata", JObj [("name", JStr name); ("namespace", JStr "ns");
                             ("labels", JObj [("controller-uid", JStr "uid-p")])]);
          ("spec", JObj [("v", JInt v)])].
  Definition raw (name : string) (v : Z) (ready : string) (og : Z) : json :=
    JObj [("apiVersion", JStr "v1"); ("kind", JStr "Thing");
          ("metadata", JObj [("name", JStr name); ("namespace", JStr "ns"); ("uid", JStr ("uid-" ++ name));
                             ("generation", JInt 3);
                             ("labels", JObj [("controller-uid", JStr "uid-p")]);
                             ("ownerReferences", JArr [pref])]);
          ("spec", JObj [("v", JInt v)]);
          ("status", JObj [("observedGeneration", JInt og);
                           ("conditions", JArr [JObj [("type", JStr "Ready"); ("status", JStr ready)]])])].
  (* an observed child last applied from (thing name v) *)
  Definition obs' (name : string) (v : Z) (ready : string) (og : Z) : json :=
    match apply_update (obj_map (raw name v ready og)) (obj_map (thing name v)) with Ok n => JObj n | _ => JNull end.
  Definition obs (name : string) (v : Z) (ready : string) : json := obs' name v ready 3.
  Definition observed_of (os : list json) : umap := [("v1", "Thing", map (fun o => (qualified_name o, o)) os)].
  Definition rev_of (name uid : string) (v : Z) (cs : list rck) : revision :=
    mkRevision (JObj [("apiVersion", JStr "metacontroller.k8s.io/v1alpha1"); ("kind", JStr "ControllerRevision");
                      ("metadata", JObj [("name", JStr name); ("namespace", JStr "ns"); ("uid", JStr uid)])])
               (JObj [("spec", JObj [("v", JInt v)])]) cs.
  Definition resp (v : Z) : hook_resp :=
    mkHR (JObj [("v", JInt v)]) [Some (thing "a" v); Some (thing "b" v); Some (thing "c" 0)] JNull false.
  Definition mk_prev (v : Z) (r : revision) : prev :=
    mkPrev (parent v) r (resp v) (relative_desired "ns" (hr_children (resp v))).
  Definition things (l : list string) : list rck := [mkRck "" "Thing" l].
  Definition latest_with (l : list string) : prev := mk_prev 2 (rev_of "p-r2" "uid-r2" 2 (things l)).
  Definition old_with (l : list string) : prev := mk_prev 1 (rev_of "p-r1" "uid-r1" 1 (things l)).
  (* start of the rollout: everything still belongs to the old revision *)
  Definition latest0 : prev := mk_prev 2 (rev_of "p-r2" "uid-r2" 2 []).
  Definition old0 : prev := old_with ["a"; "b"; "c"].
  Definition obs0 : umap := observed_of [obs "a" 1 "True"; obs "b" 1 "True"; obs "c" 0 "True"].
  (* after the first sync: c moved for free, a was moved by the gated step *)
  Definition latest1 : prev := latest_with ["c"; "a"].
  Definition old1 : prev := old_with ["b"].
  Definition obs1_stale : umap := obs0.                                            (* a not yet recreated *)
  Definition obs1_sick : umap := observed_of [obs "a" 2 "False"; obs "b" 1 "True"; obs "c" 0 "True"].
  Definition obs1_ok : umap := observed_of [obs "a" 2 "True"; obs "b" 1 "True"; obs "c" 0 "True"].
  (* end *)
  Definition latest2 : prev := latest_with ["c"; "a"; "b"].
  Definition old2 : prev := old_with [].
  Definition obs2 : umap := observed_of [obs "a" 2 "True"; obs "b" 2 "True"; obs "c" 0 "True"].
  Definition kids_of (prs : list prev) : list (list rck) := map (fun p => rev_children (pr_rev p)) prs.
  Definition view (r : option (list prev * rollout_state)) : option (list (list rck) * rollout_state) :=
    option_map (fun r => (kids_of (fst r), snd r)) r.
  (* the inputs of first_pass / second_pass inside sync_rolling_update *)
  Definition claimed (prs : list prev) : list prev * claims :=
    sync_revision_claims cfg (pr_desired (hd latest0 prs)) 0 prs [].
  Definition firsted (observed : umap) (prs : list prev) : list prev * claims :=
    first_pass cfg "ns" observed (fst (claimed prs)) (snd (claimed prs)).
  Definition key (n : string) : claim_key := ("", "Thing", n).
  Definition with_uid (o : json) (uid : string) : json :=
    match o with
    | JObj m => match nested_set m ["metadata"; "uid"] (JStr uid) with Some m' => JObj m' | None => o end
    | _ => o end.
  (* the stored ControllerRevision of the previous parent spec, listing all three children *)
  Definition stored_r1 : json :=
    match new_revision cfg (parent 1) (JObj [("spec", JObj [("v", JInt 1)])]) "p-r1" with
    | Some r => json_of_revision (mkRevision (with_uid (rev_obj r) "uid-r1") (rev_patch r) (things ["a"; "b"; "c"]))
    | None => JNull end.
  Definition k0 : cache :=
    mkCache (Some (parent 2))
            [("things.v1", [obs "a" 1 "True"; obs "b" 1 "True"; obs "c" 0 "True"]);
             (rev_res, [stored_r1]); ("fresh-revision-name", [JStr "p-r2"])].
  (* the hook: children a and b follow the spec.v of the parent it is shown *)
  Definition hook_answer (body : json) : json :=
    match nested_get (obj_map (jget "parent" (obj_map body))) ["spec"; "v"] with
    | NFound (JInt v) => JObj [("status", JObj [("v", JInt v)]);
                               ("children", JArr [thing "a" v; thing "b" v; thing "c" 0])]
    | _ => JNull end.
  Definition e_ok : env := fun _ cl =>
    match cl with
    | CHook _ body => AHook (hook_answer body)
    | CApi q => match q_verb q with
                | VGet => AObj (parent 2) | VDelete => AObj JNull | _ => AObj (q_body q) end
    end.
  Definition e_fail : env := fun h cl => if is_rev_write cl then AFail EOther else e_ok h cl.
  Definition call_sig (cl : call) : verb * string * string :=
    match cl with CApi q => (q_verb q, q_res q, q_name q) | CHook _ _ => (VGet, "hook", "") end.
  Definition the_run (e : env) := run (sync_parent_object_r cfg k0 (parent 2)) e [].
  Definition dflt : call * answer := (CHook HCustomize JNull, AHookErr).
  Definition overlapping : list prev := [latest1; old_with ["a"; "b"; "z"]].
End C09NV.
Import C09NV.

(* the hypothesis of C09_revisions_before_children, _run, C09_failed_revision_no_children(_run);
   and the run: two hook calls (one per revision), the new revision created and the old one
   updated, only then the child write (a is recreated), then the status *)
Example C09_run_inhabited :
  rev_res_separate cfg = true /\
  map (fun ca => call_sig (fst ca)) (trace_of (sync_parent_object_r cfg k0 (parent 2)) e_ok) =
    [(VGet, "hook", ""); (VGet, "hook", "");
     (VCreate, rev_res, "p-r2"); (VUpdate, rev_res, "p-r1");
     (VDelete, "things.v1", "a");
     (VGet, "parents.ctl.example.com/v1", "p"); (VUpdateStatus, "parents.ctl.example.com/v1", "p")] /\
  result_of (sync_parent_object_r cfg k0 (parent 2)) e_ok = SDone /\
  (* C09_phi on every call of the run, with its history *)
  forallb (fun hc => negb (is_rev_write (snd hc)) || no_child_write_yet cfg (fst hc))
          (calls_with_history (fst (the_run e_ok))) = true /\
  (* what was persisted: the new revision lists c (free move) and a (gated move), the old one b *)
  map (fun ca => match fst ca with
                 | CApi q => if is_rev_write (fst ca) then [rev_children (revision_of_json (q_body q))] else []
                 | _ => [] end) (trace_of (sync_parent_object_r cfg k0 (parent 2)) e_ok) =
    [[]; []; [things ["c"; "a"]]; [things ["b"]]; []; []; []].
Proof. vm_compute. repeat split; reflexivity. Qed.

(* C09_revisions_before_children_run: the history splits at the last ControllerRevision
   write; nothing before it is a child write, and a child write does follow *)
Example C09_before_children_run_inhabited :
  let h := fst (the_run e_ok) in
  h = firstn 3 h ++ (fst (nth 3 h dflt), snd (nth 3 h dflt)) :: skipn 4 h /\
  call_sig (fst (nth 3 h dflt)) = (VUpdate, rev_res, "p-r1") /\
  is_rev_write (fst (nth 3 h dflt)) = true /\
  forallb (fun ca => negb (is_child_write cfg (fst ca))) (skipn 4 h) = true /\
  existsb (fun ca => is_child_write cfg (fst ca)) (firstn 3 h) = true.
Proof. vm_compute. repeat split; reflexivity. Qed.

(* C09_failed_revision_no_children_run (and C09_manage_revisions_stops): the server rejects
   the ControllerRevision write that follows the hooks; it is the last call, the sync
   fails, no child is written *)
Example C09_failed_revision_inhabited :
  let h := fst (the_run e_fail) in
  h = [] ++ (fst (nth 0 h dflt), snd (nth 0 h dflt)) :: skipn 1 h /\
  call_sig (fst (nth 0 h dflt)) = (VCreate, rev_res, "p-r2") /\
  is_rev_write (fst (nth 0 h dflt)) = true /\ is_obj (snd (nth 0 h dflt)) = false /\
  has_hook (skipn 1 h) = true /\
  snd (the_run e_fail) = SErr /\
  forallb (fun ca => negb (is_child_write cfg (fst ca))) h = true /\
  (* manage_revisions on its own: two writes wanted, the first fails, the second is not sent *)
  map (fun ca => call_sig (fst ca))
      (trace_of (manage_revisions "ns" [revision_of_json stored_r1] [pr_rev latest1; pr_rev old1]) e_fail) =
    [(VCreate, rev_res, "p-r2")] /\
  result_of (manage_revisions "ns" [revision_of_json stored_r1] [pr_rev latest1; pr_rev old1]) e_fail = false /\
  List.length (trace_of (manage_revisions "ns" [revision_of_json stored_r1] [pr_rev latest1; pr_rev old1]) e_ok) = 2.
Proof. vm_compute. repeat split; reflexivity. Qed.

(* C09_claims_after_sync_revision_claims, C09_claims_exclusive, C09_first_claimant_wins: both
   revisions list a (a crash between two revision writes leaves this), the old one also a
   name that is no longer desired; after the claims pass each key has one owner *)
Example C09_claims_inhabited :
  let ds := pr_desired latest1 in
  let r := sync_revision_claims cfg ds 0 overlapping [] in
  kids_of overlapping = [things ["c"; "a"]; things ["a"; "b"; "z"]] /\
  kids_of (fst r) = [things ["c"; "a"]; things ["b"]] /\
  NoDup (map fst (snd r)) /\ List.length (fst r) = List.length overlapping /\
  map (claimant (snd r)) [key "c"; key "a"; key "b"; key "z"] = [Some 0; Some 0; Some 1; None] /\
  map (count_listing (fst r)) [key "c"; key "a"; key "b"; key "z"] = [1; 1; 1; 0] /\
  map (count_listing overlapping) [key "c"; key "a"; key "b"; key "z"] = [1; 2; 1; 1] /\
  (match nth_error (fst r) 1 with
   | Some p' => lists (pr_rev p') (key "b") = true /\ lists (pr_rev p') (key "a") = false
   | None => False end) /\
  is_rolling cfg "" "Thing" = true /\ find_desired ds "" "Thing" "b" <> None /\ find_desired ds "" "Thing" "z" = None /\
  (* first claimant wins: a is already claimed by revision 0 when revision 1 is processed *)
  claimant [(key "a", 0)] (key "a") = Some 0 /\
  claimant (snd (sync_revision_claims cfg ds 1 [old_with ["a"; "b"; "z"]] [(key "a", 0)])) (key "a") = Some 0.
Proof.
  cbv zeta. split; [vm_compute; reflexivity|]. split; [vm_compute; reflexivity|].
  split; [vm_compute; repeat constructor; cbn; intuition discriminate|].
  vm_compute. repeat split; try reflexivity. discriminate.
Qed.

(* C09_revision_names_unique_claim: both hypotheses on the overlapping input; conclusion computed *)
Example C09_unique_claim_inhabited :
  all_gk_unique overlapping = true /\
  (exists prs2 st, sync_rolling_update cfg "ns" obs1_ok (latest1 :: tl overlapping) = Some (prs2, st) /\
                   st = RProgressing "Thing" "b" /\
                   kids_of (prune prs2) = [things ["c"; "a"; "b"]] /\
                   map (count_listing (prune prs2)) [key "c"; key "a"; key "b"; key "z"] = [1; 1; 1; 0]).
Proof. split; [vm_compute; reflexivity|]. eexists. eexists. vm_compute. repeat split; reflexivity. Qed.
