(* Property C10 — finalizer: added first, honoured on deletion, removed only when
   finalized.  Statements about Model/Composite.v sync_finalizer, call_hook,
   sync_parent_object, finish_sync for every answer function. *)
From MC Require Import Generated Model.Composite Model.TracePreds Model.Safe Proofs.SafeLemmas Proofs.C11Proofs Proofs.C10Proofs.

Theorem C10_no_call_when_deleting :
  forall (c : ccfg) (parent : json),
         is_deleting parent = true ->
         has_finalizer parent (finalizer_name c) = false \/ has_finalize c = true ->
         sync_finalizer c parent = Ret (ROk parent).
Proof. exact (@C10_no_call_when_deleting). Qed.
Print Assumptions C10_no_call_when_deleting.

Theorem C10_never_added_when_deleting :
  forall (G : call -> answer -> Prop) (c : ccfg) (parent : json) (h : hist),
         is_deleting parent = true ->
         safe G
           (fun (_ : hist) (cl : call) =>
            forall q : req,
            cl = CApi q -> q_verb q = VUpdate -> has_finalizer (q_body q) (finalizer_name c) = false) h
           (sync_finalizer c parent).
Proof. exact (@C10_never_added_when_deleting). Qed.
Print Assumptions C10_never_added_when_deleting.

Theorem C10_added_only_when_missing :
  forall (G : call -> answer -> Prop) (c : ccfg) (parent : json) (h : hist),
         safe G
           (fun (h0 : hist) (cl : call) =>
            forall q : req,
            cl = CApi q ->
            q_verb q = VUpdate ->
            has_finalizer (q_body q) (finalizer_name c) = true ->
            is_deleting parent = false /\
            has_finalize c = true /\
            (exists (cur : json) (rest : list (call * answer)),
               h0 = (status_get c parent, AObj cur) :: rest /\
               get_uid cur = get_uid parent /\ has_finalizer cur (finalizer_name c) = false)) h
           (sync_finalizer c parent).
Proof. exact (@C10_added_only_when_missing). Qed.
Print Assumptions C10_added_only_when_missing.

Theorem C10_hook_choice :
  forall (G : call -> answer -> Prop) (c : ccfg) (parent : json) (observed related : umap) (h : hist),
         safe G
           (fun (_ : hist) (cl : call) =>
            exists body : json,
              cl = CHook (if want_finalize c parent then HFinalize else HSync) body /\
              jget "finalizing" (obj_map body) = JBool (want_finalize c parent) /\
              jget "parent" (obj_map body) = parent) h (call_hook c parent observed related).
Proof. exact (@C10_hook_choice). Qed.
Print Assumptions C10_hook_choice.

Theorem C10_hook_kind_iff :
  forall (c : ccfg) (parent : json) (hk : hook_kind) (body : json),
         (exists body' : json,
            CHook hk body = CHook (if want_finalize c parent then HFinalize else HSync) body') ->
         hk = HFinalize <-> want_finalize c parent = true.
Proof. exact (@C10_hook_kind_iff). Qed.
Print Assumptions C10_hook_kind_iff.

Theorem C10_finalizer_before_child :
  forall (c : ccfg) (k : cache) (parent : json),
         has_finalize c = true ->
         get_uid parent <> "" ->
         forall h : hist, safe (G10 c parent) (C10_phi c parent) h (sync_parent_object c k parent).
Proof. exact (@C10_finalizer_before_child). Qed.
Print Assumptions C10_finalizer_before_child.

Theorem C10_needs_deletion_monotone :
  exists (c : ccfg) (k : cache) (parent : json),
           has_finalize c = true /\
           get_uid parent <> "" /\ ~ safe sane (C10_phi c parent) [] (sync_parent_object c k parent).
Proof. exact (@C10_needs_deletion_monotone). Qed.
Print Assumptions C10_needs_deletion_monotone.

Theorem C10_strict_reading_fails_on_stale_cache :
  let c := C10Counterexample.cfg in
         let parent := C10Counterexample.parent2 in
         let e := C10Counterexample.e2 in
         (forall (h : list (call * answer)) (cl : call), G10 c parent cl (e h cl)) /\
         forallb (fun hc : hist * call => negb (is_create_b (snd hc)) || strict_b c parent (fst hc))
           (calls_with_history (fst (run (sync_parent_object c C10Counterexample.k2 parent) e []))) = false /\
         forallb (fun hc : hist * call => negb (is_create_b (snd hc)) || W_b c parent (fst hc))
           (calls_with_history (fst (run (sync_parent_object c C10Counterexample.k2 parent) e []))) = true.
Proof. exact (@C10_strict_reading_fails_on_stale_cache). Qed.
Print Assumptions C10_strict_reading_fails_on_stale_cache.

Theorem C10_removed_only_after_finalized :
  (forall (G : call -> answer -> Prop) (c : ccfg) (parent : json) (h : hist),
          safe G
            (fun (h0 : hist) (cl : call) =>
             forall q : req,
             cl = CApi q ->
             q_verb q = VUpdate ->
             forall (cur : json) (rest : list (call * answer)),
             h0 = (status_get c parent, AObj cur) :: rest ->
             has_finalizer cur (finalizer_name c) = true ->
             has_finalizer (q_body q) (finalizer_name c) = false -> has_finalize c = false) h
            (sync_finalizer c parent)) *
         (forall (c : ccfg) (parent : json) (observed : umap) (r : hook_resp) (e : env)
            (h : list (call * answer)),
          hr_finalized r = false ->
          run (finish_sync c parent observed r) e h =
          run
            match desired_map (hr_children r) [] with
            | Some desired0 =>
                ' _ <~ (if positive_number (hr_resync r) then note "resync" (hr_resync r) else Ret tt);;
                match make_selector c parent with
                | Some sel =>
                    match enforce_labels c parent sel (uobjects desired0) with
                    | Some ds => after_labels c parent observed r ds
                    | None => Ret SErr
                    end
                | None => Ret SErr
                end
            | None => Ret SPanic
            end e h) *
         (forall (c : ccfg) (parent st : json) (h : hist) (cl : call),
          C11_phi c parent st h cl ->
          forall q : req,
          cl = CApi q ->
          q_verb q <> VGet ->
          exists (cur : json) (rest : list (call * answer)),
            h = (status_get c parent, AObj cur) :: rest /\
            get_finalizers (q_body q) = get_finalizers (JObj (obj_map cur))) *
         (forall (G : call -> answer -> Prop) (c : ccfg) (k : cache) (p : json) (h : hist),
          safe G
            (fun (h0 : hist) (cl : call) =>
             forall q : req,
             cl = CApi q ->
             q_verb q = VUpdate ->
             exists (getc : call) (cur : json) (rest : list (call * answer)),
               h0 = (getc, AObj cur) :: rest /\ get_finalizers (q_body q) = get_finalizers cur) h
            (claim_children c k p)).
Proof. exact (@C10_removed_only_after_finalized). Qed.
Print Assumptions C10_removed_only_after_finalized.

Theorem C10_sync_finalizer_removes_only_without_hook :
  forall (G : call -> answer -> Prop) (c : ccfg) (parent : json) (h : hist),
         safe G
           (fun (h0 : hist) (cl : call) =>
            forall q : req,
            cl = CApi q ->
            q_verb q = VUpdate ->
            forall (cur : json) (rest : list (call * answer)),
            h0 = (status_get c parent, AObj cur) :: rest ->
            has_finalizer cur (finalizer_name c) = true ->
            has_finalizer (q_body q) (finalizer_name c) = false -> has_finalize c = false) h
           (sync_finalizer c parent).
Proof. exact (@C10_sync_finalizer_removes_only_without_hook). Qed.
Print Assumptions C10_sync_finalizer_removes_only_without_hook.

Theorem C10_finish_no_removal_unless_finalized :
  forall (c : ccfg) (parent : json) (observed : umap) (r : hook_resp) (e : env)
           (h : list (call * answer)),
         hr_finalized r = false ->
         run (finish_sync c parent observed r) e h =
         run
           match desired_map (hr_children r) [] with
           | Some desired0 =>
               ' _ <~ (if positive_number (hr_resync r) then note "resync" (hr_resync r) else Ret tt);;
               match make_selector c parent with
               | Some sel =>
                   match enforce_labels c parent sel (uobjects desired0) with
                   | Some ds => after_labels c parent observed r ds
                   | None => Ret SErr
                   end
               | None => Ret SErr
               end
           | None => Ret SPanic
           end e h.
Proof. exact (@C10_finish_no_removal_unless_finalized). Qed.
Print Assumptions C10_finish_no_removal_unless_finalized.

From MC Require Import Model.Decorator Model.DecoratorPreds Proofs.C16Proofs Proofs.DecoratorLegs.

(* ---- C10 on the decorator (Model/Decorator.v sync_d; pkg/controller/decorator/{controller.go,hooks.go},
   pkg/controller/common/finalizer/finalizer.go), for every answer function ---- *)

(* (a) which hook is called and what it is told: the clause of DecoratorPreds.C10d_round *)
Theorem C10d_hook_choice :
  forall (c : dcfg) (k : dcache), all_calls (C10d_hook_choice_ok c) (sync_d c k).
Proof. exact (@DecoratorLegs.C10d_hook_choice). Qed.
Print Assumptions C10d_hook_choice.

Theorem C10d_hook_choice_iff :
  forall (c : dcfg) (hk : hook_kind) (body : json),
    C10d_hook_choice_ok c (CHook hk body) ->
    let sent := jget "object" (obj_map body) in
    (hk = HFinalize /\ jget "finalizing" (obj_map body) = JBool true /\
     dc_has_finalize c = true /\ (is_deleting sent = true \/ d_matches c sent = false)) \/
    (hk = HSync /\ jget "finalizing" (obj_map body) = JBool false /\
     (dc_has_finalize c = false \/ (is_deleting sent = false /\ d_matches c sent = true))).
Proof. exact (@DecoratorLegs.C10d_hook_choice_iff). Qed.
Print Assumptions C10d_hook_choice_iff.

Theorem C10d_no_finalize_hook_always_sync :
  forall (c : dcfg) (k : dcache),
    dc_has_finalize c = false ->
    all_calls (fun cl => forall hk body, cl = CHook hk body ->
                 hk = HSync /\ jget "finalizing" (obj_map body) = JBool false) (sync_d c k).
Proof. exact (@DecoratorLegs.C10d_no_finalize_hook_always_sync). Qed.
Print Assumptions C10d_no_finalize_hook_always_sync.

(* the classification of every call of a sync, with the history that preceded it: a call of the
   finalizer phase (fin_phase_call), the hook call (hook_phase_call), or a call after an accepted
   answer (after_hook_call) *)
Theorem C10d_sync_legs :
  forall (c : dcfg) (k : dcache) (t : json) (rl : drule),
    target_of c k = Some t -> client_rule c t = Some rl ->
    forall G : call -> answer -> Prop, safe G (leg_phi c k t rl) [] (sync_d c k).
Proof. exact (@DecoratorLegs.C10d_sync_legs). Qed.
Print Assumptions C10d_sync_legs.

(* (b) adding: never for a cached target pending deletion, never without a finalize hook, only for a
   selected target, on a fresh read that lacks it, and before any hook call or attachment write *)
Theorem C10d_finalizer_added :
  forall (c : dcfg) (k : dcache) (t : json) (rl : drule) (h : hist) (cl : call),
    leg_phi c k t rl h cl -> C10d_added_ok c k t rl h cl.
Proof. exact (@DecoratorLegs.C10d_finalizer_added). Qed.
Print Assumptions C10d_finalizer_added.

(* (c) removing: in the finalizer phase only without a finalize hook; later only after finalized = true *)
Theorem C10d_finalizer_removed :
  forall (c : dcfg) (k : dcache) (t : json) (rl : drule) (h : hist) (cl : call),
    leg_phi c k t rl h cl -> C10d_removed_ok c k t rl h cl.
Proof. exact (@DecoratorLegs.C10d_finalizer_removed). Qed.
Print Assumptions C10d_finalizer_removed.

Theorem C10d_leftover_removed_first :
  forall (c : dcfg) (k : dcache) (t : json) (rl : drule) (h : hist) (cl : call),
    leg_phi c k t rl h cl -> C10d_leftover_ok c t rl h cl.
Proof. exact (@DecoratorLegs.C10d_leftover_removed_first). Qed.
Print Assumptions C10d_leftover_removed_first.

(* (d) pending deletion without finalize duty: no attachment request after the hook *)
Theorem C10d_handoff :
  forall (c : dcfg) (k : dcache) (t : json) (rl : drule) (h : hist) (cl : call),
    leg_phi c k t rl h cl -> C10d_handoff_ok c rl h cl.
Proof. exact (@DecoratorLegs.C10d_handoff). Qed.
Print Assumptions C10d_handoff.

(* (b) (c) (d) together, for a whole sync in every environment *)
Theorem C10d_finalizer_discipline :
  forall (G : call -> answer -> Prop) (c : dcfg) (k : dcache) (t : json) (rl : drule),
    target_of c k = Some t -> client_rule c t = Some rl ->
    safe G (C10d_discipline c k t rl) [] (sync_d c k).
Proof. exact (@DecoratorLegs.C10d_finalizer_discipline). Qed.
Print Assumptions C10d_finalizer_discipline.

Theorem C10d_finalizer_discipline_run :
  forall (c : dcfg) (k : dcache) (t : json) (rl : drule) (e : env),
    target_of c k = Some t -> client_rule c t = Some rl ->
    Forall (fun hc : hist * call => C10d_discipline c k t rl (fst hc) (snd hc))
           (calls_with_history (fst (run (sync_d c k) e []))).
Proof. exact (@DecoratorLegs.C10d_finalizer_discipline_run). Qed.
Print Assumptions C10d_finalizer_discipline_run.

Theorem C10d_no_target_no_call :
  forall (c : dcfg) (k : dcache),
    (target_of c k = None \/ exists t, target_of c k = Some t /\ client_rule c t = None) ->
    exists r, sync_d c k = Ret r.
Proof. exact (@DecoratorLegs.C10d_no_target_no_call). Qed.
Print Assumptions C10d_no_target_no_call.

(* under a sane API server the object handed to the hook has the key of the cached target: the
   target_put requests of the clauses above address the target *)
Theorem C10d_handed_same_key :
  forall (c : dcfg) (t : json) (rl : drule) (h : hist) (sent : json),
    handed c t rl h sent -> (forall ca, In ca h -> sane (fst ca) (snd ca)) -> same_key rl t sent.
Proof. exact (@DecoratorLegs.handed_same_key). Qed.
Print Assumptions C10d_handed_same_key.

(* the hypotheses are met by a concrete target; every clause is exercised by a concrete run *)
Example C10d_hypotheses_met :
  target_of (LegsEx.cfg true) (LegsEx.cache LegsEx.alive [LegsEx.owned]) = Some LegsEx.alive /\
  client_rule (LegsEx.cfg true) LegsEx.alive = Some LegsEx.rule /\
  d_ignores (LegsEx.cfg true) LegsEx.alive = false.
Proof. vm_compute. repeat split. Qed.

Example C10d_run_add :
  LegsEx.tags (LegsEx.cfg true) (LegsEx.cache LegsEx.alive []) (LegsEx.env_of LegsEx.alive (LegsEx.answer_ok false)) =
  ["get pods.v1"; "update pods.v1"; "hook:sync"; "update pods.v1"; "create configmaps.v1"].
Proof. vm_compute. reflexivity. Qed.

Example C10d_run_finalize :
  LegsEx.tags (LegsEx.cfg true) (LegsEx.cache LegsEx.finalizing_pod [])
              (LegsEx.env_of LegsEx.finalizing_pod (LegsEx.answer_ok true)) =
  ["hook:finalize"; "update pods.v1"; "create configmaps.v1"].
Proof. vm_compute. reflexivity. Qed.

Example C10d_run_leftover :
  LegsEx.tags (LegsEx.cfg false) (LegsEx.cache LegsEx.leftover []) (LegsEx.env_of LegsEx.leftover (LegsEx.answer_ok false)) =
  ["get pods.v1"; "update pods.v1"; "hook:sync"; "update pods.v1"; "create configmaps.v1"].
Proof. vm_compute. reflexivity. Qed.

Example C10d_run_handoff :
  let gone := LegsEx.pod LegsEx.selected LegsEx.dying in
  LegsEx.tags (LegsEx.cfg true) (LegsEx.cache gone [LegsEx.owned]) (LegsEx.env_of gone (LegsEx.answer_ok false)) =
    ["hook:finalize"; "update pods.v1"] /\
  should_finalize_d (LegsEx.cfg true) gone = false /\ is_deleting gone = true.
Proof. vm_compute. repeat split. Qed.

(* (b) speaks about the cached target: with a stale cache the add-finalizer update is sent on top of a
   live read that is pending deletion already; refusing it is the API server's job *)
Example C10d_never_added_when_live_deleting_refuted :
  let live := LegsEx.pod LegsEx.selected LegsEx.dying in
  let k := LegsEx.cache LegsEx.alive [] in
  let tr := trace_of (sync_d (LegsEx.cfg true) k) (LegsEx.env_of live (LegsEx.answer_ok false)) in
  is_deleting LegsEx.alive = false /\ is_deleting live = true /\
  existsb (fun ca => match ca with
                     | (CApi q, _) => verb_eqb (q_verb q) VUpdate && is_deleting (q_body q) &&
                                      has_finalizer (q_body q) LegsEx.fin_name
                     | _ => false end) tr = true.
Proof. exact (@DecoratorLegs.LegsEx.C10d_never_added_when_live_deleting_refuted). Qed.
