(* Property C10 — finalizer: added first, honoured on deletion, removed only when
   finalized.  Statements about Model/Composite.v sync_finalizer, call_hook,
   sync_parent_object, finish_sync for every answer function. *)
From MC Require Import Generated Model.Composite Model.TracePreds Model.Safe Proofs.SafeLemmas Proofs.C11Proofs Proofs.C10Proofs.

Theorem C10_no_call_when_deleting :
  forall (c : ccfg) (parent : json),
         is_deleting parent = true ->
         has_finalizer parent (finalizer_name c) = false \/ has_finalize c = true ->
         sync_finalizer c parent = Ret (ROk parent).
Proof. exact (@C10_no_call_when_deleting). Qed.
Print Assumptions C10_no_call_when_deleting.

Theorem C10_never_added_when_deleting :
  forall (G : call -> answer -> Prop) (c : ccfg) (parent : json) (h : hist),
         is_deleting parent = true ->
         safe G
           (fun (_ : hist) (cl : call) =>
            forall q : req,
            cl = CApi q -> q_verb q = VUpdate -> has_finalizer (q_body q) (finalizer_name c) = false) h
           (sync_finalizer c parent).
Proof. exact (@C10_never_added_when_deleting). Qed.
Print Assumptions C10_never_added_when_deleting.

Theorem C10_added_only_when_missing :
  forall (G : call -> answer -> Prop) (c : ccfg) (parent : json) (h : hist),
         safe G
           (fun (h0 : hist) (cl : call) =>
            forall q : req,
            cl = CApi q ->
            q_verb q = VUpdate ->
            has_finalizer (q_body q) (finalizer_name c) = true ->
            is_deleting parent = false /\
            has_finalize c = true /\
            (exists (cur : json) (rest : list (call * answer)),
               h0 = (status_get c parent, AObj cur) :: rest /\
               get_uid cur = get_uid parent /\ has_finalizer cur (finalizer_name c) = false)) h
           (sync_finalizer c parent).
Proof. exact (@C10_added_only_when_missing). Qed.
Print Assumptions C10_added_only_when_missing.

Theorem C10_hook_choice :
  forall (G : call -> answer -> Prop) (c : ccfg) (parent : json) (observed related : umap) (h : hist),
         safe G
           (fun (_ : hist) (cl : call) =>
            exists body : json,
              cl = CHook (if want_finalize c parent then HFinalize else HSync) body /\
              jget "finalizing" (obj_map body) = JBool (want_finalize c parent) /\
              jget "parent" (obj_map body) = parent) h (call_hook c parent observed related).
Proof. exact (@C10_hook_choice). Qed.
Print Assumptions C10_hook_choice.

Theorem C10_hook_kind_iff :
  forall (c : ccfg) (parent : json) (hk : hook_kind) (body : json),
         (exists body' : json,
            CHook hk body = CHook (if want_finalize c parent then HFinalize else HSync) body') ->
         hk = HFinalize <-> want_finalize c parent = true.
Proof. exact (@C10_hook_kind_iff). Qed.
Print Assumptions C10_hook_kind_iff.

Theorem C10_finalizer_before_child :
  forall (c : ccfg) (k : cache) (parent : json),
         has_finalize c = true ->
         get_uid parent <> "" ->
         forall h : hist, safe (G10 c parent) (C10_phi c parent) h (sync_parent_object c k parent).
Proof. exact (@C10_finalizer_before_child). Qed.
Print Assumptions C10_finalizer_before_child.

Theorem C10_needs_deletion_monotone :
  exists (c : ccfg) (k : cache) (parent : json),
           has_finalize c = true /\
           get_uid parent <> "" /\ ~ safe sane (C10_phi c parent) [] (sync_parent_object c k parent).
Proof. exact (@C10_needs_deletion_monotone). Qed.
Print Assumptions C10_needs_deletion_monotone.

Theorem C10_strict_reading_fails_on_stale_cache :
  let c := C10Counterexample.cfg in
         let parent := C10Counterexample.parent2 in
         let e := C10Counterexample.e2 in
         (forall (h : list (call * answer)) (cl : call), G10 c parent cl (e h cl)) /\
         forallb (fun hc : hist * call => negb (is_create_b (snd hc)) || strict_b c parent (fst hc))
           (calls_with_history (fst (run (sync_parent_object c C10Counterexample.k2 parent) e []))) = false /\
         forallb (fun hc : hist * call => negb (is_create_b (snd hc)) || W_b c parent (fst hc))
           (calls_with_history (fst (run (sync_parent_object c C10Counterexample.k2 parent) e []))) = true.
Proof. exact (@C10_strict_reading_fails_on_stale_cache). Qed.
Print Assumptions C10_strict_reading_fails_on_stale_cache.

Theorem C10_removed_only_after_finalized :
  (forall (G : call -> answer -> Prop) (c : ccfg) (parent : json) (h : hist),
          safe G
            (fun (h0 : hist) (cl : call) =>
             forall q : req,
             cl = CApi q ->
             q_verb q = VUpdate ->
             forall (cur : json) (rest : list (call * answer)),
             h0 = (status_get c parent, AObj cur) :: rest ->
             has_finalizer cur (finalizer_name c) = true ->
             has_finalizer (q_body q) (finalizer_name c) = false -> has_finalize c = false) h
            (sync_finalizer c parent)) *
         (forall (c : ccfg) (parent : json) (observed : umap) (r : hook_resp) (e : env)
            (h : list (call * answer)),
          hr_finalized r = false ->
          run (finish_sync c parent observed r) e h =
          run
            match desired_map (hr_children r) [] with
            | Some desired0 =>
                ' _ <~ (if positive_number (hr_resync r) then note "resync" (hr_resync r) else Ret tt);;
                match make_selector c parent with
                | Some sel =>
                    match enforce_labels c parent sel (uobjects desired0) with
                    | Some ds => after_labels c parent observed r ds
                    | None => Ret SErr
                    end
                | None => Ret SErr
                end
            | None => Ret SPanic
            end e h) *
         (forall (c : ccfg) (parent st : json) (h : hist) (cl : call),
          C11_phi c parent st h cl ->
          forall q : req,
          cl = CApi q ->
          q_verb q <> VGet ->
          exists (cur : json) (rest : list (call * answer)),
            h = (status_get c parent, AObj cur) :: rest /\
            get_finalizers (q_body q) = get_finalizers (JObj (obj_map cur))) *
         (forall (G : call -> answer -> Prop) (c : ccfg) (k : cache) (p : json) (h : hist),
          safe G
            (fun (h0 : hist) (cl : call) =>
             forall q : req,
             cl = CApi q ->
             q_verb q = VUpdate ->
             exists (getc : call) (cur : json) (rest : list (call * answer)),
               h0 = (getc, AObj cur) :: rest /\ get_finalizers (q_body q) = get_finalizers cur) h
            (claim_children c k p)).
Proof. exact (@C10_removed_only_after_finalized). Qed.
Print Assumptions C10_removed_only_after_finalized.

Theorem C10_sync_finalizer_removes_only_without_hook :
  forall (G : call -> answer -> Prop) (c : ccfg) (parent : json) (h : hist),
         safe G
           (fun (h0 : hist) (cl : call) =>
            forall q : req,
            cl = CApi q ->
            q_verb q = VUpdate ->
            forall (cur : json) (rest : list (call * answer)),
            h0 = (status_get c parent, AObj cur) :: rest ->
            has_finalizer cur (finalizer_name c) = true ->
            has_finalizer (q_body q) (finalizer_name c) = false -> has_finalize c = false) h
           (sync_finalizer c parent).
Proof. exact (@C10_sync_finalizer_removes_only_without_hook). Qed.
Print Assumptions C10_sync_finalizer_removes_only_without_hook.

Theorem C10_finish_no_removal_unless_finalized :
  forall (c : ccfg) (parent : json) (observed : umap) (r : hook_resp) (e : env)
           (h : list (call * answer)),
         hr_finalized r = false ->
         run (finish_sync c parent observed r) e h =
         run
           match desired_map (hr_children r) [] with
           | Some desired0 =>
               ' _ <~ (if positive_number (hr_resync r) then note "resync" (hr_resync r) else Ret tt);;
               match make_selector c parent with
               | Some sel =>
                   match enforce_labels c parent sel (uobjects desired0) with
                   | Some ds => after_labels c parent observed r ds
                   | None => Ret SErr
                   end
               | None => Ret SErr
               end
           | None => Ret SPanic
           end e h.
Proof. exact (@C10_finish_no_removal_unless_finalized). Qed.
Print Assumptions C10_finish_no_removal_unless_finalized.

