(* Property C02 — only objects the parent controls are ever modified or deleted.
   Statements about every request Model/Composite.v sync can issue, whatever the
   API server and the hook answer (safe = for every answer function). *)
From MC Require Import Generated Model.Composite Model.TracePreds Model.Safe Proofs.SafeLemmas Proofs.C02Proofs Proofs.C02SSA.

Theorem C02_calls_partial :
  forall (c : ccfg) (k : cache) (parent : json),
         k_parent k = Some parent ->
         cfg_wf c = true ->
         cache_wf c k = true ->
         get_uid parent <> "" ->
         ssa c = false ->
         cache_names_ok c k = true ->
         safe sane_names (fun (_ : hist) (cl : call) => C02_call_ok c k parent cl = true) [] (sync c k).
Proof. exact (@C02_calls_partial). Qed.
Print Assumptions C02_calls_partial.

Theorem C02_strict :
  forall (c : ccfg) (k : cache) (parent : json),
         k_parent k = Some parent ->
         cfg_wf c = true ->
         cache_wf c k = true ->
         get_uid parent <> "" ->
         ssa c = false ->
         cache_names_ok c k = true ->
         safe sane_names (fun (_ : hist) (cl : call) => call_strict c k parent cl = true) [] (sync c k).
Proof. exact (@C02_strict). Qed.
Print Assumptions C02_strict.

Theorem C02_delete_guarded_sync :
  forall (c : ccfg) (k : cache) (parent : json) (q : req),
         call_strict c k parent (CApi q) = true ->
         q_verb q = VDelete ->
         q_uid_pre q <> "" /\
         q_prop q = "Background" /\
         (exists o : json,
            find_cached c k q = Some o /\
            q_uid_pre q = get_uid o /\ controlled_by o (get_uid parent) || is_orphan o = true).
Proof. exact (@C02_delete_guarded_sync). Qed.
Print Assumptions C02_delete_guarded_sync.

Theorem C02_create_owned_sync :
  forall (c : ccfg) (k : cache) (parent : json) (q : req),
         call_strict c k parent (CApi q) = true ->
         q_verb q = VCreate ->
         has_controller_ref_of (q_body q) (get_uid parent) = true \/ metadata_is_obj (q_body q) = false.
Proof. exact (@C02_create_owned_sync). Qed.
Print Assumptions C02_create_owned_sync.

Theorem C02_calls_refuted :
  exists (c : ccfg) (k : cache) (parent : json),
           k_parent k = Some parent /\
           cfg_wf c = true /\
           cache_wf c k = true /\
           get_uid parent <> "" /\
           ssa c = false /\
           cache_names_ok c k = true /\
           ~ safe sane (fun (_ : hist) (cl : call) => C02_call_ok c k parent cl = true) [] (sync c k).
Proof. exact (@C02_calls_counterexample). Qed.
Print Assumptions C02_calls_refuted.

Theorem C02_run_soundness :
  forall (R : Type) (G : call -> answer -> Prop) (Phi : hist -> call -> Prop) (e : env) (p : prog R),
         safe G Phi [] p ->
         (forall (h : list (call * answer)) (c : call), G c (e h c)) ->
         Forall (fun hc : hist * call => Phi (fst hc) (snd hc)) (calls_with_history (fst (run p e []))).
Proof. exact (@safe_run). Qed.
Print Assumptions C02_run_soundness.

(* ---- both apply strategies (server-side apply included): no `ssa c = false` hypothesis ---- *)
Theorem C02_calls_any_strategy :
  forall (c : ccfg) (k : cache) (parent : json),
         k_parent k = Some parent -> cfg_wf c = true -> cache_wf c k = true ->
         get_uid parent <> "" -> cache_names_ok c k = true ->
         safe sane_names (fun (_ : hist) (cl : call) => C02_call_ok c k parent cl = true) [] (sync c k).
Proof. exact (@C02_calls_any_strategy). Qed.
Print Assumptions C02_calls_any_strategy.

Theorem C02_calls_any_strategy_partial :
  forall (c : ccfg) (k : cache) (parent : json),
         k_parent k = Some parent -> cfg_wf c = true -> cache_wf c k = true ->
         get_uid parent <> "" -> cache_names_ok c k = true ->
         safe sane_names_meta (fun (_ : hist) (cl : call) => C02_call_ok c k parent cl = true) [] (sync c k).
Proof. exact (@C02_calls_any_strategy_partial). Qed.
Print Assumptions C02_calls_any_strategy_partial.

Theorem C02_strict_any_strategy :
  forall (c : ccfg) (k : cache) (parent : json),
         k_parent k = Some parent -> cfg_wf c = true -> cache_wf c k = true ->
         get_uid parent <> "" -> cache_names_ok c k = true ->
         safe sane_names (fun (_ : hist) (cl : call) => call_strict c k parent cl = true) [] (sync c k).
Proof. exact (@C02_strict_any_strategy). Qed.
Print Assumptions C02_strict_any_strategy.

Theorem C02_apply_owned :
  forall (c : ccfg) (k : cache) (parent : json) (q : req),
         C02_call_ok_esc c k parent (CApi q) = true -> q_verb q = VPatchApply ->
         targets_parent c parent q = false ->
         has_controller_ref_of (q_body q) (get_uid parent) = true \/ metadata_is_obj (q_body q) = false.
Proof. exact (@C02_apply_owned). Qed.
Print Assumptions C02_apply_owned.

Theorem C02_patch_guarded :
  forall (c : ccfg) (k : cache) (parent : json) (q : req),
         C02_call_ok c k parent (CApi q) = true -> q_verb q = VPatchJson ->
         targets_parent c parent q = false ->
         exists o : json, find_cached c k q = Some o /\ controlled_by o (get_uid parent) || is_orphan o = true.
Proof. exact (@C02_patch_guarded). Qed.
Print Assumptions C02_patch_guarded.

Example C02_any_strategy_hyps_sat :
  k_parent SSAExample.k0 = Some SSAExample.parent /\ cfg_wf SSAExample.cfg = true /\
  cache_wf SSAExample.cfg SSAExample.k0 = true /\ get_uid SSAExample.parent <> "" /\
  cache_names_ok SSAExample.cfg SSAExample.k0 = true /\ ssa SSAExample.cfg = true /\
  (forall (h : list (call * answer)) (cl : call), sane_names_meta cl (SSAExample.e0 h cl)).
Proof. exact C02_any_strategy_hyps_sat. Qed.

Example C02_any_strategy_run_verbs :
  SSAExample.verbs_of SSAExample.the_calls =
  [VGet; VGet; VUpdate; VDelete; VPatchJson; VPatchApply; VPatchApply; VPatchApply; VGet; VUpdateStatus]%list.
Proof. vm_compute. reflexivity. Qed.

(* ---- round 6 ---- *)
From MC Require Import Model.Rolling Proofs.C04Proofs Proofs.C09Proofs Proofs.Round3Proofs Proofs.Round6Proofs.

Theorem C02_manage_revisions_updates_only_claimed :
  forall (ns : string) (observed desired : list revision),
       all_calls
         (fun cl : call =>
          forall q : req,
          cl = CApi q ->
          q_verb q = VUpdate ->
          q_res q = rev_res /\
          q_ns q = ns /\
          (exists o d : revision,
             In o observed /\
             In d desired /\ rev_name o = rev_name d /\ q_name q = rev_name o /\ q_body q = json_of_revision d))
         (manage_revisions ns observed desired).
Proof. exact Round6Proofs.C02_manage_revisions_updates_only_claimed. Qed.
Print Assumptions C02_manage_revisions_updates_only_claimed.

Theorem C02_manage_revisions_updates_only_claimed_run :
  forall (ns : string) (observed desired : list revision) (e : env) (h post : list (call * answer))
         (q : req) (a : answer) (pre : list (call * answer)),
       fst (run (manage_revisions ns observed desired) e h) = (post ++ (CApi q, a) :: pre ++ h)%list ->
       q_verb q = VUpdate ->
       q_res q = rev_res /\
       q_ns q = ns /\
       (exists o d : revision,
          In o observed /\
          In d desired /\ rev_name o = rev_name d /\ q_name q = rev_name o /\ q_body q = json_of_revision d).
Proof. exact Round6Proofs.C02_manage_revisions_updates_only_claimed_run. Qed.
Print Assumptions C02_manage_revisions_updates_only_claimed_run.

Theorem C02_claim_revisions_claimed :
  forall (c : ccfg) (k : cache) (parent : json) (h0 : hist),
       hist_post (fun (_ : hist) (_ : call) => True)
         (fun (h : hist) (oc : option (list json)) =>
          forall claimed : list json, oc = Some claimed -> claimed_ok c parent (rev_candidates k parent) h0 h claimed)
         h0 (claim_revisions c k parent).
Proof. exact Round6Proofs.claim_revisions_claimed. Qed.
Print Assumptions C02_claim_revisions_claimed.

Theorem C02_revision_updates_in_rolling_sync :
  forall (c : ccfg) (k : cache) (parent : json) (observed related : umap) (h0 : hist),
       hist_post (C02_revision_update_phi c k parent h0) (fun (_ : hist) (_ : hook_result) => True) h0
         (sync_revisions_rolling c k parent observed related).
Proof. exact Round6Proofs.C02_revision_updates_in_rolling_sync. Qed.
Print Assumptions C02_revision_updates_in_rolling_sync.

Theorem C02_revision_write_in_run :
  forall (c : ccfg) (k : cache) (parent : json) (observed related : umap) (e : env)
         (h0 post : list (call * answer)) (q : req) (a : answer) (pre : list (call * answer)),
       fst (run (sync_revisions_rolling c k parent observed related) e h0) = (post ++ (CApi q, a) :: pre ++ h0)%list ->
       q_res q = rev_res ->
       q_verb q = VUpdate ->
       exists o : json,
         In o (rev_candidates k parent) /\
         q_name q = get_name o /\
         q_ns q = get_ns parent /\
         (controlled_by o (get_uid parent) = true \/
          controller_of o = None /\
          ((exists cur : json, q_body q = adopt_edit c parent cur /\ passed c parent pre) \/
           (exists cur x : json,
              get_uid cur = get_uid o /\ In (rev_put parent o (adopt_edit c parent cur), AObj x) pre))).
Proof. exact Round6Proofs.C02_revision_write_in_run. Qed.
Print Assumptions C02_revision_write_in_run.

Theorem C02_revision_write_inhabited :
  map (fun ca : call * answer => R3X.call_sig (fst ca))
         (trace_of (sync_revisions_rolling R3X.cfg R6X.k0 R3X.parent [] []) (R3X.e_ok R3X.parent false)) =
       [(VGet, R3X.P, "p"); (VGet, R3X.R, "p-old"); (VUpdate, R3X.R, "p-old"); (VGet, "hook", "");
        (VGet, "hook", ""); (VCreate, R3X.R, "p-new"); (VUpdate, R3X.R, "p-old")] /\
       In R3X.orphan (rev_candidates R6X.k0 R3X.parent) /\
       controller_of R3X.orphan = None /\
       get_name R3X.orphan = "p-old" /\
       result_of (claim_revisions R3X.cfg R6X.k0 R3X.parent) (R3X.e_ok R3X.parent false) = Some [R3X.orphan].
Proof. exact Round6Proofs.C02_revision_write_inhabited. Qed.
Print Assumptions C02_revision_write_inhabited.
