(* Property C02 — only objects the parent controls are ever modified or deleted.
   Statements about every request Model/Composite.v sync can issue, whatever the
   API server and the hook answer (safe = for every answer function). *)
From MC Require Import Generated Model.Composite Model.TracePreds Model.Safe Proofs.SafeLemmas Proofs.C02Proofs Proofs.C02SSA.

Theorem C02_calls_partial :
  forall (c : ccfg) (k : cache) (parent : json),
         k_parent k = Some parent ->
         cfg_wf c = true ->
         cache_wf c k = true ->
         get_uid parent <> "" ->
         ssa c = false ->
         cache_names_ok c k = true ->
         safe sane_names (fun (_ : hist) (cl : call) => C02_call_ok c k parent cl = true) [] (sync c k).
Proof. exact (@C02_calls_partial). Qed.
Print Assumptions C02_calls_partial.

Theorem C02_strict :
  forall (c : ccfg) (k : cache) (parent : json),
         k_parent k = Some parent ->
         cfg_wf c = true ->
         cache_wf c k = true ->
         get_uid parent <> "" ->
         ssa c = false ->
         cache_names_ok c k = true ->
         safe sane_names (fun (_ : hist) (cl : call) => call_strict c k parent cl = true) [] (sync c k).
Proof. exact (@C02_strict). Qed.
Print Assumptions C02_strict.

Theorem C02_delete_guarded_sync :
  forall (c : ccfg) (k : cache) (parent : json) (q : req),
         call_strict c k parent (CApi q) = true ->
         q_verb q = VDelete ->
         q_uid_pre q <> "" /\
         q_prop q = "Background" /\
         (exists o : json,
            find_cached c k q = Some o /\
            q_uid_pre q = get_uid o /\ controlled_by o (get_uid parent) || is_orphan o = true).
Proof. exact (@C02_delete_guarded_sync). Qed.
Print Assumptions C02_delete_guarded_sync.

Theorem C02_create_owned_sync :
  forall (c : ccfg) (k : cache) (parent : json) (q : req),
         call_strict c k parent (CApi q) = true ->
         q_verb q = VCreate ->
         has_controller_ref_of (q_body q) (get_uid parent) = true \/ metadata_is_obj (q_body q) = false.
Proof. exact (@C02_create_owned_sync). Qed.
Print Assumptions C02_create_owned_sync.

Theorem C02_calls_refuted :
  exists (c : ccfg) (k : cache) (parent : json),
           k_parent k = Some parent /\
           cfg_wf c = true /\
           cache_wf c k = true /\
           get_uid parent <> "" /\
           ssa c = false /\
           cache_names_ok c k = true /\
           ~ safe sane (fun (_ : hist) (cl : call) => C02_call_ok c k parent cl = true) [] (sync c k).
Proof. exact (@C02_calls_counterexample). Qed.
Print Assumptions C02_calls_refuted.

Theorem C02_run_soundness :
  forall (R : Type) (G : call -> answer -> Prop) (Phi : hist -> call -> Prop) (e : env) (p : prog R),
         safe G Phi [] p ->
         (forall (h : list (call * answer)) (c : call), G c (e h c)) ->
         Forall (fun hc : hist * call => Phi (fst hc) (snd hc)) (calls_with_history (fst (run p e []))).
Proof. exact (@safe_run). Qed.
Print Assumptions C02_run_soundness.

(* ---- both apply strategies (server-side apply included): no `ssa c = false` hypothesis ---- *)
Theorem C02_calls_any_strategy :
  forall (c : ccfg) (k : cache) (parent : json),
         k_parent k = Some parent -> cfg_wf c = true -> cache_wf c k = true ->
         get_uid parent <> "" -> cache_names_ok c k = true ->
         safe sane_names (fun (_ : hist) (cl : call) => C02_call_ok c k parent cl = true) [] (sync c k).
Proof. exact (@C02_calls_any_strategy). Qed.
Print Assumptions C02_calls_any_strategy.

Theorem C02_calls_any_strategy_partial :
  forall (c : ccfg) (k : cache) (parent : json),
         k_parent k = Some parent -> cfg_wf c = true -> cache_wf c k = true ->
         get_uid parent <> "" -> cache_names_ok c k = true ->
         safe sane_names_meta (fun (_ : hist) (cl : call) => C02_call_ok c k parent cl = true) [] (sync c k).
Proof. exact (@C02_calls_any_strategy_partial). Qed.
Print Assumptions C02_calls_any_strategy_partial.

Theorem C02_strict_any_strategy :
  forall (c : ccfg) (k : cache) (parent : json),
         k_parent k = Some parent -> cfg_wf c = true -> cache_wf c k = true ->
         get_uid parent <> "" -> cache_names_ok c k = true ->
         safe sane_names (fun (_ : hist) (cl : call) => call_strict c k parent cl = true) [] (sync c k).
Proof. exact (@C02_strict_any_strategy). Qed.
Print Assumptions C02_strict_any_strategy.

Theorem C02_apply_owned :
  forall (c : ccfg) (k : cache) (parent : json) (q : req),
         C02_call_ok_esc c k parent (CApi q) = true -> q_verb q = VPatchApply ->
         targets_parent c parent q = false ->
         has_controller_ref_of (q_body q) (get_uid parent) = true \/ metadata_is_obj (q_body q) = false.
Proof. exact (@C02_apply_owned). Qed.
Print Assumptions C02_apply_owned.

Theorem C02_patch_guarded :
  forall (c : ccfg) (k : cache) (parent : json) (q : req),
         C02_call_ok c k parent (CApi q) = true -> q_verb q = VPatchJson ->
         targets_parent c parent q = false ->
         exists o : json, find_cached c k q = Some o /\ controlled_by o (get_uid parent) || is_orphan o = true.
Proof. exact (@C02_patch_guarded). Qed.
Print Assumptions C02_patch_guarded.

Example C02_any_strategy_hyps_sat :
  k_parent SSAExample.k0 = Some SSAExample.parent /\ cfg_wf SSAExample.cfg = true /\
  cache_wf SSAExample.cfg SSAExample.k0 = true /\ get_uid SSAExample.parent <> "" /\
  cache_names_ok SSAExample.cfg SSAExample.k0 = true /\ ssa SSAExample.cfg = true /\
  (forall (h : list (call * answer)) (cl : call), sane_names_meta cl (SSAExample.e0 h cl)).
Proof. exact C02_any_strategy_hyps_sat. Qed.

Example C02_any_strategy_run_verbs :
  SSAExample.verbs_of SSAExample.the_calls =
  [VGet; VGet; VUpdate; VDelete; VPatchJson; VPatchApply; VPatchApply; VPatchApply; VGet; VUpdateStatus]%list.
Proof. vm_compute. reflexivity. Qed.
