(* Non-vacuity evidence for Properties/C12.v: a composite sync with one child to update,
   one to delete and one to create, run against servers and hooks that fail in various
   ways; the (long) hypothesis lists of C12_one_bad_child* met by that instance. *)
From MC Require Import Generated Model.Composite Model.TracePreds Model.Safe Model.Rolling Proofs.SafeLemmas Proofs.C04Proofs Proofs.C06Proofs Proofs.RollPanic Proofs.C13Proofs Proofs.C12Proofs.
Local Open Scope list_scope.

Module C12NV.
  Definition kid : child_cfg := mkChild "v1" "things" "Thing" true "InPlace".
  Definition cfg : ccfg :=
    mkCfg "cc" "ctl.example.com/v1" "Parent" "parents" true true true sel_everything [kid] true false
          [kid] false false [["spec"]] [].
  Definition parent : json :=
    JObj [("apiVersion", JStr "ctl.example.com/v1"); ("kind", JStr "Parent");
          ("metadata", JObj [("name", JStr "p"); ("namespace", JStr "ns"); ("uid", JStr "uid-p");
                             ("generation", JInt 2)]);
          ("spec", JObj [("replicas", JInt 2)])].
  Definition pref : json :=
    JObj [("apiVersion", JStr "ctl.example.com/v1"); ("blockOwnerDeletion", JBool true);
          ("controller", JBool true); ("kind", JStr "Parent"); ("name", JStr "p"); ("uid", JStr "uid-p")].
  Definition child (name uid : string) (x : Z) : json :=
    JObj [("apiVersion", JStr "v1"); ("kind", JStr "Thing");
          ("metadata", JObj [("name", JStr name); ("namespace", JStr "ns"); ("uid", JStr uid);
                             ("labels", JObj [("controller-uid", JStr "uid-p")]);
                             ("ownerReferences", JArr [pref])]);
          ("spec", JObj [("x", JInt x)])].
  Definition child_a := child "a" "uid-a" 1.     (* owned, differs from desired: updated *)
  Definition child_b := child "b" "uid-b" 1.     (* owned, no longer desired: deleted *)
  Definition desired (name : string) (x : Z) : json :=
    JObj [("apiVersion", JStr "v1"); ("kind", JStr "Thing");
          ("metadata", JObj [("name", JStr name); ("namespace", JStr "ns")]); ("spec", JObj [("x", JInt x)])].
  Definition k0 : cache := mkCache (Some parent) [("things.v1", [child_a; child_b])].
  Definition hook_body : json :=
    JObj [("status", JObj [("ready", JInt 1)]); ("children", JArr [desired "a" 2; desired "c" 3])].
  (* the server: the parent is served; writes to children are answered by [child_ans] *)
  Definition env_with (hook : answer) (child_ans : req -> answer) : env := fun _ cl =>
    match cl with
    | CHook _ _ => hook
    | CApi q => if String.eqb (q_res q) (p_res cfg)
                then match q_verb q with VGet => AObj parent | _ => AObj (q_body q) end
                else child_ans q
    end.
  Definition accept (q : req) : answer := match q_verb q with VDelete => AObj JNull | _ => AObj (q_body q) end.
  Definition e_ok : env := env_with (AHook hook_body) accept.
  Definition call_sig (cl : call) : verb * string * string :=
    match cl with CApi q => (q_verb q, q_res q, q_name q) | CHook _ _ => (VGet, "hook", "") end.
  Definition sigs {R} (p : prog R) (e : env) := map (fun ca => call_sig (fst ca)) (trace_of p e).
  Definition P := "parents.ctl.example.com/v1".
  Definition T := "things.v1".
  Definition child_writes {R} (p : prog R) (e : env) : nat :=
    List.length (filter (fun ca => match fst ca with
                                   | CApi q => String.eqb (q_res q) T && is_write q | _ => false end)
                        (trace_of p e)).
  Definition e_hard : env := env_with (AHook hook_body) (fun _ => AFail EOther).        (* every child write fails *)
  Definition e_benign : env :=                                                          (* the documented races *)
    env_with (AHook hook_body)
             (fun q => match q_verb q with
                       | VDelete => AFail ENotFound | VCreate => AFail EAlreadyExists | _ => AFail EConflict end).
  Definition e_429 : env := env_with (AHook429 7) accept.
  Definition e_all_fail : env := fun _ _ => AFail EOther.
  (* finish_sync's inputs on that instance *)
  Definition observed : umap := [("v1", "Thing", [("ns/a", child_a); ("ns/b", child_b)])].
  Definition r0 : hook_resp := mkHR (JObj [("ready", JInt 1)]) [Some (desired "a" 2); Some (desired "c" 3)] JNull false.
  Definition d0 : umap := match desired_map (hr_children r0) [] with Some m => m | None => [] end.
  Definition sel0 : selector := SelReqs [mkReq "controller-uid" OpIn ["uid-p"]].
  Definition ds0 : list json := match enforce_labels cfg parent sel0 (uobjects d0) with Some l => l | None => [] end.
  Definition dmap : umap := fold_left (fun (m : umap) (o : json) => uinsert o m) ds0 [].
  Definition gds : list (string * json) := match ufind_group "v1" "Thing" dmap with Some g => g | None => [] end.
  Definition d_c : json := match olookup "ns/c" gds with Some d => d | None => JNull end.
  Definition cl_c : call :=
    match request_of_action kid d_c
            (child_decision cfg kid parent
               (olookup "ns/c" match ufind_group "v1" "Thing" observed with Some o => o | None => [] end) d_c) with
    | Some cl => cl | None => CHook HCustomize JNull end.
End C12NV.
Import C12NV.

(* C12_requeue, C12_round_always_done: the queue operations of four concrete rounds *)
Example C12_round_ops_inhabited :
  round_ops "ns/p" cfg k0 e_ok = [("Forget", "ns/p"); ("Done", "ns/p")] /\
  round_ops "ns/p" cfg k0 e_hard = [("AddRateLimited", "ns/p"); ("Done", "ns/p")] /\
  round_ops "ns/p" cfg k0 e_429 = [("AddAfter", "ns/p"); ("Forget", "ns/p"); ("Done", "ns/p")] /\
  round_ops "ns/p" cfg k0 e_benign = [("Forget", "ns/p"); ("Done", "ns/p")] /\
  forallb (fun p => negb (readds (fst p))) (queue_ops "ns/p" SDone) = true.
Proof. vm_compute. repeat split; reflexivity. Qed.

(* C12_no_panic_on_fault, C12_status_always_attempted: hard failures on every child write give
   SErr, yet every child is attempted and the status is written; the benign races
   (NotFound on delete, Conflict on update, AlreadyExists on create) give SDone; a 429 from
   the hook a delayed requeue without any write; a server failing every request SErr *)
Example C12_fault_runs_inhabited :
  sigs (sync cfg k0) e_ok =
    [(VGet, "hook", ""); (VDelete, T, "b"); (VUpdate, T, "a"); (VCreate, T, "c"); (VGet, P, "p"); (VUpdateStatus, P, "p")] /\
  sigs (sync cfg k0) e_hard = sigs (sync cfg k0) e_ok /\ result_of (sync cfg k0) e_hard = SErr /\
  sigs (sync cfg k0) e_benign = sigs (sync cfg k0) e_ok /\ result_of (sync cfg k0) e_benign = SDone /\
  sigs (sync cfg k0) e_429 = [(VGet, "hook", "")] /\ result_of (sync cfg k0) e_429 = SRequeue 7 /\
  result_of (sync cfg k0) e_all_fail = SErr /\ result_of (sync_r cfg k0) e_all_fail = SErr /\
  result_of (sync_r cfg k0) e_hard = SErr /\ sigs (sync_r cfg k0) e_hard = sigs (sync cfg k0) e_ok.
Proof. vm_compute. repeat split; reflexivity. Qed.

(* C12_one_bad_child, C12_one_bad_child_trace: the ten hypotheses, for the create of c; on the
   run where every child write is rejected, that create is still sent (after the failed
   delete and update) and the status read follows it *)
Example C12_one_bad_child_inhabited :
  desired_map (hr_children r0) [] = Some d0 /\ hr_finalized r0 = false /\
  make_selector cfg parent = Some sel0 /\ enforce_labels cfg parent sel0 (uobjects d0) = Some ds0 /\
  negb (is_deleting parent) || should_finalize cfg parent = true /\ ssa cfg = false /\
  In ("v1", "Thing", gds) (fold_left (fun (m : umap) (o : json) => uinsert o m) ds0 []) /\
  lookup_kind cfg "v1" "Thing" = Some kid /\ In ("ns/c", d_c) gds /\
  request_of_action kid d_c
    (child_decision cfg kid parent
       (olookup "ns/c" match ufind_group "v1" "Thing" observed with Some o => o | None => [] end) d_c) = Some cl_c /\
  call_sig cl_c = (VCreate, T, "c") /\ List.length ds0 = 2 /\
  sigs (finish_sync cfg parent observed r0) e_hard =
    [(VDelete, T, "b"); (VUpdate, T, "a"); (VCreate, T, "c"); (VGet, P, "p"); (VUpdateStatus, P, "p")] /\
  nth 2 (map fst (trace_of (finish_sync cfg parent observed r0) e_hard)) (CHook HSync JNull) = cl_c /\
  nth 3 (map fst (trace_of (finish_sync cfg parent observed r0) e_hard)) (CHook HSync JNull) =
    C11Proofs.status_get cfg parent /\
  result_of (finish_sync cfg parent observed r0) e_hard = SErr.
Proof. vm_compute. repeat split; try reflexivity; auto. Qed.

(* C12_one_bad_child_delete: the ten hypotheses, for the stray child b *)
Example C12_one_bad_child_delete_inhabited :
  desired_map (hr_children r0) [] = Some d0 /\ hr_finalized r0 = false /\
  make_selector cfg parent = Some sel0 /\ enforce_labels cfg parent sel0 (uobjects d0) = Some ds0 /\
  negb (is_deleting parent) || should_finalize cfg parent = true /\
  In ("v1", "Thing", [("ns/a", child_a); ("ns/b", child_b)]) observed /\
  lookup_kind cfg "v1" "Thing" = Some kid /\ In ("ns/b", child_b) [("ns/a", child_a); ("ns/b", child_b)] /\
  is_deleting child_b = false /\
  olookup "ns/b"
    match ufind_group "v1" "Thing" (fold_left (fun (m : umap) (o0 : json) => uinsert o0 m) ds0 []) with
    | Some d => d | None => [] end = None /\
  delete_req_of kid child_b = mkRq VDelete T "ns" "b" JNull "uid-b" "Background" /\
  hd (CHook HSync JNull) (map fst (trace_of (finish_sync cfg parent observed r0) e_hard)) =
    CApi (delete_req_of kid child_b).
Proof. vm_compute. repeat split; try reflexivity; auto. Qed.
