(* Property C03 — the hook sees exactly the children the parent owns, in the
   documented shape.  Statements about Model/HookIO.v convert/relative_name/
   gvk_text/default_ns and Model/Composite.v claim_children
   (pkg/controller/common/api/{v1,v2}/common.go, api.go, composite/controller.go claimChildren). *)
From MC Require Import Generated Model.Composite Proofs.C03Proofs.

Theorem C03_one_entry_per_declared_resource :
  forall (pns : string) (m : umap),
         kinds_no_dot m = true -> NoDup (ukeys m) -> convert pns m = JObj (map (group_entry pns) m).
Proof. exact convert_has_every_group. Qed.
Print Assumptions C03_one_entry_per_declared_resource.

Theorem C03_one_entry_partial :
  forall (pns : string) (m : list group),
         nodup_str (map gvk_of m) = true -> convert pns m = JObj (map (group_entry pns) m).
Proof. exact convert_has_every_group_partial. Qed.
Print Assumptions C03_one_entry_partial.

Theorem C03_one_entry_counterexample :
  let m := [("c", "A.b", []); ("b.c", "A", [])] in
         NoDup (ukeys m) /\ convert "" m = JObj [("A.b.c", JObj [])].
Proof. exact convert_has_every_group_counterexample. Qed.
Print Assumptions C03_one_entry_counterexample.

Theorem C03_empty_group_present :
  forall (pns : string) (m : list group) (av kd : string),
         nodup_str (map gvk_of m) = true ->
         In (av, kd, []) m -> alookup (gvk_text av kd) (obj_map (convert pns m)) = Some (JObj []).
Proof. exact convert_empty_group_present. Qed.
Print Assumptions C03_empty_group_present.

Theorem C03_group_contents :
  forall (pns : string) (os : list (string * json)) (n : string) (o : json),
         NoDup (map (rel_key pns) (filter (seen pns) os)) ->
         alookup n (obj_map (convert_group pns os)) = Some o <->
         (exists key : string, In (key, o) os /\ relative_name pns o = n /\ (pns = "" \/ get_ns o = pns)).
Proof. exact convert_group_spec. Qed.
Print Assumptions C03_group_contents.

Theorem C03_relative_name :
  forall (pns : string) (o : json),
         relative_name pns o = get_ns o ++ "/" ++ get_name o <-> pns = "" /\ get_ns o <> "".
Proof. exact relative_name_spec. Qed.
Print Assumptions C03_relative_name.

Theorem C03_relative_name_else :
  forall (pns : string) (o : json), ~ (pns = "" /\ get_ns o <> "") -> relative_name pns o = get_name o.
Proof. exact relative_name_else. Qed.
Print Assumptions C03_relative_name_else.

Theorem C03_gvk_key :
  forall av kd : string, gvk_text av kd = kd ++ "." ++ av.
Proof. exact gvk_text_spec. Qed.
Print Assumptions C03_gvk_key.

Theorem C03_gvk_core :
  forall av kd : string,
         split_at slash av = None ->
         group_of av = "" /\ version_of av = av /\ gvk_text av kd = kd ++ "." ++ version_of av.
Proof. exact gvk_text_core. Qed.
Print Assumptions C03_gvk_core.

Theorem C03_gvk_group :
  forall av kd g v : string,
         split_at slash av = Some (g, v) ->
         group_of av = g /\ version_of av = v /\ gvk_text av kd = kd ++ "." ++ g ++ "/" ++ v.
Proof. exact gvk_text_group. Qed.
Print Assumptions C03_gvk_group.

Theorem C03_children_every_kind :
  forall (c : ccfg) (k : cache) (parent : json), post (observed_ok (kids c)) (claim_children c k parent).
Proof. exact claim_children_every_kind. Qed.
Print Assumptions C03_children_every_kind.

Theorem C03_children_on_wire :
  forall (c : ccfg) (k : cache) (parent : json) (e : env) (m : umap) (kc : child_cfg),
         result_of (claim_children c k parent) e = Some m ->
         kinds_no_dot m = true ->
         In kc (kids c) ->
         exists os : list (string * json),
           In (ch_api_version kc, ch_kind kc, os) m /\
           alookup (gvk_text (ch_api_version kc) (ch_kind kc)) (obj_map (convert (get_ns parent) m)) =
           Some (convert_group (get_ns parent) os).
Proof. exact claim_children_wire. Qed.
Print Assumptions C03_children_on_wire.

Theorem C03_only_claimed :
  forall (c : ccfg) (k : cache) (parent : json) (sel : selector),
         make_selector c parent = Some sel ->
         post (observed_only_claimed c k parent sel) (claim_children c k parent).
Proof. exact claim_children_only_claimed. Qed.
Print Assumptions C03_only_claimed.

Theorem C03_namespace_default :
  forall (pns : string) (o : json),
         get_ns o = "" ->
         pns <> "" ->
         meta_ok o = true ->
         exists (m : list (string * json)) (m' : amap),
           o = JObj m /\
           nested_set m ["metadata"; "namespace"] (JStr pns) = Some m' /\
           default_ns pns (Some o) = Some (JObj m') /\ get_ns (JObj m') = pns.
Proof. exact default_ns_sets. Qed.
Print Assumptions C03_namespace_default.

Theorem C03_namespace_kept :
  forall (pns : string) (o : json), get_ns o <> "" -> default_ns pns (Some o) = Some o.
Proof. exact default_ns_has_ns. Qed.
Print Assumptions C03_namespace_kept.

Theorem C03_namespace_default_partial :
  forall (pns : string) (o : json),
         ((get_ns o =? "") && negb (pns =? "") && meta_ok o = true ->
          exists o' : json, default_ns pns (Some o) = Some o' /\ get_ns o' = pns) /\
         ((get_ns o =? "") && negb (pns =? "") && meta_ok o = false ->
          negb ((get_ns o =? "") && (pns =? "")) = true -> default_ns pns (Some o) = Some o) /\
         ((get_ns o =? "") && (pns =? "") = true ->
          exists o' : json, default_ns pns (Some o) = Some o' /\ get_ns o' = "").
Proof. exact default_ns_spec_partial. Qed.
Print Assumptions C03_namespace_default_partial.

