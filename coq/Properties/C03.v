(* Property C03 — the hook sees exactly the children the parent owns, in the
   documented shape.  Statements about Model/HookIO.v convert/relative_name/
   gvk_text/default_ns and Model/Composite.v claim_children
   (pkg/controller/common/api/{v1,v2}/common.go, api.go, composite/controller.go claimChildren). *)
From MC Require Import Generated Model.Composite Proofs.C03Proofs.

Theorem C03_one_entry_per_declared_resource :
  forall (pns : string) (m : umap),
         kinds_no_dot m = true -> NoDup (ukeys m) -> convert pns m = JObj (map (group_entry pns) m).
Proof. exact convert_has_every_group. Qed.
Print Assumptions C03_one_entry_per_declared_resource.

Theorem C03_one_entry_partial :
  forall (pns : string) (m : list group),
         nodup_str (map gvk_of m) = true -> convert pns m = JObj (map (group_entry pns) m).
Proof. exact convert_has_every_group_partial. Qed.
Print Assumptions C03_one_entry_partial.

Theorem C03_one_entry_counterexample :
  let m := [("c", "A.b", []); ("b.c", "A", [])] in
         NoDup (ukeys m) /\ convert "" m = JObj [("A.b.c", JObj [])].
Proof. exact convert_has_every_group_counterexample. Qed.
Print Assumptions C03_one_entry_counterexample.

Theorem C03_empty_group_present :
  forall (pns : string) (m : list group) (av kd : string),
         nodup_str (map gvk_of m) = true ->
         In (av, kd, []) m -> alookup (gvk_text av kd) (obj_map (convert pns m)) = Some (JObj []).
Proof. exact convert_empty_group_present. Qed.
Print Assumptions C03_empty_group_present.

Theorem C03_group_contents :
  forall (pns : string) (os : list (string * json)) (n : string) (o : json),
         NoDup (map (rel_key pns) (filter (seen pns) os)) ->
         alookup n (obj_map (convert_group pns os)) = Some o <->
         (exists key : string, In (key, o) os /\ relative_name pns o = n /\ (pns = "" \/ get_ns o = pns)).
Proof. exact convert_group_spec. Qed.
Print Assumptions C03_group_contents.

Theorem C03_relative_name :
  forall (pns : string) (o : json),
         relative_name pns o = get_ns o ++ "/" ++ get_name o <-> pns = "" /\ get_ns o <> "".
Proof. exact relative_name_spec. Qed.
Print Assumptions C03_relative_name.

Theorem C03_relative_name_else :
  forall (pns : string) (o : json), ~ (pns = "" /\ get_ns o <> "") -> relative_name pns o = get_name o.
Proof. exact relative_name_else. Qed.
Print Assumptions C03_relative_name_else.

Theorem C03_gvk_key :
  forall av kd : string, gvk_text av kd = kd ++ "." ++ av.
Proof. exact gvk_text_spec. Qed.
Print Assumptions C03_gvk_key.

Theorem C03_gvk_core :
  forall av kd : string,
         split_at slash av = None ->
         group_of av = "" /\ version_of av = av /\ gvk_text av kd = kd ++ "." ++ version_of av.
Proof. exact gvk_text_core. Qed.
Print Assumptions C03_gvk_core.

Theorem C03_gvk_group :
  forall av kd g v : string,
         split_at slash av = Some (g, v) ->
         group_of av = g /\ version_of av = v /\ gvk_text av kd = kd ++ "." ++ g ++ "/" ++ v.
Proof. exact gvk_text_group. Qed.
Print Assumptions C03_gvk_group.

Theorem C03_children_every_kind :
  forall (c : ccfg) (k : cache) (parent : json), post (observed_ok (kids c)) (claim_children c k parent).
Proof. exact claim_children_every_kind. Qed.
Print Assumptions C03_children_every_kind.

Theorem C03_children_on_wire :
  forall (c : ccfg) (k : cache) (parent : json) (e : env) (m : umap) (kc : child_cfg),
         result_of (claim_children c k parent) e = Some m ->
         kinds_no_dot m = true ->
         In kc (kids c) ->
         exists os : list (string * json),
           In (ch_api_version kc, ch_kind kc, os) m /\
           alookup (gvk_text (ch_api_version kc) (ch_kind kc)) (obj_map (convert (get_ns parent) m)) =
           Some (convert_group (get_ns parent) os).
Proof. exact claim_children_wire. Qed.
Print Assumptions C03_children_on_wire.

Theorem C03_only_claimed :
  forall (c : ccfg) (k : cache) (parent : json) (sel : selector),
         make_selector c parent = Some sel ->
         post (observed_only_claimed c k parent sel) (claim_children c k parent).
Proof. exact claim_children_only_claimed. Qed.
Print Assumptions C03_only_claimed.

Theorem C03_namespace_default :
  forall (pns : string) (o : json),
         get_ns o = "" ->
         pns <> "" ->
         meta_ok o = true ->
         exists (m : list (string * json)) (m' : amap),
           o = JObj m /\
           nested_set m ["metadata"; "namespace"] (JStr pns) = Some m' /\
           default_ns pns (Some o) = Some (JObj m') /\ get_ns (JObj m') = pns.
Proof. exact default_ns_sets. Qed.
Print Assumptions C03_namespace_default.

Theorem C03_namespace_kept :
  forall (pns : string) (o : json), get_ns o <> "" -> default_ns pns (Some o) = Some o.
Proof. exact default_ns_has_ns. Qed.
Print Assumptions C03_namespace_kept.

Theorem C03_namespace_default_partial :
  forall (pns : string) (o : json),
         ((get_ns o =? "") && negb (pns =? "") && meta_ok o = true ->
          exists o' : json, default_ns pns (Some o) = Some o' /\ get_ns o' = pns) /\
         ((get_ns o =? "") && negb (pns =? "") && meta_ok o = false ->
          negb ((get_ns o =? "") && (pns =? "")) = true -> default_ns pns (Some o) = Some o) /\
         ((get_ns o =? "") && (pns =? "") = true ->
          exists o' : json, default_ns pns (Some o) = Some o' /\ get_ns o' = "").
Proof. exact default_ns_spec_partial. Qed.
Print Assumptions C03_namespace_default_partial.

From MC Require Import Model.Decorator Model.DecoratorPreds Proofs.DecoratorLegs.

(* ---- C03 on the decorator: what the hook is shown as attachments (Model/Decorator.v get_children_d,
   hook_request_d; pkg/controller/decorator/controller.go getChildren, hooks.go callHook).
   expected_attachments is the constant DecoratorPreds.C03d_round / C16_attachments_marker compare the
   implementation's hook requests with ---- *)
Theorem C03d_attachments_expected :
  forall (c : dcfg) (k : dcache) (sent : json),
    attachments_distinct c = true -> dcache_gvk_ok c k = true ->
    convert (get_ns sent) (get_children_d c k sent) = expected_attachments c k sent.
Proof. exact (@DecoratorLegs.C03d_attachments_expected). Qed.
Print Assumptions C03d_attachments_expected.

Theorem C03d_hook_sees_expected :
  forall (c : dcfg) (k : dcache),
    attachments_distinct c = true -> dcache_gvk_ok c k = true ->
    all_calls (C03d_hook_ok c k) (sync_d c k).
Proof. exact (@DecoratorLegs.C03d_hook_sees_expected). Qed.
Print Assumptions C03d_hook_sees_expected.

(* one group per declared attachment resource, in the declared order, present even when empty *)
Theorem C03d_groups :
  forall (c : dcfg) (k : dcache) (sent : json),
    attachments_distinct c = true ->
    expected_attachments c k sent =
    JObj (map (fun kc => (att_text kc, JObj (shown_group c k sent kc))) (dc_attachments c)).
Proof. exact (@DecoratorLegs.C03d_groups). Qed.
Print Assumptions C03d_groups.

Theorem C03d_group_lookup :
  forall (c : dcfg) (k : dcache) (sent : json) (key : string) (j : json),
    attachments_distinct c = true ->
    (alookup key (obj_map (expected_attachments c k sent)) = Some j <->
     exists kc, In kc (dc_attachments c) /\ key = att_text kc /\ j = JObj (shown_group c k sent kc)).
Proof. exact (@DecoratorLegs.C03d_group_lookup). Qed.
Print Assumptions C03d_group_lookup.

(* membership: exactly the cached objects of the kind that the target controls, that carry this
   decorator's marker and that are visible from the target's namespace, each under its relative name *)
Theorem C03d_membership :
  forall (c : dcfg) (k : dcache) (sent : json) (kc : child_cfg) (key : string) (o : json),
    nodup_str (map qualified_name (cached_d k (ch_res kc))) = true ->
    (In (key, o) (shown_group c k sent kc) <->
     In o (cached_d k (ch_res kc)) /\ controlled_by o (get_uid sent) = true /\ has_marker c o = true /\
     visible_d sent o = true /\ key = relative_name (get_ns sent) o).
Proof. exact (@DecoratorLegs.C03d_membership). Qed.
Print Assumptions C03d_membership.

Theorem C03d_membership_sound :
  forall (c : dcfg) (k : dcache) (sent : json) (kc : child_cfg) (key : string) (o : json),
    In (key, o) (shown_group c k sent kc) ->
    In o (cached_d k (ch_res kc)) /\ controlled_by o (get_uid sent) = true /\ has_marker c o = true /\
    visible_d sent o = true /\ key = relative_name (get_ns sent) o.
Proof. exact (@DecoratorLegs.C03d_membership_sound). Qed.
Print Assumptions C03d_membership_sound.

Theorem C03d_key :
  forall (sent o : json),
    (get_ns sent <> "" -> relative_name (get_ns sent) o = get_name o) /\
    (get_ns sent = "" -> get_ns o <> "" -> relative_name (get_ns sent) o = (get_ns o ++ "/" ++ get_name o)%string) /\
    (get_ns sent = "" -> get_ns o = "" -> relative_name (get_ns sent) o = get_name o).
Proof. exact (@DecoratorLegs.C03d_key). Qed.
Print Assumptions C03d_key.

Example C03d_hypotheses_met :
  attachments_distinct (LegsEx.cfg true) = true /\
  dcache_gvk_ok (LegsEx.cfg true) (LegsEx.cache LegsEx.alive LegsEx.children) = true /\
  dcache_names_distinct (LegsEx.cfg true) (LegsEx.cache LegsEx.alive LegsEx.children) = true.
Proof. vm_compute. repeat split. Qed.

Example C03d_shown_example :
  expected_attachments (LegsEx.cfg true) (LegsEx.cache LegsEx.alive LegsEx.children) LegsEx.alive =
    JObj [("ConfigMap.v1", JObj [("a", LegsEx.owned)])] /\
  expected_attachments (LegsEx.cfg true) (LegsEx.cache LegsEx.alive [LegsEx.unmarked; LegsEx.foreign]) LegsEx.alive =
    JObj [("ConfigMap.v1", JObj [])].
Proof. vm_compute. split; reflexivity. Qed.

(* the hypotheses are needed: an informer holding an object of another kind, two declared resources of
   one kind, two cached objects of one namespace/name *)
Example C03d_attachments_expected_refuted_gvk :
  let odd := LegsEx.cmap "Secret" "a" "ns1" "uid-t1" "deco" in
  let k := LegsEx.cache LegsEx.alive [odd] in
  attachments_distinct (LegsEx.cfg true) = true /\ dcache_gvk_ok (LegsEx.cfg true) k = false /\
  convert (get_ns LegsEx.alive) (get_children_d (LegsEx.cfg true) k LegsEx.alive) =
    JObj [("ConfigMap.v1", JObj []); ("Secret.v1", JObj [("a", odd)])] /\
  expected_attachments (LegsEx.cfg true) k LegsEx.alive = JObj [("ConfigMap.v1", JObj [("a", odd)])].
Proof. exact (@DecoratorLegs.LegsEx.C03d_attachments_expected_refuted_gvk). Qed.

Example C03d_attachments_expected_refuted_dup :
  let cm2 := mkChild "v1" "configmaps2" "ConfigMap" true "" in
  let c := mkDCfg "deco" [LegsEx.rule] [LegsEx.cm; cm2] true true [LegsEx.cm; cm2] in
  let k := mkDCache "v1:Pod:ns1:t1" [("pods.v1", [LegsEx.alive])] [("configmaps.v1", [LegsEx.owned]); ("configmaps2.v1", [])] in
  attachments_distinct c = false /\ dcache_gvk_ok c k = true /\
  convert (get_ns LegsEx.alive) (get_children_d c k LegsEx.alive) = JObj [("ConfigMap.v1", JObj [("a", LegsEx.owned)])] /\
  expected_attachments c k LegsEx.alive = JObj [("ConfigMap.v1", JObj [])].
Proof. exact (@DecoratorLegs.LegsEx.C03d_attachments_expected_refuted_dup). Qed.

Example C03d_membership_refuted :
  let twin := LegsEx.cmap "ConfigMap" "a" "ns1" "uid-t1" "deco" in
  let first := JObj (obj_map twin ++ [("data", JObj [("v", JStr "1")])])%list in
  let k := LegsEx.cache LegsEx.alive [first; twin] in
  dcache_names_distinct (LegsEx.cfg true) k = false /\
  is_attachment (LegsEx.cfg true) LegsEx.alive first = true /\ In first (cached_d k (ch_res LegsEx.cm)) /\
  shown_group (LegsEx.cfg true) k LegsEx.alive LegsEx.cm = [("a", twin)].
Proof. exact (@DecoratorLegs.LegsEx.C03d_membership_refuted). Qed.
