(* Property C12 - failures are retried, benign races tolerated, one bad child blocks nothing. Statements about Model/Composite.v and Model/Rolling.v. *)
From MC Require Import Generated Model.Composite Model.TracePreds Model.Safe Model.Rolling Proofs.SafeLemmas Proofs.C04Proofs Proofs.C06Proofs Proofs.RollPanic Proofs.C13Proofs Proofs.C12Proofs.

Theorem C12_requeue :
  forall key : string,
         (In ("AddRateLimited", key) (queue_ops key SErr) /\ ~ In ("Forget", key) (queue_ops key SErr)) /\
         (In ("Forget", key) (queue_ops key SDone) /\
          (forall op k' : string, In (op, k') (queue_ops key SDone) -> readds op = false)) /\
         (forall n : Z,
          In ("AddAfter", key) (queue_ops key (SRequeue n)) /\
          In ("Forget", key) (queue_ops key (SRequeue n)) /\
          ~ In ("AddRateLimited", key) (queue_ops key (SRequeue n))) /\
         (forall r : sync_result,
          exists pre : list (string * string),
            queue_ops key r = (pre ++ [("Done", key)])%list /\ (forall k' : string, ~ In ("Done", k') pre)) /\
         (forall (r : sync_result) (op k' : string), In (op, k') (queue_ops key r) -> k' = key).
Proof. exact (@C12_requeue). Qed.
Print Assumptions C12_requeue.

Theorem C12_round_always_done :
  forall (key : string) (c : ccfg) (k : cache) (e : env),
         exists pre : list (string * string),
           round_ops key c k e = (pre ++ [("Done", key)])%list /\
           (In ("AddRateLimited", key) pre \/ In ("Forget", key) pre).
Proof. exact (@C12_round_always_done). Qed.
Print Assumptions C12_round_always_done.

Theorem C12_no_panic_on_fault :
  forall (c : ccfg) (k : cache) (e : env),
         result_of (sync c k) e <> SPanic /\ result_of (sync_r c k) e <> SPanic.
Proof. exact (@C12_no_panic_on_fault). Qed.
Print Assumptions C12_no_panic_on_fault.

Theorem C12_one_bad_child :
  forall (c : ccfg) (parent : json) (observed : umap) (r : hook_resp) (d0 : umap) 
           (sel : selector) (ds : list json) (av kd : string) (gds : list (string * json)) 
           (kc : child_cfg) (key : string) (d : json) (cl : call),
         desired_map (hr_children r) [] = Some d0 ->
         hr_finalized r = false ->
         make_selector c parent = Some sel ->
         enforce_labels c parent sel (uobjects d0) = Some ds ->
         negb (is_deleting parent) || should_finalize c parent = true ->
         ssa c = false ->
         In (av, kd, gds) (fold_left (fun (m : umap) (o : json) => uinsert o m) ds []) ->
         lookup_kind c av kd = Some kc ->
         In (key, d) gds ->
         request_of_action kc d
           (child_decision c kc parent
              (olookup key match ufind_group av kd observed with
                           | Some o => o
                           | None => []
                           end) d) = Some cl ->
         always_then cl (C11Proofs.status_get c parent) (finish_sync c parent observed r).
Proof. exact (@C12_one_bad_child). Qed.
Print Assumptions C12_one_bad_child.

Theorem C12_one_bad_child_delete :
  forall (c : ccfg) (parent : json) (observed : list (string * string * list (string * json)))
           (r : hook_resp) (d0 : umap) (sel : selector) (ds : list json) (av kd : string)
           (os : list (string * json)) (kc : child_cfg) (key : string) (o : json),
         desired_map (hr_children r) [] = Some d0 ->
         hr_finalized r = false ->
         make_selector c parent = Some sel ->
         enforce_labels c parent sel (uobjects d0) = Some ds ->
         negb (is_deleting parent) || should_finalize c parent = true ->
         In (av, kd, os) observed ->
         lookup_kind c av kd = Some kc ->
         In (key, o) os ->
         is_deleting o = false ->
         olookup key
           match ufind_group av kd (fold_left (fun (m : umap) (o0 : json) => uinsert o0 m) ds []) with
           | Some d => d
           | None => []
           end = None ->
         always_then (CApi (delete_req_of kc o)) (C11Proofs.status_get c parent)
           (finish_sync c parent observed r).
Proof. exact (@C12_one_bad_child_delete). Qed.
Print Assumptions C12_one_bad_child_delete.

Theorem C12_one_bad_child_trace :
  forall (c : ccfg) (parent : json) (observed : umap) (r : hook_resp) (d0 : umap) 
           (sel : selector) (ds : list json) (av kd : string) (gds : list (string * json)) 
           (kc : child_cfg) (key : string) (d : json) (cl : call) (e : env),
         desired_map (hr_children r) [] = Some d0 ->
         hr_finalized r = false ->
         make_selector c parent = Some sel ->
         enforce_labels c parent sel (uobjects d0) = Some ds ->
         negb (is_deleting parent) || should_finalize c parent = true ->
         ssa c = false ->
         In (av, kd, gds) (fold_left (fun (m : umap) (o : json) => uinsert o m) ds []) ->
         lookup_kind c av kd = Some kc ->
         In (key, d) gds ->
         request_of_action kc d
           (child_decision c kc parent
              (olookup key match ufind_group av kd observed with
                           | Some o => o
                           | None => []
                           end) d) = Some cl ->
         exists (a1 a2 : answer) (l1 l2 l3 : list (call * answer)),
           trace_of (finish_sync c parent observed r) e =
           (l1 ++ (cl, a1) :: l2 ++ (C11Proofs.status_get c parent, a2) :: l3)%list.
Proof. exact (@C12_one_bad_child_trace). Qed.
Print Assumptions C12_one_bad_child_trace.

Theorem C12_status_always_attempted :
  forall (c : ccfg) (parent : json) (observed : umap) (r : hook_resp) (ds : list json),
         always_calls (C11Proofs.status_get c parent) (C11Proofs.after_labels c parent observed r ds).
Proof. exact (@C12_status_always_attempted). Qed.
Print Assumptions C12_status_always_attempted.

