(* Non-vacuity evidence for Properties/C04.v: concrete objects meeting the
   hypotheses of each conditional C04 theorem, with the conclusions computed. *)
From MC Require Import Generated Model.Composite Proofs.C04Proofs.
Local Open Scope list_scope.

Module C04NV.
  Definition kid : child_cfg := mkChild "v1" "things" "Thing" true "InPlace".
  (* generated selector (controller-uid) *)
  Definition cfg : ccfg :=
    mkCfg "cc" "ctl.example.com/v1" "Parent" "parents" true true true sel_everything [kid] true false
          [kid] false false [["spec"]] [].
  (* selector taken from the parent's spec.selector *)
  Definition cfg_sel : ccfg :=
    mkCfg "cc" "ctl.example.com/v1" "Parent" "parents" true true false sel_everything [kid] true false
          [kid] false false [["spec"]] [].
  Definition parent : json :=
    JObj [("apiVersion", JStr "ctl.example.com/v1"); ("kind", JStr "Parent");
          ("metadata", JObj [("name", JStr "p"); ("namespace", JStr "ns"); ("uid", JStr "uid-p")]);
          ("spec", JObj [("selector", JObj [("matchLabels", JObj [("app", JStr "web")])])])].
  Definition sel_app : selector := SelReqs [mkReq "app" OpIn ["web"]].
  Definition sel_uid : selector := SelReqs [mkReq "controller-uid" OpIn ["uid-p"]].
  Definition pref (uid : string) : json :=
    JObj [("apiVersion", JStr "ctl.example.com/v1"); ("blockOwnerDeletion", JBool true);
          ("controller", JBool true); ("kind", JStr "Parent"); ("name", JStr "p"); ("uid", JStr uid)].
  Definition plain_ref : json :=   (* a non-controller owner *)
    JObj [("apiVersion", JStr "v1"); ("kind", JStr "Other"); ("name", JStr "z"); ("uid", JStr "uid-z")].
  Definition child (name uid app : string) (owners : list json) (extra : list (string * json)) : json :=
    JObj [("apiVersion", JStr "v1"); ("kind", JStr "Thing");
          ("metadata", JObj ([("name", JStr name); ("namespace", JStr "ns"); ("uid", JStr uid);
                              ("labels", JObj [("app", JStr app)]);
                              ("ownerReferences", JArr owners)] ++ extra))].
  Definition ours_match   := child "a" "uid-a" "web" [plain_ref; pref "uid-p"] [].
  Definition ours_nomatch := child "b" "uid-b" "db" [pref "uid-p"] [].
  Definition foreign      := child "f" "uid-f" "web" [pref "uid-other"] [].
  Definition orphan       := child "o" "uid-o" "web" [plain_ref] [].
  Definition orphan2      := child "o2" "uid-o2" "web" [] [].
  Definition orphan_dying := child "d" "uid-d" "web" [] [("deletionTimestamp", JStr "2024-01-01T00:00:00Z")].
  Definition foreign_ref : oref := controller_ref "ctl.example.com/v1" "Parent" "p" "uid-other".
  Definition refs : list oref := get_owner_refs ours_match.       (* uid-z, uid-p *)
  Definition ours : oref := controller_ref "ctl.example.com/v1" "Parent" "p" "uid-p".

  (* the API server: live parent, children as cached *)
  Definition e0 : env := fun _ cl =>
    match cl with
    | CHook _ _ => AHookErr
    | CApi q => match q_verb q with
                | VGet => if String.eqb (q_name q) "p" then AObj parent
                          else match find (fun o => String.eqb (get_name o) (q_name q))
                                          [ours_match; ours_nomatch; orphan; orphan2] with
                               | Some o => AObj o | None => AFail ENotFound end
                | _ => AObj (q_body q)
                end
    end.

  Definition desired (name app : string) : json :=
    JObj [("apiVersion", JStr "v1"); ("kind", JStr "Thing");
          ("metadata", JObj [("name", JStr name); ("namespace", JStr "ns"); ("labels", JObj [("app", JStr app)])])].
  Definition desired_nolabels : json :=
    JObj [("apiVersion", JStr "v1"); ("kind", JStr "Thing");
          ("metadata", JObj [("name", JStr "n"); ("namespace", JStr "ns")])].
  Definition resp_bad : hook_resp := mkHR JNull [Some (desired "c" "web"); Some (desired "e" "db")] JNull false.
  Definition d0_bad : umap := [("v1", "Thing", [("ns/c", desired "c" "web"); ("ns/e", desired "e" "db")])].
End C04NV.
Import C04NV.

(* C04_claim_adopt_iff, C04_claim_release_iff, C04_claim_keep_iff: the right-hand
   sides are met by three different cached children, and the decisions computed *)
Example C04_claim_iff_inhabited :
  (controller_of orphan = None /\ sel_matches sel_app (get_labels orphan) = true /\ is_deleting orphan = false /\
   claim_decision "uid-p" false sel_app orphan = ClAdopt) /\
  (controlled_by ours_nomatch "uid-p" = true /\ sel_matches sel_app (get_labels ours_nomatch) = false /\
   claim_decision "uid-p" false sel_app ours_nomatch = ClRelease) /\
  (controlled_by ours_match "uid-p" = true /\ sel_matches sel_app (get_labels ours_match) = true /\
   claim_decision "uid-p" false sel_app ours_match = ClKeep) /\
  make_selector cfg_sel parent = Some sel_app.
Proof. vm_compute. repeat split; reflexivity. Qed.

(* C04_claim_never_steals, C04_other_controller_ignored, C04_parent_deleting_no_release,
   C04_parent_deleting_no_adopt, C04_orphan_deleting_ignored *)
Example C04_claim_ignore_inhabited :
  (controller_of foreign = Some foreign_ref /\ or_uid foreign_ref <> "uid-p" /\
   claim_decision "uid-p" false sel_app foreign = ClIgnore) /\
  (controlled_by ours_nomatch "uid-p" = true /\ sel_matches sel_app (get_labels ours_nomatch) = false /\
   claim_decision "uid-p" true sel_app ours_nomatch = ClIgnore) /\
  (controller_of orphan = None /\ claim_decision "uid-p" true sel_app orphan = ClIgnore) /\
  (controller_of orphan_dying = None /\ is_deleting orphan_dying = true /\
   sel_matches sel_app (get_labels orphan_dying) = true /\
   claim_decision "uid-p" false sel_app orphan_dying = ClIgnore).
Proof. vm_compute. repeat split; try reflexivity. discriminate. Qed.

(* C04_release_only_ours, C04_adopt_keeps_others, C04_adopt_contains_ours, C04_adopt_no_duplicate
   on the two owner references of a kept child *)
Example C04_owner_refs_inhabited :
  map or_uid refs = ["uid-z"; "uid-p"] /\ NoDup (map or_uid refs) /\
  map or_uid (remove_owner_ref refs "uid-p") = ["uid-z"] /\
  map or_uid (add_owner_ref refs ours) = ["uid-z"; "uid-p"] /\
  map or_uid (add_owner_ref (get_owner_refs orphan) ours) = ["uid-z"; "uid-p"] /\
  NoDup (map or_uid (get_owner_refs orphan)) /\
  In ours (add_owner_ref (get_owner_refs orphan) ours).
Proof.
  vm_compute. repeat split; try reflexivity.
  - repeat constructor; cbn; intuition discriminate.
  - repeat constructor; cbn; intuition discriminate.
  - right. left. reflexivity.
Qed.

(* C04_adopt_first_asks, C04_adopt_refused_no_call: the decision is ClAdopt; first call / refusal computed *)
Example C04_adopt_step_inhabited :
  decision parent sel_app orphan = ClAdopt /\
  (match claim_one cfg_sel kid parent sel_app (None, [ours_match], false) orphan with
   | Do cl _ => cl = parent_get cfg_sel parent | Ret _ => False end) /\
  claim_one cfg_sel kid parent sel_app (Some false, [ours_match], false) orphan = Ret (Some false, [ours_match], true).
Proof. vm_compute. repeat split; reflexivity. Qed.

(* C04_one_recheck_in_run (and the run behind C04_adopt_only_after_recheck): two orphans
   adopted and one child released in one pass; the live parent is read exactly once, first *)
Example C04_one_recheck_inhabited :
  let all := [ours_nomatch; orphan; ours_match; orphan2] in
  (forall o, In o all -> child_get kid o <> parent_get cfg_sel parent) /\
  map (fun ca => match fst ca with CApi q => (q_verb q, q_name q) | _ => (VGet, "hook") end)
      (trace_of (foldM (claim_one cfg_sel kid parent sel_app) all (None, [], false)) e0) =
    [(VGet, "b"); (VUpdate, "b");                    (* release *)
     (VGet, "p"); (VGet, "o"); (VUpdate, "o");       (* re-check, adopt *)
     (VGet, "o2"); (VUpdate, "o2")] /\               (* adopt without a second re-check *)
  (exists post a pre,
     fst (run (foldM (claim_one cfg_sel kid parent sel_app) all (None, [], false)) e0 []) =
       post ++ (parent_get cfg_sel parent, a) :: pre /\
     List.length post = 4 /\ List.length pre = 2) /\
  result_of (foldM (claim_one cfg_sel kid parent sel_app) all (None, [], false)) e0 =
    (Some true, [orphan; ours_match; orphan2], false).
Proof.
  cbv zeta. split.
  { intros o [<-|[<-|[<-|[<-|[]]]]]; vm_compute; discriminate. }
  split; [vm_compute; reflexivity|]. split; [|vm_compute; reflexivity].
  eexists (firstn 4 (fst (run (foldM (claim_one cfg_sel kid parent sel_app)
                                 [ours_nomatch; orphan; ours_match; orphan2] (None, [], false)) e0 []))),
          (AObj parent), _.
  vm_compute. repeat split; reflexivity.
Qed.

(* C04_label_invariant_partial (generated selector: the uid label is added) and
   C04_label_invariant_no_gen (selector from the parent: labels must already match) *)
Example C04_label_invariant_inhabited :
  (labels_settable cfg [desired "c" "web"; desired_nolabels] = true /\
   make_selector cfg parent = Some sel_uid /\
   match enforce_labels cfg parent sel_uid [desired "c" "web"; desired_nolabels] with
   | Some ds' => map get_labels ds' = [[("app", "web"); ("controller-uid", "uid-p")]; [("controller-uid", "uid-p")]]
   | None => False end) /\
  (gen_selector cfg_sel = false /\
   enforce_labels cfg_sel parent sel_app [desired "c" "web"] = Some [desired "c" "web"] /\
   sel_matches sel_app (get_labels (desired "c" "web")) = true).
Proof. vm_compute. repeat split; reflexivity. Qed.

(* C04_labels_rejected_no_writes: one desired child would be orphaned at once; nothing is sent *)
Example C04_labels_rejected_inhabited :
  hr_finalized resp_bad = false /\ desired_map (hr_children resp_bad) [] = Some d0_bad /\
  make_selector cfg_sel parent = Some sel_app /\
  enforce_labels cfg_sel parent sel_app (uobjects d0_bad) = None /\
  finish_sync cfg_sel parent [("v1", "Thing", [("ns/a", ours_match)])] resp_bad = Ret SErr.
Proof. vm_compute. repeat split; reflexivity. Qed.
