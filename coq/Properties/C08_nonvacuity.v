(* Non-vacuity evidence for Properties/C08.v: the same concrete rollout as in
   C07_nonvacuity.v (three children, revisions p-r1 -> p-r2); hypotheses of the
   conditional C08 theorems met by its states, conclusions computed. *)
From MC Require Import Generated Model.Composite Model.TracePreds Model.Safe Model.Rolling Proofs.SafeLemmas Proofs.C04Proofs Proofs.C06Proofs Proofs.RollGate Proofs.C07Proofs Proofs.RollClaims Proofs.RollMoves Proofs.C08Proofs.
Local Open Scope list_scope.

Module C08NV.
  (* One rolling child kind; the parent moved from spec.v = 1 (revision p-r1) to
     spec.v = 2 (revision p-r2).  The hook derives children a and b from v; child c
     does not depend on it.  Children are healthy when their Ready condition is True. *)
  Definition kid_m (m : string) : child_cfg := mkChild "v1" "things" "Thing" true m.
  Definition cfg_m (m : string) : ccfg :=
    mkCfg "cc" "ctl.example.com/v1" "Parent" "parents" true true true sel_everything [kid_m m] true false
          [kid_m m] false false [["spec"]] [("things.v1", [("Ready", Some "True", None)])].
  Definition kid := kid_m "RollingRecreate".
  Definition cfg := cfg_m "RollingRecreate".
  Definition parent (v : Z) : json :=
    JObj [("apiVersion", JStr "ctl.example.com/v1"); ("kind", JStr "Parent");
          ("metadata", JObj [("name", JStr "p"); ("namespace", JStr "ns"); ("uid", JStr "uid-p")]);
          ("spec", JObj [("v", JInt v)])].
  Definition pref : json :=
    JObj [("apiVersion", JStr "ctl.example.com/v1"); ("blockOwnerDeletion", JBool true);
          ("controller", JBool true); ("kind", JStr "Parent"); ("name", JStr "p"); ("uid", JStr "uid-p")].
  Definition thing (name : string) (v : Z) : json :=
    JObj [("apiVersion", JStr "v1"); ("kind", JStr "Thing");
          ("metadata", JObj [("name", JStr name); ("namespace", JStr "ns");
                             ("labels", JObj [("controller-uid", JStr "uid-p")])]);
          ("spec", JObj [("v", JInt v)])].
  Definition raw (name : string) (v : Z) (ready : string) (og : Z) : json :=
    JObj [("apiVersion", JStr "v1"); ("kind", JStr "Thing");
          ("metadata", JObj [("name", JStr name); ("namespace", JStr "ns"); ("uid", JStr ("uid-" ++ name));
                             ("generation", JInt 3);
                             ("labels", JObj [("controller-uid", JStr "uid-p")]);
                             ("ownerReferences", JArr [pref])]);
          ("spec", JObj [("v", JInt v)]);
          ("status", JObj [("observedGeneration", JInt og);
                           ("conditions", JArr [JObj [("type", JStr "Ready"); ("status", JStr ready)]])])].
  (* an observed child last applied from (thing name v) *)
  Definition obs' (name : string) (v : Z) (ready : string) (og : Z) : json :=
    match apply_update (obj_map (raw name v ready og)) (obj_map (thing name v)) with Ok n => JObj n | _ => JNull end.
  Definition obs (name : string) (v : Z) (ready : string) : json := obs' name v ready 3.
  Definition observed_of (os : list json) : umap := [("v1", "Thing", map (fun o => (qualified_name o, o)) os)].
  Definition rev_of (name uid : string) (v : Z) (cs : list rck) : revision :=
    mkRevision (JObj [("apiVersion", JStr "metacontroller.k8s.io/v1alpha1"); ("kind", JStr "ControllerRevision");
                      ("metadata", JObj [("name", JStr name); ("namespace", JStr "ns"); ("uid", JStr uid)])])
               (JObj [("spec", JObj [("v", JInt v)])]) cs.
  Definition resp (v : Z) : hook_resp :=
    mkHR (JObj [("v", JInt v)]) [Some (thing "a" v); Some (thing "b" v); Some (thing "c" 0)] JNull false.
  Definition mk_prev (v : Z) (r : revision) : prev :=
    mkPrev (parent v) r (resp v) (relative_desired "ns" (hr_children (resp v))).
  Definition things (l : list string) : list rck := [mkRck "" "Thing" l].
  Definition latest_with (l : list string) : prev := mk_prev 2 (rev_of "p-r2" "uid-r2" 2 (things l)).
  Definition old_with (l : list string) : prev := mk_prev 1 (rev_of "p-r1" "uid-r1" 1 (things l)).
  (* start of the rollout: everything still belongs to the old revision *)
  Definition latest0 : prev := mk_prev 2 (rev_of "p-r2" "uid-r2" 2 []).
  Definition old0 : prev := old_with ["a"; "b"; "c"].
  Definition obs0 : umap := observed_of [obs "a" 1 "True"; obs "b" 1 "True"; obs "c" 0 "True"].
  (* after the first sync: c moved for free, a was moved by the gated step *)
  Definition latest1 : prev := latest_with ["c"; "a"].
  Definition old1 : prev := old_with ["b"].
  Definition obs1_stale : umap := obs0.                                            (* a not yet recreated *)
  Definition obs1_sick : umap := observed_of [obs "a" 2 "False"; obs "b" 1 "True"; obs "c" 0 "True"].
  Definition obs1_ok : umap := observed_of [obs "a" 2 "True"; obs "b" 1 "True"; obs "c" 0 "True"].
  (* end *)
  Definition latest2 : prev := latest_with ["c"; "a"; "b"].
  Definition old2 : prev := old_with [].
  Definition obs2 : umap := observed_of [obs "a" 2 "True"; obs "b" 2 "True"; obs "c" 0 "True"].
  Definition kids_of (prs : list prev) : list (list rck) := map (fun p => rev_children (pr_rev p)) prs.
  Definition view (r : option (list prev * rollout_state)) : option (list (list rck) * rollout_state) :=
    option_map (fun r => (kids_of (fst r), snd r)) r.
  (* the inputs of first_pass / second_pass inside sync_rolling_update *)
  Definition claimed (prs : list prev) : list prev * claims :=
    sync_revision_claims cfg (pr_desired (hd latest0 prs)) 0 prs [].
  Definition firsted (observed : umap) (prs : list prev) : list prev * claims :=
    first_pass cfg "ns" observed (fst (claimed prs)) (snd (claimed prs)).
  Definition key (n : string) : claim_key := ("", "Thing", n).
  Definition st_ok := firsted obs1_ok [latest1; old1].        (* (prs, claims) entering the second pass *)
  Definition st_sick := firsted obs1_sick [latest1; old1].
  Definition st_done := firsted obs2 [latest2; old2].
  Definition l_ok : prev := hd latest0 (fst st_ok).
  Definition l_sick : prev := hd latest0 (fst st_sick).
  Definition l_done : prev := hd latest0 (fst st_done).
  (* the end of the rollout as sync_rolling_update returns it *)
  Definition old2e : prev := mk_prev 1 (rev_of "p-r1" "uid-r1" 1 []).   (* as read back from the server *)
  Definition server_revs : list revision := [pr_rev latest2; pr_rev old2e].
  Definition final : list prev :=
    match sync_rolling_update cfg "ns" obs2 [latest2; old2e] with Some (prs, _) => prs | None => [] end.
  Definition final_old : prev := nth 1 final latest0.
  Definition api_ok : env := fun _ cl => match cl with CApi q => AObj (q_body q) | _ => AHookErr end.
  Definition call_sig (cl : call) : verb * string * string :=
    match cl with CApi q => (q_verb q, q_name q, q_uid_pre q) | CHook _ _ => (VGet, "hook", "") end.
End C08NV.
Import C08NV.

(* C08_never_waits_on_healthy: every child listed by the latest revision is ready; the
   second pass does not wait but moves b *)
Example C08_healthy_inhabited :
  fst st_ok = l_ok :: tl (fst st_ok) /\ rev_children (pr_rev l_ok) = things ["c"; "a"] /\
  (forall ck name, In ck (rev_children (pr_rev l_ok)) -> is_rolling cfg (ck_group ck) (ck_kind ck) = true ->
                   In name (ck_names ck) -> child_ready cfg "ns" l_ok obs1_ok ck name) /\
  snd (second_pass cfg "ns" obs1_ok (l_ok :: tl (fst st_ok)) (snd st_ok)) = RProgressing "Thing" "b".
Proof.
  split; [vm_compute; reflexivity|]. split; [vm_compute; reflexivity|]. split; [|vm_compute; reflexivity].
  intros ck name Hck _ Hn. apply child_readyb_spec.
  change (rev_children (pr_rev l_ok)) with (things ["c"; "a"]) in Hck.
  destruct Hck as [<-|[]]. destruct Hn as [<-|[<-|[]]]; vm_compute; reflexivity.
Qed.

(* C08_waits_only_on_unready, C08_waits_only_on_desired: a waiting outcome, and the child
   it waits for: listed by the latest revision, rolling, desired, and not ready *)
Example C08_waiting_inhabited :
  (exists why, snd (second_pass cfg "ns" obs1_sick (l_sick :: tl (fst st_sick)) (snd st_sick)) = RWaiting why) /\
  (exists why, option_map snd (sync_rolling_update cfg "ns" obs1_sick (latest1 :: [old1])) = Some (RWaiting why)) /\
  In (mkRck "" "Thing" ["c"; "a"]) (rev_children (pr_rev l_sick)) /\ is_rolling cfg "" "Thing" = true /\
  In "a" ["c"; "a"] /\ ~ child_ready cfg "ns" l_sick obs1_sick (mkRck "" "Thing" ["c"; "a"]) "a" /\
  child_ready cfg "ns" l_sick obs1_sick (mkRck "" "Thing" ["c"; "a"]) "c" /\
  find_desired (pr_desired latest1) "" "Thing" "a" <> None.
Proof.
  split; [eexists; vm_compute; reflexivity|]. split; [eexists; vm_compute; reflexivity|].
  split; [vm_compute; auto|]. split; [vm_compute; reflexivity|]. split; [cbn; auto|].
  split; [rewrite <- child_readyb_spec; vm_compute; discriminate|].
  split; [apply child_readyb_spec; vm_compute; reflexivity|vm_compute; discriminate].
Qed.

(* C08_undesired_not_listed: the old revision still lists z, which the hook no longer
   returns; after the claims pass z is gone and every remaining name is rolling and desired *)
Example C08_undesired_inhabited :
  let ds := pr_desired latest1 in
  let r := sync_revision_claims cfg ds 0 [latest1; old_with ["b"; "z"]] [] in
  kids_of (fst r) = [things ["c"; "a"]; things ["b"]] /\
  find_desired ds "" "Thing" "z" = None /\
  (exists p', In p' (fst r) /\ In (mkRck "" "Thing" ["b"]) (rev_children (pr_rev p')) /\ In "b" ["b"]) /\
  is_rolling cfg "" "Thing" = true /\ find_desired ds "" "Thing" "b" = Some (thing "b" 2).
Proof.
  cbv zeta. split; [vm_compute; reflexivity|]. split; [vm_compute; reflexivity|].
  split; [|vm_compute; split; reflexivity].
  eexists. split; [right; left; reflexivity|]. vm_compute. auto.
Qed.

(* C08_progress, C08_progress_exists (gate open, b pending) and C08_complete_iff_no_pending *)
Example C08_progress_inhabited :
  should_continue_rolling cfg "ns" l_ok obs1_ok = None /\
  find (pending cfg "ns" (snd st_ok)) (hr_children (pr_resp l_ok)) = Some (Some (thing "b" 2)) /\
  In (Some (thing "b" 2)) (hr_children (pr_resp l_ok)) /\ pending cfg "ns" (snd st_ok) (Some (thing "b" 2)) = true /\
  snd (second_pass cfg "ns" obs1_ok (l_ok :: tl (fst st_ok)) (snd st_ok)) =
    RProgressing (get_kind (thing "b" 2)) (relative_name "ns" (thing "b" 2)) /\
  lists (pr_rev (hd latest0 (fst (second_pass cfg "ns" obs1_ok (l_ok :: tl (fst st_ok)) (snd st_ok)))))
        "" "Thing" "b" = true /\
  lists (pr_rev l_ok) "" "Thing" "b" = false /\
  (* the end: nothing pending *)
  find (pending cfg "ns" (snd st_done)) (hr_children (pr_resp l_done)) = None /\
  second_pass cfg "ns" obs2 (l_done :: tl (fst st_done)) (snd st_done) = (l_done :: tl (fst st_done), RComplete).
Proof. vm_compute. repeat split; try reflexivity. auto. Qed.

(* C08_terminates_linear_partial at n = 3 (three children to move: six syncs) *)
Example C08_linear_inhabited :
  Nat.iter 6 astep (3, false) = (0, false) /\ 5 < 2 * 3 /\ Nat.iter 5 astep (3, false) = (0, true) /\
  2 * 3 <= 7 /\ Nat.iter 7 astep (3, false) = (0, false).
Proof. vm_compute. repeat split; try reflexivity; repeat constructor. Qed.

(* C08_prune_keeps_latest_and_nonempty, C08_emptied_revision_deleted, C08_unlisted_revision_deleted:
   at the end of the rollout the old revision is empty, pruned, and deleted by manage_revisions *)
Example C08_cleanup_inhabited :
  kids_of final = [things ["c"; "a"; "b"]; []] /\
  nodup_str (map (fun x => rev_name (pr_rev x)) final) = true /\
  In final_old (tl final) /\ count_children (pr_rev final_old) = 0 /\
  In (pr_rev final_old) server_revs /\ In (pr_rev final_old) (map pr_rev final) /\
  map (fun p => rev_name (pr_rev p)) (prune final) = ["p-r2"] /\
  existsb (fun d => rev_name d =? rev_name (pr_rev final_old)) (map pr_rev (prune final)) = false /\
  map (fun ca => call_sig (fst ca))
      (trace_of (manage_revisions "ns" server_revs (map pr_rev (prune final))) api_ok) =
    [(VDelete, "p-r1", "uid-r1")] /\
  (* at the first step both revisions are kept, and the moved children are persisted in them *)
  map (fun ca => call_sig (fst ca))
      (trace_of (manage_revisions "ns" [pr_rev latest0; pr_rev old0]
                   (map pr_rev (prune (match sync_rolling_update cfg "ns" obs0 [latest0; old0] with
                                       | Some (prs, _) => prs | None => [] end)))) api_ok) =
    [(VUpdate, "p-r2", ""); (VUpdate, "p-r1", "")].
Proof. vm_compute. repeat split; try reflexivity; auto. Qed.
