(* Property C06 — each child type is changed only by the method its update
   strategy allows.  Statements about Model/Composite.v child_decision,
   delete_children, update_children (pkg/controller/common/manage_children.go). *)
From MC Require Import Generated Model.Composite Proofs.C06Proofs.

Theorem C06_on_delete :
  forall (c : ccfg) (kc : child_cfg) (parent old desired : json),
         method_of c (group_of (ch_api_version kc)) (ch_kind kc) = method_on_delete ->
         no_write (child_decision c kc parent (Some old) desired).
Proof. exact C06_on_delete. Qed.
Print Assumptions C06_on_delete.

Theorem C06_method_default :
  forall (c : ccfg) (g kd : string),
         (forall k : child_cfg,
          In k (kids c) ->
          group_of (ch_api_version k) = g ->
          ch_kind k = kd -> ch_method k = "" \/ ch_method k = method_on_delete) ->
         method_of c g kd = method_on_delete.
Proof. exact method_of_default. Qed.
Print Assumptions C06_method_default.

Theorem C06_recreate :
  forall (c : ccfg) (kc : child_cfg) (parent old desired : json),
         method_of c (group_of (ch_api_version kc)) (ch_kind kc) = method_recreate \/
         method_of c (group_of (ch_api_version kc)) (ch_kind kc) = method_rolling_recreate ->
         (forall b : json, child_decision c kc parent (Some old) desired <> ActUpdate b) /\
         (forall u : string, child_decision c kc parent (Some old) desired = ActDelete u -> u = get_uid old).
Proof. exact C06_recreate. Qed.
Print Assumptions C06_recreate.

Theorem C06_in_place :
  forall (c : ccfg) (kc : child_cfg) (parent old desired : json),
         method_of c (group_of (ch_api_version kc)) (ch_kind kc) = method_in_place \/
         method_of c (group_of (ch_api_version kc)) (ch_kind kc) = method_rolling_in_place ->
         (forall u : string, child_decision c kc parent (Some old) desired <> ActDelete u) /\
         (forall b : json,
          child_decision c kc parent (Some old) desired = ActUpdate b ->
          exists n : amap, apply_update (obj_map old) (obj_map desired) = Ok n /\ b = JObj n).
Proof. exact C06_in_place. Qed.
Print Assumptions C06_in_place.

Theorem C06_equal_no_write :
  forall (c : ccfg) (kc : child_cfg) (parent old desired : json) (n : amap),
         apply_update (obj_map old) (obj_map desired) = Ok n ->
         jeqb (JObj n) old = true -> child_decision c kc parent (Some old) desired = ActNone.
Proof. exact C06_equal_no_write. Qed.
Print Assumptions C06_equal_no_write.

Theorem C06_pending_no_write :
  forall (c : ccfg) (kc : child_cfg) (parent old desired : json),
         is_deleting old = true -> no_write (child_decision c kc parent (Some old) desired).
Proof. exact C06_pending_no_write. Qed.
Print Assumptions C06_pending_no_write.

Theorem C06_unknown_method_error :
  forall (c : ccfg) (kc : child_cfg) (parent old desired : json) (n : amap),
         let m := method_of c (group_of (ch_api_version kc)) (ch_kind kc) in
         m <> method_on_delete ->
         m <> method_recreate ->
         m <> method_rolling_recreate ->
         m <> method_in_place ->
         m <> method_rolling_in_place ->
         apply_update (obj_map old) (obj_map desired) = Ok n ->
         jeqb (JObj n) old = false ->
         is_deleting old = false -> child_decision c kc parent (Some old) desired = ActError.
Proof. exact C06_unknown_method_error. Qed.
Print Assumptions C06_unknown_method_error.

Theorem C06_undesired_deleted_background :
  forall (kc : child_cfg) (observed desired : list (string * json)),
         all_calls (is_undesired_delete kc observed desired) (delete_children kc observed desired).
Proof. exact C06_undesired_deleted_background. Qed.
Print Assumptions C06_undesired_deleted_background.

Theorem C06_undesired_deleted_background_fields :
  forall (kc : child_cfg) (observed desired : list (string * json)),
         all_calls
           (fun cl : call =>
            exists (key : string) (o : json) (q : req),
              cl = CApi q /\
              In (key, o) observed /\
              is_deleting o = false /\
              olookup key desired = None /\
              q_verb q = VDelete /\
              q_res q = ch_res kc /\
              q_name q = get_name o /\ q_uid_pre q = get_uid o /\ q_prop q = "Background")
           (delete_children kc observed desired).
Proof. exact C06_undesired_deleted_background_fields. Qed.
Print Assumptions C06_undesired_deleted_background_fields.

Theorem C06_undesired_always_deleted :
  forall (kc : child_cfg) (observed desired : list (string * json)) (key : string) (o : json),
         In (key, o) observed ->
         is_deleting o = false ->
         olookup key desired = None ->
         always_calls (CApi (delete_req_of kc o)) (delete_children kc observed desired).
Proof. exact C06_undesired_always_deleted. Qed.
Print Assumptions C06_undesired_always_deleted.

Theorem C06_update_children_complete :
  forall (c : ccfg) (kc : child_cfg) (parent : json) (observed desired : list (string * json))
           (key : string) (d : json) (cl : call),
         ssa c = false ->
         In (key, d) desired ->
         request_of_action kc d (child_decision c kc parent (olookup key observed) d) = Some cl ->
         always_calls cl (update_children c kc parent observed desired).
Proof. exact C06_update_children_complete. Qed.
Print Assumptions C06_update_children_complete.

Theorem C06_update_children_sound :
  forall (c : ccfg) (kc : child_cfg) (parent : json) (observed desired : list (string * json)),
         ssa c = false ->
         all_calls
           (fun cl : call =>
            exists (key : string) (d : json),
              In (key, d) desired /\
              request_of_action kc d (child_decision c kc parent (olookup key observed) d) = Some cl)
           (update_children c kc parent observed desired).
Proof. exact C06_update_children_sound. Qed.
Print Assumptions C06_update_children_sound.

Theorem C06_on_delete_only_creates :
  forall (c : ccfg) (kc : child_cfg) (parent : json) (observed desired : list (string * json)),
         ssa c = false ->
         method_of c (group_of (ch_api_version kc)) (ch_kind kc) = method_on_delete ->
         all_calls (fun cl : call => exists q : req, cl = CApi q /\ q_verb q = VCreate)
           (update_children c kc parent observed desired).
Proof. exact C06_on_delete_only_creates. Qed.
Print Assumptions C06_on_delete_only_creates.

Theorem C06_methods_distinct :
  NoDup
           [method_on_delete; method_recreate; method_in_place; method_rolling_recreate;
            method_rolling_in_place].
Proof. exact methods_distinct. Qed.
Print Assumptions C06_methods_distinct.

