(* Property C20 — hosting of Composite/DecoratorControllers: exactly one hosted
   instance per controller object, restart on spec change, nothing on an equal
   spec, stop on delete, informer subscriptions balanced, unstartable
   configurations leave nothing running and never panic.
   Theorems about Model/Meta.v (the two Metacontroller.Reconcile loops, the
   constructors with their deferred clean-up, Stop, the shared informer
   factory); the boolean predicates are the constants the correspondence check
   (Check/C20_check.v) evaluates on the implementation's own observations.
   All statements quantify over every history of events (any number of names,
   any number of restarts) and over both flavours.
   The model follows the code with the repairs of D23 (a changed spec stops the
   running controller before the parent-CRD checks can return early) and D29 (a
   resource listed twice is subscribed to once). *)
From MC Require Import Model.Meta Proofs.C20Proofs.

(* ---- 0. the comparison of specs is equality -------------------------------------- *)
Theorem C20_spec_eqb_eq : forall a b, spec_eqb a b = true <-> a = b.
Proof. exact spec_eqb_eq. Qed.
Print Assumptions C20_spec_eqb_eq.

(* what balancedb says: refCount[r] = number of subscriptions to r held by running instances *)
Theorem C20_balancedb_spec : forall st,
  balancedb st = true <-> (forall r, cnt r (refs st) = cnt r (all_subs st)).
Proof. exact balancedb_spec. Qed.
Print Assumptions C20_balancedb_spec.

(* ---- 1. at most one instance per name; subscriptions balanced -------------------- *)
Theorem C20_one_per_name : forall fl h, one_per_nameb (run fl init h) = true.
Proof. exact one_per_name. Qed.
Print Assumptions C20_one_per_name.

(* no double free, in every reachable state, for every history *)
Theorem C20_no_double_free : forall fl h r,
  cnt r (all_subs (run fl init h)) <= cnt r (refs (run fl init h)).
Proof. exact no_double_free. Qed.
Print Assumptions C20_no_double_free.

(* no event in any reachable state panics (in particular no constructor, no Stop) *)
Theorem C20_never_panics : forall fl h e,
  outcome_of (step fl (run fl init h) e) <> RPanic.
Proof. exact never_panics. Qed.
Print Assumptions C20_never_panics.

(* the full invariant, for every history: one instance per name, and refCount[r] is
   exactly the number of subscriptions to r that running instances will close (no
   leak, no double free) -- also when a specification names a resource twice *)
Theorem C20_one_instance : forall fl h, C20_invb (run fl init h) = true.
Proof. exact one_instance. Qed.
Print Assumptions C20_one_instance.

Definition leak_rule (k : string) : rule := mkRule k true false true.
Definition leak_hooks : hooks_cfg :=
  mkHooks (HookWebhook (mkWh true None false TmoUnset EtagUnset)) HookAbsent HookAbsent.
(* a child resource named twice *)
Definition leak_spec : spec :=
  mkSpec 1 [leak_rule "things.ctl.example.com/v1"] [leak_rule "pods.v1"; leak_rule "pods.v1"] (Some leak_hooks).
Definition leak_history : list event :=
  [Reconcile "c" (LFound leak_spec CrdOk); Reconcile "c" LNotFound].

(* the former leak: one subscription while it runs, none after create and delete *)
Example C20_dup_rule_no_leak :
  cnt "pods.v1" (refs (run Composite init [Reconcile "c" (LFound leak_spec CrdOk)])) = 1 /\
  insts (run Composite init leak_history) = [] /\ refs (run Composite init leak_history) = [] /\
  cnt "pods.v1" (refs (run Decorator init [Reconcile "c" (LFound leak_spec CrdOk)])) = 1 /\
  insts (run Decorator init leak_history) = [] /\ refs (run Decorator init leak_history) = [].
Proof. vm_compute. repeat split. Qed.

(* ---- 2. an update that leaves the spec unchanged does nothing --------------------- *)
Theorem C20_noop_on_equal_spec : forall fl st n s crd i,
  ifind n (insts st) = Some i -> spec_eqb s (i_spec i) = true ->
  let r := step fl st (Reconcile n (LFound s crd)) in
  state_of r = st /\ actions_of r = [] /\ (crd_passesb fl crd = true -> outcome_of r = ROk).
Proof. exact noop_on_equal_spec. Qed.
Print Assumptions C20_noop_on_equal_spec.

(* ---- 3. a changed spec: the old instance is stopped completely, then the new one starts -- *)
(* Stop never fails in a reachable state *)
Theorem C20_stop_succeeds : forall fl h n i,
  ifind n (insts (run fl init h)) = Some i -> exists f, stop i (refs (run fl init h)) = Some f.
Proof. exact stop_succeeds. Qed.
Print Assumptions C20_stop_succeeds.

(* what Stop does to the factory: exactly the instance's subscriptions are given back *)
Theorem C20_stop_counts : forall i f g r,
  stop i f = Some g -> cnt r g + cnt r (inst_subs i) = cnt r f.
Proof. exact stop_counts. Qed.
Print Assumptions C20_stop_counts.

Theorem C20_restart_on_change : forall fl st n s crd i f,
  ifind n (insts st) = Some i -> spec_eqb s (i_spec i) = false -> crd_passesb fl crd = true ->
  stop i (refs st) = Some f -> startableb fl s f = true ->
  let r := step fl st (Reconcile n (LFound s crd)) in
  exists i',
    (* the new instance was constructed on the factory left by the old one's Stop *)
    start fl s f = (refs (state_of r), Ok i') /\
    i_spec i' = s /\ i_related i' = [] /\
    insts (state_of r) = iset n i' (insts st) /\
    ifind n (insts (state_of r)) = Some i' /\
    cnt_name n (insts (state_of r)) = 1 /\
    (forall n', n' <> n -> ifind n' (insts (state_of r)) = ifind n' (insts st)) /\
    outcome_of r = ROk /\
    actions_of r = [Stopped n (s_id (i_spec i)); Started n (s_id s)].
Proof. exact restart_on_change. Qed.
Print Assumptions C20_restart_on_change.

(* a successful start subscribes to exactly the resources the instance will close
   when it is stopped *)
Theorem C20_start_counts : forall fl s f g i r,
  start fl s f = (g, Ok i) ->
  cnt r g = cnt r f + cnt r (inst_subs i).
Proof. exact start_counts. Qed.
Print Assumptions C20_start_counts.

(* a start that fails gives back everything it had subscribed to *)
Theorem C20_failed_start_counts : forall fl s f g r,
  start fl s f = (g, Err) -> cnt r g = cnt r f.
Proof. exact failed_start_counts. Qed.
Print Assumptions C20_failed_start_counts.

(* ---- 4. delete stops the instance and gives every subscription back ----------------- *)
Theorem C20_stop_releases : forall fl h n,
  let st := run fl init h in
  let r := step fl st (Reconcile n LNotFound) in
  outcome_of r = ROk /\
  runningb n (state_of r) = false /\
  (forall n', n' <> n -> ifind n' (insts (state_of r)) = ifind n' (insts st)) /\
  (forall k, cnt k (refs (state_of r)) +
             cnt k (match ifind n (insts st) with Some i => inst_subs i | None => [] end)
             = cnt k (refs st)).
Proof. exact stop_releases. Qed.
Print Assumptions C20_stop_releases.

(* ... every count is what it would be had the instance never been started: a whole
   lifetime (create, related-resource requests of its syncs, delete) is the identity *)
Theorem C20_lifetime_is_identity : forall fl h n s crd rs,
  let st := run fl init h in
  runningb n st = false ->
  let st' := run fl st (lifetime n s crd rs) in
  insts st' = insts st /\ (forall k, cnt k (refs st') = cnt k (refs st)).
Proof. exact lifetime_is_identity. Qed.
Print Assumptions C20_lifetime_is_identity.

(* ---- 5. a configuration that cannot start ------------------------------------------- *)
(* not running before: nothing runs afterwards, the counts are unchanged, an error (never a panic) *)
Theorem C20_bad_config_nothing_running : forall fl h n s crd,
  let st := run fl init h in
  runningb n st = false -> startableb fl s (refs st) = false ->
  let r := step fl st (Reconcile n (LFound s crd)) in
  insts (state_of r) = insts st /\
  actions_of r = [] /\
  outcome_of r <> RPanic /\
  (crd_passesb fl crd = true -> outcome_of r = RErr) /\
  (forall k, cnt k (refs (state_of r)) = cnt k (refs st)).
Proof. exact bad_config_nothing_running. Qed.
Print Assumptions C20_bad_config_nothing_running.

(* a parent CRD that is missing or has no status subresource (or an apiVersion that
   does not parse): nothing is started; what runs afterwards, if anything, is the
   unchanged instance of the very same spec *)
Theorem C20_bad_crd_nothing_started : forall h n s crd,
  crd_passesb Composite crd = false ->
  let st := run Composite init h in
  let r := step Composite st (Reconcile n (LFound s crd)) in
  outcome_of r <> RPanic /\
  (forall id, ~ In (Started n id) (actions_of r)) /\
  (runningb n (state_of r) = true ->
     state_of r = st /\ actions_of r = [] /\
     exists i, ifind n (insts st) = Some i /\ spec_eqb s (i_spec i) = true).
Proof. exact bad_crd_nothing_started. Qed.
Print Assumptions C20_bad_crd_nothing_started.

(* the former leak of a failed constructor: children pods, pods, then an unknown resource *)
Definition leak_fail_spec : spec :=
  mkSpec 2 [leak_rule "things.ctl.example.com/v1"]
         [leak_rule "pods.v1"; leak_rule "pods.v1"; mkRule "gizmos.v1" false false true] (Some leak_hooks).
Example C20_failed_start_no_leak :
  run Composite init [Reconcile "c" (LFound leak_fail_spec CrdOk)] = init /\
  outcome_of (step Composite init (Reconcile "c" (LFound leak_fail_spec CrdOk))) = RErr /\
  run Decorator init [Reconcile "c" (LFound leak_fail_spec CrdOk)] = init.
Proof. vm_compute. repeat split. Qed.

(* running before, and the new spec cannot be started -- it is unstartable, or (composite)
   the parent CRD is missing / has no status subresource / its apiVersion does not parse:
   the old instance is stopped completely and nothing runs for the name *)
Theorem C20_bad_update_stops_old : forall fl h n s crd i f,
  let st := run fl init h in
  ifind n (insts st) = Some i -> spec_eqb s (i_spec i) = false ->
  stop i (refs st) = Some f ->
  crd_passesb fl crd = false \/ startableb fl s f = false ->
  let r := step fl st (Reconcile n (LFound s crd)) in
  outcome_of r <> RPanic /\
  (crd_passesb fl crd = true -> outcome_of r = RErr) /\
  runningb n (state_of r) = false /\
  insts (state_of r) = iremove n (insts st) /\
  actions_of r = [Stopped n (s_id (i_spec i))] /\
  (forall k, cnt k (refs (state_of r)) = cnt k f).
Proof. exact bad_update_stops_old. Qed.
Print Assumptions C20_bad_update_stops_old.

(* ---- 6. what runs follows the spec --------------------------------------------------- *)
(* Full strength: after every reconcile of n that found spec s -- whatever the state of
   the parent CRD -- nothing runs for n or what runs was started with s. *)
Theorem C20_follows_spec : forall fl h n s crd,
  follows_specb n s (state_of (step fl (run fl init h) (Reconcile n (LFound s crd)))) = true.
Proof. exact follows_spec. Qed.
Print Assumptions C20_follows_spec.

(* the same from any state in which the step does not panic *)
Theorem C20_follows_spec_any_state : forall fl st n s crd,
  outcome_of (step fl st (Reconcile n (LFound s crd))) <> RPanic ->
  follows_specb n s (state_of (step fl st (Reconcile n (LFound s crd)))) = true.
Proof. exact follows_spec_any_state. Qed.
Print Assumptions C20_follows_spec_any_state.

Definition fs_spec (id : Z) : spec :=
  mkSpec id [leak_rule "things.ctl.example.com/v1"] [leak_rule "pods.v1"] (Some leak_hooks).
(* create with a good CRD; then the spec changes while the CRD has lost its status
   subresource: the instance of the old spec is stopped, nothing is started *)
Definition fs_history : list event := [Reconcile "c" (LFound (fs_spec 1) CrdOk)].
Definition fs_event : event := Reconcile "c" (LFound (fs_spec 2) CrdNoStatus).
Example C20_crd_gate_stops_old :
  runningb "c" (run Composite init fs_history) = true /\
  state_of (step Composite (run Composite init fs_history) fs_event) = init /\
  outcome_of (step Composite (run Composite init fs_history) fs_event) = ROk /\
  actions_of (step Composite (run Composite init fs_history) fs_event) = [Stopped "c" 1].
Proof. vm_compute. repeat split. Qed.

(* ---- the hypotheses are satisfiable on non-trivial instances ------------------------- *)
Definition ex_wh_service : webhook_cfg :=
  mkWh false (Some (mkSvc true true false true)) true TmoNonPositive (EtagOn true false).
Definition ex_hooks : hooks_cfg :=
  mkHooks (HookWebhook ex_wh_service) (HookWebhook (mkWh true None false TmoPositive EtagOff)) (HookWebhook (mkWh true None false TmoUnset (EtagOn false false))).
Definition ex_spec (id : Z) : spec :=
  mkSpec id [mkRule "things.ctl.example.com/v1" true false true]
         [mkRule "pods.v1" true true true; mkRule "widgets.apps.example.com/v1" true false true; mkRule "pods.v1" true false true] (Some ex_hooks).
Definition ex_bad_spec : spec :=
  mkSpec 9 [mkRule "things.ctl.example.com/v1" true false true]
         [mkRule "pods.v1" true false true; mkRule "gizmos.v1" false false true] (Some ex_hooks).
Definition ex_history : list event :=
  [Reconcile "a" (LFound (ex_spec 1) CrdOk);
   Related "a" (mkRule "pods.v1" true false true);
   Reconcile "b" (LFound (ex_spec 2) CrdOk);
   Reconcile "a" (LFound (ex_spec 3) CrdOk);
   Reconcile "b" (LFound ex_bad_spec CrdOk);
   Reconcile "a" (LFound (ex_spec 3) CrdMissing)].

Example C20_example_state :
  map fst (insts (run Composite init ex_history)) = ["a"] /\
  follows_specb "a" (ex_spec 3) (run Composite init ex_history) = true /\
  cnt "pods.v1" (refs (run Composite init ex_history)) = 1 /\
  C20_invb (run Composite init ex_history) = true /\
  C20_invb (run Decorator init ex_history) = true /\
  startableb Composite ex_bad_spec [] = false /\
  startableb Decorator (ex_spec 4) ["pods.v1"] = true.
Proof. vm_compute. repeat split. Qed.

(* hypotheses of C20_restart_on_change and C20_bad_update_stops_old on a reachable state *)
Example C20_example_restart :
  let st := run Composite init ex_history in
  exists i f, ifind "a" (insts st) = Some i /\ spec_eqb (ex_spec 5) (i_spec i) = false /\
              stop i (refs st) = Some f /\ startableb Composite (ex_spec 5) f = true /\
              startableb Composite ex_bad_spec f = false /\ crd_passesb Composite CrdNoStatus = false.
Proof. vm_compute. eexists. eexists. repeat split. Qed.

(* ---- 7. restarts and the hook client metrics ------------------------------------------- *)
(* Every start of a hosted controller registers the collectors of its (controller, hook
   type, url) triples.  For any sequence of registrations -- repeats included, at any
   time -- registration never fails ... *)
Theorem C20_metrics_never_fails : forall h e, moutcome_of (mstep (mrun minit h) e) = ROk.
Proof. exact metrics_never_fails. Qed.
Print Assumptions C20_metrics_never_fails.

(* ... every registration yields a collector ... *)
Theorem C20_metrics_always_a_collector : forall h k,
  exists id, mcollector_of (mstep (mrun minit h) (MReg k)) = Some id.
Proof. exact metrics_always_a_collector. Qed.
Print Assumptions C20_metrics_always_a_collector.

(* ... and a repeated registration gets the very collector of the first one, whatever
   happened in between *)
Theorem C20_metrics_same_collector : forall h1 h2 k id,
  mcollector_of (mstep (mrun minit h1) (MReg k)) = Some id ->
  mcollector_of (mstep (mrun minit (h1 ++ MReg k :: h2)%list) (MReg k)) = Some id.
Proof. exact metrics_same_collector. Qed.
Print Assumptions C20_metrics_same_collector.

Example C20_metrics_example :
  let h := [MReg "c/sync/u"; MReg "c/finalize/u"; MElapse; MReg "d/sync/u"] in
  mcollector_of (mstep (mrun minit h) (MReg "c/finalize/u")) = Some 1%Z /\
  mcollector_of (mstep (mrun minit h) (MReg "e/sync/u")) = Some 3%Z /\
  m_registry (mrun minit h) = ["d/sync/u"; "c/finalize/u"; "c/sync/u"].
Proof. vm_compute. repeat split. Qed.

(* ---- 8. the ControllerRevision cache ---------------------------------------------------- *)
(* While the shared ControllerRevision informer has not synced no composite controller is
   hosted, for every history of reconciles (cited by property C09 as
   C09_no_sync_before_revision_cache). *)
Theorem C20_no_hosting_before_revision_cache : forall h n,
  g_rev_synced (grun Composite ginit h) = false ->
  runningb n (g_state (grun Composite ginit h)) = false.
Proof. exact C09_no_sync_before_revision_cache. Qed.
Print Assumptions C20_no_hosting_before_revision_cache.

Example C20_revision_cache_example :
  let e := GEvent (Reconcile "c" (LFound (fs_spec 1) CrdOk)) in
  snd (fst (gstep Composite ginit e)) = RErr /\
  runningb "c" (g_state (grun Composite ginit [e; GRevSynced; e])) = true /\
  g_rev_synced (grun Composite ginit [e; GRevSynced; e]) = true.
Proof. vm_compute. repeat split. Qed.
