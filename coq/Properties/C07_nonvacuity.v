(* Non-vacuity evidence for Properties/C07.v: a concrete rollout of three children
   from revision p-r1 to p-r2, stepped through sync_rolling_update; hypotheses of the
   conditional C07 theorems met by these states, conclusions computed. *)
From MC Require Import Generated Model.Composite Model.TracePreds Model.Safe Model.Rolling Proofs.SafeLemmas Proofs.C04Proofs Proofs.C06Proofs Proofs.RollGate Proofs.C07Proofs.
Local Open Scope list_scope.

Module C07NV.
  (* One rolling child kind; the parent moved from spec.v = 1 (revision p-r1) to
     spec.v = 2 (revision p-r2).  The hook derives children a and b from v; child c
     does not depend on it.  Children are healthy when their Ready condition is True. *)
  Definition kid_m (m : string) : child_cfg := mkChild "v1" "things" "Thing" true m.
  Definition cfg_m (m : string) : ccfg :=
    mkCfg "cc" "ctl.example.com/v1" "Parent" "parents" true true true sel_everything [kid_m m] true false
          [kid_m m] false false [["spec"]] [("things.v1", [("Ready", Some "True", None)])].
  Definition kid := kid_m "RollingRecreate".
  Definition cfg := cfg_m "RollingRecreate".
  Definition parent (v : Z) : json :=
    JObj [("apiVersion", JStr "ctl.example.com/v1"); ("kind", JStr "Parent");
          ("metadata", JObj [("name", JStr "p"); ("namespace", JStr "ns"); ("uid", JStr "uid-p")]);
          ("spec", JObj [("v", JInt v)])].
  Definition pref : json :=
    JObj [("apiVersion", JStr "ctl.example.com/v1"); ("blockOwnerDeletion", JBool true);
          ("controller", JBool true); ("kind", JStr "Parent"); ("name", JStr "p"); ("uid", JStr "uid-p")].
  Definition thing (name : string) (v : Z) : json :=
    JObj [("apiVersion", JStr "v1"); ("kind", JStr "Thing");
          ("metadata", JObj [("name", JStr name); ("namespace", JStr "ns");
                             ("labels", JObj [("controller-uid", JStr "uid-p")])]);
          ("spec", JObj [("v", JInt v)])].
  Definition raw (name : string) (v : Z) (ready : string) (og : Z) : json :=
    JObj [("apiVersion", JStr "v1"); ("kind", JStr "Thing");
          ("metadata", JObj [("name", JStr name); ("namespace", JStr "ns"); ("uid", JStr ("uid-" ++ name));
                             ("generation", JInt 3);
                             ("labels", JObj [("controller-uid", JStr "uid-p")]);
                             ("ownerReferences", JArr [pref])]);
          ("spec", JObj [("v", JInt v)]);
          ("status", JObj [("observedGeneration", JInt og);
                           ("conditions", JArr [JObj [("type", JStr "Ready"); ("status", JStr ready)]])])].
  (* an observed child last applied from (thing name v) *)
  Definition obs' (name : string) (v : Z) (ready : string) (og : Z) : json :=
    match apply_update (obj_map (raw name v ready og)) (obj_map (thing name v)) with Ok n => JObj n | _ => JNull end.
  Definition obs (name : string) (v : Z) (ready : string) : json := obs' name v ready 3.
  Definition observed_of (os : list json) : umap := [("v1", "Thing", map (fun o => (qualified_name o, o)) os)].
  Definition rev_of (name uid : string) (v : Z) (cs : list rck) : revision :=
    mkRevision (JObj [("apiVersion", JStr "metacontroller.k8s.io/v1alpha1"); ("kind", JStr "ControllerRevision");
                      ("metadata", JObj [("name", JStr name); ("namespace", JStr "ns"); ("uid", JStr uid)])])
               (JObj [("spec", JObj [("v", JInt v)])]) cs.
  Definition resp (v : Z) : hook_resp :=
    mkHR (JObj [("v", JInt v)]) [Some (thing "a" v); Some (thing "b" v); Some (thing "c" 0)] JNull false.
  Definition mk_prev (v : Z) (r : revision) : prev :=
    mkPrev (parent v) r (resp v) (relative_desired "ns" (hr_children (resp v))).
  Definition things (l : list string) : list rck := [mkRck "" "Thing" l].
  Definition latest_with (l : list string) : prev := mk_prev 2 (rev_of "p-r2" "uid-r2" 2 (things l)).
  Definition old_with (l : list string) : prev := mk_prev 1 (rev_of "p-r1" "uid-r1" 1 (things l)).
  (* start of the rollout: everything still belongs to the old revision *)
  Definition latest0 : prev := mk_prev 2 (rev_of "p-r2" "uid-r2" 2 []).
  Definition old0 : prev := old_with ["a"; "b"; "c"].
  Definition obs0 : umap := observed_of [obs "a" 1 "True"; obs "b" 1 "True"; obs "c" 0 "True"].
  (* after the first sync: c moved for free, a was moved by the gated step *)
  Definition latest1 : prev := latest_with ["c"; "a"].
  Definition old1 : prev := old_with ["b"].
  Definition obs1_stale : umap := obs0.                                            (* a not yet recreated *)
  Definition obs1_sick : umap := observed_of [obs "a" 2 "False"; obs "b" 1 "True"; obs "c" 0 "True"].
  Definition obs1_ok : umap := observed_of [obs "a" 2 "True"; obs "b" 1 "True"; obs "c" 0 "True"].
  (* end *)
  Definition latest2 : prev := latest_with ["c"; "a"; "b"].
  Definition old2 : prev := old_with [].
  Definition obs2 : umap := observed_of [obs "a" 2 "True"; obs "b" 2 "True"; obs "c" 0 "True"].
  Definition kids_of (prs : list prev) : list (list rck) := map (fun p => rev_children (pr_rev p)) prs.
  Definition view (r : option (list prev * rollout_state)) : option (list (list rck) * rollout_state) :=
    option_map (fun r => (kids_of (fst r), snd r)) r.
  (* the inputs of first_pass / second_pass inside sync_rolling_update *)
  Definition claimed (prs : list prev) : list prev * claims :=
    sync_revision_claims cfg (pr_desired (hd latest0 prs)) 0 prs [].
  Definition firsted (observed : umap) (prs : list prev) : list prev * claims :=
    first_pass cfg "ns" observed (fst (claimed prs)) (snd (claimed prs)).
  Definition key (n : string) : claim_key := ("", "Thing", n).
  Definition cfg_ip := cfg_m "RollingInPlace".
  Definition obs1_unobserved : umap := observed_of [obs' "a" 2 "True" 2; obs "b" 1 "True"; obs "c" 0 "True"].
  Definition cond_old : json := condition_obj "Updated" "False" "RolloutProgressing" "updating Thing a".
  Definition cond_new : json := condition_obj "Updated" "True" "OnLatestRevision" "latest ControllerRevision: p-r2".
  Definition cond_ready : json := JObj [("type", JStr "Ready"); ("status", JStr "True")].
  Definition status0 : json := JObj [("v", JInt 2); ("conditions", JArr [cond_ready; cond_old])].
End C07NV.
Import C07NV.

(* the rollout, one sync at a time: free move of c + gated move of a; waiting while a is
   stale or unhealthy; gated move of b; complete *)
Example C07_rollout_steps :
  view (sync_rolling_update cfg "ns" obs0 [latest0; old0]) =
    Some ([things ["c"; "a"]; things ["b"]], RProgressing "Thing" "a") /\
  view (sync_rolling_update cfg "ns" obs1_stale [latest1; old1]) =
    Some ([things ["c"; "a"]; things ["b"]], RWaiting "child Thing a is not updated yet") /\
  view (sync_rolling_update cfg "ns" obs1_sick [latest1; old1]) =
    Some ([things ["c"; "a"]; things ["b"]],
          RWaiting "child Thing a failed status check: ""Ready"" condition status is ""False"" (want ""True"")") /\
  view (sync_rolling_update cfg "ns" obs1_ok [latest1; old1]) =
    Some ([things ["c"; "a"; "b"]; things []], RProgressing "Thing" "b") /\
  view (sync_rolling_update cfg "ns" obs2 [latest2; old2]) = Some ([things ["c"; "a"; "b"]; []], RComplete).
Proof. vm_compute. repeat split; reflexivity. Qed.

(* C07_claims_functional, C07_claims_functional_set: the premises of each clause *)
Example C07_claims_inhabited :
  let cl : claims := [(key "a", 1)] in
  let ds := pr_desired latest0 in
  ck_eqb (key "a") (key "b") = false /\
  claimant (set_claim cl (key "a") 0) (key "a") = Some 0 /\
  claimant (set_claim cl (key "a") 0) (key "b") = claimant cl (key "b") /\
  (* an existing claim survives a later revision that lists the same child *)
  claimant cl (key "a") = Some 1 /\
  claimant (snd (claims_of_revision cfg ds 2 (pr_rev old0) cl)) (key "a") = Some 1 /\
  claimant (snd (sync_revision_claims cfg ds 2 [old0] cl)) (key "a") = Some 1 /\
  (* a new claim is made by the revision that is being processed *)
  claimant cl (key "b") = None /\
  claimant (snd (claims_of_revision cfg ds 2 (pr_rev old0) cl)) (key "b") = Some 2 /\
  claimant [] (key "b") = None /\
  claimant (snd (sync_revision_claims cfg ds 0 [latest0; old0] [])) (key "b") = Some 1 /\
  List.length [latest0; old0] = 2.
Proof. vm_compute. repeat split; reflexivity. Qed.

(* C07_free_moves_are_noops, C07_first_pass_claims: c is claimed by the old revision, is
   taken over by the latest one in the first pass, and its update would be a no-op; a is not *)
Example C07_free_move_inhabited :
  let prs := fst (claimed [latest0; old0]) in let cl := snd (claimed [latest0; old0]) in
  claimant cl (key "c") = Some 1 /\
  claimant (snd (first_pass cfg "ns" obs0 prs cl)) (key "c") = Some 0 /\
  kids_of (fst (first_pass cfg "ns" obs0 prs cl)) = [things ["c"]; things ["a"; "b"]] /\
  In ("v1", "Thing", "c", thing "c" 0) (pr_desired latest0) /\
  find_observed "ns" obs0 "" "Thing" "c" = Some (obs "c" 0 "True") /\
  (exists n, apply_update (obj_map (obs "c" 0 "True")) (obj_map (thing "c" 0)) = Ok n /\
             jeqb (JObj n) (obs "c" 0 "True") = true) /\
  claimant cl (key "a") = Some 1 /\
  claimant (snd (first_pass cfg "ns" obs0 prs cl)) (key "a") = Some 1.
Proof.
  cbv zeta. split; [vm_compute; reflexivity|]. split; [vm_compute; reflexivity|].
  split; [vm_compute; reflexivity|]. split; [vm_compute; auto|]. split; [vm_compute; reflexivity|].
  split; [eexists; vm_compute; split; reflexivity|]. split; vm_compute; reflexivity.
Qed.

(* C07_at_most_one_gated_move, C07_first_in_hook_order, C07_gate (first part): the second
   pass in its three outcomes.  In the progressing case the hook listed a, b, c: a is
   skipped (not pending), b is the first pending one, the gate is open. *)
Example C07_second_pass_inhabited :
  let prs := fst (firsted obs1_ok [latest1; old1]) in let cl := snd (firsted obs1_ok [latest1; old1]) in
  snd (second_pass cfg "ns" obs1_ok prs cl) = RProgressing "Thing" "b" /\
  kids_of (fst (second_pass cfg "ns" obs1_ok prs cl)) = [things ["c"; "a"; "b"]; things []] /\
  kids_of prs = [things ["c"; "a"]; things ["b"]] /\
  hr_children (pr_resp latest1) = [Some (thing "a" 2)] ++ Some (thing "b" 2) :: [Some (thing "c" 0)] /\
  pending cfg "ns" cl (Some (thing "b" 2)) = true /\
  forallb (fun y => negb (pending cfg "ns" cl y)) [Some (thing "a" 2)] = true /\
  should_continue_rolling cfg "ns" (hd latest0 prs) obs1_ok = None /\
  (* waiting: nothing is moved *)
  (let prs := fst (firsted obs1_sick [latest1; old1]) in let cl := snd (firsted obs1_sick [latest1; old1]) in
   fst (second_pass cfg "ns" obs1_sick prs cl) = prs /\
   match snd (second_pass cfg "ns" obs1_sick prs cl) with RWaiting _ => True | _ => False end) /\
  (* complete: nothing is moved *)
  (let prs := fst (firsted obs2 [latest2; old2]) in let cl := snd (firsted obs2 [latest2; old2]) in
   second_pass cfg "ns" obs2 prs cl = (prs, RComplete)).
Proof. vm_compute. repeat split; reflexivity. Qed.

(* C07_gate (second part): both sides of the iff.  Open gate: every listed child is
   found, up to date and healthy.  Closed: unhealthy, or (RollingInPlace) the child's
   controller has not yet observed the new generation. *)
Example C07_gate_inhabited :
  should_continue_rolling cfg "ns" latest1 obs1_ok = None /\
  forallb (fun name =>
     match find_observed "ns" obs1_ok "" "Thing" name with
     | Some child =>
         match child_up_to_date child (find_desired (pr_desired latest1) "" "Thing" name),
               child_status_why (checks_for cfg "" "Thing") child with
         | Some true, None => true | _, _ => false end
     | None => false end) ["c"; "a"] = true /\
  is_rolling cfg "" "Thing" = true /\
  should_continue_rolling cfg "ns" latest1 obs1_sick =
    Some "child Thing a failed status check: ""Ready"" condition status is ""False"" (want ""True"")" /\
  should_continue_rolling cfg_ip "ns" latest1 obs1_unobserved =
    Some "child Thing a with RollingInPlace update strategy hasn't observed latest spec" /\
  should_continue_rolling cfg "ns" latest1 obs1_unobserved = None /\
  observed_generation (obs' "a" 2 "True" 2) = Some 2%Z /\ get_generation (obs' "a" 2 "True" 2) = 3%Z.
Proof. vm_compute. repeat split; reflexivity. Qed.

(* C07_condition: an "Updated" condition replaces the old one in place, "Ready" is kept;
   the status returned by sync_rolling_update carries the condition of the outcome *)
Example C07_condition_inhabited :
  is_cond "Updated" cond_new = true /\ "Ready" <> "Updated" /\
  set_condition status0 "Updated" cond_new = Some (JObj [("v", JInt 2); ("conditions", JArr [cond_ready; cond_new])]) /\
  status_condition (JObj [("status", JObj [("v", JInt 2); ("conditions", JArr [cond_ready; cond_new])])]) "Updated"
    = Some cond_new /\
  status_condition (JObj [("status", JObj [("v", JInt 2); ("conditions", JArr [cond_ready; cond_new])])]) "Ready"
    = status_condition (JObj [("status", status0)]) "Ready" /\
  status_condition (JObj [("status", status0)]) "Ready" = Some cond_ready /\
  set_condition status0 "Updated" (rollout_condition RComplete "p-r2") =
    Some (JObj [("v", JInt 2); ("conditions", JArr [cond_ready; cond_new])]) /\
  match sync_rolling_update cfg "ns" obs0 [latest0; old0] with
  | Some (l :: rest, st) =>
      st = RProgressing "Thing" "a" /\ List.length rest = 1 /\
      status_condition (JObj [("status", hr_status (pr_resp l))]) "Updated" = Some cond_old /\
      rollout_condition st (rev_name (pr_rev l)) = cond_old
  | _ => False end.
Proof. vm_compute. repeat split; try reflexivity. discriminate. Qed.
