(* Property C19 — Hook transport: only 200 / a valid 304 is an answer; cached
   bodies match their ETag.  Theorems about Model/Webhook.v (webhookExecutor.Call
   with the ETag and the plain variant) for ALL schedules: any number of calls,
   any keys, any replies, cache expiry at any point.  A finished call is
   `st_calls st c = PDone sent o`: `sent` is the If-None-Match value its first
   step put on the request ("" = none), `o` its outcome. *)
From MC Require Import Model.Webhook Proofs.C19Proofs.

(* 1. A call succeeds only on 200, or - ETag support on and a header sent - on 304/412. *)
Theorem C19_status_gate : forall cfg sc c0 evs c sent b,
  st_calls (run_schedule cfg sc (init c0) evs) c = PDone sent (OkBody b) ->
  exists sp r, get_spec sc c = Some sp /\ cs_reply sp = Reply r /\
    (r_status r = 200 \/
     (cfg_etag cfg = true /\ sent <> "" /\ (r_status r = 304 \/ r_status r = 412))).
Proof. exact status_gate. Qed.
Print Assumptions C19_status_gate.

(* the header a call is recorded with is the ETag its enrich step found in the
   cache at that moment *)
Theorem C19_sent_is_enriched : forall cfg sc c0 evs c sent o,
  st_calls (run_schedule cfg sc (init c0) evs) c = PDone sent o ->
  exists evs1 evs2 sp, evs = (evs1 ++ Step c :: evs2)%list /\ get_spec sc c = Some sp /\
    st_calls (run_schedule cfg sc (init c0) evs1) c = PNew /\
    sent = enrich cfg (st_cache (run_schedule cfg sc (init c0) evs1)) (cs_key sp).
Proof.
  intros cfg sc c0 evs c sent o H. apply sent_is_enriched. rewrite H. reflexivity.
Qed.
Print Assumptions C19_sent_is_enriched.

(* INVARIANT behind 2: in every reachable state every cache entry {etag, b} is
   an initial entry or was stored by a finished call with that key whose reply
   was a 200 carrying ETag etag and body b. *)
Theorem C19_cache_invariant : forall cfg sc c0 evs k etag b,
  let st := run_schedule cfg sc (init c0) evs in
  st_cache st k = Some (mkEntry etag b) ->
  c0 k = Some (mkEntry etag b) \/
  exists c sp r sent o, get_spec sc c = Some sp /\ cs_key sp = k /\ cs_reply sp = Reply r /\
    st_calls st c = PDone sent o /\ r_status r = 200 /\ r_etag r = etag /\ r_body r = b /\ etag <> "".
Proof.
  intros cfg sc c0 evs k etag b st H.
  destruct (cache_inv_run cfg c0 sc evs k _ H) as [Hi|Hs]; [left; exact Hi|right].
  destruct Hs as [c [sp [r [sent [o Hs]]]]]. exists c, sp, r, sent, o. exact Hs.
Qed.
Print Assumptions C19_cache_invariant.

(* 2. A success on 304/412: at the moment the call finished (the schedule splits
   there) the cache held exactly {the ETag this call sent, the body it returned},
   and that pair is an initial entry or was carried together by the 200 answer
   of a call with the same key that had finished EARLIER. *)
Theorem C19_304_body_matches_sent_etag : forall cfg sc c0 evs c sp r sent b,
  get_spec sc c = Some sp -> cs_reply sp = Reply r -> (r_status r = 304 \/ r_status r = 412) ->
  st_calls (run_schedule cfg sc (init c0) evs) c = PDone sent (OkBody b) ->
  cfg_etag cfg = true /\ sent <> "" /\
  exists evs1 evs2, evs = (evs1 ++ Step c :: evs2)%list /\
    let st1 := run_schedule cfg sc (init c0) evs1 in
    st_calls st1 c = PReplied sent /\
    st_cache st1 (cs_key sp) = Some (mkEntry sent b) /\
    (c0 (cs_key sp) = Some (mkEntry sent b) \/
     exists c' sp' r' sent' o', get_spec sc c' = Some sp' /\ cs_key sp' = cs_key sp /\
       cs_reply sp' = Reply r' /\ st_calls st1 c' = PDone sent' o' /\
       r_status r' = 200 /\ r_etag r' = sent /\ r_body r' = b).
Proof.
  intros cfg sc c0 evs c sp r sent b Hsp Hr H34 H.
  apply is_304_412_true in H34.
  destruct (served_from_cache cfg sc c0 evs c sp r sent b Hsp Hr H34 H)
    as [He [Hs [_ [evs1 [evs2 [Hsplit [Hp [Hc Ho]]]]]]]].
  split; [exact He|]. split; [exact Hs|].
  exists evs1, evs2. split; [exact Hsplit|]. split; [exact Hp|]. split; [exact Hc|].
  destruct Ho as [Hi|[c' [sp' [r' [sent' [o' [H1 [H2 [H3 [H4 [H5 [H6 [H7 _]]]]]]]]]]]]].
  - left. exact Hi.
  - right. exists c', sp', r', sent', o'. simpl in H6, H7. tauto.
Qed.
Print Assumptions C19_304_body_matches_sent_etag.

(* ... hence never another call's body under a different ETag: with an empty
   initial cache the body came with exactly the sent ETag in an earlier 200 answer *)
Corollary C19_304_from_empty_cache : forall cfg sc evs c sp r sent b,
  get_spec sc c = Some sp -> cs_reply sp = Reply r -> (r_status r = 304 \/ r_status r = 412) ->
  st_calls (run_schedule cfg sc (init empty_cache) evs) c = PDone sent (OkBody b) ->
  exists c' sp' r', c' <> c /\ get_spec sc c' = Some sp' /\ cs_key sp' = cs_key sp /\
    cs_reply sp' = Reply r' /\ r_status r' = 200 /\ r_etag r' = sent /\ r_body r' = b.
Proof.
  intros cfg sc evs c sp r sent b Hsp Hr H34 H.
  destruct (C19_304_body_matches_sent_etag cfg sc empty_cache evs c sp r sent b Hsp Hr H34 H)
    as [_ [_ [evs1 [evs2 [_ [_ [_ [Hi|Ho]]]]]]]]; [discriminate Hi|].
  destruct Ho as [c' [sp' [r' [sent' [o' [H1 [H2 [H3 [_ [H5 [H6 H7]]]]]]]]]]].
  exists c', sp', r'. split; [|tauto].
  intro E. subst c'. rewrite Hsp in H1. inversion H1; subst sp'. rewrite Hr in H3.
  inversion H3; subst r'. destruct H34 as [E|E]; rewrite E in H5; discriminate H5.
Qed.
Print Assumptions C19_304_from_empty_cache.

(* 3. 429 yields the delay of Retry-After, whatever the mode, cache and schedule *)
Theorem C19_429_delay : forall cfg sc c0 evs c sp r sent o,
  get_spec sc c = Some sp -> cs_reply sp = Reply r -> r_status r = 429 ->
  st_calls (run_schedule cfg sc (init c0) evs) c = PDone sent o ->
  o = TooMany (match r_retry r with
               | RANum n => n                          (* strconv.Atoi *)
               | RADate delta_ms => - ((- delta_ms) / 1000)   (* ceil((date - now) seconds) *)
               | RAAbsent | RAGarbage => 0
               | RAHuge false => 9223372036854775807   (* Atoi's clamped value is kept *)
               | RAHuge true => -9223372036854775808
               end)%Z.
Proof.
  intros cfg sc c0 evs c sp r sent o Hsp Hr H429 H.
  rewrite (too_many cfg sc c0 evs c sp r sent o Hsp Hr H429 H).
  destruct (r_retry r) as [|n|d| |[|]]; reflexivity.
Qed.
Print Assumptions C19_429_delay.

(* 4. A readable 200 answer is judged by the class of its body and the mode only.
   What the library does was determined experimentally (the harness re-checks
   every body text of every case against it): sigs.k8s.io/json UnmarshalStrict
   returns err = nil plus strict errors for unknown and for duplicate fields
   (last value wins); err <> nil for text that is not a JSON object of the right
   shape /\ for a well-formed document followed by anything but white space
   (more text, a second document, a stray brace) - it decodes the whole text. *)
Theorem C19_strict_loose : forall cfg sc c0 evs c sp r sent o,
  get_spec sc c = Some sp -> cs_reply sp = Reply r -> r_status r = 200 -> r_readfail r = false ->
  st_calls (run_schedule cfg sc (init c0) evs) c = PDone sent o ->
  match b_class (r_body r) with
  | BValid | BValidTrailingSpace => o = OkBody (r_body r)
  | BUnknownField | BDuplicateField | BUnknownAndDuplicate =>
      if cfg_strict cfg then o = Err else o = OkBody (r_body r)
  | BInvalidJson | BTrailingGarbage | BTwoDocuments | BStrayBrace => o = Err
  end.
Proof.
  intros cfg sc c0 evs c sp r sent o Hsp Hr H200 Hrf H.
  rewrite (readable_200 cfg sc c0 evs c sp r sent o Hsp Hr H200 Hrf H).
  unfold decode. destruct (b_class (r_body r)); destruct (cfg_strict cfg); reflexivity.
Qed.
Print Assumptions C19_strict_loose.

(* Whatever the status, the schedule and the origin of the body (this response,
   or the ETag cache on 304/412): a call never succeeds with a value decoded
   from an undecodable text (any mode), nor - in strict mode - from a body with
   unknown or duplicate fields.  `decodable_ok` and `accepted_body_ok` are the
   clauses undecodable-body-accepted and strict-invalid-accepted-on-replay of
   the correspondence check. *)
Theorem C19_no_rejected_body_accepted : forall cfg sc c0 evs c sent b,
  st_calls (run_schedule cfg sc (init c0) evs) c = PDone sent (OkBody b) ->
  decodable_ok (OkBody b) = true /\ accepted_body_ok cfg (OkBody b) = true /\
  undecodable (b_class b) = false /\
  (cfg_strict cfg = true -> has_strict_errors (b_class b) = false).
Proof.
  intros cfg sc c0 evs c sent b H.
  destruct (done_moment cfg sc c0 evs c sent _ H) as [evs1 [evs2 [sp [_ [_ [_ Hf]]]]]].
  destruct (finish_ok_inv _ _ _ _ _ _ _ Hf) as [r [_ [_ [_ [_ [_ Hd]]]]]].
  pose proof (decode_acceptable cfg b b Hd) as Ha.
  assert (Hu : undecodable (b_class b) = false).
  { unfold body_acceptable in Ha. destruct (undecodable (b_class b)); [discriminate Ha|reflexivity]. }
  split; [simpl; rewrite Hu; reflexivity|]. split; [exact Ha|]. split; [exact Hu|].
  intro Hs. unfold body_acceptable in Ha. rewrite Hu, Hs in Ha. simpl in Ha.
  destruct (has_strict_errors (b_class b)); [discriminate Ha|reflexivity].
Qed.
Print Assumptions C19_no_rejected_body_accepted.

(* in particular for a body served from the cache on 304/412 *)
Theorem C19_strict_loose_cached : forall cfg sc c0 evs c sp r sent b,
  get_spec sc c = Some sp -> cs_reply sp = Reply r -> (r_status r = 304 \/ r_status r = 412) ->
  st_calls (run_schedule cfg sc (init c0) evs) c = PDone sent (OkBody b) ->
  undecodable (b_class b) = false /\
  (cfg_strict cfg = true -> has_strict_errors (b_class b) = false).
Proof.
  intros cfg sc c0 evs c sp r sent b Hsp Hr H34 H.
  destruct (C19_no_rejected_body_accepted cfg sc c0 evs c sent b H) as [_ [_ Hx]]. exact Hx.
Qed.
Print Assumptions C19_strict_loose_cached.

(* any other status, a transport error (timeout), an unreadable body: error *)
Theorem C19_other_is_error : forall cfg sc c0 evs c sp sent o,
  get_spec sc c = Some sp ->
  st_calls (run_schedule cfg sc (init c0) evs) c = PDone sent o ->
  match cs_reply sp with
  | TransportError => o = Err
  | Reply r =>
      r_status r <> 429 ->
      (r_readfail r = true \/ (r_status r <> 200 /\ r_status r <> 304 /\ r_status r <> 412)) ->
      o = Err
  end.
Proof. exact other_is_error. Qed.
Print Assumptions C19_other_is_error.

(* 5. Without ETag support the cache is never written (it is the initial cache
   minus expired keys), never read (phases and outcomes do not depend on it),
   no header is sent and only 200 succeeds. *)
Theorem C19_plain_mode : forall cfg sc evs,
  cfg_etag cfg = false ->
  (forall c0 k, st_cache (run_schedule cfg sc (init c0) evs) k =
                if existsb (is_expire k) evs then None else c0 k) /\
  (forall c1 c2, st_calls (run_schedule cfg sc (init c1) evs) =
                 st_calls (run_schedule cfg sc (init c2) evs)) /\
  (forall c0 c sent b, st_calls (run_schedule cfg sc (init c0) evs) c = PDone sent (OkBody b) ->
     sent = "" /\ exists sp r, get_spec sc c = Some sp /\ cs_reply sp = Reply r /\ r_status r = 200).
Proof.
  intros cfg sc evs He. split; [|split].
  - intros c0 k. apply (plain_cache_untouched cfg sc evs (init c0) k He).
  - intros c1 c2. apply (plain_cache_unread cfg sc evs c1 c2 _ He).
  - intros c0 c sent b H. apply (plain_only_200 cfg sc c0 evs c sent b He H).
Qed.
Print Assumptions C19_plain_mode.

(* progress: a call that is given its three steps, anywhere in any schedule, finishes *)
Theorem C19_three_steps_finish : forall cfg sc c0 evs c sp,
  get_spec sc c = Some sp -> (3 <= List.length (filter (is_step c) evs))%nat ->
  exists sent o, st_calls (run_schedule cfg sc (init c0) evs) c = PDone sent o.
Proof. exact three_steps_finish. Qed.
Print Assumptions C19_three_steps_finish.

(* The executable clauses the correspondence check evaluates on the
   IMPLEMENTATION's outcomes (Model/Webhook.v call_clauses: non-200-accepted,
   wrong-retry-delay, error-accepted, 304-body-not-for-sent-etag,
   undecodable-body-accepted, the decoding
   clause, strict-invalid-accepted-on-replay, plain-sent-if-none-match) hold of every finished call of every
   schedule of the model. *)
Theorem C19_clauses_hold : forall cfg sc c0 evs c sp sent o,
  get_spec sc c = Some sp ->
  st_calls (run_schedule cfg sc (init c0) evs) c = PDone sent o ->
  forallb snd (call_clauses cfg (init_pairs (cs_key sp) c0 ++ script_pairs (cs_key sp) sc)%list
                            sent (cs_reply sp) o) = true.
Proof. exact model_clauses. Qed.
Print Assumptions C19_clauses_hold.

(* ------------------------------------------------------------------ *)
(* Examples *)
Definition ex_cfg := mkCfg true false.                 (* ETag on, loose *)
Definition ex_b1 := mkBody 1 BValid.
Definition ex_b2 := mkBody 2 BValid.
Definition ex_r304 := mkResp 304 "" RAAbsent (mkBody 0 BInvalidJson) false.
Definition ex_r200 := mkResp 200 "e2" RAAbsent ex_b2 false.
Definition ex_c0 := cache_of_list [(7%Z, mkEntry "e1" ex_b1)].
(* three concurrent calls about parent 7: 0 and 2 are answered 304, 1 is answered 200/e2 *)
Definition ex_script := [mkCall 7 (Reply ex_r304); mkCall 7 (Reply ex_r200); mkCall 7 (Reply ex_r304)].

(* Call 1 stores {e2,b2} between call 0's enrich step (which sent e1) and call 0's
   adjust step: call 0 gets Err, NOT the foreign body b2; call 2, which enriched
   after the store and sent e2, is served b2. *)
Example C19_interleaving_foreign_store :
  let st := run_schedule ex_cfg ex_script (init ex_c0)
              [Step 0; Step 1; Step 1; Step 1; Step 2; Step 0; Step 0; Step 2; Step 2] in
  st_calls st 0%Z = PDone "e1" Err /\
  st_calls st 1%Z = PDone "e1" (OkBody ex_b2) /\
  st_calls st 2%Z = PDone "e2" (OkBody ex_b2) /\
  st_cache st 7%Z = Some (mkEntry "e2" ex_b2).
Proof. vm_compute. repeat split; reflexivity. Qed.

(* the same calls, call 0 finishing before the store: it is served the body cached with e1 *)
Example C19_interleaving_sequential :
  let st := run_schedule ex_cfg ex_script (init ex_c0)
              [Step 0; Step 0; Step 0; Step 1; Step 1; Step 1; Step 2; Step 2; Step 2] in
  st_calls st 0%Z = PDone "e1" (OkBody ex_b1) /\
  st_calls st 1%Z = PDone "e1" (OkBody ex_b2) /\
  st_calls st 2%Z = PDone "e2" (OkBody ex_b2).
Proof. vm_compute. repeat split; reflexivity. Qed.

(* the entry expires between enrich and adjust: error *)
Example C19_expiry_between_steps :
  st_calls (run_schedule ex_cfg ex_script (init ex_c0) [Step 0; Expire 7; Step 0; Step 0]) 0%Z
    = PDone "e1" Err.
Proof. vm_compute. reflexivity. Qed.

(* non-vacuity: call 2 of the first example meets every hypothesis of theorem 2 *)
Example C19_hyps_inhabited :
  get_spec ex_script 2 = Some (mkCall 7 (Reply ex_r304)) /\ r_status ex_r304 = 304%Z /\
  st_calls (run_schedule ex_cfg ex_script (init ex_c0)
              [Step 0; Step 1; Step 1; Step 1; Step 2; Step 0; Step 0; Step 2; Step 2]) 2%Z
    = PDone "e2" (OkBody ex_b2).
Proof. vm_compute. repeat split; reflexivity. Qed.

(* 429: date 2.5 s ahead -> 3, 0.5 s in the past -> 0, out-of-range number -> max int *)
Example C19_retry_examples :
  retry_seconds (RADate 2500) = 3%Z /\ retry_seconds (RADate (-500)) = 0%Z /\
  retry_seconds (RADate (-2500)) = (-2)%Z /\ retry_seconds (RANum 7) = 7%Z /\
  retry_seconds RAGarbage = 0%Z /\ retry_seconds (RAHuge false) = 9223372036854775807%Z.
Proof. vm_compute. repeat split; reflexivity. Qed.

(* strict mode stores a body with an unknown field under its ETag and rejects
   it; a later 304 re-serves that body and is rejected again (loose: accepted) *)
(* a document followed by a second one is stored under its ETag before it is
   decoded, is an error in loose mode too, and stays one when 304 replays it *)
Example C19_trailing_data_replayed :
  let b2 := mkBody 8 BTwoDocuments in
  let sc := [mkCall 7 (Reply (mkResp 200 "e8" RAAbsent b2 false)); mkCall 7 (Reply ex_r304)] in
  let evs := [Step 0; Step 0; Step 0; Step 1; Step 1; Step 1] in
  let st := run_schedule (mkCfg true false) sc (init empty_cache) evs in
  st_calls st 0%Z = PDone "" Err /\ st_calls st 1%Z = PDone "e8" Err /\
  decode (mkCfg true false) (mkBody 9 BValidTrailingSpace) = OkBody (mkBody 9 BValidTrailingSpace).
Proof. vm_compute. repeat split; reflexivity. Qed.

Example C19_strict_cached_both_412 :
  let bb := mkBody 6 BUnknownAndDuplicate in
  let r412 := mkResp 412 "" RAAbsent (mkBody 0 BInvalidJson) false in
  let sc := [mkCall 7 (Reply (mkResp 200 "e6" RAAbsent bb false)); mkCall 7 (Reply r412); mkCall 7 (Reply ex_r304)] in
  let evs := [Step 0; Step 0; Step 0; Step 1; Step 1; Step 1; Step 2; Step 2; Step 2] in
  let st := run_schedule (mkCfg true true) sc (init empty_cache) evs in
  st_calls st 0%Z = PDone "" Err /\ st_calls st 1%Z = PDone "e6" Err /\ st_calls st 2%Z = PDone "e6" Err /\
  st_cache st 7%Z = Some (mkEntry "e6" bb).
Proof. vm_compute. repeat split; reflexivity. Qed.

Example C19_strict_cached_unknown :
  let bu := mkBody 5 BUnknownField in
  let sc := [mkCall 7 (Reply (mkResp 200 "e5" RAAbsent bu false)); mkCall 7 (Reply ex_r304)] in
  let evs := [Step 0; Step 0; Step 0; Step 1; Step 1; Step 1] in
  st_calls (run_schedule (mkCfg true true) sc (init empty_cache) evs) 1%Z = PDone "e5" Err /\
  st_calls (run_schedule (mkCfg true false) sc (init empty_cache) evs) 1%Z = PDone "e5" (OkBody bu).
Proof. vm_compute. repeat split; reflexivity. Qed.
