(* Property C01 — syncing a parent converges and then stays quiet (no hot loop).

   "For any parent object, any deterministic side-effect-free hook and any
    starting cluster contents in which no foreign object occupies a desired
    child's name, repeatedly syncing the parent reaches within a bounded number
    of syncs a state in which the children the parent owns are exactly the
    hook's desired children and, for child types whose update strategy permits
    updates, every field the hook specified has the value the hook specified.
    From that state on a further sync changes nothing in the API server and
    sends no create, update, patch or delete for any child: there is no hot
    loop."

   What is proved about Model/Composite.v (sync) and Model/Apply.v (apply_update):
   1. C01_quiescent       a sync of a converged state sends only GETs and hook calls
                          and returns SDone (the anti-hot-loop core);
   2. C01_update_reaches_fixpoint_partial
                          the object an in-place update produces is left alone by the
                          next sync, also after the server bumped resourceVersion and
                          generation;
   3. C01_created_child_is_fixpoint_partial
                          the object a create produces, with the server-assigned
                          metadata, is left alone by the next sync;
   4. C01_float_refuted   KNOWN FINDING (ledger D17): a hook answer holding the
                          float64 1.0 is re-applied on every sync;
   5. C01_converges_per_child_partial
                          the per-child automaton whose transitions 1-3 (and C06)
                          justify reaches its final state within 3 syncs and stays;
                          its tie to [sync] is exercised by the correspondence runs. *)
From MC Require Import Generated.
From MC Require Import Model.Safe Model.ApplyLaws.
From MC Require Import Proofs.SafeLemmas Proofs.C01Frame Proofs.C01Fixpoint Proofs.C01Quiescent Proofs.C01Proofs.
From MC Require Import Proofs.ObjLemmas Proofs.C06Proofs Proofs.C01Converge.
Local Open Scope string_scope.
Local Open Scope list_scope.

(* ------------------------------------------------------------------ *)
(* 1. a converged state is quiescent                                   *)
(* ------------------------------------------------------------------ *)
(* [converged c k parent r] (Proofs/C01Quiescent.v, a boolean apart from
   k_parent k = Some parent): the parent is not ignored, carries the finalizer
   iff a finalize hook is configured, a hook applies to it; the hook's answer r
   is not "finalized"; dynamic apply (not server-side apply); the parent's status
   is the desired status; every visible cached child is kept or ignored by the
   claim (nothing to adopt or release); and, when children are managed, every
   observed group is of a known kind, every observed child is being deleted or is
   desired, and every desired child (after the label invariant) has an observed
   child of its key for which child_decision is ActNone.
   [C01_env c parent r]: the hook is deterministic (its decoded answer, with
   namespaces defaulted and null children dropped as call_hook does, is r) and
   the GET of the parent returns the parent that was synced. *)
Theorem C01_quiescent :
  forall (c : ccfg) (k : cache) (parent : json) (r : hook_resp),
    converged c k parent r ->
    safe (C01_env c parent r)
         (fun _ cl => match cl with CApi q => q_verb q = VGet | CHook _ _ => True end)
         [] (sync c k).
Proof. exact C01_quiescent. Qed.
Print Assumptions C01_quiescent.

(* with the result: the sync ends in SDone (no requeue with back-off) *)
Theorem C01_quiescent_done :
  forall (c : ccfg) (k : cache) (parent : json) (r : hook_resp),
    converged c k parent r ->
    safeP (C01_env c parent r)
          (fun _ cl => match cl with CApi q => q_verb q = VGet | CHook _ _ => True end)
          (fun _ res => res = SDone)
          [] (sync c k).
Proof. exact C01_quiescent_post. Qed.
Print Assumptions C01_quiescent_done.

(* on runs: against every environment that answers as C01_env says *)
Theorem C01_quiescent_run :
  forall (c : ccfg) (k : cache) (parent : json) (r : hook_resp) (e : env),
    converged c k parent r ->
    (forall h cl, C01_env c parent r cl (e h cl)) ->
    Forall (fun hc => match snd hc with CApi q => q_verb q = VGet | CHook _ _ => True end)
           (calls_with_history (fst (run (sync c k) e []))) /\
    snd (run (sync c k) e []) = SDone.
Proof. exact C01_quiescent_run. Qed.
Print Assumptions C01_quiescent_run.

(* non-vacuity: a concrete controller, cache, parent and hook answer that are
   converged, with one desired and one observed child *)
Example C01_converged_inhabited :
  converged (ex_cfg "InPlace") ex_cache ex_parent ex_resp /\
  (exists sel, make_selector (ex_cfg "InPlace") ex_parent = Some sel /\
               List.length (uobjects (observed_of (ex_cfg "InPlace") ex_cache ex_parent sel)) = 1%nat) /\
  List.length (hr_children ex_resp) = 1%nat.
Proof. exact C01_converged_inhabited. Qed.

(* the observed children of [converged] are what claim_children returns *)
Theorem C01_converged_observed :
  forall (c : ccfg) (k : cache) (parent : json) (sel : selector),
    make_selector c parent = Some sel ->
    forallb (fun kc => forallb (claim_quiet (get_uid parent) (is_deleting parent) sel)
                               (visible_cached c k parent kc)) (kids c) = true ->
    claim_children c k parent = Ret (Some (observed_of c k parent sel)).
Proof. exact claim_children_quiet. Qed.
Print Assumptions C01_converged_observed.

(* the theorem at work on the concrete instance: the environment meets C01_env;
   the trace of the sync is one sync-hook call and one GET; the result is SDone *)
Example C01_quiescent_example :
  (forall h cl, C01_env (ex_cfg "InPlace") ex_parent ex_resp cl (ex_env h cl)) /\
  map (fun ca => match fst ca with
                 | CApi q => verb_eqb (q_verb q) VGet
                 | CHook k _ => hook_kind_eqb k HSync end)
      (trace_of (sync (ex_cfg "InPlace") ex_cache) ex_env) = [true; true] /\
  result_of (sync (ex_cfg "InPlace") ex_cache) ex_env = SDone.
Proof. exact C01_quiescent_example. Qed.

(* ------------------------------------------------------------------ *)
(* 2. an in-place update reaches a fixpoint                            *)
(* ------------------------------------------------------------------ *)
(* Wording asked for: with only "metadata of old is an object" and the C05
   hypotheses on (nullify d, old, last), re-applying d to the result changes
   nothing.  That is FALSE (C01_update_fixpoint_refuted): a desired object that
   specifies a status list map is applied once (the status is reverted) and
   fails the second time.  Closest true statement: add
     desired_ok (nullify d) — no status, metadata absent or an object without
       ownerReferences / system fields, annotations absent or a string map
       without the last-applied record;
     stringy_annots old — the observed annotations are absent or a string map. *)
Theorem C01_update_reaches_fixpoint_partial :
  forall (c : ccfg) (kc : child_cfg) (parent : json) (old d n om : amap) (last : json),
    apply_update old d = Ok n ->
    alookup "metadata" old = Some (JObj om) ->
    get_last_applied old = Ok last ->
    null_okb (JObj (nullify_last_applied d)) (JObj old) last = true ->
    Hb (JObj (nullify_last_applied d)) (JObj old) last = true ->
    wf_json (JObj (nullify_last_applied d)) = true -> wf_json (JObj old) = true -> wf_json last = true ->
    desired_ok (nullify_last_applied d) = true ->
    stringy_annots old = true ->
    apply_update n d = Ok n /\
    child_decision c kc parent (Some (JObj n)) (JObj d) = ActNone /\
    forall (rv : string) (gen : Z),
      apply_update (obj_map (server_bump rv gen (JObj n))) d = Ok (obj_map (server_bump rv gen (JObj n))) /\
      child_decision c kc parent (Some (server_bump rv gen (JObj n))) (JObj d) = ActNone.
Proof. exact C01_update_reaches_fixpoint_partial. Qed.
Print Assumptions C01_update_reaches_fixpoint_partial.

(* non-vacuity of 2: the stored example child (replicas 1) and a hook that now says
   replicas 2 meet every hypothesis, and the update is a real change *)
Example C01_update_hyps_inhabited :
  let old := obj_map ex_child in
  let d := obj_map (ex_d (JInt 2)) in
  let n := res_or_nil (apply_update old d) in
  let last := match get_last_applied old with Ok l => l | _ => JNull end in
  apply_update old d = Ok n /\
  jeqb (JObj n) (JObj old) = false /\
  (exists om, alookup "metadata" old = Some (JObj om)) /\
  get_last_applied old = Ok last /\
  null_okb (JObj (nullify_last_applied d)) (JObj old) last = true /\
  Hb (JObj (nullify_last_applied d)) (JObj old) last = true /\
  wf_json (JObj (nullify_last_applied d)) = true /\ wf_json (JObj old) = true /\ wf_json last = true /\
  desired_ok (nullify_last_applied d) = true /\
  stringy_annots old = true /\
  is_update (child_decision (ex_cfg "InPlace") (ex_kc "InPlace") ex_parent (Some ex_child) (ex_d (JInt 2))) = true.
Proof. exact C01_update_hyps_inhabited. Qed.

(* when the hook's object has no last-applied annotation of its own, nullify is the identity *)
Theorem C01_desired_ok_nullify :
  forall d : amap, desired_ok d = true ->
    nullify_last_applied d = d /\ desired_ok (nullify_last_applied d) = true.
Proof. exact desired_ok_nullify. Qed.

Example C01_update_fixpoint_refuted :
  let n := res_or_nil (apply_update cex2_old cex2_d) in
  exists om,
    apply_update cex2_old cex2_d = Ok n /\
    alookup "metadata" cex2_old = Some (JObj om) /\
    get_last_applied cex2_old = Ok cex2_last /\
    null_okb (JObj (nullify_last_applied cex2_d)) (JObj cex2_old) cex2_last = true /\
    Hb (JObj (nullify_last_applied cex2_d)) (JObj cex2_old) cex2_last = true /\
    wf_json (JObj (nullify_last_applied cex2_d)) = true /\ wf_json (JObj cex2_old) = true /\
    wf_json cex2_last = true /\
    apply_update n cex2_d = Err.
Proof. exact C01_update_fixpoint_refuted. Qed.

(* the invariant behind 2 and 3.  [stable d m]: the merge of d into m with d as
   last applied is the identity, m is well formed, and m records d as last
   applied in a string-valued annotation map.  A stable object is a fixpoint of
   ApplyUpdate, so the controller leaves it alone; stability is established by an
   update and by a create, and survives the server (or the controller) setting
   ownerReferences or any system metadata field. *)
Theorem C01_stable_is_fixpoint :
  forall (d m : amap), stable d m -> apply_update m d = Ok m.
Proof. exact stable_apply_update. Qed.
Print Assumptions C01_stable_is_fixpoint.

Theorem C01_stable_no_write :
  forall (c : ccfg) (kc : child_cfg) (parent : json) (d m : amap),
    stable d m -> child_decision c kc parent (Some (JObj m)) (JObj d) = ActNone.
Proof. exact stable_no_write. Qed.
Print Assumptions C01_stable_no_write.

Theorem C01_update_result_stable :
  forall (old d n om : amap) (last : json),
    apply_update old d = Ok n ->
    alookup "metadata" old = Some (JObj om) ->
    get_last_applied old = Ok last ->
    null_okb (JObj (desired_of d)) (JObj old) last = true ->
    Hb (JObj (desired_of d)) (JObj old) last = true ->
    wf_json (JObj (desired_of d)) = true -> wf_json (JObj old) = true -> wf_json last = true ->
    desired_ok (desired_of d) = true ->
    stringy_annots old = true ->
    stable d n.
Proof. exact update_result_stable. Qed.
Print Assumptions C01_update_result_stable.

Theorem C01_created_stable :
  forall dm : amap,
    self_wf (JObj dm) = true -> wf_json (JObj dm) = true -> desired_ok dm = true ->
    desired_of dm = dm /\ stable dm (set_last_applied dm (JObj dm)).
Proof. exact created_stable. Qed.
Print Assumptions C01_created_stable.

Theorem C01_stable_set_meta :
  forall (d m : amap) (g : string) (v : json) (m' : amap),
    stable d m ->
    wf_json (JObj (desired_of d)) = true ->
    no_server_fields (desired_of d) = true ->
    In g ("ownerReferences" :: object_meta_system_fields) ->
    wf_json v = true ->
    nested_set m ["metadata"; g] v = Some m' ->
    stable d m'.
Proof. exact stable_set_meta. Qed.
Print Assumptions C01_stable_set_meta.

(* the lemma both 2 and 3 rest on: a frame rule for fixpoints of the merge *)
Theorem C01_merge_fix_frame :
  forall d : json, wf_json d = true ->
  forall a b : json, merge d a d = Ok a -> agree d a b -> merge d b d = Ok b.
Proof. exact merge_fix_frame. Qed.
Print Assumptions C01_merge_fix_frame.

(* ------------------------------------------------------------------ *)
(* 3. a created child is a fixpoint                                    *)
(* ------------------------------------------------------------------ *)
(* Wording asked for: under self_wf / wf_json of d and "metadata of d is an
   object or absent".  That is FALSE (C01_created_child_refuted): a desired
   object that itself carries a last-applied annotation is updated right after
   it was created.  Closest true statement: desired_ok d (as in 2). *)
Theorem C01_created_child_is_fixpoint_partial :
  forall (c : ccfg) (kc : child_cfg) (parent : json) (dm : amap) (b : json)
         (uid rv ts : string) (gen : Z),
    self_wf (JObj dm) = true -> wf_json (JObj dm) = true -> desired_ok dm = true ->
    child_decision c kc parent None (JObj dm) = ActCreate b ->
    child_decision c kc parent (Some (server_assign uid rv ts gen b)) (JObj dm) = ActNone.
Proof. exact C01_created_child_is_fixpoint_partial. Qed.
Print Assumptions C01_created_child_is_fixpoint_partial.

Example C01_created_child_refuted :
  let c := ex_cfg "InPlace" in let kc := ex_kc "InPlace" in
  let b := create_body (child_decision c kc ex_parent None (JObj cex3_d)) in
  self_wf (JObj cex3_d) = true /\ wf_json (JObj cex3_d) = true /\
  child_decision c kc ex_parent None (JObj cex3_d) = ActCreate b /\
  is_update (child_decision c kc ex_parent
               (Some (server_assign "cu" "1" "2026-01-01T00:00:00Z" 1 b)) (JObj cex3_d)) = true.
Proof. exact C01_created_child_refuted. Qed.

(* the hypotheses of 3 hold for an ordinary desired child, which is then quiet *)
Example C01_int_is_quiet :
  let c := ex_cfg "InPlace" in let kc := ex_kc "InPlace" in
  let d := ex_d (JInt 1) in
  let b := create_body (child_decision c kc ex_parent None d) in
  child_decision c kc ex_parent None d = ActCreate b /\
  child_decision c kc ex_parent (Some (stored_create "1" b)) d = ActNone /\
  self_wf d = true /\ wf_json d = true /\ desired_ok (obj_map d) = true.
Proof. exact C01_int_is_quiet. Qed.

(* ------------------------------------------------------------------ *)
(* 4. KNOWN FINDING (ledger D17): float64 1.0 never equals the stored 1 *)
(* ------------------------------------------------------------------ *)
Example C01_float_refuted :
  let c := ex_cfg "InPlace" in let kc := ex_kc "InPlace" in
  let d := ex_d (JFloat "1") in
  let b := create_body (child_decision c kc ex_parent None d) in
  let a1 := child_decision c kc ex_parent (Some (stored_create "1" b)) d in
  let a2 := child_decision c kc ex_parent (Some (stored_update "2" (update_body a1))) d in
  child_decision c kc ex_parent None d = ActCreate b /\
  is_update a1 = true /\
  stored_update "1" (update_body a1) = stored_create "1" b /\
  is_update a2 = true /\
  stored_update "2" (update_body a2) = stored_update "2" (update_body a1).
Proof. exact C01_float_refuted. Qed.

Example C01_float_refuted_recreate :
  let c := ex_cfg "Recreate" in let kc := ex_kc "Recreate" in
  let d := ex_d (JFloat "1") in
  let b := create_body (child_decision c kc ex_parent None d) in
  child_decision c kc ex_parent None d = ActCreate b /\
  child_decision c kc ex_parent (Some (stored_create "1" b)) d = ActDelete "cu".
Proof. exact C01_float_refuted_recreate. Qed.

(* ------------------------------------------------------------------ *)
(* 5. bounded convergence of the per-child automaton                   *)
(* ------------------------------------------------------------------ *)
Theorem C01_converges_per_child_partial :
  (forall m s, cnext m s <> []) /\
  (forall m s n s', In s' (cafter m (3 + n) s) -> cfinal m s' = true) /\
  (forall m s, cfinal m s = true <-> s = OwnedEqual \/ (m = MOnDelete /\ s = OwnedDiffers)) /\
  (forall m s s', cfinal m s = true -> In s' (cnext m s) -> s' = s) /\
  (exists m s s', In s' (cafter m 2 s) /\ cfinal m s' = false).
Proof. exact C01_converges_per_child_partial. Qed.
Print Assumptions C01_converges_per_child_partial.

(* ------------------------------------------------------------------ *)
(* 6. the per-child automaton tied to claim_decision / child_decision  *)
(* ------------------------------------------------------------------ *)
(* [child_sync c kc parent sel dm sv w]: what one sync with a fresh cache does to the
   stored child w (None = absent) of the desired object JObj dm: claim_decision, then
   child_decision on the object the claim handed over, each request answered by the
   server model srv_create / srv_put (optimistic on resourceVersion) / srv_delete (uid
   precondition) with the values sv the server assigns.  [abs parent dm w] is the
   automaton state.  [cnext2] is [cnext] plus OrphanMatching -> Absent under Recreate
   (FINDING: an adopted orphan that differs is deleted in the same sync). *)
Theorem C01_child_simulation :
  forall (c : ccfg) (kc : child_cfg) (parent : json) (sel : selector) (dm : amap),
    is_deleting parent = false ->
    self_wf (JObj dm) = true -> wf_json (JObj dm) = true -> desired_ok dm = true ->
    sel_matches sel (get_labels (JObj dm)) = true ->
    meta_objb (JObj dm) = true ->
    forall m : cmethod, cm_of (meth c kc) = Some m ->
    forall (sv : srv) (w : cw),
      start_okb c parent sel dm sv w = true ->
      inv parent sel dm (child_sync c kc parent sel dm sv w) = true /\
      In (abs parent dm (child_sync c kc parent sel dm sv w)) (cnext2 m (abs parent dm w)) /\
      ((m = MRecreate -> abs parent dm w <> OrphanMatching) ->
       In (abs parent dm (child_sync c kc parent sel dm sv w)) (cnext m (abs parent dm w))).
Proof. exact C01_child_simulation. Qed.
Print Assumptions C01_child_simulation.

Theorem C01_child_converges_partial :
  forall (c : ccfg) (kc : child_cfg) (parent : json) (sel : selector) (dm : amap),
    is_deleting parent = false ->
    self_wf (JObj dm) = true -> wf_json (JObj dm) = true -> desired_ok dm = true ->
    sel_matches sel (get_labels (JObj dm)) = true ->
    meta_objb (JObj dm) = true ->
    forall m : cmethod, cm_of (meth c kc) = Some m ->
    forall (sv1 sv2 sv3 : srv) (rest : list srv) (w : cw),
      start_okb c parent sel dm sv1 w = true ->
      let w' := run_syncs c kc parent sel dm (sv1 :: sv2 :: sv3 :: rest) w in
      inv parent sel dm w' = true /\
      cfinal m (abs parent dm w') = true /\
      (forall sv : srv, child_sync c kc parent sel dm sv w' = w').
Proof. exact C01_child_converges_partial. Qed.
Print Assumptions C01_child_converges_partial.

(* what the final state means for the methods that permit changes *)
Theorem C01_child_final_meaning :
  forall (c : ccfg) (kc : child_cfg) (parent : json) (sel : selector) (dm : amap) (m : cmethod),
    cm_of (meth c kc) = Some m ->
    forall w : cw,
      inv parent sel dm w = true -> cfinal m (abs parent dm w) = true -> m <> MOnDelete ->
      exists (o : json) (n : amap),
        w = Some o /\
        claim_decision (get_uid parent) (is_deleting parent) sel o = ClKeep /\
        apply_update (obj_map o) dm = Ok n /\ jeqb (JObj n) o = true /\
        child_decision c kc parent (Some o) (JObj dm) = ActNone.
Proof. exact C01_child_final_meaning. Qed.
Print Assumptions C01_child_final_meaning.

(* through the automaton of C01_converges_per_child_partial *)
Theorem C01_child_run_in_automaton :
  forall (c : ccfg) (kc : child_cfg) (parent : json) (sel : selector) (dm : amap),
    is_deleting parent = false ->
    self_wf (JObj dm) = true -> wf_json (JObj dm) = true -> desired_ok dm = true ->
    sel_matches sel (get_labels (JObj dm)) = true ->
    meta_objb (JObj dm) = true ->
    forall m : cmethod, cm_of (meth c kc) = Some m ->
    forall (svs : list srv) (w : cw),
      match svs with [] => inv parent sel dm w | sv :: _ => start_okb c parent sel dm sv w end = true ->
      (m = MRecreate -> abs parent dm w <> OrphanMatching) ->
      inv parent sel dm (run_syncs c kc parent sel dm svs w) = true /\
      In (abs parent dm (run_syncs c kc parent sel dm svs w)) (cafter m (List.length svs) (abs parent dm w)).
Proof. exact C01_child_run_in_automaton. Qed.
Print Assumptions C01_child_run_in_automaton.

(* with the bound taken from C01_converges_per_child_partial itself *)
Theorem C01_child_converges_by_automaton :
  forall (c : ccfg) (kc : child_cfg) (parent : json) (sel : selector) (dm : amap),
    is_deleting parent = false ->
    self_wf (JObj dm) = true -> wf_json (JObj dm) = true -> desired_ok dm = true ->
    sel_matches sel (get_labels (JObj dm)) = true ->
    meta_objb (JObj dm) = true ->
    forall m : cmethod, cm_of (meth c kc) = Some m ->
    forall (svs : list srv) (w : cw) (n : nat),
      List.length svs = (3 + n)%nat ->
      match svs with [] => inv parent sel dm w | sv :: _ => start_okb c parent sel dm sv w end = true ->
      (m = MRecreate -> abs parent dm w <> OrphanMatching) ->
      cfinal m (abs parent dm (run_syncs c kc parent sel dm svs w)) = true.
Proof. exact C01_child_converges_by_automaton. Qed.
Print Assumptions C01_child_converges_by_automaton.

(* the refined automaton keeps the bound *)
Theorem C01_cnext2_bound :
  forall m s0 s1 s2 s3,
    In s1 (cnext2 m s0) -> In s2 (cnext2 m s1) -> In s3 (cnext2 m s2) -> cfinal m s3 = true.
Proof. exact cnext2_three. Qed.
Print Assumptions C01_cnext2_bound.

(* ApplyUpdate keeps a metadata field neither d nor the last-applied record mentions *)
Theorem C01_update_keeps_field :
  forall (xm d n om dmeta : amap) (last : json) (f : string),
    apply_update xm d = Ok n ->
    alookup "metadata" xm = Some (JObj om) ->
    get_last_applied xm = Ok last ->
    nodup_str (akeys (nullify_last_applied d)) = true ->
    alookup "metadata" (nullify_last_applied d) = Some (JObj dmeta) ->
    ahas f dmeta = false ->
    ahas f (obj_or_nil (jget "metadata" (obj_or_nil last))) = false ->
    ~ In f object_meta_system_fields -> f <> "annotations" ->
    mget (JObj n) f = mget (JObj xm) f.
Proof. exact update_keeps_field. Qed.
Print Assumptions C01_update_keeps_field.

(* the server model stores bodies verbatim: that is the wire for float-free bodies (D17 otherwise) *)
Theorem C01_wire_float_free : forall j : json, float_free j = true -> wire1 j = j.
Proof. exact wire1_float_free. Qed.
Print Assumptions C01_wire_float_free.

Example C01_child_converges_example :
  is_deleting ex_parent = false /\
  self_wf (JObj ex_dm) = true /\ wf_json (JObj ex_dm) = true /\ desired_ok ex_dm = true /\
  float_free (JObj ex_dm) = true /\
  make_selector (ex_cfg "InPlace") ex_parent = Some ex_sel /\
  sel_matches ex_sel (get_labels (JObj ex_dm)) = true /\
  meta_objb (JObj ex_dm) = true /\
  cm_of (meth (ex_cfg "InPlace") (ex_kc "InPlace")) = Some MInPlace /\
  cm_of (meth (ex_cfg "Recreate") (ex_kc "Recreate")) = Some MRecreate /\
  cm_of (meth (ex_cfg "OnDelete") (ex_kc "OnDelete")) = Some MOnDelete /\
  start_okb (ex_cfg "InPlace") ex_parent ex_sel ex_dm (ex_sv "8") (Some ex_orphan) = true /\
  start_okb (ex_cfg "InPlace") ex_parent ex_sel ex_dm (ex_sv "8") None = true /\
  ex_trace "InPlace" (Some ex_orphan) = [OrphanMatching; OwnedDiffers; OwnedEqual; OwnedEqual] /\
  ex_trace "InPlace" None = [Absent; OwnedEqual; OwnedEqual; OwnedEqual] /\
  ex_trace "OnDelete" (Some ex_orphan) = [OrphanMatching; OwnedDiffers; OwnedDiffers; OwnedDiffers] /\
  ex_trace "Recreate" (Some ex_orphan) = [OrphanMatching; Absent; OwnedEqual; OwnedEqual] /\
  ~ In Absent (cnext MRecreate OrphanMatching).
Proof. exact C01_child_converges_example. Qed.

Example C01_child_converges_instance :
  let w' := run_syncs (ex_cfg "InPlace") (ex_kc "InPlace") ex_parent ex_sel ex_dm
                      [ex_sv "8"; ex_sv "9"; ex_sv "10"] (Some ex_orphan) in
  cfinal MInPlace (abs ex_parent ex_dm w') = true /\
  forall sv, child_sync (ex_cfg "InPlace") (ex_kc "InPlace") ex_parent ex_sel ex_dm sv w' = w'.
Proof. exact C01_child_converges_instance. Qed.

(* ---- the decorator leg (C01d): a converged sync of the decorator model is silent ----
   When the answer asks nothing of the target (labels, annotations, status as they are) and every
   desired attachment is settled against the observed ones, the phase after the hook sends no
   request at all: no hot loop on the decorator side either. *)
From MC Require Import Model.Decorator Model.DecoratorPreds Proofs.DecoratorLegs.

Theorem C01d_converged_sync_is_silent :
  forall (c : dcfg) (rl : drule) (parent st : json) (observed : umap) (r : dresp) (desired0 : umap),
    status_map parent = Some st ->
    wf_json st = true ->
    resp_is_noop c parent r = true ->
    desired_map (dr_attachments r) [] = Some desired0 ->
    children_settled (ccfg_of c) parent observed (stamp_all c desired0) ->
    all_calls no_call (finish_d c rl parent observed r).
Proof. exact DecoratorLegs.C01d_converged_sync_is_silent. Qed.
Print Assumptions C01d_converged_sync_is_silent.

Theorem C01d_converged_sync_trace :
  forall (c : dcfg) (rl : drule) (parent st : json) (observed : umap) (r : dresp) (desired0 : umap) (e : env) (h : hist),
    status_map parent = Some st ->
    wf_json st = true ->
    resp_is_noop c parent r = true ->
    desired_map (dr_attachments r) [] = Some desired0 ->
    children_settled (ccfg_of c) parent observed (stamp_all c desired0) ->
    fst (run (finish_d c rl parent observed r) e h) = h.
Proof. exact DecoratorLegs.C01d_converged_sync_trace. Qed.
Print Assumptions C01d_converged_sync_trace.
