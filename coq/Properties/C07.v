(* Property C07 - rolling updates move one child per sync, in hook order, gated on child health. Statements about Model/Rolling.v (pkg/controller/composite/rolling_update.go, controller_revision.go, pkg/dynamic/object/status.go). *)
From MC Require Import Generated Model.Composite Model.TracePreds Model.Safe Model.Rolling Proofs.SafeLemmas Proofs.C04Proofs Proofs.C06Proofs Proofs.RollGate Proofs.C07Proofs.

Theorem C07_claims_functional :
  forall (c : ccfg) (ds : list (string * string * string * json)) (i : nat) 
           (r : revision) (prs : list prev) (cl : claims),
         (forall (k : claim_key) (n : nat), claimant (set_claim cl k n) k = Some n) /\
         (forall (k k' : claim_key) (n : nat),
          ck_eqb k k' = false -> claimant (set_claim cl k n) k' = claimant cl k') /\
         (forall (k : claim_key) (j : nat),
          claimant cl k = Some j -> claimant (snd (claims_of_revision c ds i r cl)) k = Some j) /\
         (forall (k : claim_key) (j : nat),
          claimant cl k = Some j -> claimant (snd (sync_revision_claims c ds i prs cl)) k = Some j) /\
         (forall (k : claim_key) (j : nat),
          claimant cl k = None -> claimant (snd (claims_of_revision c ds i r cl)) k = Some j -> j = i) /\
         (forall (k : claim_key) (j : nat),
          claimant cl k = None ->
          claimant (snd (sync_revision_claims c ds i prs cl)) k = Some j -> i <= j < i + Datatypes.length prs).
Proof. exact (@C07_claims_functional). Qed.
Print Assumptions C07_claims_functional.

Theorem C07_claims_functional_set :
  forall (cl : claims) (k : claim_key) (i : nat),
         claimant (set_claim cl k i) k = Some i /\
         (forall k' : claim_key, ck_eqb k k' = false -> claimant (set_claim cl k i) k' = claimant cl k').
Proof. exact (@C07_claims_functional_set). Qed.
Print Assumptions C07_claims_functional_set.

Theorem C07_free_moves_are_noops :
  forall (c : ccfg) (pns : string) (observed : umap) (prs : list prev) (cl : claims) 
           (prs' : list prev) (cl' : claims) (group kind name : string) (i : nat),
         first_pass c pns observed prs cl = (prs', cl') ->
         claimant cl (group, kind, name) = Some (S i) ->
         claimant cl' (group, kind, name) = Some 0 ->
         exists (latest : prev) (rest : list prev) (av : string) (desired_child child : json) 
         (n : amap),
           prs = latest :: rest /\
           In (av, kind, name, desired_child) (pr_desired latest) /\
           group_of av = group /\
           find_observed pns observed group kind name = Some child /\
           apply_update (obj_map child) (obj_map desired_child) = Ok n /\ jeqb (JObj n) child = true.
Proof. exact (@C07_free_moves_are_noops). Qed.
Print Assumptions C07_free_moves_are_noops.

Theorem C07_first_pass_claims :
  forall (c : ccfg) (pns : string) (observed : umap) (prs : list prev) (cl : claims) 
           (prs' : list prev) (cl' : claims) (k : claim_key),
         first_pass c pns observed prs cl = (prs', cl') ->
         claimant cl' k = claimant cl k \/ claimant cl' k = Some 0.
Proof. exact (@C07_first_pass_claims). Qed.
Print Assumptions C07_first_pass_claims.

Theorem C07_at_most_one_gated_move :
  forall (c : ccfg) (pns : string) (observed : umap) (prs : list prev) (cl : claims) 
           (prs' : list prev) (st : rollout_state),
         second_pass c pns observed prs cl = (prs', st) ->
         match st with
         | RProgressing kind name =>
             exists (latest : prev) (rest : list prev) (o : json),
               prs = latest :: rest /\
               In (Some o) (hr_children (pr_resp latest)) /\
               kind = get_kind o /\
               name = relative_name pns o /\
               (let group := group_of (get_api_version o) in
                prs' =
                set_rev latest (add_child (pr_rev latest) group kind name)
                :: map (fun p : prev => set_rev p (remove_child (pr_rev p) group kind name)) rest)
         | _ => prs' = prs
         end.
Proof. exact (@C07_at_most_one_gated_move). Qed.
Print Assumptions C07_at_most_one_gated_move.

Theorem C07_first_in_hook_order :
  forall (c : ccfg) (pns : string) (observed : umap) (prs : list prev) (cl : claims) 
           (prs' : list prev) (kind name : string),
         second_pass c pns observed prs cl = (prs', RProgressing kind name) ->
         exists (latest : prev) (rest : list prev) (l1 l2 : list (option json)) (o : json),
           prs = latest :: rest /\
           hr_children (pr_resp latest) = (l1 ++ Some o :: l2)%list /\
           kind = get_kind o /\
           name = relative_name pns o /\
           pending c pns cl (Some o) = true /\
           forallb (fun y : option json => negb (pending c pns cl y)) l1 = true.
Proof. exact (@C07_first_in_hook_order). Qed.
Print Assumptions C07_first_in_hook_order.

Theorem C07_gate :
  (forall (c : ccfg) (pns : string) (observed : umap) (prs : list prev) (cl : claims) 
            (prs' : list prev) (kind name : string),
          second_pass c pns observed prs cl = (prs', RProgressing kind name) ->
          exists (latest : prev) (rest : list prev),
            prs = latest :: rest /\ should_continue_rolling c pns latest observed = None) /\
         (forall (c : ccfg) (pns : string) (latest : prev) (observed : umap),
          should_continue_rolling c pns latest observed = None <->
          (forall (ck : rck) (name : string),
           In ck (rev_children (pr_rev latest)) ->
           is_rolling c (ck_group ck) (ck_kind ck) = true ->
           In name (ck_names ck) ->
           exists child : json,
             find_observed pns observed (ck_group ck) (ck_kind ck) name = Some child /\
             child_up_to_date child (find_desired (pr_desired latest) (ck_group ck) (ck_kind ck) name) =
             Some true /\
             child_status_why (checks_for c (ck_group ck) (ck_kind ck)) child = None /\
             (match has_strategy c (ck_group ck) (ck_kind ck) with
              | Some kc => ch_method kc
              | None => ""
              end = method_rolling_in_place ->
              forall og : Z,
              observed_generation child = Some og -> (0 <? og)%Z && (og <? get_generation child)%Z = false))).
Proof. exact (@C07_gate). Qed.
Print Assumptions C07_gate.

Theorem C07_condition :
  (forall status cond s' : json,
          is_cond "Updated" cond = true ->
          set_condition status "Updated" cond = Some s' ->
          status_condition (JObj [("status", s')]) "Updated" = Some cond) /\
         (forall (status : json) (st : rollout_state) (name : string) (s' : json),
          set_condition status "Updated" (rollout_condition st name) = Some s' ->
          status_condition (JObj [("status", s')]) "Updated" = Some (rollout_condition st name)) /\
         (forall (status cond s' : json) (ty' : string),
          is_cond "Updated" cond = true ->
          ty' <> "Updated" ->
          set_condition status "Updated" cond = Some s' ->
          status_condition (JObj [("status", s')]) ty' = status_condition (JObj [("status", status)]) ty') /\
         (forall (c : ccfg) (pns : string) (observed : umap) (prs : list prev) (l : prev) 
            (rest : list prev) (st : rollout_state),
          sync_rolling_update c pns observed prs = Some (l :: rest, st) ->
          status_condition (JObj [("status", hr_status (pr_resp l))]) "Updated" =
          Some (rollout_condition st (rev_name (pr_rev l)))).
Proof. exact (@C07_condition). Qed.
Print Assumptions C07_condition.


(* a RolloutProgressing condition names the child this sync's gated move selected: an older
   revision claimed and listed it before, only the latest lists it after, and the observed
   child is not already in the latest desired state *)
From MC Require Proofs.RollClaims Proofs.RollMoves Proofs.C08Termination Proofs.Round6Rolling.
Theorem C07_progressing_names_the_moved_child :
  forall (c : ccfg) (pns : string) (observed : umap) (latest : prev) (rest : list prev)
         (l' : prev) (rest' : list prev) (st : rollout_state) (cond : json),
  C08Termination.gk_unique_all (latest :: rest) = true ->
  C08Termination.children_desired pns latest = true ->
  sync_rolling_update c pns observed (latest :: rest) = Some (l' :: rest', st) ->
  status_condition (JObj [("status", hr_status (pr_resp l'))]) "Updated" = Some cond ->
  cond_field cond "reason" = "RolloutProgressing" ->
  exists (o : json) (prs1 : list prev) (cl1 : claims) (qA : prev) (restA : list prev) (clA : claims)
         (i : nat) (older : prev),
    sync_revision_claims c (pr_desired latest) 0 (latest :: rest) [] = (prs1, cl1) /\
    first_pass c pns observed prs1 cl1 = (qA :: restA, clA) /\
    In (Some o) (hr_children (pr_resp latest)) /\
    is_rolling c (group_of (get_api_version o)) (get_kind o) = true /\
    st = RProgressing (get_kind o) (relative_name pns o) /\
    cond_field cond "message" = ("updating " ++ get_kind o ++ " " ++ relative_name pns o)%string /\
    second_pass c pns observed (qA :: restA) clA =
      (RollMoves.addf (C08Termination.key_of pns o) qA :: map (RollMoves.remf (C08Termination.key_of pns o)) restA, st) /\
    claimant clA (C08Termination.key_of pns o) = Some (S i) /\
    nth_error (qA :: restA) (S i) = Some older /\
    RollMoves.listsP older (C08Termination.key_of pns o) = true /\
    RollMoves.listsP qA (C08Termination.key_of pns o) = false /\
    RollMoves.listsP l' (C08Termination.key_of pns o) = true /\
    (forall p : prev, In p rest' -> RollMoves.listsP p (C08Termination.key_of pns o) = false) /\
    (forall (av : string) (d : json),
       In (av, get_kind o, relative_name pns o, d) (pr_desired latest) ->
       group_of av = group_of (get_api_version o) ->
       Round6Rolling.really_changes pns observed (C08Termination.key_of pns o) d).
Proof. exact Round6Rolling.C07_progressing_names_the_moved_child. Qed.
Print Assumptions C07_progressing_names_the_moved_child.
