#!/bin/sh
# builds the Safe*/C02/C10/C11 proof files in dependency order
cd /verif/coq
for f in Proofs/SafeLemmas.v Proofs/ObjLemmas.v "$@"; do
  echo "== $f"; coqc -Q . MC $f 2>&1 | head -${LINES_MAX:-60} || exit 1
done
