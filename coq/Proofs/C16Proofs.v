(* C16Proofs.v — property C16 of the decorator model (Model/Decorator.v):
   the string-map merge, the selector conjunction, "only selected targets",
   the shape of every write to the target, "no request when nothing changes",
   and the recognition of attachments. *)
From MC Require Import Generated.
From MC Require Import Model.Decorator Model.DecoratorPreds Model.Safe.
From MC Require Import Proofs.AssocLemmas Proofs.AssocLemmas2 Proofs.ApplyUpdateProofs Proofs.SafeLemmas
     Proofs.C06Proofs Proofs.C03Proofs Proofs.ObjLemmas.
From Coq Require Import Lia.
Local Open Scope list_scope.
Local Open Scope string_scope.

(* ================================================================== *)
(* 1. updateStringMap                                                  *)
(* ================================================================== *)
Lemma slookup_sset_same k v m : slookup k (sset k v m) = Some v.
Proof.
  induction m as [|[k' v'] m IH]; cbn [sset slookup].
  - now rewrite String.eqb_refl.
  - destruct (String.eqb k k') eqn:E; cbn [slookup].
    + now rewrite String.eqb_refl.
    + now rewrite E.
Qed.

Lemma slookup_sset_other k k' v m : k <> k' -> slookup k (sset k' v m) = slookup k m.
Proof.
  intros Hne. induction m as [|[k2 v2] m IH]; cbn [sset slookup].
  - apply String.eqb_neq in Hne. now rewrite Hne.
  - destruct (String.eqb k' k2) eqn:E; cbn [slookup].
    + apply String.eqb_eq in E. subst k2. apply String.eqb_neq in Hne. now rewrite Hne.
    + now rewrite IH.
Qed.

Lemma slookup_sremove_same k m : slookup k (sremove k m) = None.
Proof.
  induction m as [|[k' v'] m IH]; cbn [sremove slookup]; [reflexivity|].
  destruct (String.eqb k k') eqn:E; [exact IH|]. cbn [slookup]. now rewrite E.
Qed.

Lemma slookup_sremove_other k k' m : k <> k' -> slookup k (sremove k' m) = slookup k m.
Proof.
  intros Hne. induction m as [|[k2 v2] m IH]; cbn [sremove slookup]; [reflexivity|].
  destruct (String.eqb k' k2) eqn:E.
  - apply String.eqb_eq in E. subst k2. apply String.eqb_neq in Hne. now rewrite Hne.
  - cbn [slookup]. now rewrite IH.
Qed.

(* one entry of the updates: the key ends up as asked, other keys are untouched, and the
   flag is raised exactly when the key's value differed *)
Lemma usm_step_spec d ch k ov :
  slookup k (fst (usm_step (d, ch) (k, ov))) = ov /\
  (forall k', k' <> k -> slookup k' (fst (usm_step (d, ch) (k, ov))) = slookup k' d) /\
  ((slookup k d = ov /\ usm_step (d, ch) (k, ov) = (d, ch)) \/
   (slookup k d <> ov /\ snd (usm_step (d, ch) (k, ov)) = true)).
Proof.
  unfold usm_step. cbn [fst snd].
  destruct ov as [v|].
  - destruct (slookup k d) as [old|] eqn:El.
    + destruct (String.eqb old v) eqn:Ev.
      * apply String.eqb_eq in Ev. subst old. cbn [fst snd].
        split; [exact El|]. split; [reflexivity|]. left. split; reflexivity.
      * cbn [fst snd]. split; [apply slookup_sset_same|].
        split; [intros k' Hne; now apply slookup_sset_other|].
        right. split; [|reflexivity]. intros [= H]. subst old. now rewrite String.eqb_refl in Ev.
    + cbn [fst snd]. split; [apply slookup_sset_same|].
      split; [intros k' Hne; now apply slookup_sset_other|].
      right. split; [discriminate|reflexivity].
  - destruct (slookup k d) as [old|] eqn:El.
    + cbn [fst snd]. split; [apply slookup_sremove_same|].
      split; [intros k' Hne; now apply slookup_sremove_other|].
      right. split; [discriminate|reflexivity].
    + cbn [fst snd]. split; [exact El|]. split; [reflexivity|]. left. split; reflexivity.
Qed.

Lemma usm_fold_spec u :
  NoDup (map fst u) ->
  forall d ch,
    (forall k ov, In (k, ov) u -> slookup k (fst (fold_left usm_step u (d, ch))) = ov) /\
    (forall k, ~ In k (map fst u) -> slookup k (fst (fold_left usm_step u (d, ch))) = slookup k d) /\
    (snd (fold_left usm_step u (d, ch)) = false <->
     ch = false /\ forall k, slookup k (fst (fold_left usm_step u (d, ch))) = slookup k d).
Proof.
  induction u as [|[k0 ov0] u IH]; intros Hnd d ch.
  - cbn [fold_left fst snd]. split; [intros k ov []|]. split; [reflexivity|]. tauto.
  - cbn [map fst] in Hnd. inversion Hnd as [|? ? Hnotin Hnd']; subst.
    cbn [fold_left].
    destruct (usm_step (d, ch) (k0, ov0)) as [d1 ch1] eqn:Es.
    pose proof (usm_step_spec d ch k0 ov0) as (Hk0 & Hother & Hcase). rewrite Es in Hk0, Hother, Hcase.
    cbn [fst snd] in Hk0, Hother, Hcase.
    specialize (IH Hnd' d1 ch1). destruct IH as (IHin & IHout & IHch).
    split; [|split].
    + intros k ov [Heq | Hin].
      * injection Heq as -> ->. rewrite (IHout k Hnotin). exact Hk0.
      * apply IHin. exact Hin.
    + intros k Hk. cbn [map fst In] in Hk.
      assert (Hk1 : k <> k0) by (intros ->; apply Hk; now left).
      assert (Hk2 : ~ In k (map fst u)) by (intros H; apply Hk; now right).
      rewrite (IHout k Hk2). apply Hother. exact Hk1.
    + rewrite IHch. split.
      * intros [Hch1 Hsame].
        destruct Hcase as [[Hval Heq] | [Hval Hset]]; [|congruence].
        injection Heq as -> ->. split; [exact Hch1|exact Hsame].
      * intros [Hch Hsame].
        destruct Hcase as [[Hval Heq] | [Hval Hset]].
        -- injection Heq as -> ->. split; [exact Hch|exact Hsame].
        -- exfalso. apply Hval. rewrite <- (Hsame k0). rewrite (IHout k0 Hnotin). exact Hk0.
Qed.

(* the two maps hold the same value (or none) under every key *)
Definition smap_equiv (a b : smap) : Prop := forall k, slookup k a = slookup k b.

Theorem C16_update_string_map_spec :
  forall (dest : smap) (updates : list (string * option string)) (dest' : smap) (changed : bool),
    NoDup (map fst updates) ->
    update_string_map dest updates = (dest', changed) ->
    (forall k v, In (k, Some v) updates -> slookup k dest' = Some v) /\
    (forall k, In (k, None) updates -> slookup k dest' = None) /\
    (forall k, ~ In k (map fst updates) -> slookup k dest' = slookup k dest) /\
    (changed = false <-> smap_equiv dest' dest).
Proof.
  intros dest updates dest' changed Hnd Heq. unfold update_string_map in Heq.
  pose proof (usm_fold_spec updates Hnd dest false) as (Hin & Hout & Hch).
  rewrite Heq in Hin, Hout, Hch. cbn [fst snd] in Hin, Hout, Hch.
  split; [intros k v H; apply (Hin k (Some v) H)|].
  split; [intros k H; apply (Hin k None H)|].
  split; [exact Hout|].
  rewrite Hch. unfold smap_equiv. tauto.
Qed.

(* a response that names only what is already there leaves the map alone (no NoDup needed) *)
Lemma usm_noop u m : map_is_noop u m = true -> update_string_map m u = (m, false).
Proof.
  unfold update_string_map, map_is_noop.
  induction u as [|[k ov] u IH]; intros H; [reflexivity|].
  cbn [forallb fst snd] in H. apply Bool.andb_true_iff in H as [Hk Hu].
  cbn [fold_left].
  assert (Hstep : usm_step (m, false) (k, ov) = (m, false)).
  { unfold usm_step. cbn [fst snd].
    destruct ov as [v|]; destruct (slookup k m) as [w|]; try discriminate; try reflexivity.
    apply String.eqb_eq in Hk. subst w. now rewrite String.eqb_refl. }
  rewrite Hstep. apply IH. exact Hu.
Qed.

(* ================================================================== *)
(* 2. the selector is a conjunction, per resource rule                 *)
(* ================================================================== *)
Lemma rule_for_some c o r :
  rule_for c o = Some r ->
  In r (dc_rules c) /\ group_of (rl_api_version r) = group_of (get_api_version o) /\ rl_kind r = get_kind o.
Proof.
  unfold rule_for. intros H. apply find_some in H as [Hin Hm].
  apply in_rev in Hin. unfold rule_matches_gk in Hm.
  apply Bool.andb_true_iff in Hm as [Hg Hk]. apply String.eqb_eq in Hg, Hk. auto.
Qed.

Lemma rule_for_none c o :
  rule_for c o = None <->
  forall r, In r (dc_rules c) ->
            ~ (group_of (rl_api_version r) = group_of (get_api_version o) /\ rl_kind r = get_kind o).
Proof.
  unfold rule_for. split.
  - intros H r Hin [Hg Hk].
    apply in_rev in Hin. pose proof (find_none _ _ H r Hin) as Hf.
    unfold rule_matches_gk in Hf. rewrite Hg, Hk, !String.eqb_refl in Hf. discriminate.
  - intros H. destruct (find _ _) as [r|] eqn:E; [|reflexivity].
    apply find_some in E as [Hin Hm]. apply in_rev in Hin.
    unfold rule_matches_gk in Hm. apply Bool.andb_true_iff in Hm as [Hg Hk]. apply String.eqb_eq in Hg, Hk.
    exfalso. apply (H r Hin). auto.
Qed.

Theorem C16_selector_conjunction :
  forall (c : dcfg) (target : json),
    d_matches c target = true <->
    exists r, rule_for c target = Some r /\
              sel_matches (rl_label_sel r) (get_labels target) = true /\
              sel_matches (rl_annot_sel r) (annots_of target) = true.
Proof.
  intros c target. unfold d_matches. split.
  - destruct (rule_for c target) as [r|]; [|discriminate].
    intros H. apply Bool.andb_true_iff in H as [Hl Ha]. exists r. auto.
  - intros (r & Hr & Hl & Ha). rewrite Hr, Hl, Ha. reflexivity.
Qed.

Theorem C16_unknown_kind_never_matches :
  forall (c : dcfg) (target : json),
    (forall r, In r (dc_rules c) ->
               ~ (group_of (rl_api_version r) = group_of (get_api_version target) /\ rl_kind r = get_kind target)) ->
    d_matches c target = false.
Proof.
  intros c target H. apply rule_for_none in H. unfold d_matches. now rewrite H.
Qed.

(* ================================================================== *)
(* 3. nothing is done for a target that is neither selected nor holds  *)
(*    the finalizer                                                    *)
(* ================================================================== *)
Theorem C16_only_selected :
  forall (c : dcfg) (k : dcache) (t : json),
    target_of c k = Some t ->
    d_matches c t = false ->
    has_finalizer t (d_finalizer_name c) = false ->
    sync_d c k = Ret SDone.
Proof.
  intros c k t Ht Hm Hf. unfold sync_d. unfold target_of in Ht.
  destruct (split_key (dk_key k)) as [[[[av kd] ns] name]|]; [|discriminate].
  destruct (rule_of_key c av kd) as [rl|]; [|discriminate].
  rewrite Ht. unfold sync_parent_d, d_ignores. rewrite Hm, Hf. reflexivity.
Qed.

(* no target in the cache (bad key, unknown kind, no informer, object gone): no call either *)
Theorem C16_no_target_no_call :
  forall (c : dcfg) (k : dcache),
    target_of c k = None -> sync_d c k = Ret SDone \/ sync_d c k = Ret SErr.
Proof.
  intros c k Ht. unfold sync_d. unfold target_of in Ht.
  destruct (split_key (dk_key k)) as [[[[av kd] ns] name]|]; [|now right].
  destruct (rule_of_key c av kd) as [rl|]; [|now right].
  rewrite Ht. now left.
Qed.

(* ================================================================== *)
(* 4. the shape of every request update_target sends                   *)
(* ================================================================== *)
(* the body: the object the sync holds, with the merged maps and the status; the
   resourceVersion of the status write's answer if one was made; without the own
   finalizer iff the response said finalized *)
Definition target_body (c : dcfg) (parent : json) (p : target_plan) (rv : option string) (strip : bool) : json :=
  let b0 := decorated parent (tp_labels p) (tp_annots p) (tp_status p) in
  let b1 := match rv with Some v => set_rv b0 v | None => b0 end in
  if strip then strip_finalizer (d_finalizer_name c) b1 else b1.

Definition target_put (status : bool) (rl : drule) (parent body : json) : call :=
  CApi (rq_put status (rl_res rl) (eff_ns (rl_namespaced rl) (get_ns parent)) (get_name parent) body).

Definition shape_phi (c : dcfg) (rl : drule) (parent : json) (r : dresp) (p : target_plan) (h0 : hist)
           (h : hist) (cl : call) : Prop :=
  let b0 := target_body c parent p None false in
  (cl = target_put true rl parent b0 /\ h = h0 /\ tp_status_changed p = true /\ rl_has_status rl = true) \/
  (cl = target_put false rl parent (target_body c parent p None (dr_finalized r)) /\ h = h0 /\
   tp_status_changed p && rl_has_status rl = false) \/
  (exists result, cl = target_put false rl parent (target_body c parent p (Some (get_rv result)) (dr_finalized r)) /\
                  h = (target_put true rl parent b0, AObj result) :: h0).

Lemma update_target_safe (G : call -> answer -> Prop) c rl parent r p h0 :
  safe G (shape_phi c rl parent r p h0) h0 (update_target c rl parent r p).
Proof.
  unfold update_target.
  destruct (negb (plan_writes c parent r p)); [constructor|].
  destruct (tp_status_changed p && rl_has_status rl) eqn:Est.
  - apply Bool.andb_true_iff in Est as [Hsc Hhs].
    unfold api at 1. cbn [bind].
    constructor.
    + left. unfold target_put, target_body. cbn. auto.
    + intros a _. destruct a as [result|e|b| |z]; cbn [bind].
      * unfold api. cbn [bind]. constructor.
        -- right. right. exists result. unfold target_put, target_body. cbn. auto.
        -- intros a2 _. destruct a2 as [o2|e2|b2| |z2]; cbn [bind]; try constructor.
           destruct e2; constructor.
      * destruct e; cbn [bind]; constructor.
      * constructor.
      * constructor.
      * constructor.
  - cbn [bind]. unfold api. cbn [bind]. constructor.
    + right. left. unfold target_put, target_body. cbn. auto.
    + intros a2 _. destruct a2 as [o2|e2|b2| |z2]; cbn [bind]; try constructor.
      destruct e2; constructor.
Qed.

(* ---- what such a body can differ in from the object it was built on ---- *)
Definition untouched (body base : json) : Prop :=
  (forall k, k <> "metadata" -> k <> "status" -> alookup k (obj_map body) = alookup k (obj_map base)) /\
  (forall k, k <> "labels" -> k <> "annotations" -> k <> "finalizers" -> k <> "resourceVersion" ->
             alookup k (meta_map body) = alookup k (meta_map base)).

Lemma untouched_refl o : untouched o o.
Proof. split; auto. Qed.

Lemma untouched_trans a b c : untouched a b -> untouched b c -> untouched a c.
Proof.
  intros [H1 H2] [H3 H4]. split.
  - intros k Hm Hs. rewrite H1, H3; auto.
  - intros k Hl Ha Hf Hr. rewrite H2, H4; auto.
Qed.

(* writing one key of metadata *)
Lemma untouched_meta_set (m : amap) (f : string) (v : json) (m' : amap) :
  In f ["labels"; "annotations"; "finalizers"; "resourceVersion"] ->
  nested_set m ["metadata"; f] v = Some m' ->
  untouched (JObj m') (JObj m).
Proof.
  intros Hf Hs. rewrite nested_set2 in Hs.
  assert (Hfne : forall k, k <> "labels" -> k <> "annotations" -> k <> "finalizers" -> k <> "resourceVersion" -> k <> f).
  { intros k H1 H2 H3 H4 ->. cbn [In] in Hf. intuition congruence. }
  unfold untouched, meta_map, jget. cbn [obj_map].
  destruct (alookup "metadata" m) as [[| | | | | |l|mm]|] eqn:Em; try discriminate; injection Hs as <-.
  - split.
    + intros k Hk _. apply alookup_aset_other. exact Hk.
    + intros k H1 H2 H3 H4. rewrite alookup_aset_same.
      rewrite alookup_aset_other; [reflexivity|]. apply Hfne; assumption.
  - split.
    + intros k Hk _. apply alookup_aset_other. exact Hk.
    + intros k H1 H2 H3 H4. rewrite alookup_aset_same. cbn [alookup].
      assert (Hne : k <> f) by (apply Hfne; assumption).
      apply String.eqb_neq in Hne. now rewrite Hne.
Qed.

Lemma untouched_set_smap_at o f m :
  In f ["labels"; "annotations"; "finalizers"; "resourceVersion"] ->
  untouched (set_smap_at o ["metadata"; f] m) o.
Proof.
  intros Hf. unfold set_smap_at. destruct o as [| | | | | | |om]; try apply untouched_refl.
  destruct (nested_set om _ _) as [om'|] eqn:E; [|apply untouched_refl].
  eapply untouched_meta_set; eauto.
Qed.

Lemma untouched_set_labels o m : untouched (set_labels o m) o.
Proof. apply untouched_set_smap_at. cbn. auto. Qed.

Lemma untouched_set_annots o m : untouched (set_annots o m) o.
Proof. apply untouched_set_smap_at. cbn. auto. Qed.

Lemma untouched_set_rv o v : untouched (set_rv o v) o.
Proof.
  unfold set_rv. destruct o as [| | | | | | |om]; try apply untouched_refl.
  destruct (nested_set om _ _) as [om'|] eqn:E; [|apply untouched_refl].
  eapply untouched_meta_set; eauto. cbn. auto.
Qed.

Lemma untouched_set_finalizers o fs : untouched (set_finalizers o fs) o.
Proof.
  unfold set_finalizers. destruct o as [| | | | | | |om]; try apply untouched_refl.
  destruct (nested_set om _ _) as [om'|] eqn:E; [|apply untouched_refl].
  eapply untouched_meta_set; eauto. cbn. auto.
Qed.

Lemma untouched_remove_finalizers om :
  untouched (JObj (nested_remove om ["metadata"; "finalizers"])) (JObj om).
Proof.
  rewrite nested_remove2.
  destruct (alookup "metadata" om) as [[| | | | | |l|mm]|] eqn:Em; try apply untouched_refl.
  unfold untouched, meta_map, jget. cbn [obj_map]. split.
  - intros k Hk _. apply alookup_aset_other. exact Hk.
  - intros k H1 H2 H3 H4. rewrite alookup_aset_same. rewrite alookup_aremove.
    apply String.eqb_neq in H3. rewrite H3, Em. reflexivity.
Qed.

Lemma untouched_strip_finalizer f o : untouched (strip_finalizer f o) o.
Proof.
  unfold strip_finalizer.
  destruct (nested_get (obj_map o) ["metadata"; "finalizers"]) as [[| | | | | |l|mm]| |];
    try (destruct o as [| | | | | | |om]; [apply untouched_refl..|apply untouched_remove_finalizers]).
  destruct (forallb _ l).
  - apply untouched_set_finalizers.
  - destruct o as [| | | | | | |om]; [apply untouched_refl..|apply untouched_remove_finalizers].
Qed.

Lemma untouched_set_status o st : untouched (set_status o st) o.
Proof.
  unfold set_status. destruct o as [| | | | | | |om]; try apply untouched_refl.
  unfold untouched, meta_map, jget. cbn [obj_map]. split.
  - intros k _ Hk. apply alookup_aset_other. exact Hk.
  - intros k _ _ _ _. rewrite alookup_aset_other; [reflexivity|discriminate].
Qed.

Lemma untouched_decorated parent ls ans st : untouched (decorated parent ls ans st) parent.
Proof.
  unfold decorated.
  assert (H : untouched (set_annots (set_labels parent ls) ans) parent).
  { eapply untouched_trans; [apply untouched_set_annots|]. apply untouched_set_labels. }
  destruct (is_null st); [exact H|]. eapply untouched_trans; [apply untouched_set_status|exact H].
Qed.

Lemma untouched_target_body c parent p rv strip : untouched (target_body c parent p rv strip) parent.
Proof.
  unfold target_body.
  pose proof (untouched_decorated parent (tp_labels p) (tp_annots p) (tp_status p)) as H0.
  assert (H1 : untouched (match rv with
                          | Some v => set_rv (decorated parent (tp_labels p) (tp_annots p) (tp_status p)) v
                          | None => decorated parent (tp_labels p) (tp_annots p) (tp_status p) end) parent).
  { destruct rv; [eapply untouched_trans; [apply untouched_set_rv|exact H0]|exact H0]. }
  destruct strip; [eapply untouched_trans; [apply untouched_strip_finalizer|exact H1]|exact H1].
Qed.

(* ---- the status key: the metadata setters never touch a top-level key other than "metadata" ---- *)
Definition top_kept (a b : json) : Prop :=
  forall k, k <> "metadata" -> alookup k (obj_map a) = alookup k (obj_map b).

Lemma top_kept_refl o : top_kept o o.
Proof. intros k _. reflexivity. Qed.

Lemma top_kept_trans a b c : top_kept a b -> top_kept b c -> top_kept a c.
Proof. intros H1 H2 k Hk. rewrite H1, H2; auto. Qed.

Lemma top_kept_meta_set (m : amap) f v m' : nested_set m ["metadata"; f] v = Some m' -> top_kept (JObj m') (JObj m).
Proof.
  rewrite nested_set2. intros Hs k Hk. cbn [obj_map].
  destruct (alookup "metadata" m) as [[| | | | | |l|mm]|]; try discriminate; injection Hs as <-;
    apply alookup_aset_other; exact Hk.
Qed.

Lemma top_kept_set_smap_at o f m : top_kept (set_smap_at o ["metadata"; f] m) o.
Proof.
  unfold set_smap_at. destruct o as [| | | | | | |om]; try apply top_kept_refl.
  destruct (nested_set om _ _) as [om'|] eqn:E; [|apply top_kept_refl]. eapply top_kept_meta_set; eauto.
Qed.

Lemma top_kept_set_rv o v : top_kept (set_rv o v) o.
Proof.
  unfold set_rv. destruct o as [| | | | | | |om]; try apply top_kept_refl.
  destruct (nested_set om _ _) as [om'|] eqn:E; [|apply top_kept_refl]. eapply top_kept_meta_set; eauto.
Qed.

Lemma top_kept_set_finalizers o fs : top_kept (set_finalizers o fs) o.
Proof.
  unfold set_finalizers. destruct o as [| | | | | | |om]; try apply top_kept_refl.
  destruct (nested_set om _ _) as [om'|] eqn:E; [|apply top_kept_refl]. eapply top_kept_meta_set; eauto.
Qed.

Lemma top_kept_remove_finalizers om : top_kept (JObj (nested_remove om ["metadata"; "finalizers"])) (JObj om).
Proof.
  rewrite nested_remove2.
  destruct (alookup "metadata" om) as [[| | | | | |l|mm]|]; try apply top_kept_refl.
  intros k Hk. cbn [obj_map]. apply alookup_aset_other. exact Hk.
Qed.

Lemma top_kept_strip_finalizer f o : top_kept (strip_finalizer f o) o.
Proof.
  unfold strip_finalizer.
  destruct (nested_get (obj_map o) ["metadata"; "finalizers"]) as [[| | | | | |l|mm]| |];
    try (destruct o as [| | | | | | |om]; [apply top_kept_refl..|apply top_kept_remove_finalizers]).
  destruct (forallb _ l).
  - apply top_kept_set_finalizers.
  - destruct o as [| | | | | | |om]; [apply top_kept_refl..|apply top_kept_remove_finalizers].
Qed.

(* a null status in the response never changes what is stored under "status": not the value, and not
   whether the key exists (the repaired defect: an absent status used to become an explicit null) *)
Theorem C16_null_status_keeps_status_key :
  forall (c : dcfg) (parent st : json) (r : dresp) (rv : option string) (strip : bool),
    status_map parent = Some st ->
    is_null (dr_status r) = true ->
    alookup "status" (obj_map (target_body c parent (plan_target parent st r) rv strip)) =
    alookup "status" (obj_map parent).
Proof.
  intros c parent st r rv strip Hst Hnull.
  assert (Hps : tp_status (plan_target parent st r) = st).
  { unfold plan_target. rewrite Hnull.
    destruct (update_string_map (get_labels parent) (dr_labels r)).
    destruct (update_string_map (annots_of parent) (dr_annotations r)). reflexivity. }
  assert (Hdec : alookup "status" (obj_map (decorated parent (tp_labels (plan_target parent st r))
                                                     (tp_annots (plan_target parent st r)) st)) =
                 alookup "status" (obj_map parent)).
  { unfold decorated.
    assert (Hm : top_kept (set_annots (set_labels parent (tp_labels (plan_target parent st r)))
                                      (tp_annots (plan_target parent st r))) parent).
    { eapply top_kept_trans; [apply top_kept_set_smap_at|apply top_kept_set_smap_at]. }
    unfold status_map in Hst.
    destruct (alookup "status" (obj_map parent)) as [sv|] eqn:Es.
    - destruct sv; try discriminate. injection Hst as <-. cbn [is_null].
      unfold set_status.
      destruct (set_annots _ _) as [| | | | | | |om] eqn:Eo.
      1-7: rewrite <- Es; apply Hm; discriminate.
      cbn [obj_map]. apply alookup_aset_same.
    - injection Hst as <-. cbn [is_null]. rewrite <- Es. apply Hm. discriminate. }
  unfold target_body. rewrite Hps.
  assert (H1 : top_kept (match rv with
                         | Some v => set_rv (decorated parent (tp_labels (plan_target parent st r))
                                                       (tp_annots (plan_target parent st r)) st) v
                         | None => decorated parent (tp_labels (plan_target parent st r))
                                             (tp_annots (plan_target parent st r)) st end)
                        (decorated parent (tp_labels (plan_target parent st r)) (tp_annots (plan_target parent st r)) st)).
  { destruct rv; [apply top_kept_set_rv|apply top_kept_refl]. }
  rewrite <- Hdec.
  destruct strip.
  - rewrite (top_kept_strip_finalizer _ _ "status") by discriminate. apply H1. discriminate.
  - apply H1. discriminate.
Qed.

Theorem C16_spec_untouched :
  forall (c : dcfg) (rl : drule) (parent : json) (r : dresp) (p : target_plan) (h0 h : hist) (cl : call),
    shape_phi c rl parent r p h0 h cl ->
    exists q, cl = CApi q /\
              (q_verb q = VUpdate \/ q_verb q = VUpdateStatus) /\
              q_res q = rl_res rl /\ q_name q = get_name parent /\
              q_ns q = eff_ns (rl_namespaced rl) (get_ns parent) /\
              jget "spec" (obj_map (q_body q)) = jget "spec" (obj_map parent) /\
              untouched (q_body q) parent.
Proof.
  intros c rl parent r p h0 h cl H.
  assert (Hspec : forall body, untouched body parent -> jget "spec" (obj_map body) = jget "spec" (obj_map parent)).
  { intros body [Hu _]. unfold jget. rewrite Hu; [reflexivity|discriminate|discriminate]. }
  destruct H as [(-> & _)|[(-> & _)|(result & -> & _)]]; unfold target_put;
    eexists; (split; [reflexivity|]); cbn [q_verb q_res q_name q_ns q_body rq_put];
    (split; [auto|]); (split; [reflexivity|]); (split; [reflexivity|]); (split; [reflexivity|]);
    (split; [apply Hspec|]); apply untouched_target_body.
Qed.

(* ================================================================== *)
(* 5. no request when the response asks for nothing                    *)
(* ================================================================== *)
Theorem C16_no_request_when_unchanged_model :
  forall (c : dcfg) (rl : drule) (parent st : json) (r : dresp),
    status_map parent = Some st ->
    wf_json st = true ->
    resp_is_noop c parent r = true ->
    update_target c rl parent r (plan_target parent st r) = Ret None.
Proof.
  intros c rl parent st r Hst Hwf Hnoop.
  unfold resp_is_noop in Hnoop. rewrite Hst in Hnoop.
  apply Bool.andb_true_iff in Hnoop as [Hnoop Hfin].
  apply Bool.andb_true_iff in Hnoop as [Hnoop Hstatus].
  apply Bool.andb_true_iff in Hnoop as [Hl Ha].
  unfold update_target, plan_writes, plan_target.
  rewrite (usm_noop _ _ Hl), (usm_noop _ _ Ha). cbn [tp_labels_changed tp_annots_changed tp_status_changed orb].
  assert (Hsame : jeqb st (if is_null (dr_status r) then st else dr_status r) = true).
  { destruct (is_null (dr_status r)); [apply jeqb_refl; exact Hwf|]. cbn [orb] in Hstatus. exact Hstatus. }
  rewrite Hsame. cbn [negb orb].
  apply Bool.negb_true_iff in Hfin. rewrite Hfin. reflexivity.
Qed.

(* what is left of finish_d then: the attachments only *)
Definition finish_attachments (c : dcfg) (parent : json) (observed : umap) (r : dresp) : prog sync_result :=
  match desired_map (dr_attachments r) [] with
  | None => Ret SPanic
  | Some desired0 =>
      failed <~ (if negb (is_deleting parent) || should_finalize_d c parent
                 then manage_children (ccfg_of c) parent observed (stamp_all c desired0)
                 else Ret false) ;;
      Ret (if failed then SErr else SDone)
  end.

Theorem C16_unchanged_only_attachments :
  forall (c : dcfg) (rl : drule) (parent st : json) (observed : umap) (r : dresp),
    status_map parent = Some st ->
    wf_json st = true ->
    resp_is_noop c parent r = true ->
    finish_d c rl parent observed r = finish_attachments c parent observed r.
Proof.
  intros c rl parent st observed r Hst Hwf Hnoop.
  unfold finish_d, finish_attachments.
  destruct (desired_map (dr_attachments r) []) as [d0|]; [|reflexivity].
  rewrite Hst. rewrite (C16_no_request_when_unchanged_model c rl parent st r Hst Hwf Hnoop).
  reflexivity.
Qed.

(* ================================================================== *)
(* 6. attachments: controller reference to the target + own marker     *)
(* ================================================================== *)
(* every cached object of an attachment rule that passes the filter *)
Definition all_attachments (c : dcfg) (k : dcache) (parent : json) : list json :=
  flat_map (fun kc => filter (is_attachment c parent) (cached_d k (ch_res kc))) (dc_attachments c).

Definition attach_step (c : dcfg) (k : dcache) (parent : json) (m : umap) (kc : child_cfg) : umap :=
  fold_left (fun m o => uinsert o m) (filter (is_attachment c parent) (cached_d k (ch_res kc)))
            (uinit (ch_api_version kc) (ch_kind kc) m).

Lemma get_children_d_fold c k parent :
  get_children_d c k parent = fold_left (attach_step c k parent) (dc_attachments c) [].
Proof. reflexivity. Qed.

(* ---- only filtered objects are reported (no hypothesis on the cache) ---- *)
Lemma attach_fold_sound c k parent ks : forall m o,
  In o (uobjects (fold_left (attach_step c k parent) ks m)) ->
  In o (flat_map (fun kc => filter (is_attachment c parent) (cached_d k (ch_res kc))) ks) \/ In o (uobjects m).
Proof.
  induction ks as [|kc ks IH]; intros m o H; cbn [fold_left flat_map] in *.
  - now right.
  - destruct (IH _ _ H) as [H1 | H1].
    + left. apply in_or_app. now right.
    + unfold attach_step in H1. apply fold_uinsert_objects in H1. destruct H1 as [H1 | H1].
      * left. apply in_or_app. now left.
      * right. eapply uinit_objects. exact H1.
Qed.

Theorem C16_attachments_only_marked :
  forall (c : dcfg) (k : dcache) (parent o : json),
    In o (uobjects (get_children_d c k parent)) ->
    exists kc, In kc (dc_attachments c) /\ In o (cached_d k (ch_res kc)) /\
               visible_d parent o = true /\ controlled_by o (get_uid parent) = true /\ has_marker c o = true.
Proof.
  intros c k parent o H. rewrite get_children_d_fold in H.
  apply attach_fold_sound in H. destruct H as [H | []].
  apply in_flat_map in H as (kc & Hkc & Hin). apply filter_In in Hin as [Hin Hf].
  unfold is_attachment in Hf. apply Bool.andb_true_iff in Hf as [Hf Hm]. apply Bool.andb_true_iff in Hf as [Hv Hc].
  exists kc. auto.
Qed.

(* ---- every filtered object is reported, for a duplicate-free cache ---- *)
Definition okey (o : json) : string * string * string := (get_api_version o, get_kind o, qualified_name o).

(* entries sit under their own apiVersion / kind / qualified name *)
Definition wf_entries (m : umap) : Prop :=
  forall av kd os n x, In (av, kd, os) m -> In (n, x) os -> okey x = (av, kd, n).

Lemma in_uobjects x m : In x (uobjects m) <-> exists av kd os n, In (av, kd, os) m /\ In (n, x) os.
Proof.
  unfold uobjects. rewrite in_flat_map. split.
  - intros ([[av kd] os] & Hg & Hx). apply in_map_iff in Hx as ([n x'] & Hx & Hin). cbn [snd] in Hx. subst x'.
    exists av, kd, os, n. auto.
  - intros (av & kd & os & n & Hg & Hin). exists (av, kd, os). split; [exact Hg|].
    apply in_map_iff. exists (n, x). auto.
Qed.

Lemma oset_has n o os : In (n, o) (oset n o os).
Proof.
  induction os as [|[k v] os IH]; cbn [oset]; [now left|].
  destruct (String.eqb n k); [now left|now right].
Qed.

Lemma oset_keeps n o os n' x : n' <> n -> In (n', x) os -> In (n', x) (oset n o os).
Proof.
  intros Hne. induction os as [|[k v] os IH]; cbn [oset]; [intros []|].
  intros [H | H].
  - injection H as -> ->. apply String.eqb_neq in Hne. rewrite String.eqb_sym in Hne.
    destruct (String.eqb n n') eqn:E; [rewrite String.eqb_sym in E; congruence|]. now left.
  - destruct (String.eqb n k); [now right|]. right. now apply IH.
Qed.

Lemma uinsert_at_has av kd n o m : In o (uobjects (uinsert_at av kd n o m)).
Proof.
  induction m as [|[[av' kd'] os] m IH]; cbn [uinsert_at].
  - cbn. now left.
  - destruct (String.eqb av av' && String.eqb kd kd'); rewrite uobjects_cons; apply in_or_app.
    + left. apply in_map_iff. exists (n, o). split; [reflexivity|apply oset_has].
    + right. exact IH.
Qed.

Lemma uinsert_at_keeps av kd n o m av' kd' os n' x :
  In (av', kd', os) m -> In (n', x) os -> (av', kd', n') <> (av, kd, n) ->
  exists os', In (av', kd', os') (uinsert_at av kd n o m) /\ In (n', x) os'.
Proof.
  intros Hg Hx Hne. induction m as [|[[av2 kd2] os2] m IH]; [destruct Hg|].
  cbn [uinsert_at]. destruct (String.eqb av av2 && String.eqb kd kd2) eqn:E.
  - destruct Hg as [Hg | Hg].
    + injection Hg as -> -> ->. apply Bool.andb_true_iff in E as [E1 E2].
      apply String.eqb_eq in E1, E2. subst av' kd'.
      exists (oset n o os). split; [now left|]. apply oset_keeps; [|exact Hx]. intros ->. now apply Hne.
    + exists os. split; [now right|exact Hx].
  - destruct Hg as [Hg | Hg].
    + injection Hg as -> -> ->. exists os. split; [now left|exact Hx].
    + destruct (IH Hg) as (os' & H1 & H2). exists os'. split; [now right|exact H2].
Qed.

Lemma uinsert_at_entries av kd n o m av' kd' os' n' x :
  In (av', kd', os') (uinsert_at av kd n o m) -> In (n', x) os' ->
  ((av', kd', n') = (av, kd, n) /\ x = o) \/ exists os, In (av', kd', os) m /\ In (n', x) os.
Proof.
  induction m as [|[[av2 kd2] os2] m IH]; cbn [uinsert_at].
  - intros [H | []] Hx. injection H as <- <- <-. destruct Hx as [Hx | []]. injection Hx as <- <-. now left.
  - destruct (String.eqb av av2 && String.eqb kd kd2) eqn:E.
    + intros [H | H] Hx.
      * injection H as <- <- <-. apply Bool.andb_true_iff in E as [E1 E2]. apply String.eqb_eq in E1, E2. subst av2 kd2.
        destruct (oset_In _ _ _ _ _ Hx) as [[-> ->] | Hx'].
        -- now left.
        -- right. exists os2. split; [now left|exact Hx'].
      * right. exists os'. split; [now right|exact Hx].
    + intros [H | H] Hx.
      * injection H as <- <- <-. right. exists os2. split; [now left|exact Hx].
      * destruct (IH H Hx) as [H' | (os & H1 & H2)]; [now left|]. right. exists os. split; [now right|exact H2].
Qed.

Lemma uinsert_wf o m : wf_entries m -> wf_entries (uinsert o m).
Proof.
  intros Hwf av kd os n x Hg Hx. unfold uinsert in Hg.
  destruct (uinsert_at_entries _ _ _ _ _ _ _ _ _ _ Hg Hx) as [[Hk ->] | (os0 & H1 & H2)].
  - unfold okey. now rewrite Hk.
  - eapply Hwf; eauto.
Qed.

Lemma uinsert_has o m : In o (uobjects (uinsert o m)).
Proof. apply uinsert_at_has. Qed.

Lemma uinsert_keeps_obj o m x :
  wf_entries m -> In x (uobjects m) -> okey x <> okey o -> In x (uobjects (uinsert o m)).
Proof.
  intros Hwf Hx Hne. apply in_uobjects in Hx as (av & kd & os & n & Hg & Hin).
  pose proof (Hwf _ _ _ _ _ Hg Hin) as Hk.
  destruct (uinsert_at_keeps (get_api_version o) (get_kind o) (qualified_name o) o m av kd os n x Hg Hin) as (os' & H1 & H2).
  { rewrite <- Hk. exact Hne. }
  apply in_uobjects. exists av, kd, os', n. auto.
Qed.

Lemma uinit_wf av kd m : wf_entries m -> wf_entries (uinit av kd m).
Proof.
  intros Hwf av' kd' os n x Hg Hx. apply uinit_in in Hg. destruct Hg as [Hg | Hg].
  - eapply Hwf; eauto.
  - injection Hg as -> -> ->. destruct Hx.
Qed.

Lemma uinit_keeps_obj av kd m x : In x (uobjects m) -> In x (uobjects (uinit av kd m)).
Proof.
  induction m as [|[[av' kd'] os] m IH]; cbn [uinit]; [intros []|].
  destruct (String.eqb av av' && String.eqb kd kd'); [auto|].
  rewrite !uobjects_cons. intros H. apply in_app_or in H. apply in_or_app. destruct H; [now left|right; auto].
Qed.

Lemma fold_uinsert_wf (l : list json) : forall m, wf_entries m -> wf_entries (fold_left (fun m o => uinsert o m) l m).
Proof. induction l as [|a l IH]; intros m H; cbn [fold_left]; [exact H|]. apply IH. now apply uinsert_wf. Qed.

Lemma fold_uinsert_complete (l : list json) : forall m,
  wf_entries m ->
  NoDup (map okey l) ->
  (forall x, In x (uobjects m) -> ~ In (okey x) (map okey l)) ->
  forall o, In o l \/ In o (uobjects m) -> In o (uobjects (fold_left (fun m o => uinsert o m) l m)).
Proof.
  induction l as [|a l IH]; intros m Hwf Hnd Hdis o Ho; cbn [fold_left].
  - destruct Ho as [[] | Ho]. exact Ho.
  - cbn [map] in Hnd. inversion Hnd as [|? ? Hnotin Hnd']; subst.
    apply IH; [now apply uinsert_wf|exact Hnd'| |].
    + intros x Hx. unfold uinsert in Hx. apply uinsert_at_objects in Hx. destruct Hx as [-> | Hx]; [exact Hnotin|].
      intros Hin. apply (Hdis x Hx). cbn [map In]. now right.
    + destruct Ho as [[-> | Ho] | Ho].
      * right. apply uinsert_has.
      * now left.
      * right. apply uinsert_keeps_obj; [exact Hwf|exact Ho|].
        intros Heq. apply (Hdis o Ho). cbn [map In]. now left.
Qed.

Lemma NoDup_app_inv {A} (a b : list A) :
  NoDup (a ++ b) -> NoDup a /\ NoDup b /\ (forall x, In x a -> ~ In x b).
Proof.
  induction a as [|x a IH]; cbn [app]; intros H.
  - split; [constructor|]. split; [exact H|]. intros x [].
  - inversion H as [|? ? Hn Hnd]; subst. destruct (IH Hnd) as (Ha & Hb & Hd).
    split; [constructor; [intros Hin; apply Hn; apply in_or_app; now left|exact Ha]|].
    split; [exact Hb|]. intros y [-> | Hy]; [intros Hin; apply Hn; apply in_or_app; now right|now apply Hd].
Qed.

Lemma attach_fold_complete c k parent ks : forall m,
  wf_entries m ->
  NoDup (map okey (flat_map (fun kc => filter (is_attachment c parent) (cached_d k (ch_res kc))) ks)) ->
  (forall x, In x (uobjects m) ->
             ~ In (okey x) (map okey (flat_map (fun kc => filter (is_attachment c parent) (cached_d k (ch_res kc))) ks))) ->
  forall o, In o (flat_map (fun kc => filter (is_attachment c parent) (cached_d k (ch_res kc))) ks) \/ In o (uobjects m) ->
            In o (uobjects (fold_left (attach_step c k parent) ks m)).
Proof.
  induction ks as [|kc ks IH]; intros m Hwf Hnd Hdis o Ho; cbn [fold_left flat_map] in *.
  - destruct Ho as [[] | Ho]. exact Ho.
  - rewrite map_app in Hnd, Hdis. apply NoDup_app_inv in Hnd as (Hnd1 & Hnd2 & Hcross).
    set (F := filter (is_attachment c parent) (cached_d k (ch_res kc))) in *.
    assert (Hwf1 : wf_entries (uinit (ch_api_version kc) (ch_kind kc) m)) by now apply uinit_wf.
    assert (Hdis1 : forall x, In x (uobjects (uinit (ch_api_version kc) (ch_kind kc) m)) -> ~ In (okey x) (map okey F)).
    { intros x Hx Hin. apply uinit_objects in Hx. apply (Hdis x Hx). apply in_or_app. now left. }
    apply IH.
    + unfold attach_step. now apply fold_uinsert_wf.
    + exact Hnd2.
    + intros x Hx. unfold attach_step in Hx. apply fold_uinsert_objects in Hx. destruct Hx as [Hx | Hx].
      * apply Hcross. apply in_map. exact Hx.
      * apply uinit_objects in Hx. intros Hin. apply (Hdis x Hx). apply in_or_app. now right.
    + destruct Ho as [Ho | Ho].
      * apply in_app_or in Ho. destruct Ho as [Ho | Ho]; [|now left].
        right. unfold attach_step. apply fold_uinsert_complete; auto.
      * right. unfold attach_step. apply fold_uinsert_complete; auto. right. now apply uinit_keeps_obj.
Qed.

Theorem C16_attachments_marker_iff :
  forall (c : dcfg) (k : dcache) (parent o : json),
    NoDup (map okey (all_attachments c k parent)) ->
    (In o (uobjects (get_children_d c k parent)) <->
     exists kc, In kc (dc_attachments c) /\ In o (cached_d k (ch_res kc)) /\
                visible_d parent o = true /\ controlled_by o (get_uid parent) = true /\ has_marker c o = true).
Proof.
  intros c k parent o Hnd. split; [apply C16_attachments_only_marked|].
  intros (kc & Hkc & Hin & Hv & Hc & Hm).
  rewrite get_children_d_fold. apply attach_fold_complete.
  - intros av kd os n x [].
  - exact Hnd.
  - intros x [].
  - left. apply in_flat_map. exists kc. split; [exact Hkc|]. apply filter_In. split; [exact Hin|].
    unfold is_attachment. now rewrite Hv, Hc, Hm.
Qed.

(* ---- the stamping loop: every desired attachment carries the marker ---- *)
Definition meta_settable (o : json) : bool :=
  match o with
  | JObj m => match alookup "metadata" m with None | Some (JObj _) => true | Some _ => false end
  | _ => false
  end.

Definition jstr_map (m : smap) : amap := map (fun kv => (fst kv, JStr (snd kv))) m.

Lemma alookup_jstr_map k m : alookup k (jstr_map m) = option_map JStr (slookup k m).
Proof.
  induction m as [|[k' v] m IH]; cbn [jstr_map map alookup slookup fst snd]; [reflexivity|].
  destruct (String.eqb k k'); [reflexivity|exact IH].
Qed.

Lemma forallb_jstr_map m :
  forallb (fun kv : string * json => match snd kv with JStr _ | JText _ => true | _ => false end) (jstr_map m) = true.
Proof. induction m as [|[k v] m IH]; cbn; auto. Qed.

Lemma slookup_strmap k v (m : amap) :
  forallb (fun kv : string * json => match snd kv with JStr _ => true | _ => false end) m = true ->
  slookup k (map (fun kv : string * json => (fst kv, match snd kv with JStr s => s | _ => "" end)) m) = Some v ->
  alookup k m = Some (JStr v).
Proof.
  induction m as [|[k' j] m IH]; cbn [forallb map slookup alookup fst snd]; [discriminate|].
  intros Hall Hl. apply Bool.andb_true_iff in Hall as [Hj Hall].
  destruct (String.eqb k k').
  - destruct j; try discriminate. now injection Hl as ->.
  - now apply IH.
Qed.

Lemma forallb_weaken {A} (p q : A -> bool) l : (forall x, p x = true -> q x = true) -> forallb p l = true -> forallb q l = true.
Proof. intros H. induction l as [|a l IH]; cbn; [auto|]. intros Hp. apply Bool.andb_true_iff in Hp as [H1 H2]. now rewrite (H _ H1), IH. Qed.

Lemma annotation_string_of_annots o k v : slookup k (annots_of o) = Some v -> annotation_string o k = v.
Proof.
  unfold annots_of, string_map_at, annotation_string, get_annotation.
  destruct (nested_get (obj_map o) ["metadata"; "annotations"]) as [[| | | | | |l|m]| |]; try discriminate.
  destruct (forallb _ m) eqn:Ea; [|discriminate].
  intros Hl.
  assert (Ea' : forallb (fun kv : string * json => match snd kv with JStr _ | JText _ => true | _ => false end) m = true).
  { eapply forallb_weaken; [|exact Ea]. intros [a j]. cbn [snd]. destruct j; auto. }
  rewrite Ea'. now rewrite (slookup_strmap k v m Ea Hl).
Qed.

Lemma annotation_string_set_annots o m k :
  meta_settable o = true ->
  annotation_string (set_annots o m) k = match slookup k m with Some v => v | None => "" end.
Proof.
  unfold meta_settable, set_annots, set_smap_at. destruct o as [| | | | | | |om]; try discriminate.
  intros Hs. fold (jstr_map m).
  destruct (nested_set om ["metadata"; "annotations"] (JObj (jstr_map m))) as [om'|] eqn:E.
  - unfold annotation_string, get_annotation. cbn [obj_map].
    rewrite (nget_meta_set_same _ _ _ _ E). rewrite forallb_jstr_map, alookup_jstr_map.
    destruct (slookup k m); reflexivity.
  - rewrite nset2 in E. destruct (alookup "metadata" om) as [[]|]; discriminate.
Qed.

Theorem C16_stamp_marker :
  forall (c : dcfg) (o : json),
    dc_name c <> "" -> meta_settable o = true -> has_marker c (stamp_marker c o) = true.
Proof.
  intros c o Hname Hs. unfold has_marker, stamp_marker.
  destruct (String.eqb (match slookup decorator_controller_annotation (annots_of o) with Some v => v | None => "" end) (dc_name c)) eqn:E.
  - apply String.eqb_eq in E.
    destruct (slookup decorator_controller_annotation (annots_of o)) as [v|] eqn:El; [|congruence].
    rewrite (annotation_string_of_annots _ _ _ El). subst v. apply String.eqb_refl.
  - rewrite annotation_string_set_annots by exact Hs. rewrite slookup_sset_same. apply String.eqb_refl.
Qed.

Lemma stamp_all_objects c m x :
  In x (uobjects (stamp_all c m)) -> exists o, In o (uobjects m) /\ x = stamp_marker c o.
Proof.
  unfold stamp_all, uobjects. rewrite in_flat_map. intros ([[av kd] os] & Hg & Hx).
  apply in_map_iff in Hg as ([[av' kd'] os'] & Heq & Hg). injection Heq as <- <- <-.
  apply in_map_iff in Hx as ([n y] & Hy & Hin). cbn [snd] in Hy. subst y.
  apply in_map_iff in Hin as ([n' o] & Heq & Hin). injection Heq as <- <-. cbn [snd].
  exists o. split; [|reflexivity]. apply in_flat_map. exists (av', kd', os'). split; [exact Hg|].
  apply in_map_iff. exists (n', o). auto.
Qed.

Theorem C16_desired_attachments_marked :
  forall (c : dcfg) (desired0 : umap) (x : json),
    dc_name c <> "" ->
    (forall o, In o (uobjects desired0) -> meta_settable o = true) ->
    In x (uobjects (stamp_all c desired0)) -> has_marker c x = true.
Proof.
  intros c d0 x Hname Hok Hx. apply stamp_all_objects in Hx as (o & Ho & ->).
  apply C16_stamp_marker; auto.
Qed.

Print Assumptions C16_update_string_map_spec.
Print Assumptions C16_spec_untouched.
Print Assumptions C16_attachments_marker_iff.
Print Assumptions C16_desired_attachments_marked.

(* ---- the same, for every answer function: whatever the server answers, each request
   update_target sends addresses the target with Update / UpdateStatus and carries a body that
   agrees with the object the sync holds on spec and on all metadata outside
   labels / annotations / finalizers / resourceVersion ---- *)
Theorem C16_target_writes_run :
  forall (c : dcfg) (rl : drule) (parent : json) (r : dresp) (p : target_plan) (e : env),
    Forall (fun hc : hist * call =>
              exists q, snd hc = CApi q /\
                        (q_verb q = VUpdate \/ q_verb q = VUpdateStatus) /\
                        q_res q = rl_res rl /\ q_name q = get_name parent /\
                        q_ns q = eff_ns (rl_namespaced rl) (get_ns parent) /\
                        jget "spec" (obj_map (q_body q)) = jget "spec" (obj_map parent) /\
                        untouched (q_body q) parent)
           (calls_with_history (fst (run (update_target c rl parent r p) e []))).
Proof.
  intros c rl parent r p e.
  pose proof (safe_run (fun _ _ => True) (shape_phi c rl parent r p []) e (update_target c rl parent r p)
                       (update_target_safe _ c rl parent r p []) (fun _ _ => I)) as H.
  eapply Forall_impl; [|exact H]. intros [h cl] Hphi. cbn [fst snd] in *.
  eapply C16_spec_untouched. exact Hphi.
Qed.

(* a sync makes at most two requests to its target after the hook: the status write and the metadata write *)
Theorem C16_at_most_two_target_writes :
  forall (c : dcfg) (rl : drule) (parent : json) (r : dresp) (p : target_plan) (e : env),
    List.length (fst (run (update_target c rl parent r p) e [])) <= 2.
Proof.
  intros c rl parent r p e. unfold update_target.
  destruct (negb (plan_writes c parent r p)); [cbn; lia|].
  destruct (tp_status_changed p && rl_has_status rl).
  - unfold api. cbn [bind run]. cbv zeta.
    destruct (e [] _) as [result|er|b| |z]; cbn [bind run fst List.length]; cbv zeta;
      try (destruct er; cbn [bind run fst List.length]; lia); try lia.
    destruct (e _ _) as [o2|e2|b2| |z2]; cbn [bind run fst List.length]; try lia.
    destruct e2; cbn [bind run fst List.length]; lia.
  - unfold api. cbn [bind run]. cbv zeta.
    destruct (e [] _) as [o2|e2|b2| |z2]; cbn [bind run fst List.length]; try lia.
    destruct e2; cbn [bind run fst List.length]; lia.
Qed.
Print Assumptions C16_target_writes_run.

(* ================================================================== *)
(* 7. child management touches only observed objects                   *)
(* ================================================================== *)
(* every request of ManageChildren is a create, a background delete conditioned on the UID of an
   observed object, or an update whose body is the apply-merge onto an observed object *)
Definition touch_ok (observed : umap) (cl : call) : Prop :=
  exists q, cl = CApi q /\
    (q_verb q = VCreate \/
     (q_verb q = VDelete /\ q_prop q = "Background" /\
      exists o, In o (uobjects observed) /\ is_deleting o = false /\ q_uid_pre q = get_uid o) \/
     (q_verb q = VUpdate /\
      exists old d n, In old (uobjects observed) /\ is_deleting old = false /\
                      apply_update (obj_map old) (obj_map d) = Ok n /\ q_body q = JObj n)).

Lemma group_obj_in av kd os key o (m : umap) : In (av, kd, os) m -> In (key, o) os -> In o (uobjects m).
Proof. intros Hg Hin. apply in_uobjects. exists av, kd, os, key. auto. Qed.

Lemma manage_children_touch cc parent observed desired :
  ssa cc = false -> all_calls (touch_ok observed) (manage_children cc parent observed desired).
Proof.
  intros Hssa. unfold manage_children. apply all_calls_bind.
  - apply all_calls_foldM. intros failed [[av kd] os] Hin.
    destruct (lookup_kind cc av kd) as [kc|]; [|apply AC_ret].
    apply all_calls_bind; [|intros; apply AC_ret].
    eapply all_calls_weaken; [|apply C06_undesired_deleted_background].
    intros cl (key & o & Ho & Hdel & _ & ->).
    exists (delete_req_of kc o). split; [reflexivity|]. right. left.
    split; [reflexivity|]. split; [reflexivity|]. exists o.
    split; [eapply group_obj_in; eauto|]. split; [exact Hdel|reflexivity].
  - intros f1. apply all_calls_foldM. intros failed [[av kd] ds] Hin.
    destruct (lookup_kind cc av kd) as [kc|]; [|apply AC_ret].
    apply all_calls_bind; [|intros; apply AC_ret].
    eapply all_calls_weaken; [|apply C06_update_children_sound; exact Hssa].
    intros cl (key & d & Hd & Hreq).
    destruct (olookup key (match ufind_group av kd observed with Some o => o | None => [] end)) as [old|] eqn:Eo.
    + assert (Hold : In old (uobjects observed)).
      { destruct (ufind_group av kd observed) as [og|] eqn:Eg; [|discriminate].
        apply ufind_group_in in Eg. apply olookup_in in Eo. eapply group_obj_in; eauto. }
      destruct (child_decision cc kc parent (Some old) d) as [| | |uid|body|body] eqn:Edec; try discriminate.
      * apply C06_delete_uid in Edec as (-> & Hdel & _). cbn [request_of_action] in Hreq. injection Hreq as <-.
        eexists. split; [reflexivity|]. right. left. cbn [q_verb q_prop q_uid_pre rq_delete].
        split; [reflexivity|]. split; [reflexivity|]. exists old. auto.
      * apply C06_update_body in Edec as (n & Ha & -> & _ & Hdel & _). cbn [request_of_action] in Hreq. injection Hreq as <-.
        eexists. split; [reflexivity|]. right. right. cbn [q_verb q_body rq_put].
        split; [reflexivity|]. exists old, d, n. auto.
      * exfalso. rewrite child_decision_some in Edec.
        destruct (apply_update _ _); try discriminate.
        destruct (jeqb _ _); [discriminate|]. destruct (is_deleting old); [discriminate|].
        unfold verb_by_method in Edec.
        repeat match type of Edec with (if ?b then _ else _) = _ => destruct b; try discriminate end.
    + cbn [child_decision request_of_action] in Hreq. injection Hreq as <-.
      eexists. split; [reflexivity|]. left. reflexivity.
Qed.

(* for the decorator: a delete or update can only hit an object that is controlled by the target
   and carries this decorator's marker *)
Definition attachment_call_ok (c : dcfg) (k : dcache) (parent : json) (cl : call) : Prop :=
  exists q, cl = CApi q /\
    (q_verb q = VCreate \/
     exists o kc, In kc (dc_attachments c) /\ In o (cached_d k (ch_res kc)) /\
                  visible_d parent o = true /\ controlled_by o (get_uid parent) = true /\ has_marker c o = true /\
                  is_deleting o = false /\
                  ((q_verb q = VDelete /\ q_prop q = "Background" /\ q_uid_pre q = get_uid o) \/
                   (q_verb q = VUpdate /\ exists d n, apply_update (obj_map o) (obj_map d) = Ok n /\ q_body q = JObj n))).

Lemma touch_attachment c k parent cl :
  touch_ok (get_children_d c k parent) cl -> attachment_call_ok c k parent cl.
Proof.
  intros (q & -> & H). exists q. split; [reflexivity|].
  destruct H as [H | [(Hv & Hp & o & Ho & Hdel & Hu) | (Hv & old & d & n & Ho & Hdel & Ha & Hb)]]; [now left| |].
  - right. apply C16_attachments_only_marked in Ho as (kc & Hkc & Hin & Hvis & Hc & Hm).
    exists o, kc. repeat split; auto.
  - right. apply C16_attachments_only_marked in Ho as (kc & Hkc & Hin & Hvis & Hc & Hm).
    exists old, kc. repeat split; auto. right. split; [exact Hv|]. exists d, n. auto.
Qed.

Theorem C16_foreign_attachments_untouched :
  forall (c : dcfg) (k : dcache) (parent : json) (desired : umap),
    all_calls (attachment_call_ok c k parent)
              (manage_children (ccfg_of c) parent (get_children_d c k parent) desired).
Proof.
  intros c k parent desired. eapply all_calls_weaken; [apply touch_attachment|].
  apply manage_children_touch. reflexivity.
Qed.

(* ================================================================== *)
(* 8. the whole sync: every call is of one of five kinds               *)
(* ================================================================== *)
Lemma all_calls_safe {R} (G : call -> answer -> Prop) (P : call -> Prop) (p : prog R) h :
  all_calls P p -> safe G (fun _ c => P c) h p.
Proof. intros H. revert h. induction H; intros h; constructor; auto. Qed.

Lemma safe_weaken {R} (G : call -> answer -> Prop) (Phi Psi : hist -> call -> Prop) h (p : prog R) :
  (forall h c, Phi h c -> Psi h c) -> safe G Phi h p -> safe G Psi h p.
Proof. intros Himp H. induction H; constructor; auto. Qed.

Definition same_key (rl : drule) (t o : json) : Prop :=
  get_name o = get_name t /\ eff_ns (rl_namespaced rl) (get_ns o) = eff_ns (rl_namespaced rl) (get_ns t).

Definition sync_phi (c : dcfg) (k : dcache) (rl : drule) (t : json) (h : hist) (cl : call) : Prop :=
  let res := rl_res rl in
  let ns := eff_ns (rl_namespaced rl) (get_ns t) in
  let name := get_name t in
  let fin := d_finalizer_name c in
  (* the hook *)
  (exists hk body, cl = CHook hk body) \/
  (* finalizer phase: a fresh read, and a write of exactly that read plus / minus the own finalizer *)
  cl = CApi (rq_get res ns name) \/
  (exists cur upd, cl = CApi (rq_put false res ns name upd) /\ get_uid cur = get_uid t /\
                   (add_finalizer fin cur = Some upd \/ remove_finalizer fin cur = Some upd)) \/
  (* decoration of the target: the shape of section 4, on the object the finalizer phase left *)
  (exists parent' r p h0, same_key rl t parent' /\ shape_phi c rl parent' r p h0 h cl) \/
  (* attachments *)
  (exists parent', attachment_call_ok c k parent' cl).

Lemma sync_finalizer_d_safe c k rl t h :
  safeP sane (sync_phi c k rl t) (fun _ r => forall o, r = ROk o -> same_key rl t o) h (sync_finalizer_d c rl t).
Proof.
  unfold sync_finalizer_d.
  assert (Hret : safeP sane (sync_phi c k rl t) (fun _ r => forall o, r = ROk o -> same_key rl t o) h (Ret (ROk t))).
  { constructor. intros o [= <-]. split; reflexivity. }
  destruct (Bool.eqb _ _); [exact Hret|].
  assert (Hau : forall f, (forall cur upd, f cur = Some upd ->
                               add_finalizer (d_finalizer_name c) cur = Some upd \/ remove_finalizer (d_finalizer_name c) cur = Some upd) ->
            safeP sane (sync_phi c k rl t) (fun _ r => forall o, r = ROk o -> same_key rl t o) h
                  (atomic_update retry_steps (rl_res rl) (eff_ns (rl_namespaced rl) (get_ns t)) (get_name t) (get_uid t) false f)).
  { intros f Hf.
    eapply safeP_conseq with (G := sane)
      (Phi := fun _ cl => cl = CApi (rq_get (rl_res rl) (eff_ns (rl_namespaced rl) (get_ns t)) (get_name t)) \/
                          exists cur upd, cl = CApi (rq_put false (rl_res rl) (eff_ns (rl_namespaced rl) (get_ns t)) (get_name t) upd) /\
                                          get_uid cur = get_uid t /\ f cur = Some upd)
      (Post := fun _ r => au_post (rl_res rl) (eff_ns (rl_namespaced rl) (get_ns t)) (get_name t) (get_uid t) f r).
    - auto.
    - intros h' cl [-> | (cur & upd & -> & Hu & Hfc)]; unfold sync_phi.
      + right. left. reflexivity.
      + right. right. left. exists cur, upd. split; [reflexivity|]. split; [exact Hu|]. apply Hf. exact Hfc.
    - intros h' r Hpost o Hr. destruct (Hpost o Hr) as (Hn & Hns & _). split; [exact Hn|].
      rewrite Hns. destruct (rl_namespaced rl); reflexivity.
    - apply safe_atomic_update with (Q := fun cl => cl = CApi (rq_get (rl_res rl) (eff_ns (rl_namespaced rl) (get_ns t)) (get_name t)) \/
                          exists cur upd, cl = CApi (rq_put false (rl_res rl) (eff_ns (rl_namespaced rl) (get_ns t)) (get_name t) upd) /\
                                          get_uid cur = get_uid t /\ f cur = Some upd).
      + now left.
      + intros cur upd Hu _ _ Hfc. right. exists cur, upd. auto. }
  destruct (dc_has_finalize c).
  - destruct (is_deleting t); [exact Hret|]. apply Hau. intros cur upd H. now left.
  - apply Hau. intros cur upd H. now right.
Qed.

Lemma finish_d_safe c k rl t parent r h :
  same_key rl t parent ->
  safe sane (sync_phi c k rl t) h (finish_d c rl parent (get_children_d c k parent) r).
Proof.
  intros Hkey. unfold finish_d.
  destruct (desired_map (dr_attachments r) []) as [d0|]; [|constructor].
  destruct (status_map parent) as [st|]; [|constructor].
  apply safe_bind.
  - eapply safe_weaken; [|apply update_target_safe].
    intros h' cl Hs. unfold sync_phi. right. right. right. left.
    exists parent, r, (plan_target parent st r), h. auto.
  - intros ur h' _. destruct ur as [res|]; [constructor|].
    apply safe_bind; [|intros; constructor].
    destruct (negb (is_deleting parent) || should_finalize_d c parent); [|constructor].
    eapply safe_weaken; [|apply all_calls_safe; apply C16_foreign_attachments_untouched].
    intros h'' cl Hc. unfold sync_phi. right. right. right. right. exists parent. exact Hc.
Qed.

Theorem C16_sync_calls :
  forall (c : dcfg) (k : dcache) (t : json) (rl : drule),
    target_of c k = Some t ->
    client_rule c t = Some rl ->
    safe sane (sync_phi c k rl t) [] (sync_d c k).
Proof.
  intros c k t rl Ht Hrl. unfold sync_d. unfold target_of in Ht.
  destruct (split_key (dk_key k)) as [[[[av kd] ns] name]|]; [|discriminate].
  destruct (rule_of_key c av kd) as [rl0|]; [|discriminate].
  rewrite Ht. unfold sync_parent_d.
  destruct (d_ignores c t); [constructor|]. rewrite Hrl.
  apply safeP_safe with (Post := fun _ _ => True).
  eapply safeP_bind; [apply sync_finalizer_d_safe|].
  intros h1 fr Hfr. apply safe_safeP.
  destruct fr as [parent|e]; [|constructor].
  assert (Hkey : same_key rl t parent) by (apply Hfr; reflexivity).
  destruct (d_ignores c parent); [constructor|].
  unfold call_hook_d.
  destruct (negb (d_finalizing c parent) && negb (dc_has_sync c)); [cbn [bind]; constructor|].
  cbn [bind]. constructor.
  - unfold sync_phi. left. eauto.
  - intros a _. destruct a as [o|e|body| |z]; cbn [bind]; try constructor.
    destruct (decode_decorator body) as [r|]; cbn [bind]; [|constructor].
    apply finish_d_safe. exact Hkey.
Qed.

(* read off: a finalizer-phase write differs from the object just read only in metadata.finalizers *)
Lemma finalizer_edit_untouched fin cur upd :
  add_finalizer fin cur = Some upd \/ remove_finalizer fin cur = Some upd -> untouched upd cur.
Proof.
  unfold add_finalizer, remove_finalizer. intros [H | H]; destruct (has_finalizer cur fin); try discriminate;
    injection H as <-; apply untouched_set_finalizers.
Qed.

Print Assumptions C16_foreign_attachments_untouched.
Print Assumptions C16_sync_calls.

(* what every call of a whole sync is, read off sync_phi: the hook, a read of the target, a write to the
   target's key whose body agrees with an object the sync holds or has just read on spec and on all
   metadata outside labels / annotations / finalizers / resourceVersion, or an attachment request *)
Definition call_summary (c : dcfg) (k : dcache) (rl : drule) (t : json) (cl : call) : Prop :=
  (exists hk body, cl = CHook hk body) \/
  cl = CApi (rq_get (rl_res rl) (eff_ns (rl_namespaced rl) (get_ns t)) (get_name t)) \/
  (exists q base, cl = CApi q /\ (q_verb q = VUpdate \/ q_verb q = VUpdateStatus) /\
                  q_res q = rl_res rl /\ q_name q = get_name t /\ q_ns q = eff_ns (rl_namespaced rl) (get_ns t) /\
                  jget "spec" (obj_map (q_body q)) = jget "spec" (obj_map base) /\ untouched (q_body q) base) \/
  (exists parent', attachment_call_ok c k parent' cl).

Theorem C16_sync_call_summary :
  forall (c : dcfg) (k : dcache) (rl : drule) (t : json) (h : hist) (cl : call),
    sync_phi c k rl t h cl -> call_summary c k rl t cl.
Proof.
  intros c k rl t h cl H. unfold call_summary.
  destruct H as [H | [H | [(cur & upd & -> & Hu & He) | [(p' & r & p & h0 & [Hn Hns] & Hs) | H]]]].
  - now left.
  - right. now left.
  - right. right. left. exists (rq_put false (rl_res rl) (eff_ns (rl_namespaced rl) (get_ns t)) (get_name t) upd), cur.
    pose proof (finalizer_edit_untouched _ _ _ He) as Hun.
    cbn [q_verb q_res q_name q_ns q_body rq_put]. repeat split; auto; try apply Hun.
    destruct Hun as [Hu1 _]. unfold jget. rewrite Hu1; [reflexivity|discriminate|discriminate].
  - right. right. left. apply C16_spec_untouched in Hs as (q & -> & Hv & Hres & Hname & Hqns & Hspec & Hun).
    exists q, p'. rewrite <- Hn, <- Hns. repeat split; auto; apply Hun.
  - right. right. now right.
Qed.

(* ---- queue keys ---- *)
Lemma split_at_app ch a r : split_at ch a = None -> split_at ch (a ++ String ch r) = Some (a, r).
Proof.
  induction a as [|x a IH]; cbn [split_at append].
  - intros _. now rewrite Ascii.eqb_refl.
  - destruct (Ascii.eqb x ch); [discriminate|].
    destruct (split_at ch a) as [[u v]|]; [discriminate|]. intros _. now rewrite IH.
Qed.

Theorem C16_key_roundtrip :
  forall o : json,
    split_at colon (get_api_version o) = None -> split_at colon (get_kind o) = None -> split_at colon (get_ns o) = None ->
    split_key (queue_key o) = Some (get_api_version o, get_kind o, get_ns o, get_name o).
Proof.
  intros o H1 H2 H3. unfold split_key, queue_key.
  change (":" ++ ?x)%string with (String colon x).
  cbn [append].
  rewrite (split_at_app colon _ _ H1), (split_at_app colon _ _ H2), (split_at_app colon _ _ H3). reflexivity.
Qed.
Print Assumptions C16_sync_call_summary.
Print Assumptions C16_key_roundtrip.

Theorem C16_sync_trace :
  forall (c : dcfg) (k : dcache) (t : json) (rl : drule) (e : env),
    target_of c k = Some t ->
    client_rule c t = Some rl ->
    (forall h cl, sane cl (e h cl)) ->
    Forall (fun hc : hist * call => call_summary c k rl t (snd hc))
           (calls_with_history (fst (run (sync_d c k) e []))).
Proof.
  intros c k t rl e Ht Hrl He.
  pose proof (safe_run sane (sync_phi c k rl t) e (sync_d c k) (C16_sync_calls c k t rl Ht Hrl) He) as H.
  eapply Forall_impl; [|exact H]. intros [h cl] Hp. cbn [fst snd] in *.
  eapply C16_sync_call_summary. exact Hp.
Qed.
Print Assumptions C16_sync_trace.

Print Assumptions C16_null_status_keeps_status_key.
