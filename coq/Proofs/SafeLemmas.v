(* SafeLemmas.v — compositional rules for [safe]: a postcondition-carrying
   version [safeP], rules for ret / bind / foldM / api / atomic_update,
   soundness with respect to [run], and a call-counting judgement. *)
From MC Require Import Model.Safe.
From Coq Require Import Lia.
Local Open Scope list_scope.

(* ---------- histories ---------- *)
Definition ext (h h' : hist) : Prop := exists d, h' = d ++ h.

Lemma ext_refl h : ext h h.
Proof. now exists []. Qed.

Lemma ext_cons h h' x : ext h h' -> ext h (x :: h').
Proof. intros [d ->]. now exists (x :: d). Qed.

Lemma ext_trans h1 h2 h3 : ext h1 h2 -> ext h2 h3 -> ext h1 h3.
Proof. intros [d ->] [d' ->]. exists (d' ++ d). now rewrite app_assoc. Qed.

Lemma ext_step h x : ext h (x :: h).
Proof. apply ext_cons, ext_refl. Qed.

#[export] Hint Resolve ext_refl ext_cons ext_step : safe.

(* ---------- safe with a postcondition on (final history, result) ---------- *)
Inductive safeP {R : Type} (G : call -> answer -> Prop) (Phi : hist -> call -> Prop)
          (Post : hist -> R -> Prop) : hist -> prog R -> Prop :=
| safeP_ret h r : Post h r -> safeP G Phi Post h (Ret r)
| safeP_do h c k :
    Phi h c ->
    (forall a, G c a -> safeP G Phi Post ((c, a) :: h) (k a)) ->
    safeP G Phi Post h (Do c k).

Lemma safeP_safe {R} G Phi Post h (p : prog R) : safeP G Phi Post h p -> safe G Phi h p.
Proof. induction 1; constructor; auto. Qed.

Lemma safe_safeP {R} G Phi h (p : prog R) : safe G Phi h p -> safeP G Phi (fun _ _ => True) h p.
Proof. induction 1; constructor; auto. Qed.

(* consequence: weaker postcondition, weaker call predicate, stronger environment assumption *)
Lemma safeP_conseq {R} (G G' : call -> answer -> Prop) (Phi Phi' : hist -> call -> Prop)
      (Post Post' : hist -> R -> Prop) h (p : prog R) :
  (forall c a, G' c a -> G c a) ->
  (forall h c, Phi h c -> Phi' h c) ->
  (forall h r, Post h r -> Post' h r) ->
  safeP G Phi Post h p -> safeP G' Phi' Post' h p.
Proof. intros HG HPhi HPost. induction 1; constructor; auto. Qed.

Lemma safeP_post {R} G Phi (Post Post' : hist -> R -> Prop) h (p : prog R) :
  (forall h r, Post h r -> Post' h r) -> safeP G Phi Post h p -> safeP G Phi Post' h p.
Proof. intros H. apply safeP_conseq; auto. Qed.

Lemma safeP_env {R} (G G' : call -> answer -> Prop) Phi (Post : hist -> R -> Prop) h (p : prog R) :
  (forall c a, G' c a -> G c a) -> safeP G Phi Post h p -> safeP G' Phi Post h p.
Proof. intros H. apply safeP_conseq; auto. Qed.

Lemma safeP_and {R} G Phi (P1 P2 : hist -> R -> Prop) h (p : prog R) :
  safeP G Phi P1 h p -> safeP G Phi P2 h p -> safeP G Phi (fun h r => P1 h r /\ P2 h r) h p.
Proof.
  induction 1 as [h r H1|h c k Hc Hk IH]; intros H2; inversion H2; subst.
  - constructor; auto.
  - constructor; [assumption|]. intros a Ga. apply IH; auto.
Qed.

(* the final history extends the initial one *)
Lemma safeP_ext_gen {R} G Phi (Post : hist -> R -> Prop) h (p : prog R) :
  safeP G Phi Post h p -> forall h0, ext h0 h -> safeP G Phi (fun h' r => Post h' r /\ ext h0 h') h p.
Proof.
  induction 1 as [h r H1|h c k Hc Hk IH]; intros h0 He.
  - constructor; auto.
  - constructor; auto. intros a Ga. apply IH; auto with safe.
Qed.

Lemma safeP_ext {R} G Phi (Post : hist -> R -> Prop) h (p : prog R) :
  safeP G Phi Post h p -> safeP G Phi (fun h' r => Post h' r /\ ext h h') h p.
Proof. intros H. apply safeP_ext_gen; auto with safe. Qed.

(* ---------- rules ---------- *)
Lemma safeP_bind {A B} G Phi (Q : hist -> A -> Prop) (Post : hist -> B -> Prop)
      h (p : prog A) (f : A -> prog B) :
  safeP G Phi Q h p ->
  (forall h' a, Q h' a -> safeP G Phi Post h' (f a)) ->
  safeP G Phi Post h (bind p f).
Proof.
  intros Hp Hf. induction Hp as [h r Hr|h c k Hc Hk IH]; cbn [bind].
  - auto.
  - constructor; auto.
Qed.

(* bind where the continuation may use that its history extends h *)
Lemma safeP_bind_ext {A B} G Phi (Q : hist -> A -> Prop) (Post : hist -> B -> Prop)
      h (p : prog A) (f : A -> prog B) :
  safeP G Phi Q h p ->
  (forall h' a, ext h h' -> Q h' a -> safeP G Phi Post h' (f a)) ->
  safeP G Phi Post h (bind p f).
Proof.
  intros Hp Hf. eapply safeP_bind; [apply safeP_ext; exact Hp|].
  intros h' a [HQ He]. auto.
Qed.

Lemma safeP_foldM {A S} G Phi (I : hist -> S -> Prop) (f : S -> A -> prog S) (l : list A) :
  forall h s,
  I h s ->
  (forall h' s' a, In a l -> I h' s' -> safeP G Phi I h' (f s' a)) ->
  safeP G Phi I h (foldM f l s).
Proof.
  induction l as [|a l IH]; intros h s HI Hf; cbn [foldM].
  - constructor; auto.
  - eapply safeP_bind; [apply Hf; [now left|exact HI]|].
    intros h' s' HI'. apply IH; auto. intros h'' s'' a' Hin. apply Hf. now right.
Qed.

(* foldM with an invariant that may mention the starting history *)
Lemma safeP_foldM_ext {A S} G Phi (I : hist -> S -> Prop) (f : S -> A -> prog S) (l : list A) h s :
  I h s ->
  (forall h' s' a, In a l -> ext h h' -> I h' s' -> safeP G Phi I h' (f s' a)) ->
  safeP G Phi I h (foldM f l s).
Proof.
  intros HI Hf.
  apply safeP_post with (Post := fun h' s' => I h' s' /\ ext h h'); [tauto|].
  apply safeP_foldM; [auto with safe|].
  intros h' s' a Hin [HI' He].
  eapply safeP_post; [|apply safeP_ext; apply Hf; eauto].
  cbv beta. intros h2 r [H1 H2]. split; auto. eapply ext_trans; eauto.
Qed.

Definition api_result (a : answer) : apires :=
  match a with AObj o => ROk o | AFail e => RErr e | _ => RErr EOther end.

Lemma safeP_api (G : call -> answer -> Prop) (Phi : hist -> call -> Prop)
      (Post : hist -> apires -> Prop) h q :
  Phi h (CApi q) ->
  (forall a, G (CApi q) a -> Post ((CApi q, a) :: h) (api_result a)) ->
  safeP G Phi Post h (api q).
Proof.
  intros Hc Hp. unfold api. constructor; auto.
  intros a Ga. specialize (Hp a Ga). destruct a; constructor; exact Hp.
Qed.

(* ---------- the same rules for [safe] itself ---------- *)
Lemma safe_ret' {R} G Phi h (r : R) : safe G Phi h (Ret r).
Proof. constructor. Qed.

Lemma safe_bind {A B} G Phi h (p : prog A) (f : A -> prog B) :
  safe G Phi h p ->
  (forall a h', ext h h' -> safe G Phi h' (f a)) ->
  safe G Phi h (bind p f).
Proof.
  intros Hp Hf. apply safeP_safe with (Post := fun _ _ => True).
  eapply safeP_bind_ext; [apply safe_safeP; exact Hp|].
  intros h' a He _. apply safe_safeP. auto.
Qed.

Lemma safe_bind_nohist {A B} G (P : call -> Prop) h (p : prog A) (f : A -> prog B) :
  safe G (fun _ c => P c) h p ->
  (forall a h', safe G (fun _ c => P c) h' (f a)) ->
  safe G (fun _ c => P c) h (bind p f).
Proof. intros Hp Hf. apply safe_bind; auto. Qed.

Lemma safe_foldM {A S} G Phi (f : S -> A -> prog S) (l : list A) h s :
  (forall h' s' a, In a l -> ext h h' -> safe G Phi h' (f s' a)) ->
  safe G Phi h (foldM f l s).
Proof.
  intros Hf. apply safeP_safe with (Post := fun _ _ => True).
  apply safeP_foldM_ext; auto. intros. apply safe_safeP. auto.
Qed.

Lemma safe_foldM_nohist {A S} G (P : call -> Prop) (f : S -> A -> prog S) (l : list A) h s :
  (forall h' s' a, In a l -> safe G (fun _ c => P c) h' (f s' a)) ->
  safe G (fun _ c => P c) h (foldM f l s).
Proof. intros Hf. apply safe_foldM. auto. Qed.

Lemma safe_api (G : call -> answer -> Prop) (Phi : hist -> call -> Prop) h q : Phi h (CApi q) -> safe G Phi h (api q).
Proof.
  intros Hc. apply safeP_safe with (Post := fun _ _ => True). apply safeP_api; auto.
Qed.

(* the history does not matter when neither Phi nor Post looks at it *)
Lemma safeP_nohist_any {R} G (P : call -> Prop) (Q : R -> Prop) h (p : prog R) :
  safeP G (fun _ c => P c) (fun _ r => Q r) h p ->
  forall h', safeP G (fun _ c => P c) (fun _ r => Q r) h' p.
Proof. induction 1; intros h'; constructor; auto. Qed.

(* ---------- atomic_update ---------- *)
Section AtomicUpdate.
  Variable G : call -> answer -> Prop.
  Variable Phi : hist -> call -> Prop.
  Variable Post : hist -> apires -> Prop.
  Variables (res ns name uid : string) (status : bool) (f : json -> option json).
  Let getc := CApi (rq_get res ns name).
  Let putc (upd : json) := CApi (rq_put status res ns name upd).
  Variable h0 : hist.

  Hypothesis Hget : forall h, ext h0 h -> Phi h getc.
  Hypothesis Hput : forall h cur upd,
      ext h0 h -> G getc (AObj cur) -> get_uid cur = uid -> f cur = Some upd ->
      Phi ((getc, AObj cur) :: h) (putc upd).
  Hypothesis Herr : forall h e, ext h0 h -> Post h (RErr e).
  Hypothesis Hok_get : forall h cur,
      ext h0 h -> G getc (AObj cur) -> get_uid cur = uid -> f cur = None ->
      Post ((getc, AObj cur) :: h) (ROk cur).
  Hypothesis Hok_put : forall h cur upd o,
      ext h0 h -> G getc (AObj cur) -> get_uid cur = uid -> f cur = Some upd ->
      G (putc upd) (AObj o) ->
      Post ((putc upd, AObj o) :: (getc, AObj cur) :: h) (ROk o).

  Lemma safeP_atomic_update : forall fuel h,
      ext h0 h -> safeP G Phi Post h (atomic_update fuel res ns name uid status f).
  Proof.
    induction fuel as [|n IH]; intros h He.
    - cbn [atomic_update]. constructor. auto.
    - cbn [atomic_update]. unfold api at 1. cbn [bind].
      constructor; [apply Hget; exact He|].
      intros a Ga.
      assert (He1 : ext h0 ((getc, a) :: h)) by auto with safe.
      assert (Hretry : forall h', ext h0 h' ->
                safeP G Phi Post h'
                  (match n with O => Ret (RErr EConflict) | S _ => atomic_update n res ns name uid status f end)).
      { intros h' He'. destruct n as [|n']; [constructor; auto|]. apply IH; exact He'. }
      destruct a as [cur|e|b| |z]; cbn [bind].
      + destruct (negb (String.eqb (get_uid cur) uid)) eqn:Euid.
        * constructor. auto.
        * apply Bool.negb_false_iff, String.eqb_eq in Euid.
          destruct (f cur) as [upd|] eqn:Ef.
          -- unfold api at 1. cbn [bind].
             constructor; [apply Hput; auto|].
             intros a2 Ga2.
             assert (He2 : ext h0 ((putc upd, a2) :: (getc, AObj cur) :: h)) by auto with safe.
             destruct a2 as [o|e|b| |z]; cbn [bind].
             ++ constructor. apply Hok_put; auto.
             ++ destruct e; try (constructor; auto). apply Hretry; exact He2.
             ++ constructor; auto.
             ++ constructor; auto.
             ++ constructor; auto.
          -- constructor. apply Hok_get; auto.
      + destruct e; try (constructor; auto). apply Hretry; exact He1.
      + constructor; auto.
      + constructor; auto.
      + constructor; auto.
  Qed.
End AtomicUpdate.

(* under [sane]: history-independent form.  Every call is the GET or a PUT whose
   body is f applied to an object that the GET returned with the expected
   uid / name / namespace; an ROk result names the same object. *)
Lemma sane_get res ns name cur :
  sane (CApi (rq_get res ns name)) (AObj cur) -> get_name cur = name /\ get_ns cur = ns.
Proof. cbn. auto. Qed.

Lemma sane_put status res ns name body o :
  sane (CApi (rq_put status res ns name body)) (AObj o) ->
  get_name o = name /\ get_ns o = ns /\ (get_uid body = "" \/ get_uid o = get_uid body).
Proof. destruct status; cbn; auto. Qed.

Definition au_post (res ns name uid : string) (f : json -> option json) (r : apires) : Prop :=
  forall o, r = ROk o ->
    get_name o = name /\ get_ns o = ns /\
    (uid <> "" -> (forall cur upd, f cur = Some upd -> get_uid upd = get_uid cur) -> get_uid o = uid).

Lemma safe_atomic_update (Q : call -> Prop) fuel res ns name uid status f h :
  Q (CApi (rq_get res ns name)) ->
  (forall cur upd, get_uid cur = uid -> get_name cur = name -> get_ns cur = ns ->
                   f cur = Some upd -> Q (CApi (rq_put status res ns name upd))) ->
  safeP sane (fun _ c => Q c) (fun _ r => au_post res ns name uid f r) h
        (atomic_update fuel res ns name uid status f).
Proof.
  intros Hg Hp.
  apply safeP_atomic_update with (h0 := h); auto with safe.
  - intros h' cur upd _ Hs Hu Hf. apply sane_get in Hs as [Hn Hns]. eapply Hp; eauto.
  - intros h' e _ o Ho. discriminate.
  - intros h' cur _ Hs Hu Hf o [= <-]. apply sane_get in Hs as [Hn Hns]. auto.
  - intros h' cur upd o _ Hs Hu Hf Hs2 o' [= <-].
    apply sane_put in Hs2 as (Hn & Hns & Hid). split; [auto|split; [auto|]].
    intros Hne Hpres. specialize (Hpres _ _ Hf). rewrite Hu in Hpres.
    destruct Hid as [Hid|Hid]; [congruence|congruence].
Qed.

(* ---------- soundness with respect to run ---------- *)
Definition all_calls_ok (Phi : hist -> call -> Prop) (h : hist) : Prop :=
  Forall (fun hc => Phi (fst hc) (snd hc)) (calls_with_history h).

Lemma safeP_run_gen {R} (G : call -> answer -> Prop) (Phi : hist -> call -> Prop) (Post : hist -> R -> Prop) (e : env) :
  (forall h c, G c (e h c)) ->
  forall h (p : prog R), safeP G Phi Post h p ->
  all_calls_ok Phi h ->
  all_calls_ok Phi (fst (run p e h)) /\ Post (fst (run p e h)) (snd (run p e h)).
Proof.
  intros HG h p Hs. induction Hs as [h r Hr|h c k Hc Hk IH]; intros Hh; cbn [run].
  - cbn [fst snd]. auto.
  - cbv zeta. apply IH; [apply HG|].
    unfold all_calls_ok. cbn [calls_with_history]. constructor; auto.
Qed.

Theorem safeP_run {R} (G : call -> answer -> Prop) (Phi : hist -> call -> Prop) (Post : hist -> R -> Prop) (e : env) (p : prog R) :
  safeP G Phi Post [] p -> (forall h c, G c (e h c)) ->
  Forall (fun hc => Phi (fst hc) (snd hc)) (calls_with_history (fst (run p e []))) /\
  Post (fst (run p e [])) (snd (run p e [])).
Proof.
  intros Hs HG. eapply safeP_run_gen; eauto. constructor.
Qed.

Theorem safe_run {R} (G : call -> answer -> Prop) (Phi : hist -> call -> Prop) (e : env) (p : prog R) :
  safe G Phi [] p -> (forall h c, G c (e h c)) ->
  Forall (fun hc => Phi (fst hc) (snd hc)) (calls_with_history (fst (run p e []))).
Proof.
  intros Hs HG. apply safe_safeP in Hs. eapply safeP_run in Hs; eauto. tauto.
Qed.

(* ---------- counting calls ---------- *)
Inductive at_most {R : Type} (P : call -> bool) : nat -> prog R -> Prop :=
| am_ret n r : at_most P n (Ret r)
| am_count n c k : P c = true -> (forall a, at_most P n (k a)) -> at_most P (S n) (Do c k)
| am_skip n c k : P c = false -> (forall a, at_most P n (k a)) -> at_most P n (Do c k).

Lemma at_most_le {R} P n m (p : prog R) : at_most P n p -> n <= m -> at_most P m p.
Proof.
  intros H. revert m. induction H as [n r|n c k Hc Hk IH|n c k Hc Hk IH]; intros m Hle.
  - constructor.
  - destruct m as [|m]; [lia|]. apply am_count; auto. intros a. apply IH. lia.
  - apply am_skip; auto.
Qed.

Definition count_calls (P : call -> bool) (h : hist) : nat :=
  List.length (filter (fun ca => P (fst ca)) h).

Lemma at_most_run_gen {R} P (e : env) n (p : prog R) :
  at_most P n p -> forall h, count_calls P (fst (run p e h)) <= n + count_calls P h.
Proof.
  induction 1 as [n r|n c k Hc Hk IH|n c k Hc Hk IH]; intros h; cbn [run]; cbv zeta.
  - cbn [fst]. lia.
  - specialize (IH (e h c) ((c, e h c) :: h)).
    unfold count_calls in *. cbn [filter fst] in IH. rewrite Hc in IH. cbn [List.length] in IH. lia.
  - specialize (IH (e h c) ((c, e h c) :: h)).
    unfold count_calls in *. cbn [filter fst] in IH. rewrite Hc in IH. lia.
Qed.

Theorem at_most_run {R} P (e : env) n (p : prog R) :
  at_most P n p -> count_calls P (fst (run p e [])) <= n.
Proof. intros H. pose proof (at_most_run_gen P e n p H []) as H1. cbn in H1. lia. Qed.

Print Assumptions safeP_atomic_update.
Print Assumptions safe_atomic_update.
Print Assumptions safe_run.
Print Assumptions safeP_run.
Print Assumptions at_most_run.
