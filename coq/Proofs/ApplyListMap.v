(* ApplyListMap.v — infrastructure for the list-map case of merge:
   keys_of / find_item, make_list_map, mlm_aux, the two rebuild loops, and a
   closed description of the rebuilt list. *)
From MC Require Import Generated Model.Json Model.Apply Model.ApplyLaws.
From MC Require Import Proofs.AssocLemmas Proofs.AssocLemmas2 Proofs.ApplyProofs Proofs.ApplyBase.
From MC Require Import Proofs.ApplyCore.
From Coq Require Import Lia.
Local Open Scope list_scope.

(* ---------- string-list helpers ---------- *)
Lemma mem_str_filter k f l : mem_str k (filter f l) = mem_str k l && f k.
Proof.
  induction l as [|x l IH]; [reflexivity|]. cbn [filter mem_str].
  destruct (f x) eqn:Fx; cbn [mem_str]; rewrite IH.
  - destruct (String.eqb k x) eqn:E; cbn [orb]; [|reflexivity].
    apply String.eqb_eq in E; subst. now rewrite Fx.
  - destruct (String.eqb k x) eqn:E; cbn [orb]; [|reflexivity].
    apply String.eqb_eq in E; subst. rewrite Fx. now rewrite Bool.andb_false_r.
Qed.

Lemma filter_all {A} (f : A -> bool) l : (forall x, In x l -> f x = true) -> filter f l = l.
Proof.
  induction l as [|x l IH]; intros H; [reflexivity|]. cbn [filter].
  rewrite (H x (or_introl eq_refl)). f_equal. apply IH. intros y Hy. apply H. now right.
Qed.

Lemma NoDup_app' {A} (a b : list A) :
  NoDup a -> NoDup b -> (forall x, In x a -> ~ In x b) -> NoDup (a ++ b).
Proof.
  induction a as [|x a IH]; intros Ha Hb Hd; [exact Hb|].
  inversion Ha; subst. cbn. constructor.
  - rewrite in_app_iff. intros [H|H]; [contradiction|]. apply (Hd x (or_introl eq_refl) H).
  - apply IH; auto. intros y Hy. apply Hd. now right.
Qed.

Lemma strs_eqb_refl a : strs_eqb a a = true.
Proof. induction a as [|x a IH]; [reflexivity|]. cbn. now rewrite eqb_refl'. Qed.

(* ---------- keys_of / find_item ---------- *)
Lemma keys_of_cons key it l :
  keys_of key (it :: l) =
  match item_key key it with Some k => k :: keys_of key l | None => keys_of key l end.
Proof. unfold keys_of. cbn [flat_map]. destruct (item_key key it); reflexivity. Qed.

Lemma keys_of_app key a b : keys_of key (a ++ b) = (keys_of key a ++ keys_of key b)%list.
Proof. unfold keys_of. apply flat_map_app. Qed.

Lemma mem_keys_of key k l :
  mem_str k (keys_of key l) = true <-> exists it, In it l /\ item_key key it = Some k.
Proof.
  rewrite mem_str_In. unfold keys_of. rewrite in_flat_map. split.
  - intros (it & Hin & Hk). exists it. split; auto.
    destruct (item_key key it); [destruct Hk as [->|[]]; reflexivity|destruct Hk].
  - intros (it & Hin & Hk). exists it. split; auto. rewrite Hk. now left.
Qed.

Lemma des_has_key_mem key sl k : des_has_key key sl k = mem_str k (keys_of key sl).
Proof.
  unfold des_has_key. induction sl as [|s sl IH]; [reflexivity|].
  cbn [existsb]. rewrite keys_of_cons, IH. destruct (item_key key s); reflexivity.
Qed.

Lemma find_item_cons key k it l :
  find_item key k (it :: l) =
  match item_key key it with
  | Some k' => if String.eqb k k' then Some it else find_item key k l
  | None => find_item key k l
  end.
Proof. unfold find_item. cbn [find]. destruct (item_key key it); reflexivity. Qed.

Lemma find_item_Some key k l it :
  find_item key k l = Some it -> In it l /\ item_key key it = Some k.
Proof.
  unfold find_item. intros H. apply find_some in H as [Hin Hk]. split; auto.
  destruct (item_key key it); [|discriminate]. apply String.eqb_eq in Hk. now subst.
Qed.

Lemma find_item_None key k l : find_item key k l = None -> mem_str k (keys_of key l) = false.
Proof.
  induction l as [|a l IH]; [reflexivity|]. rewrite find_item_cons, keys_of_cons.
  destruct (item_key key a) as [k'|]; auto. cbn [mem_str].
  destruct (String.eqb k k'); [discriminate|auto].
Qed.

Lemma find_item_mem key k l :
  mem_str k (keys_of key l) = true -> exists it, find_item key k l = Some it.
Proof.
  intros H. destruct (find_item key k l) eqn:E; eauto.
  apply find_item_None in E. congruence.
Qed.

Lemma find_item_is_some key k l :
  match find_item key k l with Some _ => true | None => false end = mem_str k (keys_of key l).
Proof.
  destruct (find_item key k l) eqn:E.
  - apply find_item_Some in E as [Hin Hk]. symmetry. apply mem_keys_of. eauto.
  - symmetry. now apply find_item_None.
Qed.

Lemma find_item_nodup key k l it :
  nodup_str (keys_of key l) = true -> In it l -> item_key key it = Some k ->
  find_item key k l = Some it.
Proof.
  induction l as [|a l IH]; intros Hnd Hin Hk; [destruct Hin|].
  rewrite find_item_cons. rewrite keys_of_cons in Hnd. destruct Hin as [->|Hin].
  - rewrite Hk. now rewrite eqb_refl'.
  - destruct (item_key key a) as [k'|] eqn:Ea; [|auto].
    cbn [nodup_str] in Hnd. apply andb_split in Hnd as [Hn Hd].
    destruct (String.eqb k k') eqn:E; [|auto].
    apply String.eqb_eq in E; subst k'. exfalso. apply Bool.negb_true_iff in Hn.
    assert (mem_str k (keys_of key l) = true) by (apply mem_keys_of; eauto). congruence.
Qed.

Lemma all_objs_In l it : all_objs l = true -> In it l -> exists m, it = JObj m.
Proof.
  unfold all_objs. rewrite forallb_forall. intros H Hin. specialize (H it Hin).
  destruct it; try discriminate. eauto.
Qed.

(* ---------- make_list_map ---------- *)
Lemma make_list_map_lookup key items : forall acc m k,
  nodup_str (keys_of key items) = true -> make_list_map key items acc = Ok m ->
  alookup k m = match find_item key k items with Some it => Some it | None => alookup k acc end.
Proof.
  induction items as [|it items IH]; intros acc m k Hnd H.
  - cbn in H. inversion H; subst. reflexivity.
  - cbn [make_list_map] in H. rewrite keys_of_cons in Hnd. rewrite find_item_cons.
    destruct (item_key key it) as [k0|] eqn:E0; [|discriminate].
    cbn [nodup_str] in Hnd. apply andb_split in Hnd as [Hn Hd]. rewrite (IH _ _ k Hd H).
    destruct (String.eqb k k0) eqn:E.
    + apply String.eqb_eq in E; subst k0. apply Bool.negb_true_iff in Hn.
      destruct (find_item key k items) eqn:F.
      * apply find_item_Some in F as [Hin Hk].
        assert (mem_str k (keys_of key items) = true) by (apply mem_keys_of; eauto). congruence.
      * apply alookup_aset_same.
    + destruct (find_item key k items); auto. rewrite alookup_aset. now rewrite E.
Qed.

Lemma make_list_map_nil key items m k :
  nodup_str (keys_of key items) = true -> make_list_map key items [] = Ok m ->
  alookup k m = find_item key k items.
Proof.
  intros Hnd H. rewrite (make_list_map_lookup key items [] m k Hnd H).
  destruct (find_item key k items); reflexivity.
Qed.

(* ---------- detect_key ---------- *)
Lemma scan_common_carries items : forall ck c k,
  scan_common items ck = Some (Some c) -> mem_str k c = true ->
  (forall m, In (JObj m) items -> ahas k m = true) /\
  (forall c0, ck = Some c0 -> mem_str k c0 = true).
Proof.
  induction items as [|it items IH]; intros ck c k H Hk.
  - cbn in H. inversion H; subst. split; [intros m []|]. intros c0 [= <-]. exact Hk.
  - destruct it; try discriminate. cbn [scan_common] in H.
    destruct (IH _ _ _ H Hk) as [Hall Hck]. destruct ck as [c0|].
    + specialize (Hck _ eq_refl). unfold prune_keys in Hck. rewrite mem_str_filter in Hck.
      apply andb_split in Hck as [H1 H2]. split.
      * intros m0 [Heq|Hin]; [inversion Heq; subst; exact H2|auto].
      * intros c1 [= <-]. exact H1.
    + specialize (Hck _ eq_refl). rewrite mem_str_akeys in Hck. split.
      * intros m0 [Heq|Hin]; [inversion Heq; subst; exact Hck|auto].
      * discriminate.
Qed.

Lemma detect_key_carries dl ll sl key :
  detect_key dl ll sl = Some key ->
  In key known_merge_keys /\
  (forall m, In (JObj m) (dl ++ ll ++ sl) -> ahas key m = true).
Proof.
  unfold detect_key. destruct (scan_common (dl ++ ll ++ sl) None) as [[ck|]|] eqn:E; try discriminate.
  intros H. apply find_some in H as [Hin Hk]. split; auto.
  destruct (scan_common_carries _ _ _ key E Hk) as [Hall _]. exact Hall.
Qed.

Lemma detect_key_nonempty dl ll sl key : detect_key dl ll sl = Some key -> dl ++ ll ++ sl <> [].
Proof. unfold detect_key. intros H E. rewrite E in H. cbn in H. discriminate. Qed.

(* ---------- list_wf ---------- *)
Lemma list_wf_key l key :
  list_wf l = true -> In key known_merge_keys ->
  (forall m, In (JObj m) l -> ahas key m = true) ->
  nodup_str (keys_of key l) = true /\
  (forall m, In (JObj m) l -> scalar_key (jget key m) = true).
Proof.
  unfold list_wf. intros H Hin Hc. apply andb_split in H as [Ho H].
  pose proof (forallb_In _ _ _ H Hin) as Hk. cbv beta zeta in Hk.
  rewrite (filter_all _ l) in Hk.
  - apply andb_split in Hk as [H1 H2]. split; [exact H2|].
    intros m Hm. apply (forallb_In _ _ _ H1 Hm).
  - intros x Hx. destruct (all_objs_In _ _ Ho Hx) as [m ->]. auto.
Qed.

(* ---------- mlm_aux ---------- *)
Lemma mlm_aux_other key dm1 lmap sl : forall acc m k,
  mlm_aux key dm1 lmap sl acc = Ok m -> mem_str k (keys_of key sl) = false ->
  alookup k m = alookup k acc.
Proof.
  induction sl as [|s sl IH]; intros acc m k H Hk; cbn [mlm_aux] in H.
  - now inversion H.
  - rewrite keys_of_cons in Hk.
    destruct (item_key key s) as [k'|]; [|discriminate].
    destruct (merge s (jget k' dm1) (jget k' lmap)) as [r| |]; try discriminate.
    cbn [mem_str] in Hk. destruct (String.eqb k k') eqn:Ek; [discriminate|].
    rewrite (IH _ _ _ H Hk). rewrite alookup_aset. now rewrite Ek.
Qed.

Lemma mlm_aux_In key dm1 lmap sl : forall acc m,
  mlm_aux key dm1 lmap sl acc = Ok m -> nodup_str (keys_of key sl) = true ->
  forall s k, In s sl -> item_key key s = Some k ->
  exists r, merge s (jget k dm1) (jget k lmap) = Ok r /\ alookup k m = Some r.
Proof.
  induction sl as [|s0 sl IH]; intros acc m H Hnd s k Hin Hk; [destruct Hin|].
  cbn [mlm_aux] in H. rewrite keys_of_cons in Hnd.
  destruct (item_key key s0) as [k0|] eqn:E0; [|discriminate].
  destruct (merge s0 (jget k0 dm1) (jget k0 lmap)) as [r| |] eqn:E; try discriminate.
  cbn [nodup_str] in Hnd. apply andb_split in Hnd as [Hn Hd].
  destruct Hin as [->|Hin].
  - rewrite Hk in E0. inversion E0; subst k0. exists r. split; auto.
    rewrite (mlm_aux_other _ _ _ _ _ _ k H); [apply alookup_aset_same|].
    now apply Bool.negb_true_iff in Hn.
  - eapply IH; eauto.
Qed.

Lemma mlm_aux_ahas key dm1 lmap sl : forall acc m k,
  mlm_aux key dm1 lmap sl acc = Ok m ->
  ahas k m = ahas k acc || mem_str k (keys_of key sl).
Proof.
  induction sl as [|s sl IH]; intros acc m k H; cbn [mlm_aux] in H.
  - inversion H; subst. cbn. now rewrite Bool.orb_false_r.
  - rewrite keys_of_cons.
    destruct (item_key key s) as [k'|]; [|discriminate].
    destruct (merge s (jget k' dm1) (jget k' lmap)) as [r| |]; try discriminate.
    rewrite (IH _ _ _ H). rewrite ahas_aset. cbn [mem_str].
    destruct (String.eqb k k'); cbn [orb]; [now rewrite Bool.orb_true_r|reflexivity].
Qed.

Lemma mlm_aux_fix key dm1 lmap sl acc :
  (forall s, In s sl -> exists k r, item_key key s = Some k /\
      merge s (jget k dm1) (jget k lmap) = Ok r /\ alookup k acc = Some r) ->
  mlm_aux key dm1 lmap sl acc = Ok acc.
Proof.
  induction sl as [|s sl IH]; intros H; cbn [mlm_aux]; [reflexivity|].
  destruct (H s (or_introl eq_refl)) as (k & r & Hk & Hr & Hl). rewrite Hk, Hr.
  rewrite (aset_id _ _ _ Hl). apply IH. intros s' Hin. apply H. now right.
Qed.

(* ---------- rebuild loops ---------- *)
Definition rd_items (key : string) (dl : list json) (dm : amap) : list json :=
  flat_map (fun it => match item_key key it with
                      | Some k => match alookup k dm with Some v => [v] | None => [] end
                      | None => [] end) dl.

Lemma rebuild_dest_spec key dm dl : forall added l1 a,
  rebuild_dest key dl dm added = Ok (l1, a) ->
  l1 = rd_items key dl dm /\
  (forall k, mem_str k a = mem_str k added || (mem_str k (keys_of key dl) && ahas k dm)).
Proof.
  induction dl as [|it dl IH]; intros added l1 a H; cbn [rebuild_dest] in H.
  - inversion H; subst. split; [reflexivity|]. intros k. cbn. now rewrite Bool.orb_false_r.
  - unfold rd_items. cbn [flat_map]. fold (rd_items key dl dm). rewrite keys_of_cons.
    destruct (item_key key it) as [k0|]; [|discriminate].
    destruct (alookup k0 dm) as [v|] eqn:El.
    + destruct (rebuild_dest key dl dm (k0 :: added)) as [[l a']| |] eqn:E; try discriminate.
      inversion H; subst l1 a; clear H.
      destruct (IH _ _ _ E) as [-> Hm]. split; [reflexivity|].
      intros k. rewrite Hm. cbn [mem_str].
      destruct (String.eqb k k0) eqn:Ek; cbn [orb andb].
      * apply String.eqb_eq in Ek; subst k0. unfold ahas. rewrite El. now rewrite Bool.orb_true_r.
      * reflexivity.
    + destruct (IH _ _ _ H) as [-> Hm]. split; [reflexivity|].
      intros k. rewrite Hm. cbn [mem_str].
      destruct (String.eqb k k0) eqn:Ek; cbn [orb andb]; [|reflexivity].
      apply String.eqb_eq in Ek; subst k0.
      assert (Hf : ahas k dm = false) by (unfold ahas; now rewrite El).
      rewrite Hf, !Bool.andb_false_r. reflexivity.
Qed.

Definition rs_items (key : string) (sl : list json) (dm : amap) (skip : string -> bool) : list json :=
  flat_map (fun s => match item_key key s with
                     | Some k => if skip k then [] else [jget k dm]
                     | None => [] end) sl.

Lemma rs_items_ext key sl dm f g :
  (forall k, mem_str k (keys_of key sl) = true -> f k = g k) ->
  rs_items key sl dm f = rs_items key sl dm g.
Proof.
  induction sl as [|s sl IH]; intros H; [reflexivity|].
  unfold rs_items. cbn [flat_map]. fold (rs_items key sl dm f). fold (rs_items key sl dm g).
  rewrite IH.
  - destruct (item_key key s) as [k|] eqn:E; [|reflexivity].
    rewrite (H k); [reflexivity|]. rewrite keys_of_cons, E. cbn. now rewrite eqb_refl'.
  - intros k Hk. apply H. rewrite keys_of_cons. destruct (item_key key s); auto.
    cbn [mem_str]. rewrite Hk. now rewrite Bool.orb_true_r.
Qed.

Lemma rebuild_des_spec key dm sl : forall added l2,
  nodup_str (keys_of key sl) = true ->
  rebuild_des key sl dm added = Ok l2 ->
  l2 = rs_items key sl dm (fun k => mem_str k added).
Proof.
  induction sl as [|s sl IH]; intros added l2 Hnd H; cbn [rebuild_des] in H.
  - now inversion H.
  - unfold rs_items. cbn [flat_map]. fold (rs_items key sl dm (fun k => mem_str k added)).
    rewrite keys_of_cons in Hnd.
    destruct (item_key key s) as [k0|]; [|discriminate].
    cbn [nodup_str] in Hnd. apply andb_split in Hnd as [Hn Hd].
    destruct (mem_str k0 added) eqn:Em.
    + cbn [app]. now apply IH.
    + destruct (rebuild_des key sl dm (k0 :: added)) as [l| |] eqn:E; try discriminate.
      inversion H; subst l2; clear H. cbn [app]. f_equal.
      rewrite (IH _ _ Hd E). apply rs_items_ext. intros k Hk. cbn [mem_str].
      destruct (String.eqb k k0) eqn:Ek; [|reflexivity].
      apply String.eqb_eq in Ek; subst k0. apply Bool.negb_true_iff in Hn. congruence.
Qed.

(* ---------- unfolding a successful list-map merge ---------- *)
Lemma merge_lm_inv sl ol l key r :
  detect_key ol (arr_or_nil l) sl = Some key ->
  merge (JArr sl) (JArr ol) l = Ok r ->
  exists dmap lmap merged l1 a l2,
    make_list_map key ol [] = Ok dmap /\
    make_list_map key (arr_or_nil l) [] = Ok lmap /\
    mlm_aux key (remove_last dmap (akeys lmap) (des_has_key key sl)) lmap sl
            (remove_last dmap (akeys lmap) (des_has_key key sl)) = Ok merged /\
    rebuild_dest key ol merged [] = Ok (l1, a) /\
    rebuild_des key sl merged a = Ok l2 /\
    r = JArr (l1 ++ l2).
Proof.
  intros E H. rewrite merge_arr_arr in H. cbv zeta in H. rewrite E in H.
  destruct (make_list_map key ol []) as [dmap| |]; cbn [rbind] in H; try discriminate.
  destruct (make_list_map key (arr_or_nil l) []) as [lmap| |]; cbn [rbind] in H; try discriminate.
  destruct (mlm_aux key _ lmap sl _) as [merged| |] eqn:EM; cbn [rbind] in H; try discriminate.
  destruct (rebuild_dest key ol merged []) as [[l1 a]| |] eqn:E1; cbn [rbind] in H; try discriminate.
  destruct (rebuild_des key sl merged a) as [l2| |] eqn:E2; cbn [rbind] in H; try discriminate.
  inversion H; subst r. exists dmap, lmap, merged, l1, a, l2. repeat split; auto.
Qed.

(* merging an object yields an object *)
Lemma merge_obj_result sm o l r : merge (JObj sm) o l = Ok r -> exists rm, r = JObj rm.
Proof.
  destruct o; try (cbn; intros [= <-]; eauto; fail); try (cbn; discriminate).
  rewrite merge_obj_obj. cbv zeta. destruct (mobj_aux _ _ sm _); try discriminate.
  intros [= <-]. eauto.
Qed.

(* ---------- scalar merge-key values survive containment ---------- *)
Lemma jeqb_scalar_eq v x : scalar_key v = true -> jeqb v x = true -> x = v.
Proof.
  destruct v; try discriminate; intros _; destruct x; cbn; try discriminate.
  - intros H. apply Bool.eqb_prop in H. now subst.
  - intros H. apply Z.eqb_eq in H. now subst.
  - intros H. apply String.eqb_eq in H. now subst.
Qed.

Lemma containsb_scalar v x : scalar_key v = true -> containsb v x = jeqb v x.
Proof. destruct v; try discriminate; reflexivity. Qed.

Lemma contains_item_key key ms r k :
  ahas key ms = true -> scalar_key (jget key ms) = true ->
  containsb (JObj ms) r = true -> item_key key (JObj ms) = Some k ->
  item_key key r = Some k.
Proof.
  intros Hh Hs Hc Hk. destruct r; try (cbn in Hc; discriminate).
  rewrite containsb_obj_obj in Hc.
  apply ahas_true_alookup in Hh as [v Hv].
  pose proof (forallb_In _ _ _ Hc (alookup_In _ _ _ Hv)) as H. cbn [fst snd] in H.
  apply andb_split in H as [_ H].
  assert (Hj : jget key ms = v) by (unfold jget; now rewrite Hv).
  rewrite Hj in Hs. rewrite containsb_scalar in H by exact Hs.
  apply jeqb_scalar_eq in H; [|exact Hs].
  cbn [item_key] in *. rewrite H. rewrite Hj in Hk. exact Hk.
Qed.
