(* DecoratorLegs.v — the decorator model (Model/Decorator.v) under three properties that so far
   had theorems for the composite model only:
     C10d  finalizer discipline (hook choice, adding, removing, hand-off on deletion),
     C03d  what the hook is shown as attachments,
     C13d  malformed hook answers (no panic, no call after a rejected answer).
   Everything is stated for every answer function: [all_calls], [safe G] for an arbitrary
   environment assumption G, and [hist_post]. *)
From MC Require Import Generated.
From MC Require Import Model.Decorator Model.DecoratorPreds Model.Safe.
From MC Require Import Proofs.AssocLemmas Proofs.AssocLemmas2 Proofs.ObjLemmas Proofs.ObjFinLemmas
     Proofs.C06Proofs Proofs.C03Proofs Proofs.C04Proofs Proofs.RollPanic Proofs.C13Proofs
     Proofs.SafeLemmas Proofs.C16Proofs.
From Coq Require Import Lia.
Local Open Scope string_scope.
Local Open Scope list_scope.

(* ================================================================== *)
(* 0. the shape of a decorator sync                                    *)
(* ================================================================== *)
Lemma sync_d_cases c k :
  (target_of c k = None /\ (sync_d c k = Ret SDone \/ sync_d c k = Ret SErr)) \/
  (exists t, target_of c k = Some t /\ sync_d c k = sync_parent_d c k t).
Proof.
  unfold sync_d, target_of.
  destruct (split_key (dk_key k)) as [[[[av kd] ns] name]|]; [|left; split; [reflexivity|now right]].
  destruct (rule_of_key c av kd) as [rl|]; [|left; split; [reflexivity|now right]].
  destruct (cached_target k rl ns name) as [t|].
  - right. exists t. split; reflexivity.
  - left. split; [reflexivity|now left].
Qed.

(* the one hook call of a sync, as a function of the object the finalizer phase hands on *)
Definition hook_call_d (c : dcfg) (k : dcache) (sent : json) : call :=
  CHook (if d_finalizing c sent then HFinalize else HSync)
        (hook_request_d sent (get_children_d c k sent) [] (d_finalizing c sent)).

Definition is_api_call (cl : call) : Prop := exists q, cl = CApi q.

Lemma api_only_api q : all_calls is_api_call (api q).
Proof. apply all_calls_api. eexists. reflexivity. Qed.

Lemma api_only_atomic_update res ns name uid status f :
  forall fuel, all_calls is_api_call (atomic_update fuel res ns name uid status f).
Proof.
  induction fuel as [|n IH]; cbn [atomic_update]; [apply AC_ret|].
  assert (Hretry : all_calls is_api_call
                     (match n with O => Ret (RErr EConflict) | S _ => atomic_update n res ns name uid status f end)).
  { destruct n; [apply AC_ret|exact IH]. }
  apply all_calls_bind; [apply api_only_api|].
  intros g. destruct g as [cur|e].
  - destruct (negb _); [apply AC_ret|]. destruct (f cur) as [upd|]; [|apply AC_ret].
    apply all_calls_bind; [apply api_only_api|].
    intros u. destruct u as [o|e]; [apply AC_ret|]. destruct e; try apply AC_ret. exact Hretry.
  - destruct e; try apply AC_ret. exact Hretry.
Qed.

Lemma api_only_sync_finalizer_d c rl t : all_calls is_api_call (sync_finalizer_d c rl t).
Proof.
  unfold sync_finalizer_d. cbv zeta.
  destruct (Bool.eqb _ _); [apply AC_ret|].
  destruct (dc_has_finalize c); [destruct (is_deleting t); [apply AC_ret|]|]; apply api_only_atomic_update.
Qed.

Lemma api_only_update_target c rl parent r p : all_calls is_api_call (update_target c rl parent r p).
Proof.
  unfold update_target. destruct (negb (plan_writes c parent r p)); [apply AC_ret|]. cbv zeta.
  apply all_calls_bind.
  - destruct (tp_status_changed p && rl_has_status rl); [|apply AC_ret].
    apply all_calls_bind; [apply api_only_api|].
    intros sr. destruct sr as [o|e]; [apply AC_ret|]. destruct e; apply AC_ret.
  - intros s1. destruct s1 as [upd1|res]; [|apply AC_ret].
    apply all_calls_bind; [apply api_only_api|].
    intros ur. destruct ur as [o|e]; [apply AC_ret|]. destruct e; apply AC_ret.
Qed.

Lemma api_only_manage_children cc parent observed desired :
  ssa cc = false -> all_calls is_api_call (manage_children cc parent observed desired).
Proof.
  intros Hssa. eapply all_calls_weaken; [|apply manage_children_touch; exact Hssa].
  intros cl (q & -> & _). exists q. reflexivity.
Qed.

Lemma api_only_finish_d c rl parent observed r : all_calls is_api_call (finish_d c rl parent observed r).
Proof.
  unfold finish_d.
  destruct (desired_map (dr_attachments r) []) as [d0|]; [|apply AC_ret].
  destruct (status_map parent) as [st|]; [|apply AC_ret].
  apply all_calls_bind; [apply api_only_update_target|].
  intros ur. destruct ur as [res|]; [apply AC_ret|]. cbv zeta.
  apply all_calls_bind; [|intros; apply AC_ret].
  destruct (negb (is_deleting parent) || should_finalize_d c parent); [|apply AC_ret].
  apply api_only_manage_children. reflexivity.
Qed.

(* every call of the sync of a target is an API request, except for at most one hook call, and
   that one is [hook_call_d] of an object the sync does not ignore *)
Lemma sync_parent_d_calls (P : call -> Prop) c k t :
  (forall q, P (CApi q)) ->
  (forall sent, d_ignores c sent = false -> P (hook_call_d c k sent)) ->
  all_calls P (sync_parent_d c k t).
Proof.
  intros Hapi Hhook.
  assert (Hw : forall R (p : prog R), all_calls is_api_call p -> all_calls P p).
  { intros R p. apply all_calls_weaken. intros cl (q & ->). apply Hapi. }
  unfold sync_parent_d.
  destruct (d_ignores c t); [apply AC_ret|].
  destruct (client_rule c t) as [rl|]; [|apply AC_ret].
  apply all_calls_bind; [apply Hw, api_only_sync_finalizer_d|].
  intros fr. destruct fr as [parent|e]; [|apply AC_ret].
  destruct (d_ignores c parent) eqn:Ei; [apply AC_ret|].
  unfold call_hook_d. cbv zeta.
  destruct (negb (d_finalizing c parent) && negb (dc_has_sync c)); [cbn [bind]; apply AC_ret|].
  cbn [bind]. apply AC_do; [apply (Hhook parent Ei)|].
  intros a. destruct a as [o|e|body| |z]; cbn [bind]; try apply AC_ret.
  destruct (decode_decorator body) as [r|]; cbn [bind]; [|apply AC_ret].
  apply Hw, api_only_finish_d.
Qed.

Lemma sync_d_calls (P : call -> Prop) c k :
  (forall q, P (CApi q)) ->
  (forall sent, d_ignores c sent = false -> P (hook_call_d c k sent)) ->
  all_calls P (sync_d c k).
Proof.
  intros Hapi Hhook.
  destruct (sync_d_cases c k) as [[_ [-> | ->]] | (t & _ & ->)]; try apply AC_ret.
  apply sync_parent_d_calls; assumption.
Qed.

(* ================================================================== *)
(* C10d (a): which hook is called, and what it is told                 *)
(* ================================================================== *)
(* the clause of DecoratorPreds.C10d_round for a hook call, as a proposition *)
Definition C10d_hook_choice_ok (c : dcfg) (cl : call) : Prop :=
  forall hk body, cl = CHook hk body ->
    let sent := jget "object" (obj_map body) in
    let want := dc_has_finalize c && (is_deleting sent || negb (d_matches c sent)) in
    hk = (if want then HFinalize else HSync) /\
    jget "finalizing" (obj_map body) = JBool want.

Lemma hook_request_d_object sent obs rel fz : jget "object" (obj_map (hook_request_d sent obs rel fz)) = sent.
Proof. reflexivity. Qed.
Lemma hook_request_d_finalizing sent obs rel fz : jget "finalizing" (obj_map (hook_request_d sent obs rel fz)) = JBool fz.
Proof. reflexivity. Qed.
Lemma hook_request_d_attachments sent obs rel fz :
  jget "attachments" (obj_map (hook_request_d sent obs rel fz)) = convert (get_ns sent) obs.
Proof. reflexivity. Qed.

Theorem C10d_hook_choice :
  forall (c : dcfg) (k : dcache), all_calls (C10d_hook_choice_ok c) (sync_d c k).
Proof.
  intros c k. apply sync_d_calls.
  - intros q hk body H. discriminate.
  - intros sent _ hk body H. unfold hook_call_d in H. injection H as <- <-.
    rewrite hook_request_d_object, hook_request_d_finalizing. cbv zeta.
    fold (d_finalizing c sent). split; reflexivity.
Qed.

(* read off: HFinalize with finalizing = true iff there is a finalize hook and the object sent is
   pending deletion or not selected; otherwise HSync with finalizing = false; never HCustomize *)
Theorem C10d_hook_choice_iff :
  forall (c : dcfg) (hk : hook_kind) (body : json),
    C10d_hook_choice_ok c (CHook hk body) ->
    let sent := jget "object" (obj_map body) in
    (hk = HFinalize /\ jget "finalizing" (obj_map body) = JBool true /\
     dc_has_finalize c = true /\ (is_deleting sent = true \/ d_matches c sent = false)) \/
    (hk = HSync /\ jget "finalizing" (obj_map body) = JBool false /\
     (dc_has_finalize c = false \/ (is_deleting sent = false /\ d_matches c sent = true))).
Proof.
  intros c hk body H. cbv zeta. destruct (H hk body eq_refl) as [Hk Hf]. cbv zeta in Hk, Hf.
  destruct (dc_has_finalize c); cbn [andb] in Hk, Hf.
  - destruct (is_deleting _) eqn:Ed; cbn [orb] in Hk, Hf.
    + left. repeat split; auto.
    + destruct (d_matches c _) eqn:Em; cbn [negb] in Hk, Hf.
      * right. repeat split; auto.
      * left. repeat split; auto.
  - right. repeat split; auto.
Qed.

Corollary C10d_no_finalize_hook_always_sync :
  forall (c : dcfg) (k : dcache),
    dc_has_finalize c = false ->
    all_calls (fun cl => forall hk body, cl = CHook hk body ->
                 hk = HSync /\ jget "finalizing" (obj_map body) = JBool false) (sync_d c k).
Proof.
  intros c k Hnf. eapply all_calls_weaken; [|apply C10d_hook_choice].
  intros cl H hk body ->. destruct (H hk body eq_refl) as [Hk Hf]. cbv zeta in Hk, Hf.
  rewrite Hnf in Hk, Hf. cbn [andb] in Hk, Hf. auto.
Qed.
Print Assumptions C10d_hook_choice.
Print Assumptions C10d_hook_choice_iff.
Print Assumptions C10d_no_finalize_hook_always_sync.

(* ================================================================== *)
(* C13d: malformed hook answers                                        *)
(* ================================================================== *)
(* --- no panic: an accepted answer reaches finish_d without nil entries --- *)
Lemma update_target_result c rl parent r p :
  post_all (fun ur => ur <> Some SPanic) (update_target c rl parent r p).
Proof.
  unfold update_target. destruct (negb (plan_writes c parent r p)); [apply PA_ret; discriminate|]. cbv zeta.
  apply post_all_bind with (Q := fun s1 => s1 <> inr SPanic).
  - destruct (tp_status_changed p && rl_has_status rl); [|apply PA_ret; discriminate].
    apply post_all_any. intros sr. destruct sr as [o|e]; [apply PA_ret; discriminate|].
    destruct e; apply PA_ret; discriminate.
  - intros s1 Hs1. destruct s1 as [upd1|res]; [|apply PA_ret; congruence].
    apply post_all_any. intros ur. destruct ur as [o|e]; [apply PA_ret; discriminate|].
    destruct e; apply PA_ret; discriminate.
Qed.

Lemma finish_d_no_panic c rl parent observed r :
  forallb is_some (dr_attachments r) = true ->
  post_all (fun x => x <> SPanic) (finish_d c rl parent observed r).
Proof.
  intros Hch. unfold finish_d.
  pose proof (desired_map_total _ Hch []) as Hd.
  destruct (desired_map (dr_attachments r) []) as [d0|]; [|congruence].
  destruct (status_map parent) as [st|]; [|apply PA_ret; discriminate].
  eapply post_all_bind; [apply update_target_result|].
  intros ur Hur. destruct ur as [res|]; [apply PA_ret; congruence|]. cbv zeta.
  apply post_all_any. intros failed. apply PA_ret. destruct failed; discriminate.
Qed.

(* what the controller makes of an answer to its hook call: rejected = transport error, non-200,
   429, or a 200 whose body decode_decorator refuses (a null entry in "attachments" is accepted and
   dropped; a non-object entry, a wrong type in labels / annotations / status / finalized /
   resyncAfterSeconds is refused) *)
Definition hook_rejected_d (a : answer) : bool :=
  match a with
  | AHook body => match decode_decorator body with Some _ => false | None => true end
  | _ => true
  end.

(* no hook call of the history was answered by a rejected answer *)
Definition quiet_d (h : hist) : Prop :=
  forall hk body a, In (CHook hk body, a) h -> hook_rejected_d a = false.

Definition quiet_d_b (h : hist) : bool :=
  forallb (fun ca => match fst ca with CHook _ _ => negb (hook_rejected_d (snd ca)) | CApi _ => true end) h.

Lemma quiet_d_b_iff h : quiet_d_b h = true <-> quiet_d h.
Proof.
  unfold quiet_d_b, quiet_d. rewrite forallb_forall. split.
  - intros H hk body a Hin. specialize (H _ Hin). cbn [fst snd] in H. now apply Bool.negb_true_iff in H.
  - intros H [[q|hk body] a] Hin; cbn [fst snd]; [reflexivity|]. apply Bool.negb_true_iff. eapply H; eauto.
Qed.

Lemma quiet_d_nil : quiet_d [].
Proof. intros hk body a []. Qed.

Lemma quiet_d_api q a h : quiet_d h -> quiet_d ((CApi q, a) :: h).
Proof. intros Hq hk body a' [H|H]; [discriminate|eapply Hq; eauto]. Qed.

Lemma quiet_d_hook hk body a h : hook_rejected_d a = false -> quiet_d h -> quiet_d ((CHook hk body, a) :: h).
Proof. intros Ha Hq hk' body' a' [H|H]; [injection H as _ _ <-; exact Ha|eapply Hq; eauto]. Qed.

(* a call is only ever issued while no hook answer has been rejected ... *)
Definition C13d_phi (h : hist) (cl : call) : Prop := quiet_d h.
(* ... and a rejected answer makes the sync fail *)
Definition C13d_post (h : hist) (r : sync_result) : Prop := ~ quiet_d h -> r = SErr.

Lemma hist_post_api_only {R} (p : prog R) :
  all_calls is_api_call p -> forall h, quiet_d h -> hist_post C13d_phi (fun h' _ => quiet_d h') h p.
Proof.
  intros Hp. induction Hp as [r|cl kont Hc Hk IH]; intros h Hq.
  - apply HP_ret. exact Hq.
  - apply HP_do; [exact Hq|]. intros a. apply IH. destruct Hc as [q ->]. apply quiet_d_api. exact Hq.
Qed.

Lemma opt_filter_is_some ns (l : list (option json)) :
  forallb is_some (map (default_ns ns) (filter opt_is_some l)) = true.
Proof. apply default_ns_filter_some. Qed.

Theorem C13d_rejected_no_call_parent c k t :
  hist_post C13d_phi (fun h r => C13d_post h r /\ r <> SPanic) [] (sync_parent_d c k t).
Proof.
  assert (Hdone : forall h (r : sync_result), quiet_d h -> r <> SPanic ->
                    hist_post C13d_phi (fun h r => C13d_post h r /\ r <> SPanic) h (Ret r)).
  { intros h r Hq Hr. apply HP_ret. split; [intros Hn; contradiction|exact Hr]. }
  unfold sync_parent_d.
  destruct (d_ignores c t); [apply Hdone; [apply quiet_d_nil|discriminate]|].
  destruct (client_rule c t) as [rl|]; [|apply Hdone; [apply quiet_d_nil|discriminate]].
  eapply hist_post_bind; [apply hist_post_api_only; [apply api_only_sync_finalizer_d|apply quiet_d_nil]|].
  intros h1 fr Hq1. cbv beta in Hq1.
  destruct fr as [parent|e]; [|apply Hdone; [exact Hq1|discriminate]].
  destruct (d_ignores c parent); [apply Hdone; [exact Hq1|discriminate]|].
  unfold call_hook_d. cbv zeta.
  destruct (negb (d_finalizing c parent) && negb (dc_has_sync c)); [cbn [bind]; apply Hdone; [exact Hq1|discriminate]|].
  cbn [bind]. apply HP_do; [exact Hq1|].
  intros a.
  assert (Hrej : forall h, C13d_post h SErr /\ SErr <> SPanic) by (intros h; split; [intros _; reflexivity|discriminate]).
  destruct a as [o|e|body| |z]; cbn [bind]; try (apply HP_ret; apply Hrej).
  destruct (decode_decorator body) as [r|] eqn:Ed; cbn [bind]; [|apply HP_ret; apply Hrej].
  eapply hist_post_weaken with (Phi := C13d_phi) (Q := fun h' x => quiet_d h' /\ x <> SPanic);
    [intros h cl H; exact H| |apply hist_post_and_all with (Q1 := fun h' (_ : sync_result) => quiet_d h') (Q2 := fun x => x <> SPanic)].
  - intros h x [Hq Hx]. split; [intros Hn; contradiction|exact Hx].
  - apply hist_post_api_only; [apply api_only_finish_d|].
    apply quiet_d_hook; [cbn [hook_rejected_d]; now rewrite Ed|exact Hq1].
  - apply finish_d_no_panic. cbn [dr_attachments]. apply opt_filter_is_some.
Qed.

Theorem C13d_rejected_no_call :
  forall (c : dcfg) (k : dcache),
    hist_post C13d_phi (fun h r => C13d_post h r /\ r <> SPanic) [] (sync_d c k).
Proof.
  intros c k.
  destruct (sync_d_cases c k) as [[_ [-> | ->]] | (t & _ & ->)].
  - apply HP_ret. split; [intros Hn; exfalso; apply Hn, quiet_d_nil|discriminate].
  - apply HP_ret. split; [intros _; reflexivity|discriminate].
  - apply C13d_rejected_no_call_parent.
Qed.

Theorem C13d_no_panic : forall (c : dcfg) (k : dcache) (e : env), result_of (sync_d c k) e <> SPanic.
Proof.
  intros c k e. unfold result_of.
  destruct (hist_post_run _ _ _ _ e (C13d_rejected_no_call c k)) as [[_ HP] _]. exact HP.
Qed.

(* run level: in every environment a rejected hook answer is the LAST entry of the trace (nothing is
   read or written after it, neither the target nor an attachment) and the sync fails *)
Theorem C13d_rejected_is_last :
  forall (c : dcfg) (k : dcache) (e : env) (hk : hook_kind) (body : json) (a : answer),
    In (CHook hk body, a) (trace_of (sync_d c k) e) ->
    hook_rejected_d a = true ->
    (exists before, trace_of (sync_d c k) e = before ++ [(CHook hk body, a)]) /\
    result_of (sync_d c k) e = SErr.
Proof.
  intros c k e hk body a Hin Hrej. unfold trace_of, result_of in *. apply in_rev in Hin.
  destruct (hist_post_run _ _ _ _ e (C13d_rejected_no_call c k)) as [[HQ _] [new [Hnew Hall]]].
  rewrite app_nil_r in Hnew. rewrite Hnew in *.
  assert (Hnq : ~ quiet_d new).
  { intros Hq. specialize (Hq _ _ _ Hin). congruence. }
  split; [|apply HQ; exact Hnq].
  apply in_split in Hin. destruct Hin as [post [pre Heq]].
  destruct (exists_last_or_nil post) as [->|[post' [[cl' a'] ->]]].
  - exists (rev pre). rewrite Heq. cbn [app rev]. reflexivity.
  - exfalso. rewrite <- app_assoc in Heq. cbn [app] in Heq.
    pose proof (Hall post' cl' a' _ Heq) as Hbad. rewrite app_nil_r in Hbad.
    unfold C13d_phi in Hbad. specialize (Hbad hk body a (or_introl eq_refl)). congruence.
Qed.

(* the cases of the statement spelled out *)
Corollary C13d_rejected_cases :
  forall (c : dcfg) (k : dcache) (e : env) (hk : hook_kind) (body : json) (a : answer),
    In (CHook hk body, a) (trace_of (sync_d c k) e) ->
    (a = AHookErr \/ (exists n, a = AHook429 n) \/ (exists o, a = AObj o) \/ (exists x, a = AFail x) \/
     (exists b, a = AHook b /\ decode_decorator b = None)) ->
    (exists before, trace_of (sync_d c k) e = before ++ [(CHook hk body, a)]) /\
    result_of (sync_d c k) e = SErr.
Proof.
  intros c k e hk body a Hin Ha. apply C13d_rejected_is_last; [exact Hin|].
  destruct Ha as [->|[[n ->]|[[o ->]|[[x ->]|[b [-> Hd]]]]]]; cbn [hook_rejected_d]; try reflexivity.
  now rewrite Hd.
Qed.
Print Assumptions C13d_rejected_no_call.
Print Assumptions C13d_no_panic.
Print Assumptions C13d_rejected_is_last.
Print Assumptions C13d_rejected_cases.

(* ================================================================== *)
(* C03d: the attachments the hook is shown                              *)
(* ================================================================== *)
Definition att_text (kc : child_cfg) : string := gvk_text (ch_api_version kc) (ch_kind kc).
Definition att_pair (kc : child_cfg) : string * string := (ch_api_version kc, ch_kind kc).

(* hypotheses, all boolean: the declared attachment kinds have pairwise distinct "Kind.apiVersion"
   texts; the informer of an attachment resource holds objects of that resource's apiVersion and
   kind; and at most one object per namespace/name *)
Definition attachments_distinct (c : dcfg) : bool := nodup_str (map att_text (dc_attachments c)).
Definition dcache_gvk_ok (c : dcfg) (k : dcache) : bool :=
  forallb (fun kc => forallb (fun o => String.eqb (get_api_version o) (ch_api_version kc) &&
                                     String.eqb (get_kind o) (ch_kind kc)) (cached_d k (ch_res kc)))
          (dc_attachments c).
Definition dcache_names_distinct (c : dcfg) (k : dcache) : bool :=
  forallb (fun kc => nodup_str (map qualified_name (cached_d k (ch_res kc)))) (dc_attachments c).

(* the group shown for one declared attachment resource *)
Definition shown_group (c : dcfg) (k : dcache) (sent : json) (kc : child_cfg) : amap :=
  fold_left (fun m o => aset (relative_name (get_ns sent) o) o m)
            (filter (is_attachment c sent) (cached_d k (ch_res kc))) [].

Lemma expected_attachments_fold c k sent :
  expected_attachments c k sent =
  JObj (fold_left (fun acc kc => aset (att_text kc) (JObj (shown_group c k sent kc)) acc) (dc_attachments c) []).
Proof. reflexivity. Qed.

(* ---- relative names and qualified names of visible objects correspond ---- *)
Lemma append_inj_l (p a b : string) : (p ++ a = p ++ b)%string -> a = b.
Proof. induction p as [|ch p IH]; cbn [append]; [auto|]. intros [= H]. auto. Qed.

Lemma rel_qn_eqb sent o o' :
  visible_d sent o = true -> visible_d sent o' = true ->
  String.eqb (relative_name (get_ns sent) o) (relative_name (get_ns sent) o') =
  String.eqb (qualified_name o) (qualified_name o').
Proof.
  unfold visible_d, relative_name, qualified_name.
  destruct (String.eqb (get_ns sent) "") eqn:Ep; cbn [orb andb].
  - intros _ _. destruct (String.eqb (get_ns o) ""), (String.eqb (get_ns o') ""); reflexivity.
  - intros Ho Ho'. apply String.eqb_eq in Ho, Ho'. rewrite Ho, Ho', Ep.
    destruct (String.eqb_spec (get_name o) (get_name o')) as [->|Hne].
    + now rewrite String.eqb_refl.
    + symmetry. apply String.eqb_neq. intros H. apply append_inj_l in H. cbn [append] in H.
      injection H as H. contradiction.
Qed.

Lemma is_attachment_visible c sent o : is_attachment c sent o = true -> visible_d sent o = true.
Proof. unfold is_attachment. intros H. apply Bool.andb_true_iff in H as [H _]. now apply Bool.andb_true_iff in H as [H _]. Qed.

Lemma NoDup_rel_of_qn sent (F : list json) :
  (forall o, In o F -> visible_d sent o = true) ->
  NoDup (map qualified_name F) -> NoDup (map (relative_name (get_ns sent)) F).
Proof.
  induction F as [|o F IH]; intros Hv Hnd; [constructor|].
  cbn [map] in *. inversion Hnd as [|x xs Hnotin Hnd']; subst. constructor.
  - intros Hin. apply Hnotin. apply in_map_iff in Hin as (o' & Heq & Hin). apply in_map_iff. exists o'. split; [|exact Hin].
    apply String.eqb_eq. rewrite <- (rel_qn_eqb sent o' o); [now apply String.eqb_eq|apply Hv; now right|apply Hv; now left].
  - apply IH; [intros o' Hin; apply Hv; now right|exact Hnd'].
Qed.

(* ---- one group of the uniform map, as built by oset under qualified names ---- *)
Definition ostep (os : list (string * json)) (o : json) : list (string * json) := oset (qualified_name o) o os.
Definition wire_entry (pns : string) (kv : string * json) : string * json := (relative_name pns (snd kv), snd kv).

Definition entries_ok (sent : json) (os : list (string * json)) : Prop :=
  forall q o, In (q, o) os -> q = qualified_name o /\ visible_d sent o = true.

Lemma entries_ok_ostep sent os o : entries_ok sent os -> visible_d sent o = true -> entries_ok sent (ostep os o).
Proof.
  intros Hok Hv q o' Hin. unfold ostep in Hin. apply oset_in in Hin. destruct Hin as [Hin|[-> ->]]; [now apply Hok|auto].
Qed.

Lemma oset_keys_NoDup n o (os : list (string * json)) : NoDup (map fst os) -> NoDup (map fst (oset n o os)).
Proof.
  induction os as [|[k' v'] os IH]; cbn [oset map fst]; intros Hnd.
  - constructor; [intros []|constructor].
  - inversion Hnd as [|x xs Hnotin Hnd']; subst.
    destruct (String.eqb n k') eqn:E; cbn [map fst].
    + apply String.eqb_eq in E. subst k'. constructor; assumption.
    + constructor; [|apply IH; exact Hnd'].
      intros Hin. apply in_map_iff in Hin as ([k2 v2] & Hk & Hin). cbn [fst] in Hk. subst k2.
      apply oset_in in Hin. destruct Hin as [Hin|[-> _]].
      * apply Hnotin. apply in_map_iff. exists (k', v2). auto.
      * now rewrite String.eqb_refl in E.
Qed.

Lemma wire_ostep sent os o :
  entries_ok sent os -> visible_d sent o = true ->
  map (wire_entry (get_ns sent)) (ostep os o) =
  aset (relative_name (get_ns sent) o) o (map (wire_entry (get_ns sent)) os).
Proof.
  unfold ostep. induction os as [|[q o'] os IH]; intros Hok Hv; [reflexivity|].
  cbn [oset map aset wire_entry snd].
  destruct (Hok q o' (or_introl eq_refl)) as [-> Hv'].
  rewrite (rel_qn_eqb sent o o' Hv Hv').
  destruct (String.eqb (qualified_name o) (qualified_name o')); [reflexivity|].
  cbn [map wire_entry snd]. f_equal. apply IH; [|exact Hv]. intros q2 o2 Hin. apply Hok. now right.
Qed.

Lemma wire_fold_ostep sent (F : list json) : forall os,
  entries_ok sent os -> (forall o, In o F -> visible_d sent o = true) ->
  map (wire_entry (get_ns sent)) (fold_left ostep F os) =
  fold_left (fun m o => aset (relative_name (get_ns sent) o) o m) F (map (wire_entry (get_ns sent)) os).
Proof.
  induction F as [|o F IH]; intros os Hok Hv; [reflexivity|]. cbn [fold_left].
  rewrite IH; [|apply entries_ok_ostep; [exact Hok|apply Hv; now left]|intros o' Hin; apply Hv; now right].
  rewrite wire_ostep; [reflexivity|exact Hok|apply Hv; now left].
Qed.

Lemma fold_ostep_inv sent (F : list json) : forall os,
  entries_ok sent os -> NoDup (map fst os) -> (forall o, In o F -> visible_d sent o = true) ->
  entries_ok sent (fold_left ostep F os) /\ NoDup (map fst (fold_left ostep F os)).
Proof.
  induction F as [|o F IH]; intros os Hok Hnd Hv; [auto|]. cbn [fold_left]. apply IH.
  - apply entries_ok_ostep; [exact Hok|apply Hv; now left].
  - apply oset_keys_NoDup. exact Hnd.
  - intros o' Hin. apply Hv. now right.
Qed.

Lemma filter_all {A} (p : A -> bool) (l : list A) : (forall x, In x l -> p x = true) -> filter p l = l.
Proof.
  induction l as [|a l IH]; intros H; [reflexivity|]. cbn [filter]. rewrite (H a (or_introl eq_refl)).
  f_equal. apply IH. intros x Hx. apply H. now right.
Qed.

Lemma convert_group_entries sent os :
  entries_ok sent os -> NoDup (map fst os) ->
  convert_group (get_ns sent) os = JObj (map (wire_entry (get_ns sent)) os).
Proof.
  intros Hok Hnd.
  assert (Hseen : filter (seen (get_ns sent)) os = os).
  { apply filter_all. intros [q o] Hin. destruct (Hok q o Hin) as [_ Hv]. unfold seen, visible_d in *. cbn [snd].
    now rewrite (String.eqb_sym (get_ns sent) (get_ns o)). }
  rewrite convert_group_nodup; rewrite Hseen; [reflexivity|].
  clear Hseen. induction os as [|[q o] os IH]; [constructor|].
  cbn [map fst] in *. inversion Hnd as [|x xs Hnotin Hnd']; subst.
  assert (Hok' : entries_ok sent os) by (intros q2 o2 Hin; apply Hok; now right).
  constructor; [|apply IH; assumption].
  destruct (Hok q o (or_introl eq_refl)) as [-> Hv].
  intros Hin. apply Hnotin. apply in_map_iff in Hin as ([q2 o2] & Heq & Hin). unfold rel_key in Heq. cbn [snd] in Heq.
  destruct (Hok' q2 o2 Hin) as [-> Hv2].
  apply in_map_iff. exists (qualified_name o2, o2). split; [|exact Hin]. cbn [fst].
  apply String.eqb_eq. rewrite <- (rel_qn_eqb sent o2 o Hv2 Hv). now apply String.eqb_eq.
Qed.

Lemma convert_group_built sent (F : list json) :
  (forall o, In o F -> visible_d sent o = true) ->
  convert_group (get_ns sent) (fold_left ostep F []) =
  JObj (fold_left (fun m o => aset (relative_name (get_ns sent) o) o m) F []).
Proof.
  intros Hv.
  assert (Hnil : entries_ok sent []) by (intros q o []).
  destruct (fold_ostep_inv sent F [] Hnil (NoDup_nil _) Hv) as [Hok Hnd].
  rewrite (convert_group_entries sent _ Hok Hnd). f_equal.
  rewrite (wire_fold_ostep sent F [] Hnil Hv). reflexivity.
Qed.

(* ---- the uniform map get_children_d builds: one group per declared kind, in order ---- *)
Lemma uinit_fresh av kd (m : umap) : ~ In (av, kd) (ukeys m) -> uinit av kd m = m ++ [(av, kd, [])].
Proof.
  induction m as [|[[av' kd'] os] m IH]; intros Hf; [reflexivity|].
  cbn [uinit app]. destruct (String.eqb av av' && String.eqb kd kd') eqn:E.
  - exfalso. apply Hf. apply Bool.andb_true_iff in E as [E1 E2]. apply String.eqb_eq in E1, E2. subst. now left.
  - f_equal. apply IH. intros Hin. apply Hf. now right.
Qed.

Lemma uinsert_at_last av kd n o (m : umap) os :
  ~ In (av, kd) (ukeys m) -> uinsert_at av kd n o (m ++ [(av, kd, os)]) = m ++ [(av, kd, oset n o os)].
Proof.
  induction m as [|[[av' kd'] os'] m IH]; intros Hf.
  - cbn [app uinsert_at]. now rewrite !String.eqb_refl.
  - cbn [uinsert_at app]. destruct (String.eqb av av' && String.eqb kd kd') eqn:E.
    + exfalso. apply Hf. apply Bool.andb_true_iff in E as [E1 E2]. apply String.eqb_eq in E1, E2. subst. now left.
    + f_equal. apply IH. intros Hin. apply Hf. now right.
Qed.

Lemma fold_uinsert_last av kd (F : list json) :
  (forall o, In o F -> get_api_version o = av /\ get_kind o = kd) ->
  forall (m : umap) os, ~ In (av, kd) (ukeys m) ->
  fold_left (fun m o => uinsert o m) F (m ++ [(av, kd, os)]) = m ++ [(av, kd, fold_left ostep F os)].
Proof.
  induction F as [|o F IH]; intros Hgvk m os Hf; [reflexivity|]. cbn [fold_left].
  destruct (Hgvk o (or_introl eq_refl)) as [Hav Hkd].
  unfold uinsert at 2. rewrite Hav, Hkd, (uinsert_at_last av kd _ o m os Hf).
  apply IH; [intros o' Hin; apply Hgvk; now right|exact Hf].
Qed.

Definition built_group (c : dcfg) (k : dcache) (sent : json) (kc : child_cfg) : group :=
  (ch_api_version kc, ch_kind kc, fold_left ostep (filter (is_attachment c sent) (cached_d k (ch_res kc))) []).

Lemma attach_fold_shape c k sent (ks : list child_cfg) : forall m : umap,
  NoDup (map att_pair ks) ->
  (forall kc, In kc ks -> ~ In (att_pair kc) (ukeys m)) ->
  (forall kc o, In kc ks -> In o (cached_d k (ch_res kc)) ->
                get_api_version o = ch_api_version kc /\ get_kind o = ch_kind kc) ->
  fold_left (attach_step c k sent) ks m = m ++ map (built_group c k sent) ks.
Proof.
  induction ks as [|kc ks IH]; intros m Hnd Hfresh Hgvk; [cbn; now rewrite app_nil_r|].
  cbn [fold_left map]. cbn [map] in Hnd. inversion Hnd as [|x xs Hnotin Hnd']; subst.
  assert (Hstep : attach_step c k sent m kc = m ++ [built_group c k sent kc]).
  { unfold attach_step, built_group.
    rewrite uinit_fresh by (apply (Hfresh kc); now left).
    apply fold_uinsert_last; [|apply (Hfresh kc); now left].
    intros o Hin. apply filter_In in Hin as [Hin _]. apply (Hgvk kc o); [now left|exact Hin]. }
  rewrite Hstep, IH.
  - rewrite <- app_assoc. reflexivity.
  - exact Hnd'.
  - intros kc' Hin Hk. unfold ukeys in Hk. rewrite map_app in Hk. apply in_app_or in Hk. destruct Hk as [Hk|[Hk|[]]].
    + apply (Hfresh kc'); [now right|exact Hk].
    + apply Hnotin. change (att_pair kc = att_pair kc') in Hk. rewrite Hk. apply in_map. exact Hin.
  - intros kc' o Hin. apply Hgvk. now right.
Qed.

Lemma fold_left_map_l {A B C} (f : A -> B -> A) (g : C -> B) (l : list C) :
  forall a, fold_left f (map g l) a = fold_left (fun a x => f a (g x)) l a.
Proof. induction l as [|x l IH]; intros a; [reflexivity|]. cbn [map fold_left]. apply IH. Qed.

Lemma att_pairs_distinct c : attachments_distinct c = true -> NoDup (map att_pair (dc_attachments c)).
Proof.
  unfold attachments_distinct. intros H. apply nodup_str_NoDup in H.
  apply (NoDup_map_inv (fun p : string * string => gvk_text (fst p) (snd p))).
  rewrite map_map. exact H.
Qed.

Lemma dcache_gvk_ok_spec c k :
  dcache_gvk_ok c k = true ->
  forall kc o, In kc (dc_attachments c) -> In o (cached_d k (ch_res kc)) ->
               get_api_version o = ch_api_version kc /\ get_kind o = ch_kind kc.
Proof.
  unfold dcache_gvk_ok. intros H kc o Hkc Ho. rewrite forallb_forall in H. specialize (H kc Hkc).
  rewrite forallb_forall in H. specialize (H o Ho). apply Bool.andb_true_iff in H as [H1 H2].
  apply String.eqb_eq in H1, H2. auto.
Qed.

(* the wire value built from the cache IS the specified one *)
Theorem C03d_attachments_expected :
  forall (c : dcfg) (k : dcache) (sent : json),
    attachments_distinct c = true -> dcache_gvk_ok c k = true ->
    convert (get_ns sent) (get_children_d c k sent) = expected_attachments c k sent.
Proof.
  intros c k sent Hdist Hgvk.
  rewrite get_children_d_fold, (attach_fold_shape c k sent (dc_attachments c) []).
  - cbn [app]. rewrite convert_fold, fold_left_map_l, expected_attachments_fold. f_equal.
    apply fold_left_ext. intros acc kc. unfold built_group, gvk_of. cbn [fst snd]. unfold shown_group.
    rewrite convert_group_built; [reflexivity|].
    intros o Hin. apply filter_In in Hin as [_ Hin]. eapply is_attachment_visible; eauto.
  - apply att_pairs_distinct. exact Hdist.
  - intros kc _ [].
  - apply dcache_gvk_ok_spec. exact Hgvk.
Qed.

(* every hook request of a sync carries exactly that value *)
Definition C03d_hook_ok (c : dcfg) (k : dcache) (cl : call) : Prop :=
  forall hk body, cl = CHook hk body ->
    jget "attachments" (obj_map body) = expected_attachments c k (jget "object" (obj_map body)) /\
    jget "related" (obj_map body) = JObj [].

Theorem C03d_hook_sees_expected :
  forall (c : dcfg) (k : dcache),
    attachments_distinct c = true -> dcache_gvk_ok c k = true ->
    all_calls (C03d_hook_ok c k) (sync_d c k).
Proof.
  intros c k Hdist Hgvk. apply sync_d_calls.
  - intros q hk body H. discriminate.
  - intros sent _ hk body H. unfold hook_call_d in H. injection H as <- <-.
    rewrite hook_request_d_object, hook_request_d_attachments. split; [|reflexivity].
    apply C03d_attachments_expected; assumption.
Qed.

(* ---- what the specified value contains ---- *)
(* one group per declared attachment resource, under its "Kind.apiVersion" text, in the declared
   order, also when empty; nothing else *)
Theorem C03d_groups :
  forall (c : dcfg) (k : dcache) (sent : json),
    attachments_distinct c = true ->
    expected_attachments c k sent =
    JObj (map (fun kc => (att_text kc, JObj (shown_group c k sent kc))) (dc_attachments c)).
Proof.
  intros c k sent Hdist. rewrite expected_attachments_fold. f_equal.
  rewrite fold_aset_nodup; [reflexivity|apply nodup_str_NoDup; exact Hdist|intros a _; reflexivity].
Qed.

Corollary C03d_group_lookup :
  forall (c : dcfg) (k : dcache) (sent : json) (key : string) (j : json),
    attachments_distinct c = true ->
    (alookup key (obj_map (expected_attachments c k sent)) = Some j <->
     exists kc, In kc (dc_attachments c) /\ key = att_text kc /\ j = JObj (shown_group c k sent kc)).
Proof.
  intros c k sent key j Hdist. rewrite (C03d_groups c k sent Hdist). cbn [obj_map].
  rewrite alookup_In_nodup.
  - rewrite in_map_iff. split.
    + intros (kc & Heq & Hin). injection Heq as <- <-. exists kc. auto.
    + intros (kc & Hin & -> & ->). exists kc. auto.
  - rewrite map_map. cbn [fst]. apply nodup_str_NoDup. exact Hdist.
Qed.

(* membership in a group, as an iff on a cached object; the key is the name relative to the target *)
Theorem C03d_membership :
  forall (c : dcfg) (k : dcache) (sent : json) (kc : child_cfg) (key : string) (o : json),
    nodup_str (map qualified_name (cached_d k (ch_res kc))) = true ->
    (In (key, o) (shown_group c k sent kc) <->
     In o (cached_d k (ch_res kc)) /\ controlled_by o (get_uid sent) = true /\ has_marker c o = true /\
     visible_d sent o = true /\ key = relative_name (get_ns sent) o).
Proof.
  intros c k sent kc key o Hnd. apply nodup_str_NoDup in Hnd.
  set (F := filter (is_attachment c sent) (cached_d k (ch_res kc))).
  assert (Hv : forall x, In x F -> visible_d sent x = true).
  { intros x Hx. apply filter_In in Hx as [_ Hx]. eapply is_attachment_visible; eauto. }
  assert (Hshown : shown_group c k sent kc = map (fun x => (relative_name (get_ns sent) x, x)) F).
  { unfold shown_group. fold F.
    rewrite (fold_aset_nodup (relative_name (get_ns sent)) (fun x => x)); [reflexivity| |intros a _; reflexivity].
    apply NoDup_rel_of_qn; [exact Hv|]. apply NoDup_map_filter. exact Hnd. }
  rewrite Hshown, in_map_iff. unfold F. split.
  - intros (x & Heq & Hin). injection Heq as <- ->. apply filter_In in Hin as [Hin Hf].
    unfold is_attachment in Hf. apply Bool.andb_true_iff in Hf as [Hf Hm]. apply Bool.andb_true_iff in Hf as [Hvis Hc].
    auto.
  - intros (Hin & Hc & Hm & Hvis & ->). exists o. split; [reflexivity|]. apply filter_In. split; [exact Hin|].
    unfold is_attachment. now rewrite Hvis, Hc, Hm.
Qed.

(* without the distinctness hypothesis: whatever is shown is such an object under that key *)
Theorem C03d_membership_sound :
  forall (c : dcfg) (k : dcache) (sent : json) (kc : child_cfg) (key : string) (o : json),
    In (key, o) (shown_group c k sent kc) ->
    In o (cached_d k (ch_res kc)) /\ controlled_by o (get_uid sent) = true /\ has_marker c o = true /\
    visible_d sent o = true /\ key = relative_name (get_ns sent) o.
Proof.
  intros c k sent kc key o. unfold shown_group.
  set (F := filter (is_attachment c sent) (cached_d k (ch_res kc))).
  assert (Hgen : forall (l : list json) (acc : amap),
            In (key, o) (fold_left (fun m x => aset (relative_name (get_ns sent) x) x m) l acc) ->
            In (key, o) acc \/ (In o l /\ key = relative_name (get_ns sent) o)).
  { induction l as [|x l IH]; intros acc H; [now left|]. cbn [fold_left] in H.
    destruct (IH _ H) as [H1|[H1 H2]]; [|right; split; [now right|exact H2]].
    assert (Haset : forall (m : amap), In (key, o) (aset (relative_name (get_ns sent) x) x m) ->
                      In (key, o) m \/ (key = relative_name (get_ns sent) x /\ o = x)).
    { induction m as [|[k' v'] m IHm]; cbn [aset].
      - intros [Hh|[]]. injection Hh as <- <-. now right.
      - destruct (String.eqb _ k'); intros [Hh|Hh].
        + injection Hh as <- <-. now right.
        + left. now right.
        + left. now left.
        + destruct (IHm Hh) as [H3|H3]; [left; now right|now right]. }
    destruct (Haset _ H1) as [H3|[-> ->]]; [now left|]. right. split; [now left|reflexivity]. }
  intros H. destruct (Hgen F [] H) as [[]|[Hin ->]].
  unfold F in Hin. apply filter_In in Hin as [Hin Hf].
  unfold is_attachment in Hf. apply Bool.andb_true_iff in Hf as [Hf Hm]. apply Bool.andb_true_iff in Hf as [Hvis Hc].
  auto.
Qed.

(* the key: the bare name for a namespaced target, namespace/name for a namespaced object shown to a
   cluster-scoped target *)
Theorem C03d_key :
  forall (sent o : json),
    (get_ns sent <> "" -> relative_name (get_ns sent) o = get_name o) /\
    (get_ns sent = "" -> get_ns o <> "" -> relative_name (get_ns sent) o = (get_ns o ++ "/" ++ get_name o)%string) /\
    (get_ns sent = "" -> get_ns o = "" -> relative_name (get_ns sent) o = get_name o).
Proof.
  intros sent o. split; [|split].
  - intros H. apply relative_name_plain. now left.
  - intros H1 H2. now apply relative_name_qualified.
  - intros H1 H2. apply relative_name_plain. now right.
Qed.
Print Assumptions C03d_attachments_expected.
Print Assumptions C03d_hook_sees_expected.
Print Assumptions C03d_groups.
Print Assumptions C03d_group_lookup.
Print Assumptions C03d_membership.
Print Assumptions C03d_membership_sound.
Print Assumptions C03d_key.

(* ================================================================== *)
(* C10d (b) (c) (d): the life cycle of the decorator's finalizer       *)
(* ================================================================== *)
(* ---- finalizers under the setters of the decoration ---- *)
Lemma get_finalizers_set_smap_at o f m :
  String.eqb "finalizers" f = false -> get_finalizers (set_smap_at o ["metadata"; f] m) = get_finalizers o.
Proof.
  intros Hne. unfold set_smap_at. destruct o as [| | | | | | |om]; try reflexivity.
  destruct (nested_set om _ _) as [om'|] eqn:E; [|reflexivity].
  rewrite !get_finalizers_mget. unfold mget. cbn [obj_map]. now rewrite (nget_meta_set_other _ _ _ _ _ E Hne).
Qed.

Lemma get_finalizers_set_rv o v : get_finalizers (set_rv o v) = get_finalizers o.
Proof.
  unfold set_rv. destruct o as [| | | | | | |om]; try reflexivity.
  destruct (nested_set om _ _) as [om'|] eqn:E; [|reflexivity].
  rewrite !get_finalizers_mget. unfold mget. cbn [obj_map]. now rewrite (nget_meta_set_other _ _ "finalizers" _ _ E eq_refl).
Qed.

Lemma get_finalizers_set_status_obj o st : get_finalizers (set_status o st) = get_finalizers o.
Proof. unfold set_status. destruct o; try reflexivity. apply get_finalizers_set_status. Qed.

Lemma get_finalizers_decorated parent ls ans st : get_finalizers (decorated parent ls ans st) = get_finalizers parent.
Proof.
  unfold decorated, set_annots, set_labels.
  destruct (is_null st); rewrite ?get_finalizers_set_status_obj, !get_finalizers_set_smap_at; reflexivity.
Qed.

Lemma get_finalizers_removed m : get_finalizers (JObj (nested_remove m ["metadata"; "finalizers"])) = [].
Proof.
  rewrite get_finalizers_mget. unfold mget. cbn [obj_map]. rewrite nremove2.
  destruct (alookup "metadata" m) as [mv|] eqn:E; [destruct mv|]; rewrite nget2; rewrite ?E; try reflexivity.
  rewrite alookup_aset_same, alookup_aremove, eqb_refl'. reflexivity.
Qed.

Lemma has_finalizer_strip f o : has_finalizer (strip_finalizer f o) f = false.
Proof.
  unfold has_finalizer, strip_finalizer.
  assert (Hrm : mem_str f (get_finalizers match o with JObj m => JObj (nested_remove m ["metadata"; "finalizers"]) | _ => o end) = false).
  { destruct o as [| | | | | | |om]; try reflexivity. now rewrite get_finalizers_removed. }
  destruct (nested_get (obj_map o) ["metadata"; "finalizers"]) as [v| |] eqn:E; try exact Hrm.
  destruct v as [| | | | | |l|mm]; try exact Hrm.
  destruct (forallb _ l); [|exact Hrm].
  rewrite set_finalizers_get by (eapply mget_found_meta; exact E). apply mem_str_filter_neq.
Qed.

Lemma has_finalizer_target_body_keep c sent p rv f :
  has_finalizer (target_body c sent p rv false) f = has_finalizer sent f.
Proof.
  unfold has_finalizer, target_body. destruct rv; rewrite ?get_finalizers_set_rv, get_finalizers_decorated; reflexivity.
Qed.

Lemma has_finalizer_target_body_strip c sent p rv :
  has_finalizer (target_body c sent p rv true) (d_finalizer_name c) = false.
Proof. unfold target_body. apply has_finalizer_strip. Qed.

(* ---- atomic_update, with the content of the history it builds ---- *)
Definition only_au (res ns name : string) (h : hist) : Prop :=
  Forall (fun ca : call * answer => au_call res ns name false (fst ca)) h.

Lemma safeP_au_traffic (G : call -> answer -> Prop) (Phi : hist -> call -> Prop) (Post : hist -> apires -> Prop)
      (res ns name uid : string) (f : json -> option json) :
  (forall h, only_au res ns name h -> Phi h (CApi (rq_get res ns name))) ->
  (forall h cur upd, only_au res ns name h -> get_uid cur = uid -> f cur = Some upd ->
                     Phi ((CApi (rq_get res ns name), AObj cur) :: h) (CApi (rq_put false res ns name upd))) ->
  (forall h e, only_au res ns name h -> Post h (RErr e)) ->
  (forall h cur, only_au res ns name h -> get_uid cur = uid -> f cur = None ->
                 Post ((CApi (rq_get res ns name), AObj cur) :: h) (ROk cur)) ->
  (forall h cur upd o, only_au res ns name h -> get_uid cur = uid -> f cur = Some upd ->
                       Post ((CApi (rq_put false res ns name upd), AObj o) :: (CApi (rq_get res ns name), AObj cur) :: h) (ROk o)) ->
  forall fuel h, only_au res ns name h -> safeP G Phi Post h (atomic_update fuel res ns name uid false f).
Proof.
  intros Hget Hput Herr Hok_get Hok_put.
  induction fuel as [|n IH]; intros h Ho.
  - cbn [atomic_update]. constructor. auto.
  - cbn [atomic_update]. unfold api at 1. cbn [bind].
    constructor; [apply Hget; exact Ho|].
    intros a Ga.
    assert (Ho1 : only_au res ns name ((CApi (rq_get res ns name), a) :: h)).
    { constructor; [left; reflexivity|exact Ho]. }
    assert (Hretry : forall h', only_au res ns name h' ->
              safeP G Phi Post h'
                (match n with O => Ret (RErr EConflict) | S _ => atomic_update n res ns name uid false f end)).
    { intros h' Ho'. destruct n as [|n']; [constructor; auto|]. apply IH; exact Ho'. }
    destruct a as [cur|e|b| |z]; cbn [bind].
    + destruct (negb (String.eqb (get_uid cur) uid)) eqn:Euid.
      * constructor. auto.
      * apply Bool.negb_false_iff, String.eqb_eq in Euid.
        destruct (f cur) as [upd|] eqn:Ef.
        -- unfold api at 1. cbn [bind].
           constructor; [apply Hput; auto|].
           intros a2 Ga2.
           assert (Ho2 : only_au res ns name ((CApi (rq_put false res ns name upd), a2) :: (CApi (rq_get res ns name), AObj cur) :: h)).
           { constructor; [right; eexists; reflexivity|exact Ho1]. }
           destruct a2 as [o|e|b| |z]; cbn [bind].
           ++ constructor. apply Hok_put; auto.
           ++ destruct e; try (constructor; auto). apply Hretry; exact Ho2.
           ++ constructor; auto.
           ++ constructor; auto.
           ++ constructor; auto.
        -- constructor. apply Hok_get; auto.
    + destruct e; try (constructor; auto). apply Hretry; exact Ho1.
    + constructor; auto.
    + constructor; auto.
    + constructor; auto.
Qed.

(* the calls a program makes pile up on the history: if every call of p satisfies P, then so does
   every entry added to the history while p runs *)
Lemma safeP_accum {R} (G : call -> answer -> Prop) (Phi : hist -> call -> Prop) (Post : hist -> R -> Prop)
      (P : call -> Prop) (p : prog R) :
  all_calls P p ->
  forall h0 d, safeP G Phi Post (d ++ h0) p -> Forall (fun ca : call * answer => P (fst ca)) d ->
  safeP G (fun h cl => Phi h cl /\ exists d', h = d' ++ h0 /\ Forall (fun ca : call * answer => P (fst ca)) d')
          (fun h r => Post h r /\ exists d', h = d' ++ h0 /\ Forall (fun ca : call * answer => P (fst ca)) d')
          (d ++ h0) p.
Proof.
  intros Hp. induction Hp as [r|cl kont Hc Hk IH]; intros h0 d Hs Hd.
  - inversion Hs; subst. constructor. split; [assumption|]. exists d. auto.
  - inversion Hs as [|h' c' k' Hphi Hcont]; subst. constructor.
    + split; [exact Hphi|]. exists d. auto.
    + intros a Ga. apply (IH a h0 ((cl, a) :: d)).
      * cbn [app]. apply Hcont. exact Ga.
      * constructor; [exact Hc|exact Hd].
Qed.

Section Legs.
  Variables (c : dcfg) (k : dcache) (t : json) (rl : drule).

  (* the finalizer phase talks to the target only: reads, and updates (never UpdateStatus) *)
  Definition tget : call := CApi (rq_get (rl_res rl) (eff_ns (rl_namespaced rl) (get_ns t)) (get_name t)).
  Definition tput (upd : json) : call :=
    CApi (rq_put false (rl_res rl) (eff_ns (rl_namespaced rl) (get_ns t)) (get_name t) upd).
  Definition only_fin_traffic (h : hist) : Prop :=
    only_au (rl_res rl) (eff_ns (rl_namespaced rl) (get_ns t)) (get_name t) h.

  Definition fin_edit : json -> option json :=
    if dc_has_finalize c then add_finalizer (d_finalizer_name c) else remove_finalizer (d_finalizer_name c).

  (* 1. a call of the finalizer phase: everything before it is finalizer traffic; an update is built on
     the object read just before, and adds the finalizer (finalize hook, cached target alive, selected,
     without the finalizer) or removes a leftover one (no finalize hook) *)
  Definition fin_phase_call (h : hist) (cl : call) : Prop :=
    only_fin_traffic h /\
    (cl = tget \/
     exists cur rest upd,
       h = (tget, AObj cur) :: rest /\ get_uid cur = get_uid t /\ cl = tput upd /\
       ((dc_has_finalize c = true /\ has_finalizer t (d_finalizer_name c) = false /\ is_deleting t = false /\
         d_matches c t = true /\ add_finalizer (d_finalizer_name c) cur = Some upd) \/
        (dc_has_finalize c = false /\ has_finalizer t (d_finalizer_name c) = true /\
         remove_finalizer (d_finalizer_name c) cur = Some upd))).

  (* what the finalizer phase hands on, and the history it leaves *)
  Definition handed (h : hist) (sent : json) : Prop :=
    only_fin_traffic h /\
    ((h = [] /\ sent = t /\
      (has_finalizer t (d_finalizer_name c) = dc_has_finalize c \/
       (dc_has_finalize c = true /\ is_deleting t = true))) \/
     (has_finalizer t (d_finalizer_name c) <> dc_has_finalize c /\
      ((exists cur rest, h = (tget, AObj cur) :: rest /\ sent = cur /\ get_uid cur = get_uid t /\ fin_edit cur = None) \/
       (exists cur upd rest, h = (tput upd, AObj sent) :: (tget, AObj cur) :: rest /\
                             get_uid cur = get_uid t /\ fin_edit cur = Some upd)))).

  Lemma sync_finalizer_d_legs (G : call -> answer -> Prop) :
    d_ignores c t = false ->
    safeP G fin_phase_call (fun h fr => forall sent, fr = ROk sent -> handed h sent) [] (sync_finalizer_d c rl t).
  Proof.
    intros Hign. unfold sync_finalizer_d. cbv zeta.
    assert (Hnil : only_fin_traffic []) by constructor.
    destruct (Bool.eqb (has_finalizer t (d_finalizer_name c)) (dc_has_finalize c)) eqn:Eb.
    { constructor. intros sent [= <-]. split; [exact Hnil|]. left. split; [reflexivity|]. split; [reflexivity|].
      left. apply Bool.eqb_prop. exact Eb. }
    assert (Hne : has_finalizer t (d_finalizer_name c) <> dc_has_finalize c).
    { intros Heq. rewrite Heq, Bool.eqb_reflx in Eb. discriminate. }
    unfold handed, fin_phase_call, fin_edit.
    destruct (dc_has_finalize c) eqn:Hfz.
    - assert (Hlack : has_finalizer t (d_finalizer_name c) = false).
      { destruct (has_finalizer t (d_finalizer_name c)); [congruence|reflexivity]. }
      destruct (is_deleting t) eqn:Ed.
      { constructor. intros sent [= <-]. split; [exact Hnil|]. left. auto. }
      assert (Hm : d_matches c t = true).
      { unfold d_ignores in Hign. rewrite Hlack in Hign. cbn [negb] in Hign. rewrite Bool.andb_true_r in Hign.
        now apply Bool.negb_false_iff in Hign. }
      apply safeP_au_traffic; [| | | | |exact Hnil].
      + intros h Ho. split; [exact Ho|]. now left.
      + intros h cur upd Ho Hu Hf. split; [constructor; [left; reflexivity|exact Ho]|].
        right. exists cur, h, upd. split; [reflexivity|]. split; [exact Hu|]. split; [reflexivity|]. left. auto.
      + intros h e Ho sent H. discriminate.
      + intros h cur Ho Hu Hf sent [= <-]. split; [constructor; [left; reflexivity|exact Ho]|].
        right. split; [exact Hne|]. left. exists cur, h. auto.
      + intros h cur upd o Ho Hu Hf sent [= <-].
        split; [constructor; [right; eexists; reflexivity|constructor; [left; reflexivity|exact Ho]]|].
        right. split; [exact Hne|]. right. exists cur, upd, h. auto.
    - assert (Hhas : has_finalizer t (d_finalizer_name c) = true).
      { destruct (has_finalizer t (d_finalizer_name c)); [reflexivity|congruence]. }
      apply safeP_au_traffic; [| | | | |exact Hnil].
      + intros h Ho. split; [exact Ho|]. now left.
      + intros h cur upd Ho Hu Hf. split; [constructor; [left; reflexivity|exact Ho]|].
        right. exists cur, h, upd. split; [reflexivity|]. split; [exact Hu|]. split; [reflexivity|]. right. auto.
      + intros h e Ho sent H. discriminate.
      + intros h cur Ho Hu Hf sent [= <-]. split; [constructor; [left; reflexivity|exact Ho]|].
        right. split; [exact Hne|]. left. exists cur, h. auto.
      + intros h cur upd o Ho Hu Hf sent [= <-].
        split; [constructor; [right; eexists; reflexivity|constructor; [left; reflexivity|exact Ho]]|].
        right. split; [exact Hne|]. right. exists cur, upd, h. auto.
  Qed.

  (* 2. the hook call: issued on top of what the finalizer phase left, about the object it handed on *)
  Definition hook_phase_call (h : hist) (cl : call) : Prop :=
    exists sent, handed h sent /\ d_ignores c sent = false /\ cl = hook_call_d c k sent.

  (* the response as the controller uses it: null entries dropped, namespaces defaulted *)
  Definition norm_resp (sent : json) (r0 : dresp) : dresp :=
    mkDR (dr_labels r0) (dr_annotations r0) (dr_status r0)
         (map (default_ns (get_ns sent)) (filter opt_is_some (dr_attachments r0))) (dr_resync r0) (dr_finalized r0).

  (* 3. a call after an accepted hook answer: an Update / UpdateStatus of the object sent, whose body is
     the decorated object (without the decorator's finalizer only if the answer said finalized), or an
     attachment request, and that only if the object sent is alive or this decorator is finalizing it *)
  Definition after_hook_call (h : hist) (cl : call) : Prop :=
    exists sent ans r0 pre post,
      h = post ++ (hook_call_d c k sent, AHook ans) :: pre /\
      handed pre sent /\ d_ignores c sent = false /\ decode_decorator ans = Some r0 /\
      Forall (fun ca : call * answer => is_api_call (fst ca)) post /\
      ((exists st p rv strip, cl = target_put st rl sent (target_body c sent p rv strip) /\
                              (strip = true -> dr_finalized r0 = true)) \/
       (attachment_call_ok c k sent cl /\ (is_deleting sent = false \/ should_finalize_d c sent = true))).

  Definition leg_phi (h : hist) (cl : call) : Prop :=
    fin_phase_call h cl \/ hook_phase_call h cl \/ after_hook_call h cl.

  Lemma finish_d_legs (G : call -> answer -> Prop) sent ans r0 pre :
    handed pre sent -> d_ignores c sent = false -> decode_decorator ans = Some r0 ->
    safe G leg_phi ((hook_call_d c k sent, AHook ans) :: pre)
         (finish_d c rl sent (get_children_d c k sent) (norm_resp sent r0)).
  Proof.
    intros Hh Hign Hdec. set (h1 := (hook_call_d c k sent, AHook ans) :: pre).
    unfold finish_d.
    destruct (desired_map (dr_attachments (norm_resp sent r0)) []) as [d0|]; [|constructor].
    destruct (status_map sent) as [st|]; [|constructor].
    apply safeP_safe with (Post := fun _ _ => True).
    eapply safeP_bind with
      (Q := fun h' (_ : option sync_result) =>
              True /\ exists d', h' = d' ++ h1 /\ Forall (fun ca : call * answer => is_api_call (fst ca)) d').
    - pose proof (safeP_accum G _ _ is_api_call _
                    (api_only_update_target c rl sent (norm_resp sent r0) (plan_target sent st (norm_resp sent r0))) h1 []
                    (safe_safeP _ _ _ _ (update_target_safe G c rl sent (norm_resp sent r0)
                                           (plan_target sent st (norm_resp sent r0)) h1))
                    (Forall_nil _)) as Hacc.
      cbn [app] in Hacc.
      eapply safeP_conseq; [intros cl a H; exact H| |intros h r H; exact H|exact Hacc].
      cbv beta. intros h cl [Hshape (d' & -> & Hd')]. right. right.
      exists sent, ans, r0, pre, d'. split; [reflexivity|]. split; [exact Hh|]. split; [exact Hign|].
      split; [exact Hdec|]. split; [exact Hd'|]. left.
      destruct Hshape as [(-> & _)|[(-> & _)|(result & -> & _)]].
      + exists true, (plan_target sent st (norm_resp sent r0)), None, false. split; [reflexivity|discriminate].
      + exists false, (plan_target sent st (norm_resp sent r0)), None, (dr_finalized (norm_resp sent r0)).
        split; [reflexivity|]. cbn [norm_resp dr_finalized]. auto.
      + exists false, (plan_target sent st (norm_resp sent r0)), (Some (get_rv result)), (dr_finalized (norm_resp sent r0)).
        split; [reflexivity|]. cbn [norm_resp dr_finalized]. auto.
    - intros h2 ur (_ & d & -> & Hd). destruct ur as [res|]; [constructor; exact I|]. cbv zeta.
      eapply safeP_bind with (Q := fun _ _ => True); [|intros; constructor; exact I].
      destruct (negb (is_deleting sent) || should_finalize_d c sent) eqn:Em; [|constructor; exact I].
      pose proof (safeP_accum G _ _ is_api_call _
                    (api_only_manage_children (ccfg_of c) sent (get_children_d c k sent) (stamp_all c d0) eq_refl) h1 d
                    (safe_safeP _ _ _ _ (all_calls_safe G _ _ (d ++ h1)
                                           (C16_foreign_attachments_untouched c k sent (stamp_all c d0))))
                    Hd) as Hacc.
      eapply safeP_conseq; [intros cl a H; exact H| |intros h r H; exact I|exact Hacc].
      cbv beta. intros h cl [Hatt (d' & -> & Hd')]. right. right.
      exists sent, ans, r0, pre, d'. split; [reflexivity|]. split; [exact Hh|]. split; [exact Hign|].
      split; [exact Hdec|]. split; [exact Hd'|]. right. split; [exact Hatt|].
      apply Bool.orb_true_iff in Em. destruct Em as [Em|Em]; [left; now apply Bool.negb_true_iff in Em|now right].
  Qed.

  Hypothesis Htarget : target_of c k = Some t.
  Hypothesis Hrule : client_rule c t = Some rl.

  Theorem C10d_sync_legs (G : call -> answer -> Prop) : safe G leg_phi [] (sync_d c k).
  Proof.
    destruct (sync_d_cases c k) as [[Hn _] | (t' & Ht' & ->)]; [congruence|].
    assert (t' = t) by congruence. subst t'.
    unfold sync_parent_d.
    destruct (d_ignores c t) eqn:Ei; [constructor|]. rewrite Hrule.
    apply safeP_safe with (Post := fun _ _ => True).
    eapply safeP_bind.
    { eapply safeP_conseq; [intros cl a H; exact H| |intros h r H; exact H|apply (sync_finalizer_d_legs G Ei)].
      intros h cl H. left. exact H. }
    cbv beta. intros h1 fr Hfr. destruct fr as [sent|e]; [|constructor; exact I].
    specialize (Hfr sent eq_refl).
    destruct (d_ignores c sent) eqn:Ei2; [constructor; exact I|].
    unfold call_hook_d. cbv zeta.
    destruct (negb (d_finalizing c sent) && negb (dc_has_sync c)); [cbn [bind]; constructor; exact I|].
    cbn [bind]. constructor.
    { right. left. exists sent. split; [exact Hfr|]. split; [exact Ei2|reflexivity]. }
    intros a _. destruct a as [o|e|body| |z]; cbn [bind]; try (constructor; exact I).
    destruct (decode_decorator body) as [r0|] eqn:Ed; cbn [bind]; [|constructor; exact I].
    apply safe_safeP. apply (finish_d_legs G sent body r0 h1 Hfr Ei2 Ed).
  Qed.
End Legs.
Print Assumptions C10d_sync_legs.

(* ---- reading the three kinds of calls ---- *)
Lemma only_fin_traffic_no_hook t rl h hk body a : only_fin_traffic t rl h -> ~ In (CHook hk body, a) h.
Proof.
  intros Ho Hin. unfold only_fin_traffic, only_au in Ho. rewrite Forall_forall in Ho.
  specialize (Ho _ Hin). cbn [fst] in Ho. destruct Ho as [H|[upd H]]; discriminate.
Qed.

Lemma handed_only c t rl h sent : handed c t rl h sent -> only_fin_traffic t rl h.
Proof. intros [H _]. exact H. Qed.

Lemma after_hook_entry c k t rl sent ans pre post hk body a :
  handed c t rl pre sent ->
  Forall (fun ca : call * answer => is_api_call (fst ca)) post ->
  In (CHook hk body, a) (post ++ (hook_call_d c k sent, AHook ans) :: pre) ->
  (CHook hk body, a) = (hook_call_d c k sent, AHook ans).
Proof.
  intros Hh Hpost Hin. apply in_app_or in Hin. destruct Hin as [Hin|[Hin|Hin]].
  - rewrite Forall_forall in Hpost. destruct (Hpost _ Hin) as [q Hq]. discriminate.
  - symmetry. exact Hin.
  - exfalso. eapply only_fin_traffic_no_hook; [eapply handed_only; exact Hh|exact Hin].
Qed.

(* under a sane API server the object handed on has the key of the cached target, so the
   target_put requests below address the target *)
Lemma handed_same_key c t rl h sent :
  handed c t rl h sent -> (forall ca, In ca h -> sane (fst ca) (snd ca)) -> same_key rl t sent.
Proof.
  intros [_ [(_ & -> & _)|(_ & [(cur & rest & -> & -> & _)|(cur & upd & rest & -> & _)])]] Hs.
  - split; reflexivity.
  - specialize (Hs _ (or_introl eq_refl)). cbn [fst snd] in Hs. apply sane_get in Hs as [Hn Hns].
    split; [exact Hn|]. rewrite Hns. destruct (rl_namespaced rl); reflexivity.
  - specialize (Hs _ (or_introl eq_refl)). cbn [fst snd] in Hs. unfold tput in Hs. apply sane_put in Hs as (Hn & Hns & _).
    split; [exact Hn|]. rewrite Hns. destruct (rl_namespaced rl); reflexivity.
Qed.

(* (b) a target Update / UpdateStatus whose body carries the decorator's finalizer either ADDS it — then
   it is built on a fresh read that lacks it, there is a finalize hook, the cached target is not pending
   deletion, satisfies the selectors and lacks the finalizer, and every earlier call of the sync is a read
   of the target or an earlier attempt of this update (no hook call, no attachment write yet) — or merely
   CARRIES it, because the object the hook was asked about carries it; or it is an attachment request *)
Definition C10d_added_ok (c : dcfg) (k : dcache) (t : json) (rl : drule) (h : hist) (cl : call) : Prop :=
  forall q, cl = CApi q -> (q_verb q = VUpdate \/ q_verb q = VUpdateStatus) ->
    has_finalizer (q_body q) (d_finalizer_name c) = true ->
    (exists cur rest,
        h = (tget t rl, AObj cur) :: rest /\ cl = tput t rl (q_body q) /\
        get_uid cur = get_uid t /\ has_finalizer cur (d_finalizer_name c) = false /\
        add_finalizer (d_finalizer_name c) cur = Some (q_body q) /\
        dc_has_finalize c = true /\ is_deleting t = false /\ d_matches c t = true /\
        has_finalizer t (d_finalizer_name c) = false /\ only_fin_traffic t rl h) \/
    (exists sent ans st, In (hook_call_d c k sent, AHook ans) h /\ cl = target_put st rl sent (q_body q) /\
                         has_finalizer sent (d_finalizer_name c) = true) \/
    (exists sent, attachment_call_ok c k sent cl).

Theorem C10d_finalizer_added c k t rl h cl : leg_phi c k t rl h cl -> C10d_added_ok c k t rl h cl.
Proof.
  intros Hphi q -> Hv Hb.
  destruct Hphi as [[Ho [Hc|(cur & rest & upd & -> & Hu & Hc & Hcase)]]|[(sent & _ & _ & Hc)|
    (sent & ans & r0 & pre & post & -> & Hh & _ & _ & Hpost & [(st & p & rv & strip & Hc & _)|[Hatt _]])]].
  - unfold tget in Hc. injection Hc as ->. cbn in Hv. destruct Hv; discriminate.
  - unfold tput in Hc. injection Hc as ->. cbn [q_body rq_put] in *.
    destruct Hcase as [(Hfz & Hlack & Hd & Hm & Hadd)|(_ & _ & Hrem)].
    + left. exists cur, rest. repeat split; auto. eapply add_finalizer_lacked; eauto.
    + rewrite (remove_finalizer_lacks _ _ _ Hrem) in Hb. discriminate.
  - discriminate.
  - right. left. unfold target_put in Hc. injection Hc as ->. cbn [q_body rq_put] in *.
    exists sent, ans, st. split; [apply in_or_app; right; now left|]. split; [reflexivity|].
    destruct strip; [rewrite has_finalizer_target_body_strip in Hb; discriminate|].
    now rewrite has_finalizer_target_body_keep in Hb.
  - right. right. exists sent. exact Hatt.
Qed.

(* (c) a target Update / UpdateStatus that drops the finalizer from the object it is built on: in the
   finalizer phase only without a finalize hook; after the hook only if the answer said finalized *)
Definition C10d_removed_ok (c : dcfg) (k : dcache) (t : json) (rl : drule) (h : hist) (cl : call) : Prop :=
  forall q, cl = CApi q -> (q_verb q = VUpdate \/ q_verb q = VUpdateStatus) ->
    (exists cur rest,
        h = (tget t rl, AObj cur) :: rest /\ cl = tput t rl (q_body q) /\ only_fin_traffic t rl h /\
        (has_finalizer cur (d_finalizer_name c) = true -> has_finalizer (q_body q) (d_finalizer_name c) = false ->
         dc_has_finalize c = false)) \/
    (exists sent ans r0 st,
        In (hook_call_d c k sent, AHook ans) h /\ decode_decorator ans = Some r0 /\
        cl = target_put st rl sent (q_body q) /\
        (has_finalizer sent (d_finalizer_name c) = true -> has_finalizer (q_body q) (d_finalizer_name c) = false ->
         dr_finalized r0 = true)) \/
    (exists sent, attachment_call_ok c k sent cl).

Theorem C10d_finalizer_removed c k t rl h cl : leg_phi c k t rl h cl -> C10d_removed_ok c k t rl h cl.
Proof.
  intros Hphi q -> Hv.
  destruct Hphi as [[Ho [Hc|(cur & rest & upd & -> & Hu & Hc & Hcase)]]|[(sent & _ & _ & Hc)|
    (sent & ans & r0 & pre & post & -> & Hh & _ & Hdec & Hpost & [(st & p & rv & strip & Hc & Hstrip)|[Hatt _]])]].
  - unfold tget in Hc. injection Hc as ->. cbn in Hv. destruct Hv; discriminate.
  - unfold tput in Hc. injection Hc as ->. cbn [q_body rq_put] in *.
    left. exists cur, rest. split; [reflexivity|]. split; [reflexivity|]. split; [exact Ho|].
    intros Hhas Hlacks. destruct Hcase as [(_ & _ & _ & _ & Hadd)|(Hfz & _)]; [|exact Hfz].
    rewrite (add_finalizer_lacked _ _ _ Hadd) in Hhas. discriminate.
  - discriminate.
  - right. left. unfold target_put in Hc. injection Hc as ->. cbn [q_body rq_put] in *.
    exists sent, ans, r0, st. split; [apply in_or_app; right; now left|]. split; [exact Hdec|]. split; [reflexivity|].
    intros Hhas Hlacks. destruct strip; [now apply Hstrip|].
    rewrite has_finalizer_target_body_keep in Hlacks. congruence.
  - right. right. exists sent. exact Hatt.
Qed.

(* (c, second half) without a finalize hook a leftover finalizer is gone before the hook is called: the
   live object was read without it, or the update that removes it was accepted *)
Definition C10d_leftover_ok (c : dcfg) (t : json) (rl : drule) (h : hist) (cl : call) : Prop :=
  forall hk body, cl = CHook hk body ->
    dc_has_finalize c = false -> has_finalizer t (d_finalizer_name c) = true ->
    only_fin_traffic t rl h /\
    exists cur, In (tget t rl, AObj cur) h /\ get_uid cur = get_uid t /\
                (has_finalizer cur (d_finalizer_name c) = false \/
                 exists upd o, remove_finalizer (d_finalizer_name c) cur = Some upd /\
                               has_finalizer upd (d_finalizer_name c) = false /\ In (tput t rl upd, AObj o) h).

Theorem C10d_leftover_removed_first c k t rl h cl : leg_phi c k t rl h cl -> C10d_leftover_ok c t rl h cl.
Proof.
  intros Hphi hk body -> Hnf Hhas.
  destruct Hphi as [[_ [Hc|(cur & rest & upd & _ & _ & Hc & _)]]|[(sent & Hh & _ & _)|
    (sent & ans & r0 & pre & post & _ & _ & _ & _ & _ & [(st & p & rv & strip & Hc & _)|[(q & Hc & _) _]])]];
    try discriminate.
  split; [eapply handed_only; exact Hh|].
  destruct Hh as [_ [(_ & _ & [Heq|[Hfz _]])|(_ & Hcase)]]; [congruence|congruence|].
  unfold fin_edit in Hcase. rewrite Hnf in Hcase.
  destruct Hcase as [(cur & rest & -> & -> & Hu & Hnone)|(cur & upd & rest & -> & Hu & Hsome)].
  - exists cur. split; [now left|]. split; [exact Hu|]. left. eapply remove_finalizer_none; eauto.
  - exists cur. split; [right; now left|]. split; [exact Hu|]. right. exists upd, sent.
    split; [exact Hsome|]. split; [eapply remove_finalizer_lacks; eauto|now left].
Qed.

(* (d) once the hook was asked about an object that is pending deletion and that this decorator does not
   finalize (no finalize hook, finalizer already gone, or a GC finalizer present), every later call is an
   Update / UpdateStatus of that object: no attachment is created, updated or deleted *)
Definition C10d_handoff_ok (c : dcfg) (rl : drule) (h : hist) (cl : call) : Prop :=
  forall hk body a, In (CHook hk body, a) h ->
    let sent := jget "object" (obj_map body) in
    is_deleting sent = true -> should_finalize_d c sent = false ->
    exists st b, cl = target_put st rl sent b.

Theorem C10d_handoff c k t rl h cl : leg_phi c k t rl h cl -> C10d_handoff_ok c rl h cl.
Proof.
  intros Hphi hk body a Hin. cbv zeta. intros Hdel Hsf.
  destruct Hphi as [[Ho _]|[(sent & Hh & _)|
    (sent & ans & r0 & pre & post & -> & Hh & _ & _ & Hpost & Hcase)]].
  - exfalso. eapply only_fin_traffic_no_hook; eauto.
  - exfalso. eapply only_fin_traffic_no_hook; [eapply handed_only; exact Hh|exact Hin].
  - pose proof (after_hook_entry c k t rl sent ans pre post hk body a Hh Hpost Hin) as Heq.
    unfold hook_call_d in Heq. injection Heq as -> -> ->. rewrite hook_request_d_object in *.
    destruct Hcase as [(st & p & rv & strip & -> & _)|[_ [Hd|Hs]]]; [eauto|congruence|congruence].
Qed.

(* ---- the four clauses for a whole sync, in every environment ---- *)
Definition C10d_discipline (c : dcfg) (k : dcache) (t : json) (rl : drule) (h : hist) (cl : call) : Prop :=
  C10d_added_ok c k t rl h cl /\ C10d_removed_ok c k t rl h cl /\
  C10d_leftover_ok c t rl h cl /\ C10d_handoff_ok c rl h cl.

Theorem C10d_finalizer_discipline :
  forall (G : call -> answer -> Prop) (c : dcfg) (k : dcache) (t : json) (rl : drule),
    target_of c k = Some t -> client_rule c t = Some rl ->
    safe G (C10d_discipline c k t rl) [] (sync_d c k).
Proof.
  intros G c k t rl Ht Hrl. eapply safe_weaken; [|apply (C10d_sync_legs c k t rl Ht Hrl G)].
  intros h cl Hphi. split; [|split; [|split]].
  - now apply C10d_finalizer_added.
  - now apply C10d_finalizer_removed.
  - eapply C10d_leftover_removed_first; eauto.
  - eapply C10d_handoff; eauto.
Qed.

Corollary C10d_finalizer_discipline_run :
  forall (c : dcfg) (k : dcache) (t : json) (rl : drule) (e : env),
    target_of c k = Some t -> client_rule c t = Some rl ->
    Forall (fun hc : hist * call => C10d_discipline c k t rl (fst hc) (snd hc))
           (calls_with_history (fst (run (sync_d c k) e []))).
Proof.
  intros c k t rl e Ht Hrl.
  apply (safe_run (fun _ _ => True) _ e _ (C10d_finalizer_discipline _ c k t rl Ht Hrl)). intros; exact I.
Qed.

(* without a cached target, or without a client for its kind, the sync makes no call at all *)
Theorem C10d_no_target_no_call :
  forall (c : dcfg) (k : dcache),
    (target_of c k = None \/ exists t, target_of c k = Some t /\ client_rule c t = None) ->
    exists r, sync_d c k = Ret r.
Proof.
  intros c k [Hn|(t & Ht & Hrl)].
  - destruct (C16_no_target_no_call c k Hn) as [->| ->]; eauto.
  - destruct (sync_d_cases c k) as [[Hn _]|(t' & Ht' & ->)]; [congruence|].
    assert (t' = t) by congruence. subst t'. unfold sync_parent_d.
    destruct (d_ignores c t); [eauto|]. rewrite Hrl. eauto.
Qed.
Print Assumptions C10d_finalizer_added.
Print Assumptions C10d_finalizer_removed.
Print Assumptions C10d_leftover_removed_first.
Print Assumptions C10d_handoff.
Print Assumptions C10d_finalizer_discipline.
Print Assumptions C10d_finalizer_discipline_run.
Print Assumptions C10d_no_target_no_call.
Print Assumptions handed_same_key.

(* ================================================================== *)
(* Examples: the hypotheses are met, the clauses are exercised, and     *)
(* the hypotheses of C03d are needed                                    *)
(* ================================================================== *)
Module LegsEx.
  Definition fin_name : string := "metacontroller.io/decoratorcontroller-deco".
  Definition rule : drule :=
    mkDRule "v1" "Pod" "pods" true true (SelReqs [mkReq "managed" OpIn ["yes"]]) sel_everything.
  Definition cm : child_cfg := mkChild "v1" "configmaps" "ConfigMap" true "InPlace".
  (* with (true) or without (false) a finalize hook *)
  Definition cfg (fz : bool) : dcfg :=
    mkDCfg "deco" [rule] [cm] true fz [mkChild "v1" "pods" "Pod" true ""; cm].

  Definition pod (labels meta_extra : amap) : json :=
    JObj [("apiVersion", JStr "v1"); ("kind", JStr "Pod");
          ("metadata", JObj ([("name", JStr "t1"); ("namespace", JStr "ns1"); ("uid", JStr "uid-t1");
                              ("resourceVersion", JStr "7"); ("labels", JObj labels)] ++ meta_extra))].
  Definition selected : amap := [("managed", JStr "yes")].
  Definition finalizers (l : list string) : amap := [("finalizers", JArr (map JStr l))].
  Definition dying : amap := [("deletionTimestamp", JStr "2026-01-01T00:00:00Z")].

  Definition cmap (kind name ns owner marker : string) : json :=
    JObj [("apiVersion", JStr "v1"); ("kind", JStr kind);
          ("metadata", JObj [("name", JStr name); ("namespace", JStr ns); ("uid", JStr ("uid-" ++ name));
                             ("ownerReferences", JArr [JObj [("apiVersion", JStr "v1"); ("kind", JStr "Pod");
                                                             ("name", JStr "t1"); ("uid", JStr owner);
                                                             ("controller", JBool true)]]);
                             ("annotations", JObj [(decorator_controller_annotation, JStr marker)])])].
  Definition owned := cmap "ConfigMap" "a" "ns1" "uid-t1" "deco".
  Definition unmarked := cmap "ConfigMap" "b" "ns1" "uid-t1" "other".
  Definition foreign := cmap "ConfigMap" "c" "ns1" "uid-x" "deco".
  Definition elsewhere := cmap "ConfigMap" "d" "ns2" "uid-t1" "deco".

  Definition cache (t : json) (children : list json) : dcache :=
    mkDCache "v1:Pod:ns1:t1" [("pods.v1", [t])] [("configmaps.v1", children)].

  (* GET answers with the live object; writes are accepted and echo the body *)
  Definition env_of (live : json) (hook : answer) : env :=
    fun _ cl => match cl with
                | CHook _ _ => hook
                | CApi q => match q_verb q with VGet => AObj live | _ => AObj (q_body q) end
                end.

  Definition tag (cl : call) : string :=
    match cl with
    | CHook HSync _ => "hook:sync" | CHook HFinalize _ => "hook:finalize" | CHook HCustomize _ => "hook:customize"
    | CApi q => (match q_verb q with
                 | VGet => "get" | VCreate => "create" | VUpdate => "update" | VUpdateStatus => "update-status"
                 | VDelete => "delete" | VPatchJson => "patch" | VPatchApply => "apply" end ++ " " ++ q_res q)%string
    end.
  Definition tags (c : dcfg) (k : dcache) (e : env) : list string := map (fun ca => tag (fst ca)) (trace_of (sync_d c k) e).

  Definition new_cm : json :=
    JObj [("apiVersion", JStr "v1"); ("kind", JStr "ConfigMap"); ("metadata", JObj [("name", JStr "n")])].
  Definition answer_ok (finalized : bool) : answer :=
    AHook (JObj [("labels", JObj [("seen", JStr "yes")]); ("attachments", JArr [new_cm; JNull]);
                 ("finalized", JBool finalized)]).

  (* --- the hypotheses of the C10d theorems hold of a concrete target --- *)
  Definition alive := pod selected [].
  Example C10d_hypotheses_met :
    target_of (cfg true) (cache alive [owned]) = Some alive /\ client_rule (cfg true) alive = Some rule /\
    d_ignores (cfg true) alive = false.
  Proof. vm_compute. repeat split. Qed.

  (* (a)/(b): alive, selected, no finalizer yet: the finalizer is added first, then the sync hook is
     called with finalizing = false, then the target is decorated, then the attachment is created *)
  Example C10d_run_add :
    let e := env_of alive (answer_ok false) in
    tags (cfg true) (cache alive []) e =
      ["get pods.v1"; "update pods.v1"; "hook:sync"; "update pods.v1"; "create configmaps.v1"] /\
    result_of (sync_d (cfg true) (cache alive [])) e = SDone /\
    forallb (fun ca => match ca with
                       | (CHook _ body, _) => jeqb (jget "finalizing" (obj_map body)) (JBool false) &&
                                              has_finalizer (jget "object" (obj_map body)) fin_name
                       | _ => true end) (trace_of (sync_d (cfg true) (cache alive [])) e) = true.
  Proof. vm_compute. repeat split. Qed.

  (* (a)/(c): pending deletion with the finalizer: the finalize hook is called with finalizing = true;
     finalized = true makes the one update drop the finalizer; attachments are still managed *)
  Definition finalizing_pod := pod selected (finalizers [fin_name] ++ dying).
  Example C10d_run_finalize :
    let e := env_of finalizing_pod (answer_ok true) in
    let k := cache finalizing_pod [] in
    tags (cfg true) k e = ["hook:finalize"; "update pods.v1"; "create configmaps.v1"] /\
    forallb (fun ca => match ca with
                       | (CApi q, _) => negb (String.eqb (q_res q) "pods.v1") || negb (has_finalizer (q_body q) fin_name)
                       | (CHook _ body, _) => jeqb (jget "finalizing" (obj_map body)) (JBool true)
                       end) (trace_of (sync_d (cfg true) k) e) = true /\
    (* finalized = false: the update keeps the finalizer *)
    forallb (fun ca => match ca with
                       | (CApi q, _) => negb (String.eqb (q_res q) "pods.v1") || has_finalizer (q_body q) fin_name
                       | _ => true end) (trace_of (sync_d (cfg true) k) (env_of finalizing_pod (answer_ok false))) = true.
  Proof. vm_compute. repeat split. Qed.

  (* (a): no longer selected but holding the finalizer: finalize hook; without a finalize hook: sync hook *)
  Example C10d_run_unselected :
    let p := pod [("managed", JStr "no")] (finalizers [fin_name]) in
    tags (cfg true) (cache p []) (env_of p (answer_ok false)) = ["hook:finalize"; "update pods.v1"; "create configmaps.v1"] /\
    d_matches (cfg true) p = false.
  Proof. vm_compute. repeat split. Qed.

  (* (c, second half): no finalize hook, leftover finalizer: removed first, then the sync hook *)
  Definition leftover := pod selected (finalizers [fin_name; "example.com/hold"]).
  Example C10d_run_leftover :
    let e := env_of leftover (answer_ok false) in
    let k := cache leftover [] in
    tags (cfg false) k e = ["get pods.v1"; "update pods.v1"; "hook:sync"; "update pods.v1"; "create configmaps.v1"] /\
    forallb (fun ca => match ca with
                       | (CApi q, _) => negb (verb_eqb (q_verb q) VUpdate && String.eqb (q_res q) "pods.v1") ||
                                        (negb (has_finalizer (q_body q) fin_name) && has_finalizer (q_body q) "example.com/hold")
                       | (CHook _ body, _) => negb (has_finalizer (jget "object" (obj_map body)) fin_name)
                       end) (trace_of (sync_d (cfg false) k) e) = true.
  Proof. vm_compute. repeat split. Qed.

  (* (d): pending deletion, finalizer already gone (or a GC finalizer present): the finalize hook is
     still called, the target may be decorated, but no attachment is touched although one is desired
     and one is observed *)
  Example C10d_run_handoff :
    let gone := pod selected dying in
    let gc := pod selected (finalizers [fin_name; "foregroundDeletion"] ++ dying) in
    tags (cfg true) (cache gone [owned]) (env_of gone (answer_ok false)) = ["hook:finalize"; "update pods.v1"] /\
    should_finalize_d (cfg true) gone = false /\
    tags (cfg true) (cache gc [owned]) (env_of gc (answer_ok false)) = ["hook:finalize"; "update pods.v1"] /\
    should_finalize_d (cfg true) gc = false /\
    (* with finalize duty the observed attachment is deleted and the desired one created *)
    tags (cfg true) (cache finalizing_pod [owned]) (env_of finalizing_pod (answer_ok false)) =
      ["hook:finalize"; "update pods.v1"; "delete configmaps.v1"; "create configmaps.v1"].
  Proof. vm_compute. repeat split. Qed.

  (* (b) is about the CACHED target.  The live object may be pending deletion already (stale cache): the
     add-finalizer update is then still sent, built on the live read; refusing it is left to the API server
     ("no new finalizers can be added if the object is being deleted") *)
  Example C10d_never_added_when_live_deleting_refuted :
    let live := pod selected dying in
    let k := cache alive [] in
    let tr := trace_of (sync_d (cfg true) k) (env_of live (answer_ok false)) in
    is_deleting alive = false /\ is_deleting live = true /\
    existsb (fun ca => match ca with
                       | (CApi q, _) => verb_eqb (q_verb q) VUpdate && is_deleting (q_body q) &&
                                        has_finalizer (q_body q) fin_name
                       | _ => false end) tr = true.
  Proof. vm_compute. repeat split. Qed.

  (* --- C13d: malformed answers --- *)
  Definition bad_answers : list answer :=
    [AHookErr; AHook429 5; AObj JNull; AFail EOther;
     AHook (JStr "not an object");
     AHook (JObj [("attachments", JArr [JStr "not an object"])]);
     AHook (JObj [("attachments", JObj [])]);
     AHook (JObj [("attachments", JArr [JObj [("metadata", JObj [("name", JStr "kindless")])]])]);
     AHook (JObj [("labels", JObj [("a", JInt 1)])]);
     AHook (JObj [("annotations", JArr [])]);
     AHook (JObj [("status", JStr "ready")]);
     AHook (JObj [("finalized", JStr "yes")]);
     AHook (JObj [("resyncAfterSeconds", JStr "soon")])].

  Example C13d_rejected_examples :
    forallb hook_rejected_d bad_answers = true /\
    forallb (fun a => let e := env_of alive a in
                      match result_of (sync_d (cfg false) (cache alive [owned])) e with SErr => true | _ => false end &&
                      match rev (tags (cfg false) (cache alive [owned]) e) with "hook:sync" :: _ => true | _ => false end)
            bad_answers = true.
  Proof. vm_compute. split; reflexivity. Qed.

  (* accepted though odd: null body, null attachment entries, null label values *)
  Example C13d_accepted_examples :
    forallb (fun a => negb (hook_rejected_d a) &&
                      match result_of (sync_d (cfg false) (cache alive [])) (env_of alive a) with SDone => true | _ => false end)
            [AHook JNull; AHook (JObj []); AHook (JObj [("attachments", JArr [JNull; JNull])]);
             AHook (JObj [("labels", JObj [("gone", JNull)]); ("status", JNull); ("attachments", JNull)])] = true.
  Proof. vm_compute. reflexivity. Qed.

  (* --- C03d: the hypotheses hold of a concrete cache, and what is shown --- *)
  Definition children := [owned; unmarked; foreign; elsewhere].
  Example C03d_hypotheses_met :
    attachments_distinct (cfg true) = true /\
    dcache_gvk_ok (cfg true) (cache alive children) = true /\
    dcache_names_distinct (cfg true) (cache alive children) = true.
  Proof. vm_compute. repeat split. Qed.

  (* of four cached ConfigMaps only the one that is controlled by the target, marked by this decorator and
     in the target's namespace is shown, under its bare name; the group is there also when empty *)
  Example C03d_shown_example :
    expected_attachments (cfg true) (cache alive children) alive = JObj [("ConfigMap.v1", JObj [("a", owned)])] /\
    expected_attachments (cfg true) (cache alive [unmarked; foreign]) alive = JObj [("ConfigMap.v1", JObj [])] /\
    forallb (fun ca => match ca with
                       | (CHook _ body, _) => jeqb (jget "attachments" (obj_map body))
                                                   (JObj [("ConfigMap.v1", JObj [("a", owned)])])
                       | _ => true end)
            (trace_of (sync_d (cfg true) (cache alive children)) (env_of alive (answer_ok false))) = true.
  Proof. vm_compute. repeat split. Qed.

  (* a cluster-scoped target sees namespaced attachments under namespace/name *)
  Example C03d_cluster_scoped_key :
    let node := JObj [("apiVersion", JStr "v1"); ("kind", JStr "Pod");
                      ("metadata", JObj [("name", JStr "t1"); ("uid", JStr "uid-t1")])] in
    expected_attachments (cfg true) (cache node [owned; elsewhere]) node =
    JObj [("ConfigMap.v1", JObj [("ns1/a", owned); ("ns2/d", elsewhere)])].
  Proof. vm_compute. reflexivity. Qed.

  (* the equation needs the informer to hold objects of its own kind ... *)
  Example C03d_attachments_expected_refuted_gvk :
    let odd := cmap "Secret" "a" "ns1" "uid-t1" "deco" in
    let k := cache alive [odd] in
    attachments_distinct (cfg true) = true /\ dcache_gvk_ok (cfg true) k = false /\
    convert (get_ns alive) (get_children_d (cfg true) k alive) = JObj [("ConfigMap.v1", JObj []); ("Secret.v1", JObj [("a", odd)])] /\
    expected_attachments (cfg true) k alive = JObj [("ConfigMap.v1", JObj [("a", odd)])].
  Proof. vm_compute. repeat split. Qed.

  (* ... and the declared attachment kinds to be distinct: two resources of one kind are merged by
     get_children_d, while the specification keeps the later one *)
  Example C03d_attachments_expected_refuted_dup :
    let cm2 := mkChild "v1" "configmaps2" "ConfigMap" true "" in
    let c := mkDCfg "deco" [rule] [cm; cm2] true true [cm; cm2] in
    let k := mkDCache "v1:Pod:ns1:t1" [("pods.v1", [alive])] [("configmaps.v1", [owned]); ("configmaps2.v1", [])] in
    attachments_distinct c = false /\ dcache_gvk_ok c k = true /\
    convert (get_ns alive) (get_children_d c k alive) = JObj [("ConfigMap.v1", JObj [("a", owned)])] /\
    expected_attachments c k alive = JObj [("ConfigMap.v1", JObj [])].
  Proof. vm_compute. repeat split. Qed.

  (* membership as an iff needs one cached object per namespace/name: of two the later one is shown *)
  Example C03d_membership_refuted :
    let twin := cmap "ConfigMap" "a" "ns1" "uid-t1" "deco" in
    let first := JObj (obj_map twin ++ [("data", JObj [("v", JStr "1")])]) in
    let k := cache alive [first; twin] in
    dcache_names_distinct (cfg true) k = false /\
    is_attachment (cfg true) alive first = true /\ In first (cached_d k (ch_res cm)) /\
    shown_group (cfg true) k alive cm = [("a", twin)].
  Proof. vm_compute. repeat split. left. reflexivity. Qed.

  (* an observation beside (c), read off C16Proofs.shape_phi: when the status is written first, the metadata
     update takes the resourceVersion of the UpdateStatus answer but the metadata (finalizers, labels, ...) of
     the object the sync holds.  A finalizer another actor added in between is in the answer, not in the
     body sent next, and the fresh resourceVersion lets the server accept it: here "example.com/late" is
     dropped by a sync whose hook never said finalized *)
  Example C10d_status_rv_carries_stale_metadata :
    let cached := pod selected (finalizers [fin_name; "example.com/hold"]) in
    let live := JObj [("apiVersion", JStr "v1"); ("kind", JStr "Pod");
                      ("metadata", JObj [("name", JStr "t1"); ("namespace", JStr "ns1"); ("uid", JStr "uid-t1");
                                         ("resourceVersion", JStr "99");
                                         ("finalizers", JArr [JStr fin_name; JStr "example.com/hold"; JStr "example.com/late"])])] in
    let e : env := fun _ cl => match cl with
                               | CHook _ _ => AHook (JObj [("status", JObj [("phase", JStr "New")])])
                               | CApi q => match q_verb q with VUpdateStatus => AObj live | _ => AObj (q_body q) end
                               end in
    let tr := trace_of (sync_d (cfg true) (cache cached [])) e in
    map (fun ca => tag (fst ca)) tr = ["hook:sync"; "update-status pods.v1"; "update pods.v1"] /\
    forallb (fun ca => match ca with
                       | (CApi q, _) => negb (verb_eqb (q_verb q) VUpdate) ||
                                        (String.eqb (get_rv (q_body q)) "99" && has_finalizer (q_body q) fin_name &&
                                         negb (has_finalizer (q_body q) "example.com/late"))
                       | _ => true end) tr = true.
  Proof. vm_compute. repeat split. Qed.
End LegsEx.

(* ================================================================== *)
(* C01d: a sync of the model on a converged state sends nothing        *)
(* ================================================================== *)
(* the attachments are settled: every live observed attachment is still desired, and for every desired
   attachment the strategy's decision is "nothing to do" (it is there and applying it changes nothing, or the
   strategy is OnDelete, or it is being deleted) *)
Definition children_settled (cc : ccfg) (parent : json) (observed desired : umap) : Prop :=
  (forall av kd os kc key o,
      In (av, kd, os) observed -> lookup_kind cc av kd = Some kc -> In (key, o) os ->
      is_deleting o = true \/
      olookup key (match ufind_group av kd desired with Some d => d | None => [] end) <> None) /\
  (forall av kd ds kc key d,
      In (av, kd, ds) desired -> lookup_kind cc av kd = Some kc -> In (key, d) ds ->
      request_of_action kc d (child_decision cc kc parent
                                (olookup key (match ufind_group av kd observed with Some o => o | None => [] end)) d) = None).

Definition no_call (cl : call) : Prop := False.

Lemma manage_children_settled cc parent observed desired :
  ssa cc = false -> children_settled cc parent observed desired ->
  all_calls no_call (manage_children cc parent observed desired).
Proof.
  intros Hssa [Hobs Hdes]. unfold manage_children. apply all_calls_bind.
  - apply all_calls_foldM. intros failed [[av kd] os] Hin.
    destruct (lookup_kind cc av kd) as [kc|] eqn:El; [|apply AC_ret].
    apply all_calls_bind; [|intros; apply AC_ret].
    eapply all_calls_weaken; [|apply C06_undesired_deleted_background].
    intros cl (key & o & Ho & Hdel & Hlk & _). exfalso.
    destruct (Hobs av kd os kc key o Hin El Ho) as [H | H]; [congruence|contradiction].
  - intros f1. apply all_calls_foldM. intros failed [[av kd] ds] Hin.
    destruct (lookup_kind cc av kd) as [kc|] eqn:El; [|apply AC_ret].
    apply all_calls_bind; [|intros; apply AC_ret].
    eapply all_calls_weaken; [|apply C06_update_children_sound; exact Hssa].
    intros cl (key & d & Hd & Hreq). exfalso.
    rewrite (Hdes av kd ds kc key d Hin El Hd) in Hreq. discriminate.
Qed.

(* the whole phase after the hook: the answer asks nothing of the target (resp_is_noop) and the
   attachments are settled: no request at all, and the sync reports success or a plain error, never a write *)
Theorem C01d_converged_sync_is_silent :
  forall (c : dcfg) (rl : drule) (parent st : json) (observed : umap) (r : dresp) (desired0 : umap),
    status_map parent = Some st ->
    wf_json st = true ->
    resp_is_noop c parent r = true ->
    desired_map (dr_attachments r) [] = Some desired0 ->
    children_settled (ccfg_of c) parent observed (stamp_all c desired0) ->
    all_calls no_call (finish_d c rl parent observed r).
Proof.
  intros c rl parent st observed r d0 Hst Hwf Hnoop Hd0 Hset.
  rewrite (C16_unchanged_only_attachments c rl parent st observed r Hst Hwf Hnoop).
  unfold finish_attachments. rewrite Hd0.
  apply all_calls_bind; [|intros; apply AC_ret].
  destruct (negb (is_deleting parent) || should_finalize_d c parent); [|apply AC_ret].
  apply manage_children_settled; [reflexivity|exact Hset].
Qed.

(* hence, for every answer function, running it adds nothing to the history *)
Lemma all_calls_no_call_run {R} (p : prog R) (e : env) h : all_calls no_call p -> fst (run p e h) = h.
Proof. intros H. revert h. induction H as [r|cl k Hc _ _]; intros h; [reflexivity|destruct Hc]. Qed.

Theorem C01d_converged_sync_trace :
  forall (c : dcfg) (rl : drule) (parent st : json) (observed : umap) (r : dresp) (desired0 : umap) (e : env) (h : hist),
    status_map parent = Some st ->
    wf_json st = true ->
    resp_is_noop c parent r = true ->
    desired_map (dr_attachments r) [] = Some desired0 ->
    children_settled (ccfg_of c) parent observed (stamp_all c desired0) ->
    fst (run (finish_d c rl parent observed r) e h) = h.
Proof.
  intros. apply all_calls_no_call_run. eapply C01d_converged_sync_is_silent; eauto.
Qed.
Print Assumptions C01d_converged_sync_is_silent.
Print Assumptions C01d_converged_sync_trace.
