(* ApplyUpdateProofs.v — ApplyUpdate keeps the server-owned fields of the
   original object and records the (annotation-stripped) update as last applied. *)
From MC Require Import Generated Model.Json Model.Apply Model.ApplyLaws.
From MC Require Import Proofs.AssocLemmas Proofs.AssocLemmas2 Proofs.ApplyProofs Proofs.ApplyBase.

(* ---------- two-element paths ---------- *)
Lemma nested_get2 m a b :
  nested_get m [a; b] =
  match alookup a m with
  | None => NMissing
  | Some JNull => NMissing
  | Some (JObj m') => match alookup b m' with Some v => NFound v | None => NMissing end
  | Some _ => NErr
  end.
Proof. reflexivity. Qed.

Lemma nested_get1 m a :
  nested_get m [a] = match alookup a m with Some v => NFound v | None => NMissing end.
Proof. reflexivity. Qed.

Lemma nested_set2 m a b v :
  nested_set m [a; b] v =
  match alookup a m with
  | None => Some (aset a (JObj [(b, v)]) m)
  | Some (JObj m') => Some (aset a (JObj (aset b v m')) m)
  | Some _ => None
  end.
Proof. reflexivity. Qed.

Lemma nested_remove2 m a b :
  nested_remove m [a; b] =
  match alookup a m with
  | Some (JObj m') => aset a (JObj (aremove b m')) m
  | _ => m
  end.
Proof. reflexivity. Qed.

(* metadata is absent or an object *)
Definition meta_ok (m : amap) : bool :=
  match alookup "metadata" m with
  | None => true
  | Some (JObj _) => true
  | Some _ => false
  end.

Definition mfield (m : amap) (f : string) : nested := nested_get m ["metadata"; f].

Lemma neqb_sym a b : String.eqb a b = false -> String.eqb b a = false.
Proof. now rewrite eqb_sym'. Qed.

(* one revertField step on metadata.f, read backwards from a good result *)
Lemma revert_field_meta m orig f m' :
  revert_field m orig ["metadata"; f] = Ok m' -> meta_ok m' = true ->
  meta_ok m = true /\
  mfield m' f = mfield orig f /\
  mfield orig f <> NErr /\
  (forall f', String.eqb f' f = false -> mfield m' f' = mfield m f') /\
  (forall k, String.eqb k "metadata" = false -> alookup k m' = alookup k m).
Proof.
  unfold revert_field, mfield. intros H Hok.
  destruct (nested_get orig ["metadata"; f]) as [v| |] eqn:EO; try discriminate.
  - (* found: set *)
    rewrite nested_set2 in H. unfold meta_ok in *.
    destruct (alookup "metadata" m) as [mv|] eqn:EM.
    + destruct mv; try discriminate. inversion H; subst m'; clear H.
      repeat split; try discriminate.
      * rewrite nested_get2, alookup_aset_same, alookup_aset_same. reflexivity.
      * intros f' Hf. rewrite !nested_get2, alookup_aset_same, EM, alookup_aset, Hf. reflexivity.
      * intros k Hk. rewrite alookup_aset, Hk. reflexivity.
    + inversion H; subst m'; clear H.
      repeat split; try discriminate.
      * rewrite nested_get2, alookup_aset_same. cbn [alookup]. now rewrite eqb_refl'.
      * intros f' Hf. rewrite !nested_get2, alookup_aset_same, EM. cbn [alookup]. now rewrite Hf.
      * intros k Hk. rewrite alookup_aset, Hk. reflexivity.
  - (* missing: remove *)
    rewrite nested_remove2 in H. unfold meta_ok in *.
    destruct (alookup "metadata" m) as [mv|] eqn:EM.
    + destruct mv; inversion H; subst m'; clear H; try (rewrite EM in Hok; discriminate).
      repeat split; try discriminate.
      * rewrite nested_get2, alookup_aset_same, alookup_aremove, eqb_refl'. reflexivity.
      * intros f' Hf. rewrite !nested_get2, alookup_aset_same, EM, alookup_aremove, Hf. reflexivity.
      * intros k Hk. rewrite alookup_aset, Hk. reflexivity.
    + inversion H; subst m'; clear H.
      repeat split; try discriminate; auto.
      rewrite nested_get2, EM. reflexivity.
Qed.

Lemma revert_fields_meta fs : forall m orig n1,
  revert_fields m orig (map (fun f => ["metadata"; f]) fs) = Ok n1 -> meta_ok n1 = true ->
  meta_ok m = true /\
  (forall f, In f fs -> mfield n1 f = mfield orig f /\ mfield orig f <> NErr) /\
  (forall f, ~ In f fs -> mfield n1 f = mfield m f) /\
  (forall k, String.eqb k "metadata" = false -> alookup k n1 = alookup k m).
Proof.
  induction fs as [|g fs IH]; intros m orig n1 H Hok.
  - cbn in H. inversion H; subst. split; [exact Hok|]. split; [intros f0 []|]. split; auto.
  - cbn [map revert_fields] in H.
    destruct (revert_field m orig ["metadata"; g]) as [o| |] eqn:E; cbn [rbind] in H; try discriminate.
    destruct (IH o orig n1 H Hok) as (Hoko & Hin & Hout & Hk).
    destruct (revert_field_meta m orig g o E Hoko) as (Hokm & Hf & Hne & Hother & Hk').
    split; [exact Hokm|]. split; [|split].
    + intros f0 [->|Hf0]; [|now apply Hin].
      destruct (in_dec string_dec f0 fs) as [Hi|Hn]; [now apply Hin|].
      split; [|exact Hne]. rewrite (Hout f0 Hn). exact Hf.
    + intros f0 Hn. rewrite Hout by (intros Hc; apply Hn; now right).
      apply Hother. apply String.eqb_neq. intros ->. apply Hn. now left.
    + intros k Hkk. rewrite (Hk k Hkk). now apply Hk'.
Qed.

(* the status step *)
Lemma revert_status m orig m' :
  revert_field m orig ["status"] = Ok m' ->
  nested_get m' ["status"] = nested_get orig ["status"] /\
  alookup "metadata" m' = alookup "metadata" m.
Proof.
  unfold revert_field. rewrite (nested_get1 orig).
  destruct (alookup "status" orig) as [v|] eqn:EO.
  - cbn [nested_set]. intros H; inversion H; subst m'. split.
    + rewrite nested_get1, alookup_aset_same. reflexivity.
    + rewrite alookup_aset. reflexivity.
  - cbn [nested_remove]. intros H; inversion H; subst m'. split.
    + rewrite nested_get1, alookup_aremove, eqb_refl'. reflexivity.
    + rewrite alookup_aremove. reflexivity.
Qed.

(* the SetLastApplied step *)
Lemma forallb_aset (P : string * json -> bool) k v m :
  forallb P m = true -> P (k, v) = true -> forallb P (aset k v m) = true.
Proof.
  intros Hm Hp. induction m as [|[k' v'] m IH]; cbn [aset forallb].
  - now rewrite Hp.
  - cbn [forallb] in Hm. apply andb_split in Hm as [H1 H2].
    destruct (String.eqb k k'); cbn [forallb].
    + now rewrite Hp, H2.
    + now rewrite H1, IH.
Qed.

Lemma get_annotations_stringy m ann :
  get_annotations m = Some ann -> forallb (fun kv => is_stringy (snd kv)) ann = true.
Proof.
  unfold get_annotations. destruct (nested_get m ["metadata"; "annotations"]) as [v| |]; try discriminate.
  destruct v; try discriminate.
  destruct (forallb (fun kv => is_stringy (snd kv)) m0) eqn:E; try discriminate.
  now intros [= <-].
Qed.

Lemma set_annotations_shape m ann :
  meta_ok m = true ->
  exists mm, set_annotations m ann = aset "metadata" (JObj (aset "annotations" (JObj ann) mm)) m /\
             (forall f, String.eqb f "annotations" = false ->
                        nested_get m ["metadata"; f] =
                        match alookup f mm with Some v => NFound v | None => NMissing end).
Proof.
  unfold meta_ok, set_annotations. rewrite nested_set2. intros H.
  destruct (alookup "metadata" m) as [mv|] eqn:EM.
  - destruct mv; try discriminate. exists m0. split; [reflexivity|].
    intros f _. now rewrite nested_get2, EM.
  - exists []. split; [reflexivity|]. intros f _. now rewrite nested_get2, EM.
Qed.

Lemma set_annotations_bad m ann :
  meta_ok m = false -> set_annotations m ann = m.
Proof.
  unfold meta_ok, set_annotations. rewrite nested_set2.
  destruct (alookup "metadata" m) as [mv|]; [|discriminate].
  destruct mv; try discriminate; reflexivity.
Qed.

Lemma meta_ok_of_obj m mm : alookup "metadata" m = Some (JObj mm) -> meta_ok m = true.
Proof. unfold meta_ok. now intros ->. Qed.

Lemma set_last_applied_meta_back m la n nmeta :
  set_last_applied m la = n -> alookup "metadata" n = Some (JObj nmeta) -> meta_ok m = true.
Proof.
  unfold set_last_applied. intros H Hn.
  destruct (meta_ok m) eqn:E; [reflexivity|].
  rewrite set_annotations_bad in H by exact E. subst n.
  unfold meta_ok in E. rewrite Hn in E. discriminate.
Qed.

Lemma set_last_applied_fields m la f :
  meta_ok m = true -> String.eqb f "annotations" = false ->
  mfield (set_last_applied m la) f = mfield m f.
Proof.
  intros Hok Hf. unfold set_last_applied, mfield.
  destruct (set_annotations_shape m
              (aset last_applied_annotation (JText la)
                 match get_annotations m with Some a => a | None => [] end) Hok) as (mm & -> & Hg).
  rewrite (Hg f Hf). rewrite nested_get2, alookup_aset_same, alookup_aset, Hf. reflexivity.
Qed.

Lemma set_last_applied_other m la k :
  String.eqb k "metadata" = false -> alookup k (set_last_applied m la) = alookup k m.
Proof.
  intros Hk. unfold set_last_applied.
  destruct (meta_ok m) eqn:E.
  - destruct (set_annotations_shape m
              (aset last_applied_annotation (JText la)
                 match get_annotations m with Some a => a | None => [] end) E) as (mm & -> & _).
    now rewrite alookup_aset, Hk.
  - now rewrite set_annotations_bad.
Qed.

Lemma get_set_last_applied m um :
  meta_ok m = true -> get_last_applied (set_last_applied m (JObj um)) = Ok (JObj um).
Proof.
  intros Hok. unfold set_last_applied.
  set (ann := aset last_applied_annotation (JText (JObj um))
                match get_annotations m with Some a => a | None => [] end).
  assert (Hs : forallb (fun kv => is_stringy (snd kv)) ann = true).
  { subst ann. apply forallb_aset; [|reflexivity].
    destruct (get_annotations m) as [a|] eqn:E; [|reflexivity].
    eapply get_annotations_stringy; eauto. }
  destruct (set_annotations_shape m ann Hok) as (mm & -> & _).
  unfold get_last_applied, get_annotations.
  rewrite nested_get2, alookup_aset_same, alookup_aset_same, Hs.
  subst ann. rewrite alookup_aset_same. reflexivity.
Qed.

(* ---------- ApplyUpdate ---------- *)
Lemma apply_update_inv orig upd n :
  apply_update orig upd = Ok n ->
  exists last nm n1 n2,
    get_last_applied orig = Ok last /\
    merge (JObj (nullify_last_applied upd)) (JObj orig) last = Ok (JObj nm) /\
    revert_fields nm orig system_paths = Ok n1 /\
    revert_field n1 orig ["status"] = Ok n2 /\
    n = set_last_applied n2 (JObj (nullify_last_applied upd)).
Proof.
  unfold apply_update, Merge. intros H.
  destruct (get_last_applied orig) as [last| |]; cbn [rbind] in H; try discriminate.
  destruct (merge _ (JObj orig) last) as [merged| |] eqn:EM; cbn [rbind] in H; try discriminate.
  destruct merged; try discriminate.
  destruct (revert_fields m orig system_paths) as [n1| |] eqn:E1; cbn [rbind] in H; try discriminate.
  destruct (revert_field n1 orig ["status"]) as [n2| |] eqn:E2; cbn [rbind] in H; try discriminate.
  inversion H; subst n. exists last, m, n1, n2. auto.
Qed.

Lemma system_field_not_annotations f :
  In f object_meta_system_fields -> String.eqb f "annotations" = false.
Proof.
  intros Hin. apply String.eqb_neq. intros ->.
  apply mem_str_In in Hin. vm_compute in Hin. discriminate.
Qed.

(* a server-owned field that cannot be read in the original makes ApplyUpdate fail
   (no side condition) *)
Theorem apply_update_orig_readable orig upd n f :
  apply_update orig upd = Ok n -> In f object_meta_system_fields ->
  nested_get orig ["metadata"; f] <> NErr.
Proof.
  intros H Hin. apply apply_update_inv in H as (last & nm & n1 & n2 & _ & _ & H1 & _ & _).
  unfold system_paths in H1. clear - H1 Hin.
  revert nm H1. induction object_meta_system_fields as [|g fs IH]; intros nm H1; [destruct Hin|].
  cbn [map revert_fields] in H1.
  destruct (revert_field nm orig ["metadata"; g]) as [o| |] eqn:E; cbn [rbind] in H1; try discriminate.
  destruct Hin as [->|Hin]; [|eapply IH; eauto].
  unfold revert_field in E. intros Hc. rewrite Hc in E. discriminate.
Qed.

(* WEAKEST SIDE CONDITION: metadata of the new object is an object.  (It holds
   whenever metadata of the original is an object — apply_update_meta_obj below —
   which is the case for everything an API server stores.) *)
Theorem apply_update_system_fields orig upd n nmeta f :
  apply_update orig upd = Ok n ->
  alookup "metadata" n = Some (JObj nmeta) ->
  In f object_meta_system_fields ->
  nested_get n ["metadata"; f] = nested_get orig ["metadata"; f] /\
  nested_get orig ["metadata"; f] <> NErr.
Proof.
  intros H Hn Hin. apply apply_update_inv in H as (last & nm & n1 & n2 & _ & _ & H1 & H2 & Hset).
  symmetry in Hset.
  pose proof (set_last_applied_meta_back _ _ _ _ Hset Hn) as Hok2.
  destruct (revert_status _ _ _ H2) as (_ & Hmeta).
  assert (Hok1 : meta_ok n1 = true) by (unfold meta_ok in *; now rewrite <- Hmeta).
  destruct (revert_fields_meta _ _ _ _ H1 Hok1) as (_ & Hf & _ & _).
  destruct (Hf f Hin) as (Heq & Hne). split; [|exact Hne].
  fold (mfield n f). fold (mfield orig f). rewrite <- Heq, <- Hset.
  rewrite set_last_applied_fields by (auto using system_field_not_annotations).
  unfold mfield. rewrite !nested_get2, Hmeta. reflexivity.
Qed.

(* status: no side condition *)
Theorem apply_update_status orig upd n :
  apply_update orig upd = Ok n ->
  nested_get n ["status"] = nested_get orig ["status"].
Proof.
  intros H. apply apply_update_inv in H as (last & nm & n1 & n2 & _ & _ & _ & H2 & ->).
  destruct (revert_status _ _ _ H2) as (Hs & _). rewrite <- Hs.
  rewrite !nested_get1. now rewrite set_last_applied_other.
Qed.

Theorem apply_update_last_applied orig upd n nmeta :
  apply_update orig upd = Ok n ->
  alookup "metadata" n = Some (JObj nmeta) ->
  get_last_applied n = Ok (JObj (nullify_last_applied upd)).
Proof.
  intros H Hn. apply apply_update_inv in H as (last & nm & n1 & n2 & _ & _ & _ & _ & Hset).
  symmetry in Hset.
  pose proof (set_last_applied_meta_back _ _ _ _ Hset Hn) as Hok2.
  rewrite <- Hset. now apply get_set_last_applied.
Qed.

(* ---------- the side condition follows from the original's metadata ---------- *)
Lemma mobj_aux_has dm1 lm sm : forall acc m k,
  mobj_aux dm1 lm sm acc = Ok m -> ahas k sm = true ->
  exists dv r, In (k, dv) sm /\ merge dv (jget k dm1) (jget k lm) = Ok r /\ alookup k m = Some r.
Proof.
  induction sm as [|[k' dv'] sm IH]; intros acc m k H Hk; [discriminate|].
  cbn [mobj_aux] in H.
  destruct (merge dv' (jget k' dm1) (jget k' lm)) as [r| |] eqn:E; try discriminate.
  destruct (ahas k sm) eqn:Es.
  - destruct (IH _ _ _ H Es) as (dv & r0 & Hin & Hm & Hl). exists dv, r0. split; [now right|auto].
  - unfold ahas in Hk. cbn [alookup] in Hk. destruct (String.eqb k k') eqn:Ek.
    + apply String.eqb_eq in Ek; subst k'. exists dv', r. split; [now left|]. split; [exact E|].
      rewrite (mobj_aux_other _ _ _ _ _ k H Es). apply alookup_aset_same.
    + unfold ahas in Es. rewrite Es in Hk. discriminate.
Qed.

Lemma merge_dest_obj d om l r : merge d (JObj om) l = Ok r -> exists rm, r = JObj rm.
Proof.
  destruct d; try (cbn; discriminate).
  - cbn. intros [= <-]. eauto.
  - rewrite merge_obj_obj. cbv zeta. destruct (mobj_aux _ _ m _); try discriminate.
    intros [= <-]. eauto.
Qed.

Lemma merge_keeps_meta_obj um orig last nm om :
  merge (JObj um) (JObj orig) last = Ok (JObj nm) ->
  alookup "metadata" orig = Some (JObj om) -> meta_ok nm = true.
Proof.
  rewrite merge_obj_obj. cbv zeta.
  destruct (mobj_aux _ _ um _) as [m| |] eqn:EM; try discriminate.
  intros [= <-] Ho. unfold meta_ok.
  destruct (ahas "metadata" um) eqn:Eh.
  - destruct (mobj_aux_has _ _ _ _ _ _ EM Eh) as (dv & r & _ & Hm & Hl).
    rewrite jget_remove_last_keep in Hm by exact Eh.
    unfold jget at 1 in Hm. rewrite Ho in Hm.
    apply merge_dest_obj in Hm as (rm & ->). now rewrite Hl.
  - rewrite (mobj_aux_other _ _ _ _ _ _ EM Eh). rewrite alookup_remove_last.
    destruct (_ && _); [reflexivity|]. now rewrite Ho.
Qed.

Lemma revert_field_meta_fwd m orig f m' :
  revert_field m orig ["metadata"; f] = Ok m' -> meta_ok m = true -> meta_ok m' = true.
Proof.
  unfold revert_field, meta_ok. intros H Hok.
  destruct (nested_get orig ["metadata"; f]) as [v| |]; try discriminate.
  - rewrite nested_set2 in H. destruct (alookup "metadata" m) as [mv|].
    + destruct mv; try discriminate. inversion H; subst. now rewrite alookup_aset_same.
    + inversion H; subst. now rewrite alookup_aset_same.
  - rewrite nested_remove2 in H. destruct (alookup "metadata" m) as [mv|] eqn:EM.
    + destruct mv; try discriminate. inversion H; subst. now rewrite alookup_aset_same.
    + inversion H; subst. now rewrite EM.
Qed.

Lemma revert_fields_meta_fwd fs : forall m orig n1,
  revert_fields m orig (map (fun f => ["metadata"; f]) fs) = Ok n1 ->
  meta_ok m = true -> meta_ok n1 = true.
Proof.
  induction fs as [|f fs IH]; intros m orig n1 H Hok.
  - cbn in H. now inversion H; subst.
  - cbn [map revert_fields] in H.
    destruct (revert_field m orig ["metadata"; f]) as [o| |] eqn:E; cbn [rbind] in H; try discriminate.
    eapply IH; eauto. eapply revert_field_meta_fwd; eauto.
Qed.

Theorem apply_update_meta_obj orig upd n om :
  apply_update orig upd = Ok n ->
  alookup "metadata" orig = Some (JObj om) ->
  exists nmeta, alookup "metadata" n = Some (JObj nmeta).
Proof.
  intros H Ho. apply apply_update_inv in H as (last & nm & n1 & n2 & _ & Hm & H1 & H2 & ->).
  pose proof (merge_keeps_meta_obj _ _ _ _ _ Hm Ho) as Hok.
  pose proof (revert_fields_meta_fwd _ _ _ _ H1 Hok) as Hok1.
  destruct (revert_status _ _ _ H2) as (_ & Hmeta).
  assert (Hok2 : meta_ok n2 = true) by (unfold meta_ok in *; now rewrite Hmeta).
  unfold set_last_applied.
  match goal with |- context [set_annotations n2 ?a] =>
    destruct (set_annotations_shape n2 a Hok2) as (mm & -> & _) end.
  rewrite alookup_aset_same. eauto.
Qed.

(* the three facts for objects an API server can hold *)
Corollary apply_update_server_object orig upd n om :
  alookup "metadata" orig = Some (JObj om) ->
  apply_update orig upd = Ok n ->
  (forall f, In f object_meta_system_fields ->
     nested_get n ["metadata"; f] = nested_get orig ["metadata"; f] /\
     nested_get orig ["metadata"; f] <> NErr) /\
  nested_get n ["status"] = nested_get orig ["status"] /\
  get_last_applied n = Ok (JObj (nullify_last_applied upd)).
Proof.
  intros Ho H. destruct (apply_update_meta_obj _ _ _ _ H Ho) as (nmeta & Hn).
  split; [|split].
  - intros f Hin. eapply apply_update_system_fields; eauto.
  - eapply apply_update_status; eauto.
  - eapply apply_update_last_applied; eauto.
Qed.

(* the side condition is needed: an update whose metadata is a string, over an
   original without metadata, succeeds and leaves the fields unreadable and the
   last-applied record unset *)
Example apply_update_needs_meta_obj :
  let orig : amap := [] in
  let upd : amap := [("metadata", JStr "x")] in
  exists n, apply_update orig upd = Ok n /\
            nested_get n ["metadata"; "uid"] = NErr /\
            nested_get orig ["metadata"; "uid"] = NMissing /\
            get_last_applied n = Ok JNull.
Proof. eexists. vm_compute. repeat split; reflexivity. Qed.

Print Assumptions apply_update_system_fields.
Print Assumptions apply_update_status.
Print Assumptions apply_update_last_applied.
Print Assumptions apply_update_server_object.
Print Assumptions apply_update_orig_readable.
