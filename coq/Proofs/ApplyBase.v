(* ApplyBase.v — unfolding equations for the law predicates and basic facts
   about remove_last / mobj_aux shared by all Apply* proof files. *)
From MC Require Import Generated Model.Json Model.Apply Model.ApplyLaws.
From MC Require Import Proofs.AssocLemmas Proofs.AssocLemmas2 Proofs.ApplyProofs.
From Coq Require Import Lia.

(* ---------- remove_last ---------- *)
Lemma alookup_remove_last k ks has m :
  alookup k (remove_last m ks has) =
  if mem_str k ks && negb (has k) then None else alookup k m.
Proof.
  unfold remove_last. revert m.
  induction ks as [|x ks IH]; intros m; cbn [fold_left mem_str]; [reflexivity|].
  rewrite IH. destruct (String.eqb k x) eqn:E.
  - apply String.eqb_eq in E; subst x. cbn [orb].
    destruct (has k) eqn:Hk; cbn [negb andb].
    + now rewrite Bool.andb_false_r.
    + rewrite Bool.andb_true_r. destruct (mem_str k ks); auto.
      rewrite alookup_aremove. now rewrite eqb_refl'.
  - cbn [orb]. destruct (mem_str k ks && negb (has k)); auto.
    destruct (has x); auto. rewrite alookup_aremove. now rewrite E.
Qed.

Lemma jget_remove_last_keep k ks has m :
  has k = true -> jget k (remove_last m ks has) = jget k m.
Proof.
  intros H. unfold jget. rewrite alookup_remove_last, H. cbn. now rewrite Bool.andb_false_r.
Qed.

Lemma ahas_remove_last k ks has m :
  ahas k (remove_last m ks has) = negb (mem_str k ks && negb (has k)) && ahas k m.
Proof.
  unfold ahas. rewrite alookup_remove_last.
  now destruct (mem_str k ks && negb (has k)).
Qed.

Lemma remove_last_nil m has : remove_last m [] has = m.
Proof. reflexivity. Qed.

Lemma remove_last_all_kept ks has m :
  (forall k, In k ks -> has k = true) -> remove_last m ks has = m.
Proof.
  unfold remove_last. revert m. induction ks as [|x ks IH]; intros m H; cbn [fold_left]; [reflexivity|].
  rewrite (H x (or_introl eq_refl)). apply IH. intros k Hk. apply H. now right.
Qed.

(* ---------- mobj_aux ---------- *)
Lemma mobj_aux_other dm1 lm sm acc m k :
  mobj_aux dm1 lm sm acc = Ok m -> ahas k sm = false -> alookup k m = alookup k acc.
Proof.
  revert acc. induction sm as [|[k' dv] sm IH]; intros acc H Hk; cbn [mobj_aux] in H.
  - now inversion H.
  - destruct (merge dv (jget k' dm1) (jget k' lm)) as [r| |] eqn:E; try discriminate.
    unfold ahas in Hk. cbn [alookup] in Hk.
    destruct (String.eqb k k') eqn:Ek; [discriminate|].
    rewrite (IH _ H); [|exact Hk]. rewrite alookup_aset. now rewrite Ek.
Qed.

Lemma mobj_aux_In dm1 lm sm acc m :
  mobj_aux dm1 lm sm acc = Ok m -> nodup_str (akeys sm) = true ->
  forall k dv, In (k, dv) sm ->
  exists r, merge dv (jget k dm1) (jget k lm) = Ok r /\ alookup k m = Some r.
Proof.
  revert acc. induction sm as [|[k' dv'] sm IH]; intros acc H Hnd k dv Hin; [destruct Hin|].
  cbn [mobj_aux] in H. cbn in Hnd. apply Bool.andb_true_iff in Hnd as [Hn Hd].
  destruct (merge dv' (jget k' dm1) (jget k' lm)) as [r| |] eqn:E; try discriminate.
  destruct Hin as [Heq|Hin].
  - inversion Heq; subst. exists r. split; auto.
    rewrite (mobj_aux_other _ _ _ _ _ k H).
    + apply alookup_aset_same.
    + apply Bool.negb_true_iff in Hn. now rewrite <- mem_str_akeys.
  - eapply IH; eauto.
Qed.

Lemma mobj_aux_ahas dm1 lm sm acc m k :
  mobj_aux dm1 lm sm acc = Ok m -> ahas k m = ahas k acc || ahas k sm.
Proof.
  revert acc. induction sm as [|[k' dv] sm IH]; intros acc H; cbn [mobj_aux] in H.
  - inversion H; subst. unfold ahas at 3. cbn. now rewrite Bool.orb_false_r.
  - destruct (merge dv (jget k' dm1) (jget k' lm)) as [r| |] eqn:E; try discriminate.
    rewrite (IH _ H). rewrite ahas_aset. unfold ahas at 4. cbn [alookup].
    destruct (String.eqb k k') eqn:Ek; cbn [orb].
    + now rewrite Bool.orb_true_r.
    + reflexivity.
Qed.

Lemma mobj_aux_fix dm1 lm sm acc :
  (forall k dv, In (k, dv) sm ->
     exists r, merge dv (jget k dm1) (jget k lm) = Ok r /\ alookup k acc = Some r) ->
  mobj_aux dm1 lm sm acc = Ok acc.
Proof.
  induction sm as [|[k dv] sm IH]; intros H; cbn [mobj_aux]; [reflexivity|].
  destruct (H k dv (or_introl eq_refl)) as (r & Hr & Hl). rewrite Hr.
  rewrite (aset_id _ _ _ Hl). apply IH. intros k' dv' Hin. apply H. now right.
Qed.

Lemma mobj_aux_err dm1 lm sm acc :
  (exists k dv, In (k, dv) sm /\ merge dv (jget k dm1) (jget k lm) = Err) ->
  mobj_aux dm1 lm sm acc = Err.
Proof.
  revert acc. induction sm as [|[k dv] sm IH]; intros acc (k0 & dv0 & Hin & HE); [destruct Hin|].
  cbn [mobj_aux].
  destruct (merge dv (jget k dm1) (jget k lm)) as [r| |] eqn:E; auto.
  - destruct Hin as [Heq|Hin].
    + inversion Heq; subst. congruence.
    + apply IH. eauto.
  - exfalso. eapply merge_no_panic; eauto.
Qed.

(* ---------- unfolding equations for the laws ---------- *)
Lemma clashb_obj_obj dm om :
  clashb (JObj dm) (JObj om) = existsb (fun kv => clashb (snd kv) (jget (fst kv) om)) dm.
Proof.
  cbn [clashb]. induction dm as [|[k dv] dm IH]; [reflexivity|].
  cbn [existsb fst snd]. now rewrite <- IH.
Qed.

Lemma containsb_obj_obj dm rm :
  containsb (JObj dm) (JObj rm) =
  forallb (fun kv => ahas (fst kv) rm && containsb (snd kv) (jget (fst kv) rm)) dm.
Proof.
  cbn [containsb]. induction dm as [|[k dv] dm IH]; [reflexivity|].
  cbn [forallb fst snd]. now rewrite <- IH.
Qed.

Lemma removedb_obj_obj dm o l rm :
  removedb (JObj dm) o l (JObj rm) =
  forallb (fun k => ahas k dm || negb (ahas k rm)) (akeys (obj_or_nil l)) &&
  forallb (fun kv => removedb (snd kv) (jget (fst kv) (obj_or_nil o))
                               (jget (fst kv) (obj_or_nil l)) (jget (fst kv) rm)) dm.
Proof.
  cbn [removedb]. cbv zeta. f_equal.
  induction dm as [|[k dv] dm IH]; [reflexivity|].
  cbn [forallb fst snd]. now rewrite <- IH.
Qed.

Lemma preservedb_obj_obj d om l rm :
  preservedb d (JObj om) l (JObj rm) =
  forallb (fun kv => ahas (fst kv) (obj_or_nil l) || ahas (fst kv) (obj_or_nil d) ||
                     (ahas (fst kv) rm && jeqb (jget (fst kv) rm) (snd kv))) om &&
  match d with
  | JObj dm => forallb (fun kv => preservedb (snd kv) (jget (fst kv) om)
                                   (jget (fst kv) (obj_or_nil l)) (jget (fst kv) rm)) dm
  | _ => true
  end.
Proof.
  destruct d; try reflexivity.
  cbn [preservedb]. cbv zeta. f_equal.
  induction m as [|[k dv] dm IH]; [reflexivity|].
  cbn [forallb fst snd]. now rewrite <- IH.
Qed.

Lemma self_wf_obj dm :
  self_wf (JObj dm) = nodup_str (akeys dm) && forallb (fun kv => self_wf (snd kv)) dm.
Proof.
  cbn [self_wf]. f_equal.
  induction dm as [|[k dv] dm IH]; [reflexivity|].
  cbn [forallb fst snd]. now rewrite <- IH.
Qed.

Lemma self_wf_arr dl :
  self_wf (JArr dl) = (if all_objs dl then list_wf dl else true) && forallb self_wf dl.
Proof.
  reflexivity.
Qed.

Lemma Hb'_obj dm o l :
  Hb' (JObj dm) o l =
  nodup_str (akeys dm) &&
  forallb (fun kv => Hb' (snd kv) (jget (fst kv) (obj_or_nil o)) (jget (fst kv) (obj_or_nil l))) dm.
Proof.
  cbn [Hb']. cbv zeta. f_equal.
  induction dm as [|[k dv] dm IH]; [reflexivity|].
  cbn [forallb fst snd]. now rewrite <- IH.
Qed.

Definition Hb'_items (key : string) (ol ll dl : list json) : bool :=
  forallb (fun it => match item_key key it with
                     | Some k => Hb' it (find_item_or_null key k ol) (find_item_or_null key k ll)
                     | None => true end) dl.

Lemma Hb'_arr dl o l :
  Hb' (JArr dl) o l =
  let ol := arr_or_nil o in
  let ll := arr_or_nil l in
  match detect_key ol ll dl with
  | None => true
  | Some key =>
      list_wf ol && list_wf ll && list_wf dl &&
      cross_ok ol dl && cross_ok ol ll && cross_ok ll dl &&
      Hb'_items key ol ll dl
  end.
Proof.
  cbn [Hb']. cbv zeta.
  destruct (detect_key (arr_or_nil o) (arr_or_nil l) dl) as [key|]; [|reflexivity].
  reflexivity.
Qed.

(* ---------- the list-map-free fragment ---------- *)
(* hereditarily along desired: wherever merge meets an array, no conventional
   merge key is detected (so arrays are replaced wholesale) *)
Fixpoint no_listmap (d o l : json) {struct d} : bool :=
  match d with
  | JObj dm =>
      let om := obj_or_nil o in
      let lm := obj_or_nil l in
      (fix go (dm : amap) : bool :=
         match dm with
         | [] => true
         | (k, dv) :: dm' => no_listmap dv (jget k om) (jget k lm) && go dm'
         end) dm
  | JArr dl =>
      match detect_key (arr_or_nil o) (arr_or_nil l) dl with None => true | Some _ => false end
  | JNull =>
      match o with
      | JArr ol => match detect_key ol (arr_or_nil l) [] with None => true | Some _ => false end
      | _ => true
      end
  | _ => true
  end.

Lemma no_listmap_obj dm o l :
  no_listmap (JObj dm) o l =
  forallb (fun kv => no_listmap (snd kv) (jget (fst kv) (obj_or_nil o)) (jget (fst kv) (obj_or_nil l))) dm.
Proof.
  cbn [no_listmap]. cbv zeta.
  induction dm as [|[k dv] dm IH]; [reflexivity|].
  cbn [forallb fst snd]. now rewrite <- IH.
Qed.

(* hereditarily (through arrays too): no array inside d is a list map on its own *)
Fixpoint no_self_listmap (d : json) : bool :=
  match d with
  | JObj dm =>
      (fix go (dm : amap) : bool :=
         match dm with [] => true | (_, v) :: dm' => no_self_listmap v && go dm' end) dm
  | JArr dl =>
      match detect_key dl dl dl with None => true | Some _ => false end
  | _ => true
  end.

Lemma no_self_listmap_obj dm :
  no_self_listmap (JObj dm) = forallb (fun kv => no_self_listmap (snd kv)) dm.
Proof.
  cbn [no_self_listmap].
  induction dm as [|[k dv] dm IH]; [reflexivity|].
  cbn [forallb fst snd]. now rewrite <- IH.
Qed.

(* small helpers *)
Lemma forallb_In {A} (f : A -> bool) l x : forallb f l = true -> In x l -> f x = true.
Proof. rewrite forallb_forall. auto. Qed.

Lemma andb_split a b : a && b = true -> a = true /\ b = true.
Proof. apply Bool.andb_true_iff. Qed.
