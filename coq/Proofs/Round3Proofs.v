(* Round3Proofs.v — model counterparts of three implementation-level clauses of
   the correspondence check:
     C04_revision_adoption            (Check/Composite_check.v)
     C09_child_follows_its_revision   (Check/Composite_check.v)
     C11_written_when_different       (Model/TracePreds.v)
   Statements about Model/Rolling.v claim_rev_one / claim_revisions /
   aggregate_children / sync_revisions_rolling and Model/Composite.v
   update_parent_status, for every answer function. *)
From MC Require Import Generated.
From MC Require Import Model.Rolling Model.Safe Model.TracePreds.
From MC Require Import Proofs.AssocLemmas Proofs.ObjLemmas Proofs.SafeLemmas Proofs.C11Proofs.
From MC Require Import Proofs.C06Proofs Proofs.C04Proofs Proofs.RollCalls Proofs.RollClaims Proofs.RollMoves
                       Proofs.C09Proofs.
From Coq Require Import Lia.
Local Open Scope string_scope.
Local Open Scope list_scope.

(* ================================================================== *)
(* Part 3.  C11, converse: a different status is written               *)
(* ================================================================== *)

(* "whenever call c is answered a and Nxt c a c' holds, the very next call is c'" *)
Inductive answered_by {R} (Nxt : call -> answer -> call -> Prop) : prog R -> Prop :=
| AB_ret r : answered_by Nxt (Ret r)
| AB_do c k :
    (forall a, answered_by Nxt (k a)) ->
    (forall a c', Nxt c a c' -> exists k', k a = Do c' k') ->
    answered_by Nxt (Do c k).

Lemma run_extends {R} (p : prog R) (e : env) : forall h, exists new, fst (run p e h) = new ++ h.
Proof.
  induction p as [r|c k IH]; intros h; cbn [run].
  - exists []. reflexivity.
  - cbv zeta. destruct (IH (e h c) ((c, e h c) :: h)) as [new Hnew].
    exists (new ++ [(c, e h c)]). rewrite Hnew, <- app_assoc. reflexivity.
Qed.

(* adequacy on runs: the entry right after (c, a) in the history is the call c' *)
Lemma answered_by_run {R} Nxt (p : prog R) (e : env) :
  answered_by Nxt p ->
  forall h, exists new, fst (run p e h) = new ++ h /\
    forall post c a pre c', new = post ++ (c, a) :: pre -> Nxt c a c' ->
      exists post' a', post = post' ++ [(c', a')].
Proof.
  intros Hp. induction Hp as [r|c k Hk IH Hnext]; intros h; cbn [run].
  - exists []. split; [reflexivity|]. intros post c a pre c' Heq. destruct post; discriminate.
  - cbv zeta. set (a := e h c).
    destruct (IH a ((c, a) :: h)) as (new1 & Hnew1 & Hall1).
    exists (new1 ++ [(c, a)]). split; [rewrite Hnew1, <- app_assoc; reflexivity|].
    intros post c0 a0 pre c' Heq Hn.
    destruct (exists_last_or_nil pre) as [->|(pre' & x & ->)].
    + apply app_inj_tail in Heq. destruct Heq as [<- [= <- <-]].
      destruct (Hnext a c' Hn) as [k' Hk'].
      rewrite Hk' in Hnew1. cbn [run] in Hnew1. cbv zeta in Hnew1.
      destruct (run_extends (k' (e ((c, a) :: h) c')) e ((c', e ((c, a) :: h) c') :: (c, a) :: h)) as [new2 Hnew2].
      rewrite Hnew2 in Hnew1.
      change (new2 ++ (c', e ((c, a) :: h) c') :: (c, a) :: h)
        with (new2 ++ [(c', e ((c, a) :: h) c')] ++ (c, a) :: h) in Hnew1.
      rewrite app_assoc in Hnew1. apply app_inv_tail in Hnew1.
      exists new2, (e ((c, a) :: h) c'). symmetry. exact Hnew1.
    + rewrite app_comm_cons, app_assoc in Heq. apply app_inj_tail in Heq. destruct Heq as [Heq _].
      eapply Hall1; eauto.
Qed.

(* atomic_update: a GET answered by an object with the expected uid on which f
   asks for a change is followed at once by the PUT of that change *)
Definition au_next (res ns name uid : string) (status : bool) (f : json -> option json)
           (cl : call) (a : answer) (cl' : call) : Prop :=
  cl = CApi (rq_get res ns name) /\
  exists cur upd, a = AObj cur /\ get_uid cur = uid /\ f cur = Some upd /\
                  cl' = CApi (rq_put status res ns name upd).

Lemma put_not_get status res ns name upd res' ns' name' :
  CApi (rq_put status res ns name upd) <> CApi (rq_get res' ns' name').
Proof. destruct status; discriminate. Qed.

Lemma atomic_update_answered fuel res ns name uid status f :
  answered_by (au_next res ns name uid status f) (atomic_update fuel res ns name uid status f).
Proof.
  induction fuel as [|n IH]; cbn [atomic_update]; [apply AB_ret|].
  assert (Hretry : answered_by (au_next res ns name uid status f)
            (match n with O => Ret (RErr EConflict) | S _ => atomic_update n res ns name uid status f end)).
  { destruct n; [apply AB_ret|exact IH]. }
  unfold api at 1. cbn [bind]. apply AB_do.
  - intros a. destruct a as [cur|e|b| |z]; cbn [bind]; try apply AB_ret.
    + destruct (negb (String.eqb (get_uid cur) uid)); [apply AB_ret|].
      destruct (f cur) as [upd|]; [|apply AB_ret].
      unfold api at 1. cbn [bind]. apply AB_do.
      * intros a2. destruct a2 as [o|e|b| |z]; cbn [bind]; try apply AB_ret.
        destruct e; try apply AB_ret. exact Hretry.
      * intros a2 c' [Hc _]. exfalso. exact (put_not_get _ _ _ _ _ _ _ _ Hc).
    + destruct e; try apply AB_ret. exact Hretry.
  - intros a c' [_ (cur & upd & -> & Hu & Hf & ->)]. cbn [bind].
    rewrite Hu, eqb_refl'. cbn [negb]. rewrite Hf. unfold api at 1. cbn [bind].
    eexists. reflexivity.
Qed.

(* the status update of the parent *)
Definition status_body (parent st cur : json) : json :=
  JObj (aset "status" (desired_status parent st) (obj_map cur)).

Definition C11_next (c : ccfg) (parent st : json) (cl : call) (a : answer) (cl' : call) : Prop :=
  cl = status_get c parent /\
  exists cur, a = AObj cur /\ get_uid cur = get_uid parent /\
              jeqb (jget "status" (obj_map cur)) (desired_status parent st) = false /\
              cl' = status_put c parent (status_body parent st cur).

Theorem C11_status_answered c parent st :
  answered_by (C11_next c parent st) (update_parent_status c parent st).
Proof.
  unfold update_parent_status. cbv zeta.
  set (f := fun cur : json => if jeqb (jget "status" (obj_map cur)) (desired_status parent st) then None
                              else Some (JObj (aset "status" (desired_status parent st) (obj_map cur)))).
  pose proof (atomic_update_answered retry_steps (p_res c) (eff_ns (p_namespaced c) (get_ns parent))
                (get_name parent) (get_uid parent) (p_has_status c) f) as H.
  revert H. generalize (atomic_update retry_steps (p_res c) (eff_ns (p_namespaced c) (get_ns parent))
                          (get_name parent) (get_uid parent) (p_has_status c) f).
  intros p Hp. induction Hp as [r|cl k Hk IH Hnext]; [apply AB_ret|].
  apply AB_do; [exact IH|].
  intros a c' (Hc & cur & Ha & Hu & Hj & Hc'). apply Hnext. split; [exact Hc|].
  exists cur, (status_body parent st cur). split; [exact Ha|]. split; [exact Hu|].
  split; [unfold f; rewrite Hj; reflexivity|exact Hc'].
Qed.

(* the write is a status write with the desired status as its body's status *)
Lemma status_put_shape c parent body :
  exists q, status_put c parent body = CApi q /\
            q_verb q = (if p_has_status c then VUpdateStatus else VUpdate) /\
            q_res q = p_res c /\ q_ns q = pns c parent /\ q_name q = get_name parent /\ q_body q = body.
Proof. eexists. split; [reflexivity|]. destruct (p_has_status c); repeat split. Qed.

Lemma status_body_status parent st cur :
  jget "status" (obj_map (status_body parent st cur)) = desired_status parent st.
Proof. unfold status_body. cbn [obj_map]. rewrite jget_aset, eqb_refl'. reflexivity. Qed.

(* first GET, as a statement about the program (mirror of C11_no_put_when_equal) *)
Theorem C11_put_when_different c parent st cur :
  get_uid cur = get_uid parent ->
  jeqb (jget "status" (obj_map cur)) (desired_status parent st) = false ->
  exists k k2, update_parent_status c parent st = Do (status_get c parent) k /\
               k (AObj cur) = Do (status_put c parent (status_body parent st cur)) k2.
Proof.
  intros Hu Hj. unfold update_parent_status. cbv zeta. unfold retry_steps.
  cbn [atomic_update]. unfold api at 1. cbn [bind]. eexists. eexists. split; [reflexivity|].
  cbn [bind]. rewrite Hu, eqb_refl'. cbn [negb]. rewrite Hj. unfold api at 1. cbn [bind]. reflexivity.
Qed.

(* both directions at once: after the first read, a write follows iff the status differs,
   and the write carries the desired status *)
Theorem C11_put_iff_different c parent st cur :
  get_uid cur = get_uid parent ->
  exists k, update_parent_status c parent st = Do (status_get c parent) k /\
    ((exists cl k2, k (AObj cur) = Do cl k2) <->
     jeqb (jget "status" (obj_map cur)) (desired_status parent st) = false) /\
    (forall cl k2, k (AObj cur) = Do cl k2 ->
       cl = status_put c parent (status_body parent st cur) /\
       jget "status" (obj_map (status_body parent st cur)) = desired_status parent st).
Proof.
  intros Hu. unfold update_parent_status. cbv zeta. unfold retry_steps.
  cbn [atomic_update]. unfold api at 1. cbn [bind]. eexists. split; [reflexivity|].
  cbn [bind]. rewrite Hu, eqb_refl'. cbn [negb].
  destruct (jeqb (jget "status" (obj_map cur)) (desired_status parent st)) eqn:Hj.
  - split; [split; [intros (cl & k2 & H); discriminate|discriminate]|].
    intros cl k2 H. discriminate.
  - unfold api at 1. cbn [bind]. split.
    + split; [reflexivity|]. intros _. eexists. eexists. reflexivity.
    + intros cl k2 [= <- _]. split; [reflexivity|apply status_body_status].
Qed.

(* on runs, for EVERY read of the parent (not only the first): if the answer has the
   parent's uid and another status, the next entry of the history is the status write *)
Theorem C11_written_when_different_run c parent st (e : env) post cur pre :
  fst (run (update_parent_status c parent st) e []) = post ++ (status_get c parent, AObj cur) :: pre ->
  get_uid cur = get_uid parent ->
  jeqb (jget "status" (obj_map cur)) (desired_status parent st) = false ->
  exists post' a, post = post' ++ [(status_put c parent (status_body parent st cur), a)].
Proof.
  intros Hrun Hu Hj.
  destruct (answered_by_run _ _ e (C11_status_answered c parent st) []) as (new & Hnew & Hall).
  rewrite app_nil_r in Hnew. rewrite Hnew in Hrun.
  eapply Hall; [exact Hrun|]. split; [reflexivity|]. exists cur. auto.
Qed.

(* ... and the converse on runs (from C11_status_calls): a status write is preceded
   immediately by a read that showed the parent's uid and another status *)
Theorem C11_written_only_when_different_run c parent st (e : env) post q a pre :
  fst (run (update_parent_status c parent st) e []) = post ++ (CApi q, a) :: pre ->
  q_verb q <> VGet ->
  exists cur rest, pre = (status_get c parent, AObj cur) :: rest /\
    CApi q = status_put c parent (status_body parent st cur) /\
    get_uid cur = get_uid parent /\
    jeqb (jget "status" (obj_map cur)) (desired_status parent st) = false.
Proof.
  intros Hrun Hv.
  pose proof (safe_run (fun _ _ => True) (C11_phi c parent st) e _
                (C11_status_calls (fun _ _ => True) c parent st []) (fun _ _ => I)) as Hall.
  rewrite Hrun in Hall.
  assert (Hgen : forall l1 x l2, Forall (fun hc => C11_phi c parent st (fst hc) (snd hc))
                                  (calls_with_history (l1 ++ x :: l2)) ->
                                C11_phi c parent st l2 (fst x)).
  { induction l1 as [|y l1 IH]; intros [cx ax] l2 H; cbn [app calls_with_history] in H.
    - inversion H; subst. assumption.
    - destruct y as [cy ay]. cbn [calls_with_history] in H. inversion H; subst. eapply IH; eauto. }
  specialize (Hgen post (CApi q, a) pre Hall). cbn [fst] in Hgen.
  destruct Hgen as [Hg|(cur & rest & Hh & Hc & Hu & Hj)].
  - exfalso. apply Hv. injection Hg as ->. reflexivity.
  - exists cur, rest. auto.
Qed.

Module R3C11.
  Definition cfg : ccfg :=
    mkCfg "cc" "ctl.example.com/v1" "Parent" "parents" true true true sel_everything [] true false
          [] false false [["spec"]] [].
  Definition cfg_nostatus : ccfg :=
    mkCfg "cc" "ctl.example.com/v1" "Parent" "parents" true false true sel_everything [] true false
          [] false false [["spec"]] [].
  Definition pobj (rv : string) (status : list (string * json)) : json :=
    JObj ([("apiVersion", JStr "ctl.example.com/v1"); ("kind", JStr "Parent");
           ("metadata", JObj [("name", JStr "p"); ("namespace", JStr "ns"); ("uid", JStr "uid-p");
                              ("generation", JInt 2); ("resourceVersion", JStr rv)]);
           ("spec", JObj [("replicas", JInt 2)])] ++ status).
  Definition parent : json := pobj "5" [("status", JObj [("ready", JInt 0); ("observedGeneration", JInt 1)])].
  Definition cur : json := pobj "7" [("status", JObj [("ready", JInt 0); ("observedGeneration", JInt 1)])].
  Definition st : json := JObj [("ready", JInt 1)].
  Definition want : json := JObj [("ready", JInt 1); ("observedGeneration", JInt 2)].
  (* a server whose first write conflicts: the second read again shows the old status *)
  Definition e_conflict_once : env := fun h cl =>
    match cl with
    | CApi q => match q_verb q with
                | VGet => AObj cur
                | _ => if Nat.ltb (List.length h) 2 then AFail EConflict else AObj (q_body q) end
    | _ => AHookErr end.
End R3C11.

(* hypotheses of C11_put_when_different / C11_written_when_different_run are met, and both
   reads of the run are followed by the write; with and without the status subresource *)
Example C11_written_when_different_inhabited :
  let body := status_body R3C11.parent R3C11.st R3C11.cur in
  get_uid R3C11.cur = get_uid R3C11.parent /\
  jeqb (jget "status" (obj_map R3C11.cur)) (desired_status R3C11.parent R3C11.st) = false /\
  desired_status R3C11.parent R3C11.st = R3C11.want /\
  map fst (trace_of (update_parent_status R3C11.cfg R3C11.parent R3C11.st) R3C11.e_conflict_once) =
    [status_get R3C11.cfg R3C11.parent; status_put R3C11.cfg R3C11.parent body;
     status_get R3C11.cfg R3C11.parent; status_put R3C11.cfg R3C11.parent body] /\
  status_put R3C11.cfg R3C11.parent body =
    CApi (mkRq VUpdateStatus "parents.ctl.example.com/v1" "ns" "p" body "" "") /\
  status_put R3C11.cfg_nostatus R3C11.parent body =
    CApi (mkRq VUpdate "parents.ctl.example.com/v1" "ns" "p" body "" "") /\
  jget "status" (obj_map body) = R3C11.want.
Proof. vm_compute. repeat split; reflexivity. Qed.

Print Assumptions C11_status_answered.
Print Assumptions C11_put_when_different.
Print Assumptions C11_put_iff_different.
Print Assumptions C11_written_when_different_run.
Print Assumptions C11_written_only_when_different_run.
Print Assumptions C11_written_when_different_inhabited.

(* ================================================================== *)
(* Part 2.  C09: a child is never ahead of its revision                *)
(* ================================================================== *)

(* ---- aggregate_children, entry by entry ---- *)
Definition dentry := (string * string * string * json)%type.

Definition replace_step (pns : string) (child : json) (e : dentry) : dentry :=
  match e with (a, k, n, x) =>
    if String.eqb a (get_api_version child) && String.eqb k (get_kind child) &&
       String.eqb n (relative_name pns child) then (a, k, n, child) else e end.

Definition name_overlay (pns : string) (ds : dlist) (g kd : string) (e : dentry) (name : string) : dentry :=
  match find_desired ds g kd name with None => e | Some child => replace_step pns child e end.
Definition rck_overlay (pns : string) (ds : dlist) (e : dentry) (ck : rck) : dentry :=
  fold_left (name_overlay pns ds (ck_group ck) (ck_kind ck)) (ck_names ck) e.
Definition prev_overlay (pns : string) (e : dentry) (p : prev) : dentry :=
  fold_left (rck_overlay pns (pr_desired p)) (rev_children (pr_rev p)) e.
Definition agg_entry (pns : string) (rest : list prev) (e : dentry) : dentry :=
  fold_left (prev_overlay pns) rest e.

Lemma fold_map_commute {A B} (F : list B -> A -> list B) (f : B -> A -> B) :
  (forall acc a, F acc a = map (fun b => f b a) acc) ->
  forall l acc, fold_left F l acc = map (fun b => fold_left f l b) acc.
Proof.
  intros H. induction l as [|a l IH]; intros acc; cbn [fold_left].
  - rewrite map_id. reflexivity.
  - rewrite IH, H, map_map. reflexivity.
Qed.

(* the aggregated children are the latest revision's desired list, each entry overlaid
   independently of the others *)
Theorem aggregate_children_entries pns latest rest :
  aggregate_children pns (latest :: rest) =
  map (fun e => Some (snd (agg_entry pns rest e))) (pr_desired latest).
Proof.
  unfold aggregate_children.
  rewrite (fold_map_commute _ (prev_overlay pns)).
  - rewrite map_map. apply map_ext. intros e. unfold agg_entry.
    destruct (fold_left (prev_overlay pns) rest e) as [[[a k] n] o]. reflexivity.
  - intros acc p. unfold prev_overlay.
    apply (fold_map_commute _ (rck_overlay pns (pr_desired p))).
    intros acc1 ck. unfold rck_overlay.
    apply (fold_map_commute _ (name_overlay pns (pr_desired p) (ck_group ck) (ck_kind ck))).
    intros acc2 name. unfold name_overlay.
    destruct (find_desired (pr_desired p) (ck_group ck) (ck_kind ck) name) as [child|].
    + apply map_ext. intros [[[a k] n] x]. reflexivity.
    + rewrite map_id. reflexivity.
Qed.

(* ---- well-formed desired lists: the key of an entry is the key of its object ---- *)
Definition dl_wf (pns : string) (ds : dlist) : bool :=
  forallb (fun e : dentry => match e with (a, k, n, x) =>
    String.eqb a (get_api_version x) && String.eqb k (get_kind x) && String.eqb n (relative_name pns x) end) ds.

Lemma dl_wf_in pns ds a k n x :
  dl_wf pns ds = true -> In (a, k, n, x) ds ->
  a = get_api_version x /\ k = get_kind x /\ n = relative_name pns x.
Proof.
  unfold dl_wf. rewrite forallb_forall. intros H Hin. specialize (H _ Hin). cbv beta iota in H.
  apply Bool.andb_true_iff in H. destruct H as [H H3]. apply Bool.andb_true_iff in H. destruct H as [H1 H2].
  apply String.eqb_eq in H1, H2, H3. auto.
Qed.

Lemma find_desired_some (ds : dlist) g kd name o :
  find_desired ds g kd name = Some o -> exists a, In (a, kd, name, o) ds /\ group_of a = g.
Proof.
  unfold find_desired.
  match goal with |- context [find ?f ds] => destruct (find f ds) as [[[[a k] n] x]|] eqn:Hf end; [|discriminate].
  intros [= ->]. apply find_some in Hf. destruct Hf as [Hin Ht]. cbv beta iota in Ht.
  apply Bool.andb_true_iff in Ht. destruct Ht as [Ht H3]. apply Bool.andb_true_iff in Ht. destruct Ht as [H1 H2].
  apply String.eqb_eq in H1, H2, H3. subst. exists a. auto.
Qed.

(* relative_desired builds well-formed lists *)
Lemma relative_desired_wf pns cs : dl_wf pns (relative_desired pns cs) = true.
Proof.
  unfold relative_desired.
  assert (Hgen : forall acc, dl_wf pns acc = true ->
            dl_wf pns (fold_left (fun acc c =>
              match c with
              | None => acc
              | Some o =>
                  if existsb (fun e : dentry => match e with (a, k, n, _) =>
                       String.eqb a (get_api_version o) && String.eqb k (get_kind o) &&
                       String.eqb n (relative_name pns o) end) acc
                  then map (fun e : dentry => match e with (a, k, n, x) =>
                         if String.eqb a (get_api_version o) && String.eqb k (get_kind o) &&
                            String.eqb n (relative_name pns o) then (a, k, n, o) else e end) acc
                  else acc ++ [(get_api_version o, get_kind o, relative_name pns o, o)]
              end) cs acc) = true).
  { induction cs as [|c cs IH]; intros acc Hacc; cbn [fold_left]; [exact Hacc|].
    apply IH. destruct c as [o|]; [|exact Hacc].
    match goal with |- context [if ?b then _ else _] => destruct b end.
    - unfold dl_wf in *. rewrite forallb_forall in *. intros e Hin. apply in_map_iff in Hin.
      destruct Hin as ([[[a k] n] x] & <- & Hin).
      destruct (String.eqb a (get_api_version o) && String.eqb k (get_kind o) &&
                String.eqb n (relative_name pns o)) eqn:E.
      + exact E.
      + apply (Hacc _ Hin).
    - unfold dl_wf in *. rewrite forallb_app, Hacc. cbn [forallb]. rewrite !String.eqb_refl. reflexivity. }
  apply Hgen. reflexivity.
Qed.

(* ---- what one revision makes of one entry ---- *)
(* the object a revision with desired list ds puts at the entry (a, k, n): its own desired
   object of that group, kind and name IF that object has the entry's apiVersion; else x stays *)
Definition own_obj (ds : dlist) (a k n : string) (x : json) : json :=
  match find_desired ds (group_of a) k n with
  | Some child => if String.eqb a (get_api_version child) then child else x
  | None => x
  end.

Lemma own_obj_idem ds a k n x : own_obj ds a k n (own_obj ds a k n x) = own_obj ds a k n x.
Proof.
  unfold own_obj. destruct (find_desired ds (group_of a) k n) as [child|]; [|reflexivity].
  destruct (String.eqb a (get_api_version child)); reflexivity.
Qed.

Lemma name_overlay_spec pns ds g kd a k n x name :
  dl_wf pns ds = true ->
  name_overlay pns ds g kd (a, k, n, x) name =
  (a, k, n, if String.eqb g (group_of a) && String.eqb kd k && String.eqb n name
            then own_obj ds a k n x else x).
Proof.
  intros Hwf. unfold name_overlay.
  destruct (find_desired ds g kd name) as [child|] eqn:Hf.
  - destruct (find_desired_some _ _ _ _ _ Hf) as (a' & Hin & Hg).
    destruct (dl_wf_in _ _ _ _ _ _ Hwf Hin) as (Ha & Hk & Hn).
    unfold replace_step. rewrite <- Ha, <- Hk, <- Hn.
    destruct (String.eqb a a') eqn:Ea.
    + apply String.eqb_eq in Ea. rewrite <- Ea in Hg, Ha. clear Ea a' Hin.
      rewrite Hg, String.eqb_refl. cbn [andb].
      rewrite (eqb_sym' kd k).
      destruct (String.eqb k kd) eqn:Ek; cbn [andb]; [|reflexivity].
      destruct (String.eqb n name) eqn:En; [|reflexivity].
      apply String.eqb_eq in Ek, En. rewrite <- Ek, <- En in Hf.
      unfold own_obj. rewrite Hg, Hf, <- Ha, String.eqb_refl. reflexivity.
    + cbn [andb].
      destruct (String.eqb g (group_of a) && String.eqb kd k && String.eqb n name) eqn:Et; [|reflexivity].
      apply Bool.andb_true_iff in Et. destruct Et as [Et E3]. apply Bool.andb_true_iff in Et.
      destruct Et as [E1 E2]. apply String.eqb_eq in E1, E2, E3. rewrite E1, E2, <- E3 in Hf.
      unfold own_obj. rewrite Hf, <- Ha, Ea. reflexivity.
  - destruct (String.eqb g (group_of a) && String.eqb kd k && String.eqb n name) eqn:Et; [|reflexivity].
    apply Bool.andb_true_iff in Et. destruct Et as [Et E3]. apply Bool.andb_true_iff in Et.
    destruct Et as [E1 E2]. apply String.eqb_eq in E1, E2, E3. rewrite E1, E2, <- E3 in Hf.
    unfold own_obj. rewrite Hf. reflexivity.
Qed.

Lemma rck_overlay_spec pns ds a k n x ck :
  dl_wf pns ds = true ->
  rck_overlay pns ds (a, k, n, x) ck =
  (a, k, n, if entry_lists (group_of a, k, n) ck then own_obj ds a k n x else x).
Proof.
  intros Hwf. unfold rck_overlay, entry_lists, gk_match.
  generalize (ck_names ck) as names. intros names. revert x.
  induction names as [|name names IH]; intros x; cbn [fold_left mem_str].
  - rewrite Bool.andb_false_r. reflexivity.
  - rewrite name_overlay_spec by exact Hwf. rewrite IH.
    destruct (String.eqb (ck_group ck) (group_of a) && String.eqb (ck_kind ck) k) eqn:Eg; cbn [andb]; [|reflexivity].
    destruct (String.eqb n name); cbn [orb]; [|reflexivity].
    destruct (mem_str n names); [apply f_equal, own_obj_idem|reflexivity].
Qed.

Lemma prev_overlay_spec pns a k n x p :
  dl_wf pns (pr_desired p) = true ->
  prev_overlay pns (a, k, n, x) p =
  (a, k, n, if listsP p (group_of a, k, n) then own_obj (pr_desired p) a k n x else x).
Proof.
  intros Hwf. unfold prev_overlay, listsP, lists. rewrite lists_cs_existsb.
  generalize (rev_children (pr_rev p)) as cs. intros cs. revert x.
  induction cs as [|ck cs IH]; intros x; cbn [fold_left existsb]; [reflexivity|].
  rewrite rck_overlay_spec by exact Hwf. rewrite IH.
  destruct (entry_lists (group_of a, k, n) ck); cbn [orb]; [|reflexivity].
  destruct (existsb (entry_lists (group_of a, k, n)) cs); [apply f_equal, own_obj_idem|reflexivity].
Qed.

Definition all_wf (pns : string) (prs : list prev) : bool := forallb (fun p => dl_wf pns (pr_desired p)) prs.

(* no revision of the tail lists the key: the entry is the latest revision's *)
Lemma agg_entry_unclaimed pns rest a k n x :
  all_wf pns rest = true ->
  count_listing rest (group_of a, k, n) = 0 ->
  agg_entry pns rest (a, k, n, x) = (a, k, n, x).
Proof.
  unfold agg_entry, all_wf, count_listing. revert x.
  induction rest as [|p rest IH]; intros x Hwf Hc; cbn [fold_left]; [reflexivity|].
  cbn [forallb] in Hwf. apply Bool.andb_true_iff in Hwf. destruct Hwf as [Hp Hwf].
  cbn [filter] in Hc. rewrite prev_overlay_spec by exact Hp.
  destruct (listsP p (group_of a, k, n)); [discriminate|]. apply IH; assumption.
Qed.

(* exactly one revision of the tail lists the key: the entry is what that revision makes of it *)
Lemma agg_entry_claimed pns rest a k n x j p :
  all_wf pns rest = true ->
  count_listing rest (group_of a, k, n) <= 1 ->
  nth_error rest j = Some p -> listsP p (group_of a, k, n) = true ->
  agg_entry pns rest (a, k, n, x) = (a, k, n, own_obj (pr_desired p) a k n x).
Proof.
  unfold agg_entry, all_wf, count_listing. revert x j.
  induction rest as [|q rest IH]; intros x j Hwf Hc Hj Hl; [destruct j; discriminate|].
  cbn [fold_left forallb filter] in *. apply Bool.andb_true_iff in Hwf. destruct Hwf as [Hq Hwf].
  rewrite prev_overlay_spec by exact Hq.
  destruct j as [|j]; cbn [nth_error] in Hj.
  - injection Hj as ->. rewrite Hl in *. cbn [List.length] in Hc.
    apply (agg_entry_unclaimed pns rest a k n); [exact Hwf|unfold count_listing; lia].
  - destruct (listsP q (group_of a, k, n)) eqn:Eq.
    + exfalso. cbn [List.length] in Hc.
      assert (H0 : count_listing rest (group_of a, k, n) = 0) by (unfold count_listing; lia).
      apply nth_error_In in Hj. rewrite (count_zero_none rest _ H0 p Hj) in Hl. discriminate.
    + eapply IH; eauto.
Qed.

(* ---- the property on aggregate_children ---- *)

(* (i) a child listed by no old revision comes from the latest answer *)
Theorem C09_unclaimed_child_from_latest pns latest rest i a k n x :
  all_wf pns rest = true ->
  nth_error (pr_desired latest) i = Some (a, k, n, x) ->
  count_listing rest (group_of a, k, n) = 0 ->
  nth_error (aggregate_children pns (latest :: rest)) i = Some (Some x).
Proof.
  intros Hwf Hi Hc. rewrite aggregate_children_entries.
  erewrite map_nth_error by exact Hi. rewrite agg_entry_unclaimed by assumption. reflexivity.
Qed.

(* (ii) a child listed by the old revision p (and by no other old revision) is the object
   p's own hook answer desires under that group, kind and name, provided that object has the
   apiVersion of the latest answer's *)
Theorem C09_child_follows_its_revision_partial pns latest rest i a k n x j p child :
  all_wf pns rest = true ->
  nth_error (pr_desired latest) i = Some (a, k, n, x) ->
  count_listing rest (group_of a, k, n) <= 1 ->
  nth_error rest j = Some p -> listsP p (group_of a, k, n) = true ->
  find_desired (pr_desired p) (group_of a) k n = Some child ->
  String.eqb (get_api_version child) a = true ->
  nth_error (aggregate_children pns (latest :: rest)) i = Some (Some child).
Proof.
  intros Hwf Hi Hc Hj Hl Hf Hv. rewrite aggregate_children_entries.
  erewrite map_nth_error by exact Hi.
  rewrite (agg_entry_claimed pns rest a k n x j p) by assumption. cbn [snd].
  unfold own_obj. rewrite Hf, eqb_sym', Hv. reflexivity.
Qed.

(* (iii) the two ways in which a claimed child is NOT its revision's: the revision's answer
   has it under another apiVersion of the group, or does not have it at all; then the latest
   answer's object stays *)
Theorem C09_claimed_child_other_version pns latest rest i a k n x j p child :
  all_wf pns rest = true ->
  nth_error (pr_desired latest) i = Some (a, k, n, x) ->
  count_listing rest (group_of a, k, n) <= 1 ->
  nth_error rest j = Some p -> listsP p (group_of a, k, n) = true ->
  find_desired (pr_desired p) (group_of a) k n = Some child ->
  String.eqb (get_api_version child) a = false ->
  nth_error (aggregate_children pns (latest :: rest)) i = Some (Some x).
Proof.
  intros Hwf Hi Hc Hj Hl Hf Hv. rewrite aggregate_children_entries.
  erewrite map_nth_error by exact Hi.
  rewrite (agg_entry_claimed pns rest a k n x j p) by assumption. cbn [snd].
  unfold own_obj. rewrite Hf, eqb_sym', Hv. reflexivity.
Qed.

Theorem C09_claimed_child_not_in_its_answer pns latest rest i a k n x j p :
  all_wf pns rest = true ->
  nth_error (pr_desired latest) i = Some (a, k, n, x) ->
  count_listing rest (group_of a, k, n) <= 1 ->
  nth_error rest j = Some p -> listsP p (group_of a, k, n) = true ->
  find_desired (pr_desired p) (group_of a) k n = None ->
  nth_error (aggregate_children pns (latest :: rest)) i = Some (Some x).
Proof.
  intros Hwf Hi Hc Hj Hl Hf. rewrite aggregate_children_entries.
  erewrite map_nth_error by exact Hi.
  rewrite (agg_entry_claimed pns rest a k n x j p) by assumption. cbn [snd].
  unfold own_obj. rewrite Hf. reflexivity.
Qed.

(* the length and order of the latest answer's children are kept *)
Theorem C09_aggregate_length pns latest rest :
  List.length (aggregate_children pns (latest :: rest)) = List.length (pr_desired latest).
Proof. rewrite aggregate_children_entries. apply map_length. Qed.

(* all three cases in one statement *)
Definition child_follows (pns : string) (latest : prev) (rest : list prev) (children : list (option json)) : Prop :=
  List.length children = List.length (pr_desired latest) /\
  forall i a k n x, nth_error (pr_desired latest) i = Some (a, k, n, x) ->
    (count_listing rest (group_of a, k, n) = 0 -> nth_error children i = Some (Some x)) /\
    (forall j p, count_listing rest (group_of a, k, n) <= 1 ->
       nth_error rest j = Some p -> listsP p (group_of a, k, n) = true ->
       nth_error children i = Some (Some (own_obj (pr_desired p) a k n x))).

Theorem C09_aggregate_children_follow pns latest rest :
  all_wf pns rest = true -> child_follows pns latest rest (aggregate_children pns (latest :: rest)).
Proof.
  intros Hwf. split; [apply C09_aggregate_length|].
  intros i a k n x Hi. split.
  - intros Hc. eapply C09_unclaimed_child_from_latest; eauto.
  - intros j p Hc Hj Hl. rewrite aggregate_children_entries. erewrite map_nth_error by exact Hi.
    rewrite (agg_entry_claimed pns rest a k n x j p) by assumption. reflexivity.
Qed.

(* ---- the literal statement (object found by group, kind and name, whatever its version)
        is false of the model ---- *)
Definition C09_child_follows_its_revision_statement : Prop :=
  forall pns latest rest i a k n x j p child,
    all_wf pns rest = true ->
    nth_error (pr_desired latest) i = Some (a, k, n, x) ->
    count_listing rest (group_of a, k, n) <= 1 ->
    nth_error rest j = Some p -> listsP p (group_of a, k, n) = true ->
    find_desired (pr_desired p) (group_of a) k n = Some child ->
    nth_error (aggregate_children pns (latest :: rest)) i = Some (Some child).

Module R3C09.
  Definition thing (av n img : string) : json :=
    JObj [("apiVersion", JStr av); ("kind", JStr "Thing"); ("metadata", JObj [("name", JStr n)]);
          ("spec", JObj [("image", JStr img)])].
  Definition revobj (n : string) : json := JObj [("metadata", JObj [("name", JStr n)])].
  (* the latest answer: a and b at apps/v1, image new *)
  Definition ds_new : dlist := [("apps/v1", "Thing", "a", thing "apps/v1" "a" "new");
                                ("apps/v1", "Thing", "b", thing "apps/v1" "b" "new")].
  (* the old revision's answer: a at apps/v1 (image old), b at apps/v1beta1 (image old) *)
  Definition ds_old : dlist := [("apps/v1", "Thing", "a", thing "apps/v1" "a" "old");
                                ("apps/v1beta1", "Thing", "b", thing "apps/v1beta1" "b" "old")].
  Definition resp (ds : dlist) : hook_resp := mkHR JNull (map (fun e : dentry => Some (snd e)) ds) JNull false.
  Definition latest : prev := mkPrev JNull (mkRevision (revobj "r-new") (JObj []) []) (resp ds_new) ds_new.
  Definition old : prev :=
    mkPrev JNull (mkRevision (revobj "r-old") (JObj []) [mkRck "apps" "Thing" ["a"; "b"]]) (resp ds_old) ds_old.
  (* an old revision that still lists c, which its own answer does not have *)
  Definition old_c : prev :=
    mkPrev JNull (mkRevision (revobj "r-old") (JObj []) [mkRck "apps" "Thing" ["a"]]) (resp []) [].
End R3C09.

(* hypotheses of the partial theorem are met for child a (same version): a follows the old revision;
   they are met except for the version for child b: b is the latest revision's object *)
Example C09_child_follows_its_revision_inhabited :
  all_wf "" [R3C09.old] = true /\
  nth_error (pr_desired R3C09.latest) 0 = Some ("apps/v1", "Thing", "a", R3C09.thing "apps/v1" "a" "new") /\
  count_listing [R3C09.old] ("apps", "Thing", "a") = 1 /\
  listsP R3C09.old (group_of "apps/v1", "Thing", "a") = true /\
  find_desired (pr_desired R3C09.old) (group_of "apps/v1") "Thing" "a" = Some (R3C09.thing "apps/v1" "a" "old") /\
  String.eqb (get_api_version (R3C09.thing "apps/v1" "a" "old")) "apps/v1" = true /\
  aggregate_children "" [R3C09.latest; R3C09.old] =
    [Some (R3C09.thing "apps/v1" "a" "old"); Some (R3C09.thing "apps/v1" "b" "new")] /\
  (* unclaimed: nothing lists a child; it comes from the latest answer *)
  count_listing [R3C09.old_c] ("apps", "Thing", "b") = 0 /\
  aggregate_children "" [R3C09.latest; R3C09.old_c] =
    [Some (R3C09.thing "apps/v1" "a" "new"); Some (R3C09.thing "apps/v1" "b" "new")].
Proof. vm_compute. repeat split; reflexivity. Qed.

Theorem C09_child_follows_its_revision_refuted : ~ C09_child_follows_its_revision_statement.
Proof.
  intros H.
  specialize (H "" R3C09.latest [R3C09.old] 1 "apps/v1" "Thing" "b" (R3C09.thing "apps/v1" "b" "new")
                0 R3C09.old (R3C09.thing "apps/v1beta1" "b" "old")).
  assert (H1 : all_wf "" [R3C09.old] = true) by (vm_compute; reflexivity).
  assert (H2 : count_listing [R3C09.old] (group_of "apps/v1", "Thing", "b") <= 1) by (vm_compute; lia).
  assert (H3 : listsP R3C09.old (group_of "apps/v1", "Thing", "b") = true) by (vm_compute; reflexivity).
  assert (H4 : find_desired (pr_desired R3C09.old) (group_of "apps/v1") "Thing" "b" =
               Some (R3C09.thing "apps/v1beta1" "b" "old")) by (vm_compute; reflexivity).
  specialize (H H1 eq_refl H2 eq_refl H3 H4). vm_compute in H. discriminate H.
Qed.

Print Assumptions aggregate_children_entries.
Print Assumptions C09_unclaimed_child_from_latest.
Print Assumptions C09_child_follows_its_revision_partial.
Print Assumptions C09_claimed_child_other_version.
Print Assumptions C09_claimed_child_not_in_its_answer.
Print Assumptions C09_aggregate_children_follow.
Print Assumptions C09_child_follows_its_revision_inhabited.
Print Assumptions C09_child_follows_its_revision_refuted.

(* ---- lifting to sync_revisions_rolling ---- *)

(* the rollout step never touches the parent view or the desired list of a revision *)
Definition pd (p : prev) : json * dlist := (pr_parent p, pr_desired p).

Lemma map_upd_go {A B} (g : A -> B) n (f : A -> A) :
  (forall a, g (f a) = g a) -> forall l i, map g (upd_go n f i l) = map g l.
Proof.
  intros H. induction l as [|a l IH]; intros i; cbn [upd_go map]; [reflexivity|].
  rewrite IH. destruct (Nat.eqb i n); [rewrite H|]; reflexivity.
Qed.

Lemma map_update_nth {A B} (g : A -> B) n (f : A -> A) l :
  (forall a, g (f a) = g a) -> map g (update_nth n f l) = map g l.
Proof. intros H. rewrite update_nth_eq. apply map_upd_go. exact H. Qed.

Lemma sync_revision_claims_pd c ds : forall prs i cl prs' cl',
  sync_revision_claims c ds i prs cl = (prs', cl') -> map pd prs' = map pd prs.
Proof.
  induction prs as [|p rest IH]; intros i cl prs' cl' Hs; cbn [sync_revision_claims] in Hs.
  - injection Hs as <- <-. reflexivity.
  - destruct (claims_of_revision c ds i (pr_rev p) cl) as [r1 cl1].
    destruct (sync_revision_claims c ds (S i) rest cl1) as [rest' cl2] eqn:Hr.
    injection Hs as <- <-. cbn [map]. rewrite (IH _ _ _ _ Hr). reflexivity.
Qed.

Lemma fp_step_pd c pns observed prs cl e prs' cl' :
  fp_step c pns observed (prs, cl) e = (prs', cl') -> map pd prs' = map pd prs.
Proof.
  destruct e as [[[av kind] name] dc]. unfold fp_step. cbv zeta.
  assert (Hsame : (prs, cl) = (prs', cl') -> map pd prs' = map pd prs) by (intros [= <- <-]; reflexivity).
  destruct (negb (is_rolling c (group_of av) kind)); [exact Hsame|].
  destruct (claimant cl (group_of av, kind, name)) as [j|].
  - destruct j as [|i]; [exact Hsame|].
    destruct (find_observed pns observed (group_of av) kind name) as [child|]; [|exact Hsame].
    destruct (apply_update (obj_map child) (obj_map dc)) as [n| |]; try exact Hsame.
    destruct (jeqb (JObj n) child); [|exact Hsame].
    intros [= <- <-]. rewrite !map_update_nth; [reflexivity|intros a; reflexivity|intros a; reflexivity].
  - intros [= <- <-]. rewrite map_update_nth; [reflexivity|intros a; reflexivity].
Qed.

Lemma fp_fold_pd c pns observed : forall l prs cl prs' cl',
  fold_left (fp_step c pns observed) l (prs, cl) = (prs', cl') -> map pd prs' = map pd prs.
Proof.
  induction l as [|e l IH]; intros prs cl prs' cl' Hf; cbn [fold_left] in Hf.
  - injection Hf as <- <-. reflexivity.
  - destruct (fp_step c pns observed (prs, cl) e) as [prs1 cl1] eqn:Hs.
    rewrite (IH _ _ _ _ Hf). eapply fp_step_pd; eauto.
Qed.

Lemma sync_rolling_update_pd c pns observed prs prs2 st :
  sync_rolling_update c pns observed prs = Some (prs2, st) -> map pd prs2 = map pd prs.
Proof.
  unfold sync_rolling_update. destruct prs as [|latest rest]; [discriminate|].
  destruct (sync_revision_claims c (pr_desired latest) 0 (latest :: rest) []) as [prs1 cl1] eqn:Hc.
  apply sync_revision_claims_pd in Hc.
  destruct prs1 as [|l1 rest1]; [discriminate|].
  rewrite first_pass_eq.
  destruct (fold_left (fp_step c pns observed) (pr_desired l1) (l1 :: rest1, cl1)) as [prsA clA] eqn:Hf.
  apply fp_fold_pd in Hf.
  destruct (second_pass c pns observed prsA clA) as [prs3 st3] eqn:Hs2.
  assert (H3 : map pd prs3 = map pd prsA).
  { destruct prsA as [|lA restA].
    - cbn in Hs2. injection Hs2 as <- <-. reflexivity.
    - apply second_pass_shape in Hs2. destruct Hs2 as [->|(k & ->)]; [reflexivity|].
      destruct k as [[g kd] n]. cbn [map]. rewrite map_map. reflexivity. }
  destruct prs3 as [|l3 rest3]; [discriminate|].
  destruct (set_condition (hr_status (pr_resp l3)) "Updated" (rollout_condition st3 (rev_name (pr_rev l3))))
    as [status'|]; [|discriminate].
  intros [= <- <-]. rewrite <- Hc, <- Hf, <- H3. reflexivity.
Qed.

Lemma Forall_pd (P : json * dlist -> Prop) prs prs' :
  map pd prs' = map pd prs -> Forall (fun p => P (pd p)) prs -> Forall (fun p => P (pd p)) prs'.
Proof. intros Hm H. apply Forall_map. rewrite Hm. apply Forall_map. exact H. Qed.

Lemma Forall_prune (P : prev -> Prop) prs : Forall P prs -> Forall P (prune prs).
Proof.
  destruct prs as [|l rest]; cbn [prune]; [auto|]. intros H. inversion H; subst.
  constructor; [assumption|]. apply Forall_forall. intros p Hin. apply filter_In in Hin.
  rewrite Forall_forall in H3. apply H3. tauto.
Qed.

(* the desired list of a revision is the decoded answer of the hook call made for that
   revision's view of the parent, in this run *)
Definition own_answer (c : ccfg) (parent : json) (observed related : umap) (e : env) (x : json * dlist) : Prop :=
  exists h' r0, snd (run (call_hook c (fst x) observed related) e h') = HRResp r0 /\
                snd x = relative_desired (get_ns parent) (hr_children (label_resp c parent r0)).

Lemma own_answer_wf c parent observed related e x :
  own_answer c parent observed related e x -> dl_wf (get_ns parent) (snd x) = true.
Proof. intros (h' & r0 & _ & ->). apply relative_desired_wf. Qed.

Lemma call_hooks_run c observed related (e : env) : forall prs h,
  Forall (fun pa => exists h', snd (run (call_hook c (pr_parent (fst pa)) observed related) e h') = snd pa)
         (snd (run (call_hooks c observed related prs) e h)).
Proof.
  unfold call_hooks. induction prs as [|p prs IH]; intros h; cbn [mapM].
  - cbn [run snd]. constructor.
  - repeat (rewrite ?run_bind; cbn [run snd fst]). constructor.
    + cbn [fst snd]. eexists. reflexivity.
    + apply IH.
Qed.

Lemma first_hook_failure_all_resp answers :
  first_hook_failure answers = None ->
  Forall (fun pa => exists r0, snd pa = HRResp r0) answers.
Proof.
  unfold first_hook_failure.
  destruct (find (fun pr => match snd pr with HRResp _ => false | _ => true end) answers) as [[p0 r0]|] eqn:Hf;
    [discriminate|].
  intros _. apply Forall_forall. intros pa Hin. eapply find_none in Hf; [|exact Hin]. cbv beta in Hf.
  destruct (snd pa) as [| |z|r0]; try discriminate. eexists. reflexivity.
Qed.

Lemma first_hook_failure_not_resp answers r : first_hook_failure answers <> Some (HRResp r).
Proof.
  unfold first_hook_failure.
  destruct (find (fun pr => match snd pr with HRResp _ => false | _ => true end) answers) as [[p0 r0]|] eqn:Hf;
    [|discriminate].
  apply find_some in Hf. destruct Hf as [_ Hf]. cbn [snd] in Hf. intros [= ->]. discriminate.
Qed.

Lemma call_hooks_fst c observed related (e : env) : forall prs h,
  map fst (snd (run (call_hooks c observed related prs) e h)) = prs.
Proof.
  unfold call_hooks. induction prs as [|p prs IH]; intros h; cbn [mapM].
  - reflexivity.
  - repeat (rewrite ?run_bind; cbn [run snd fst]). cbn [map fst]. rewrite IH. reflexivity.
Qed.

(* results of a program, whatever the answers *)
Inductive leaves {R} (Q : R -> Prop) : prog R -> Prop :=
| LV_ret r : Q r -> leaves Q (Ret r)
| LV_do c k : (forall a, leaves Q (k a)) -> leaves Q (Do c k).

Lemma leaves_any {R} (p : prog R) : leaves (fun _ => True) p.
Proof. induction p as [r|c k IH]; [apply LV_ret; exact I|apply LV_do; exact IH]. Qed.

Lemma leaves_bind {A B} (Q : A -> Prop) (Q' : B -> Prop) (p : prog A) (f : A -> prog B) :
  leaves Q p -> (forall a, Q a -> leaves Q' (f a)) -> leaves Q' (bind p f).
Proof.
  intros Hp Hf. induction Hp as [r Hr|c k Hk IH]; cbn [bind]; [apply Hf; exact Hr|apply LV_do; exact IH].
Qed.

Lemma leaves_foldM {A S} (I : S -> Prop) (f : S -> A -> prog S) (l : list A) :
  (forall s a, In a l -> I s -> leaves I (f s a)) -> forall s, I s -> leaves I (foldM f l s).
Proof.
  induction l as [|a l IH]; intros Hf s Hs; cbn [foldM]; [apply LV_ret; exact Hs|].
  eapply leaves_bind; [apply Hf; [now left|exact Hs]|].
  intros s' Hs'. apply IH; [|exact Hs']. intros s0 a0 Hin. apply Hf. now right.
Qed.

Lemma leaves_run {R} (Q : R -> Prop) (p : prog R) (e : env) : leaves Q p -> forall h, Q (snd (run p e h)).
Proof. induction 1 as [r Hr|c k Hk IH]; intros h; cbn [run]; [exact Hr|apply IH]. Qed.

(* the revisions claim_revisions returns are cached ones *)
Lemma claim_revisions_from_cache c k parent :
  leaves (fun oc => forall claimed, oc = Some claimed -> incl claimed (cached k rev_res)) (claim_revisions c k parent).
Proof.
  unfold claim_revisions. destruct (revision_selector c parent) as [sel|]; [|apply LV_ret; discriminate].
  cbv zeta.
  set (all := filter (fun o => String.eqb (get_ns parent) "" || String.eqb (get_ns o) (get_ns parent)) (cached k rev_res)).
  apply leaves_bind with (Q := fun st : cstate => incl (snd (fst st)) all).
  - apply leaves_foldM; [|intros x []].
    intros [[once claimed] failed] o Hin Hs. cbn [fst snd] in Hs. unfold claim_rev_one.
    assert (Hsame : forall once' f', leaves (fun st : cstate => incl (snd (fst st)) all) (Ret (once', claimed, f'))).
    { intros once' f'. apply LV_ret. exact Hs. }
    assert (Hadd : forall once' f', leaves (fun st : cstate => incl (snd (fst st)) all) (Ret (once', claimed ++ [o], f'))).
    { intros once' f'. apply LV_ret. cbn [fst snd]. apply incl_app; [exact Hs|]. intros x [<-|[]]. exact Hin. }
    destruct (claim_decision (get_uid parent) (is_deleting parent) sel o); auto.
    + eapply leaves_bind; [apply leaves_any|]. intros r _. destruct r as [x|err]; [auto|]. destruct err; auto.
    + eapply leaves_bind; [apply leaves_any|]. intros [once' can] _. destruct (negb can); [auto|].
      eapply leaves_bind; [apply leaves_any|]. intros r _. destruct r as [x|err]; [auto|]. destruct err; auto.
  - intros [[once claimed] failed] Hs. cbn [fst snd] in Hs. apply LV_ret. destruct failed; [discriminate|].
    intros claimed' [= <-]. intros x Hx. specialize (Hs x Hx). unfold all in Hs. apply filter_In in Hs. tauto.
Qed.

(* the parent views materialised from the claimed revisions: every revision is a claimed one *)
Definition materialise_step (c : ccfg) (parent : json) (latest_patch : amap)
           (acc : option (option revision * list prev)) (r : revision) : option (option revision * list prev) :=
  match acc with
  | None => None
  | Some (latest_rev, olds) =>
      match rev_patch r with
      | JObj pm =>
          if jeqb (JObj pm) (JObj latest_patch) then Some (Some r, olds)
          else match apply_patch (obj_map parent) pm (field_paths c) with
               | Some p' => Some (latest_rev, olds ++ [mkPrev (JObj p') r empty_resp []])
               | None => None end
      | JNull => if jeqb (JObj []) (JObj latest_patch) then Some (Some r, olds)
                 else Some (latest_rev, olds ++ [mkPrev parent r empty_resp []])
      | _ => None
      end
  end.

Lemma materialise_none c parent lp revs : fold_left (materialise_step c parent lp) revs None = None.
Proof. induction revs as [|r revs IH]; [reflexivity|exact IH]. Qed.

Lemma materialise_revs c parent lp (P : revision -> Prop) : forall revs lr0 olds0 lr olds,
  Forall P revs ->
  (forall r, lr0 = Some r -> P r) -> Forall (fun p => P (pr_rev p)) olds0 ->
  fold_left (materialise_step c parent lp) revs (Some (lr0, olds0)) = Some (lr, olds) ->
  (forall r, lr = Some r -> P r) /\ Forall (fun p => P (pr_rev p)) olds.
Proof.
  induction revs as [|r revs IH]; intros lr0 olds0 lr olds Hrevs Hl Ho Hf; cbn [fold_left] in Hf.
  - injection Hf as <- <-. auto.
  - inversion Hrevs as [|r' revs' Hr Hrevs']; subst.
    assert (Hsnoc : forall pj, Forall (fun p => P (pr_rev p)) (olds0 ++ [mkPrev pj r empty_resp []])).
    { intros pj. apply Forall_app. split; [exact Ho|]. constructor; [exact Hr|constructor]. }
    assert (Hnew : forall r0, Some r = Some r0 -> P r0) by (intros r0 [= <-]; exact Hr).
    unfold materialise_step at 2 in Hf.
    destruct (rev_patch r) as [| | | | | | |pm]; try (rewrite materialise_none in Hf; discriminate).
    + destruct (jeqb (JObj []) (JObj lp)).
      * exact (IH _ _ _ _ Hrevs' Hnew Ho Hf).
      * exact (IH _ _ _ _ Hrevs' Hl (Hsnoc parent) Hf).
    + destruct (jeqb (JObj pm) (JObj lp)); [exact (IH _ _ _ _ Hrevs' Hnew Ho Hf)|].
      destruct (apply_patch (obj_map parent) pm (field_paths c)) as [p'|];
        [exact (IH _ _ _ _ Hrevs' Hl (Hsnoc (JObj p')) Hf)|rewrite materialise_none in Hf; discriminate].
Qed.

Lemma new_revision_children c parent patch name r : new_revision c parent patch name = Some r -> rev_children r = [].
Proof.
  unfold new_revision.
  match goal with |- match ?X with _ => _ end = _ -> _ => destruct X end; [|discriminate].
  intros [= <-]. reflexivity.
Qed.

(* a live revision is a claimed one (possibly with names moved) or the fresh, empty one *)
Definition rev_origin (claimed : list json) (r : revision) : Prop :=
  In r (map revision_of_json claimed) \/ rev_children r = [].

(* what a run of sync_revisions_rolling that returns a response went through *)
Theorem sync_revisions_rolling_resp c k parent observed related (e : env) h r :
  snd (run (sync_revisions_rolling c k parent observed related) e h) = HRResp r ->
  exists claimed prs1 prs2 st h2 l3 rest3,
    snd (run (claim_revisions c k parent) e h) = Some claimed /\
    Forall (fun p => own_answer c parent observed related e (pd p)) prs1 /\
    Forall (fun p => rev_origin claimed (pr_rev p)) prs1 /\
    sync_rolling_update c (get_ns parent) observed prs1 = Some (prs2, st) /\
    prune prs2 = l3 :: rest3 /\
    snd (run (manage_revisions (get_ns parent) (map revision_of_json claimed) (map pr_rev (l3 :: rest3))) e h2) = true /\
    r = mkHR (hr_status (pr_resp l3)) (aggregate_children (get_ns parent) (l3 :: rest3))
             (min_resync (l3 :: rest3)) (forallb (fun p => hr_finalized (pr_resp p)) (l3 :: rest3)).
Proof.
  unfold sync_revisions_rolling. rewrite run_bind.
  destruct (snd (run (claim_revisions c k parent) e h)) as [claimed|] eqn:Hcl; [|discriminate].
  cbv zeta.
  destruct (make_patch (obj_map parent) (field_paths c) []) as [latest_patch|]; [|discriminate].
  match goal with |- context [fold_left ?f ?l ?a] => destruct (fold_left f l a) as [[latest_rev olds]|] eqn:Hfold end;
    [|discriminate].
  destruct (materialise_revs c parent latest_patch (rev_origin claimed) _ None [] latest_rev olds
              ltac:(apply Forall_forall; intros r0 Hr0; left; exact Hr0) ltac:(discriminate) ltac:(constructor) Hfold)
    as [Hlr Holds].
  match goal with |- snd (run (match ?X with _ => _ end) _ _) = _ -> _ => destruct X as [lrev|] eqn:Hlrev end;
    [|discriminate].
  assert (Hlrev' : rev_origin claimed lrev).
  { destruct latest_rev as [r0|]; [injection Hlrev as <-; apply Hlr; reflexivity|].
    right. eapply new_revision_children; eauto. }
  rewrite run_bind.
  set (h1 := fst (run (claim_revisions c k parent) e h)).
  set (prs0 := mkPrev parent lrev empty_resp [] :: olds).
  pose proof (call_hooks_run c observed related e prs0 h1) as Hans.
  pose proof (call_hooks_fst c observed related e prs0 h1) as Hfst.
  set (answers := snd (run (call_hooks c observed related prs0) e h1)) in *.
  destruct (first_hook_failure answers) as [fr|] eqn:Hff.
  { destruct fr as [| |z|r0]; try discriminate.
    exfalso. eapply first_hook_failure_not_resp; eauto. }
  apply first_hook_failure_all_resp in Hff.
  match goal with |- context [sync_rolling_update c (get_ns parent) observed ?P] => set (prs1 := P) end.
  destruct (sync_rolling_update c (get_ns parent) observed prs1) as [[prs2 st]|] eqn:Hsru; [|discriminate].
  cbv zeta. rewrite run_bind.
  match goal with |- context [run (manage_revisions ?ns ?o ?d) e ?hh] =>
    destruct (snd (run (manage_revisions ns o d) e hh)) eqn:Hok; cbn [negb]; [|discriminate];
    set (h2 := hh) in * end.
  destruct (prune prs2) as [|l3 rest3] eqn:Hpr; [discriminate|].
  cbn [run snd]. intros [= <-].
  exists claimed, prs1, prs2, st, h2, l3, rest3.
  split; [reflexivity|]. split; [|split; [|auto]].
  - unfold prs1. apply Forall_map. rewrite Forall_forall in Hans, Hff |- *.
    intros [p hr] Hin. destruct (Hans _ Hin) as [h' Hh']. destruct (Hff _ Hin) as [r0 Hr0].
    cbn [fst snd] in Hh', Hr0. rewrite Hr0 in Hh' |- *. unfold own_answer, pd. cbn [pr_parent pr_desired fst snd].
    exists h', r0. split; [exact Hh'|reflexivity].
  - assert (H0 : Forall (fun p => rev_origin claimed (pr_rev p)) prs0).
    { unfold prs0. constructor; [exact Hlrev'|exact Holds]. }
    rewrite <- Hfst in H0.
    unfold prs1. apply Forall_map. rewrite Forall_forall in H0 |- *.
    intros [p hr] Hin. specialize (H0 p (in_map fst _ _ Hin)). destruct hr; exact H0.
Qed.

(* no cached ControllerRevision lists a (group, kind) twice: the proviso of C09_revision_names_unique_claim *)
Definition cache_revisions_gk_unique (k : cache) : bool :=
  forallb (fun o => gk_unique (rev_children (revision_of_json o))) (cached k rev_res).

Lemma count_listing_tail p rest key : count_listing rest key <= count_listing (p :: rest) key.
Proof. unfold count_listing. cbn [filter]. destruct (listsP p key); cbn [List.length]; lia. Qed.

(* THE LIFTED PROPERTY.  When sync_revisions_rolling answers HRResp r, the children of r are
   the latest live revision's desired children, in its order, where
   - a child that no older live revision lists is the latest answer's object, and
   - a child that the older live revision p lists (and no other: see C09_revision_names_unique_claim)
     is own_obj (pr_desired p) ..., i.e. the object p's own hook answer desires under that
     group, kind and name when that object has the latest answer's apiVersion, and the latest
     answer's object otherwise;
   the live revisions l3 :: rest3 are those manage_revisions wrote successfully in this run,
   and the desired list of each is the decoded answer of its own hook call of this run;
   moreover, under the proviso on the cache, no two live revisions list the same child *)
Theorem C09_children_follow_their_revisions c k parent observed related (e : env) h r :
  snd (run (sync_revisions_rolling c k parent observed related) e h) = HRResp r ->
  exists claimed h2 l3 rest3,
    snd (run (claim_revisions c k parent) e h) = Some claimed /\
    snd (run (manage_revisions (get_ns parent) (map revision_of_json claimed) (map pr_rev (l3 :: rest3))) e h2) = true /\
    Forall (fun p => own_answer c parent observed related e (pd p)) (l3 :: rest3) /\
    child_follows (get_ns parent) l3 rest3 (hr_children r) /\
    (cache_revisions_gk_unique k = true -> forall key, count_listing rest3 key <= 1).
Proof.
  intros Hrun. pose proof (leaves_run _ _ e (claim_revisions_from_cache c k parent) h) as Hcache.
  apply sync_revisions_rolling_resp in Hrun.
  destruct Hrun as (claimed & prs1 & prs2 & st & h2 & l3 & rest3 & Hcl & Hown & Horig & Hsru & Hpr & Hok & ->).
  exists claimed, h2, l3, rest3. split; [exact Hcl|]. split; [exact Hok|].
  assert (Hown3 : Forall (fun p => own_answer c parent observed related e (pd p)) (l3 :: rest3)).
  { rewrite <- Hpr. apply Forall_prune.
    eapply (Forall_pd (own_answer c parent observed related e)); [eapply sync_rolling_update_pd; eauto|exact Hown]. }
  split; [exact Hown3|]. cbn [hr_children]. split.
  - apply C09_aggregate_children_follow.
    unfold all_wf. apply forallb_forall. intros p Hin. inversion Hown3; subst.
    rewrite Forall_forall in H2. apply (own_answer_wf _ _ _ _ _ _ (H2 p Hin)).
  - intros Hgk key. specialize (Hcache claimed Hcl).
    eapply Nat.le_trans; [apply (count_listing_tail l3)|]. rewrite <- Hpr.
    destruct prs1 as [|latest rest]; [discriminate Hsru|].
    eapply C09_revision_names_unique_claim; [exact Hsru|].
    unfold all_gk_unique. apply forallb_forall. intros p Hin.
    rewrite Forall_forall in Horig. destruct (Horig p Hin) as [Ho|Ho].
    + apply in_map_iff in Ho. destruct Ho as (o & <- & Ho). apply Hcache in Ho.
      unfold cache_revisions_gk_unique in Hgk. rewrite forallb_forall in Hgk. apply Hgk. exact Ho.
    + rewrite Ho. reflexivity.
Qed.

(* with the proviso, nothing is left to check about uniqueness *)
Corollary C09_children_follow_their_revisions_unique c k parent observed related (e : env) h r :
  cache_revisions_gk_unique k = true ->
  snd (run (sync_revisions_rolling c k parent observed related) e h) = HRResp r ->
  exists claimed h2 l3 rest3,
    snd (run (claim_revisions c k parent) e h) = Some claimed /\
    snd (run (manage_revisions (get_ns parent) (map revision_of_json claimed) (map pr_rev (l3 :: rest3))) e h2) = true /\
    Forall (fun p => own_answer c parent observed related e (pd p)) (l3 :: rest3) /\
    List.length (hr_children r) = List.length (pr_desired l3) /\
    forall i a kd n x, nth_error (pr_desired l3) i = Some (a, kd, n, x) ->
      (count_listing rest3 (group_of a, kd, n) = 0 -> nth_error (hr_children r) i = Some (Some x)) /\
      (forall j p, nth_error rest3 j = Some p -> listsP p (group_of a, kd, n) = true ->
         nth_error (hr_children r) i = Some (Some (own_obj (pr_desired p) a kd n x))).
Proof.
  intros Hgk Hrun. destruct (C09_children_follow_their_revisions _ _ _ _ _ _ _ _ Hrun)
    as (claimed & h2 & l3 & rest3 & Hcl & Hok & Hown & [Hlen Hch] & Huniq).
  exists claimed, h2, l3, rest3. repeat (split; [assumption|]).
  intros i a kd n x Hi. destruct (Hch i a kd n x Hi) as [H0 H1]. split; [exact H0|].
  intros j p Hj Hl. eapply H1; eauto.
Qed.

Print Assumptions sync_revisions_rolling_resp.
Print Assumptions C09_children_follow_their_revisions.
Print Assumptions C09_children_follow_their_revisions_unique.

(* ================================================================== *)
(* Part 1.  C04 for ControllerRevisions                                *)
(* ================================================================== *)

(* claim_revisions is NOT built from claim_one: it has its own claim_rev_one over
   update_with_retries (typed client, namespace of the parent, EGone on a uid mismatch).
   The protocol proofs of C04Proofs.v are redone for it; the notions parent_get, passed,
   adopt_edit, decision, inv are the ones of C04Proofs.v.  The release edit is its own:
   revisions are written through the typed client, which omits metadata.ownerReferences
   when the release leaves no owner reference (set_owner_refs_typed). *)
Definition release_edit_typed (parent cur : json) : json :=
  set_owner_refs_typed cur (remove_owner_ref (get_owner_refs cur) (get_uid parent)).

(* what update_with_retries can send: GETs of the revision, and PUTs of [f cur] for a
   [cur] the server returned to one of those GETs with the expected uid *)
Lemma update_with_retries_hist (Phi : hist -> call -> Prop) (Q : hist -> apires -> Prop)
      ns name uid (f : json -> option json) :
  forall fuel h,
  (forall h', C04Proofs.ext (au_call rev_res ns name false) h h' -> Phi h' (CApi (rq_get rev_res ns name))) ->
  (forall h' cur upd, C04Proofs.ext (au_call rev_res ns name false) h h' ->
                      In (CApi (rq_get rev_res ns name), AObj cur) h' ->
                      get_uid cur = uid -> f cur = Some upd ->
                      Phi h' (CApi (rq_put false rev_res ns name upd))) ->
  (forall h' r, C04Proofs.ext (au_call rev_res ns name false) h h' -> Q h' r) ->
  hist_post Phi Q h (update_with_retries fuel ns name uid f).
Proof.
  set (T := au_call rev_res ns name false).
  assert (Tget : T (CApi (rq_get rev_res ns name))) by (left; reflexivity).
  assert (Tput : forall upd, T (CApi (rq_put false rev_res ns name upd))) by (intros upd; right; exists upd; reflexivity).
  induction fuel as [|n IH]; intros h Hget Hput Hq.
  - cbn [update_with_retries]. apply HP_ret. apply Hq. apply C04Proofs.ext_refl.
  - cbn [update_with_retries]. unfold api at 1. cbn [bind].
    apply HP_do; [apply Hget; apply C04Proofs.ext_refl|].
    intros a.
    assert (Hq1 : forall r, Q ((CApi (rq_get rev_res ns name), a) :: h) r).
    { intros r. apply Hq. apply C04Proofs.ext_step. exact Tget. }
    assert (Hretry : hist_post Phi Q ((CApi (rq_get rev_res ns name), a) :: h)
                       (match n with O => Ret (RErr EConflict)
                                | S _ => update_with_retries n ns name uid f end)).
    { destruct n as [|n'].
      - apply HP_ret. apply Hq1.
      - apply IH.
        + intros h' Hi. apply Hget. apply C04Proofs.ext_cons in Hi; [exact Hi | exact Tget].
        + intros h' cur upd Hi. apply Hput. apply C04Proofs.ext_cons in Hi; [exact Hi | exact Tget].
        + intros h' r Hi. apply Hq. apply C04Proofs.ext_cons in Hi; [exact Hi | exact Tget]. }
    destruct a as [cur|e|b| |z]; cbn [bind]; try (apply HP_ret; apply Hq1).
    + destruct (negb (String.eqb (get_uid cur) uid)) eqn:Hu; [apply HP_ret; apply Hq1|].
      apply Bool.negb_false_iff in Hu. apply String.eqb_eq in Hu.
      destruct (f cur) as [upd|] eqn:Hf; [|apply HP_ret; apply Hq1].
      unfold api at 1. cbn [bind].
      apply HP_do.
      { apply Hput with (cur := cur); [apply C04Proofs.ext_step; exact Tget | left; reflexivity | exact Hu | exact Hf]. }
      intros a2.
      assert (Hq2 : forall r, Q ((CApi (rq_put false rev_res ns name upd), a2) :: (CApi (rq_get rev_res ns name), AObj cur) :: h) r).
      { intros r. apply Hq. apply C04Proofs.ext_cons with (c := CApi (rq_get rev_res ns name)) (a := AObj cur); [exact Tget|].
        apply C04Proofs.ext_step. apply Tput. }
      assert (Hretry2 : hist_post Phi Q
                 ((CApi (rq_put false rev_res ns name upd), a2) :: (CApi (rq_get rev_res ns name), AObj cur) :: h)
                 (match n with O => Ret (RErr EConflict)
                          | S _ => update_with_retries n ns name uid f end)).
      { destruct n as [|n'].
        - apply HP_ret. apply Hq2.
        - apply IH.
          + intros h' Hi. apply Hget.
            apply C04Proofs.ext_cons in Hi; [|apply Tput]. apply C04Proofs.ext_cons in Hi; [exact Hi | exact Tget].
          + intros h' cur' upd' Hi. apply Hput.
            apply C04Proofs.ext_cons in Hi; [|apply Tput]. apply C04Proofs.ext_cons in Hi; [exact Hi | exact Tget].
          + intros h' r Hi. apply Hq.
            apply C04Proofs.ext_cons in Hi; [|apply Tput]. apply C04Proofs.ext_cons in Hi; [exact Hi | exact Tget]. }
      destruct a2 as [o2|e2|b2| |z2]; cbn [bind]; try (apply HP_ret; apply Hq2).
      destruct e2; try (apply HP_ret; apply Hq2). exact Hretry2.
    + destruct e; try (apply HP_ret; apply Hq1). exact Hretry.
Qed.

Section RevClaim.
  Variables (c : ccfg) (parent : json) (sel : selector).

  (* requests on a ControllerRevision: always in the parent's namespace *)
  Definition rev_get (o : json) : call := CApi (rq_get rev_res (get_ns parent) (get_name o)).
  Definition rev_put (o body : json) : call := CApi (rq_put false rev_res (get_ns parent) (get_name o) body).
  Definition rev_call (o : json) : call -> Prop := au_call rev_res (get_ns parent) (get_name o) false.

  (* a request of the adoption / release of the revision o: the GET of the revision, or the
     PUT of the edit of an object the server returned for that GET, with o's uid *)
  Definition rev_edit_call (edit : json -> json) (o : json) (h : hist) (cl : call) : Prop :=
    cl = rev_get o \/
    exists cur, In (rev_get o, AObj cur) h /\ get_uid cur = get_uid o /\ cl = rev_put o (edit cur).

  (* ---- the three states of the once-cell ---- *)
  Theorem C04_revision_adopt_first_asks claimed failed o :
    decision parent sel o = ClAdopt ->
    exists kont, claim_rev_one c parent sel (None, claimed, failed) o = Do (parent_get c parent) kont.
  Proof.
    intros Hd. unfold decision in Hd. unfold claim_rev_one. rewrite Hd.
    unfold can_adopt_check, api. cbn [bind]. eexists. reflexivity.
  Qed.

  Theorem C04_revision_adopt_refused_no_call claimed failed o :
    decision parent sel o = ClAdopt ->
    claim_rev_one c parent sel (Some false, claimed, failed) o = Ret (Some false, claimed, true).
  Proof.
    intros Hd. unfold decision in Hd. unfold claim_rev_one. rewrite Hd. reflexivity.
  Qed.

  Variable N : hist -> Prop.

  Lemma N_ext_rev o h h' :
    (forall h cl a, N h -> rev_call o cl -> N ((cl, a) :: h)) ->
    N h -> C04Proofs.ext (rev_call o) h h' -> N h'.
  Proof.
    intros Hstep Hn [new [Heq Hall]]. subst h'.
    induction Hall as [|[cl a] new Hcl Hall IH].
    - exact Hn.
    - cbn [app]. apply Hstep; [exact IH | exact Hcl].
  Qed.

End RevClaim.

(* ---- the whole manager: foldM (claim_rev_one ...) over the cached revisions, from ANY history ---- *)

(* every request of a revision-claiming round is the parent recheck, a release request for a
   revision whose decision is ClRelease, or an adoption request for a revision whose decision
   is ClAdopt, the latter only after the recheck passed: an earlier answer, in this very round,
   to the GET of the parent showed the parent's uid and no deletionTimestamp *)
Definition C04_revision_phi (c : ccfg) (parent : json) (sel : selector) (all : list json) (h0 h : hist) (cl : call) : Prop :=
  cl = parent_get c parent \/
  exists o, In o all /\
    ((decision parent sel o = ClRelease /\ rev_edit_call parent (release_edit_typed parent) o h cl) \/
     (decision parent sel o = ClAdopt /\ rev_edit_call parent (adopt_edit c parent) o h cl /\
      exists new, h = new ++ h0 /\ passed c parent new)).

(* "the recheck passed within the part of the history added since h0" *)
Definition passed_since (c : ccfg) (parent : json) (h0 h : hist) : Prop :=
  exists new, h = new ++ h0 /\ passed c parent new.

Lemma passed_since_cons c parent h0 h x : passed_since c parent h0 h -> passed_since c parent h0 (x :: h).
Proof.
  intros (new & -> & Hp). exists (x :: new). split; [reflexivity|].
  eapply passed_incl; [|exact Hp]. apply incl_tl, incl_refl.
Qed.

Lemma passed_since_passed c parent h0 h : passed_since c parent h0 h -> passed c parent h.
Proof. intros (new & -> & Hp). eapply passed_incl; [|exact Hp]. apply incl_appl, incl_refl. Qed.

(* the once-cell of the revision manager, relative to the history h0 the round started from *)
Definition rinv (c : ccfg) (parent : json) (N : hist -> Prop) (h0 h : hist) (st : cstate) : Prop :=
  (exists new, h = new ++ h0) /\
  match fst (fst st) with
  | None => N h
  | Some true => passed_since c parent h0 h
  | Some false => snd st = true
  end.

Definition PhiR_since (c : ccfg) (parent : json) (sel : selector) (N : hist -> Prop) (h0 : hist) (o : json)
           (h : hist) (cl : call) : Prop :=
  (cl = parent_get c parent /\ N h) \/
  (decision parent sel o = ClRelease /\ rev_edit_call parent (release_edit_typed parent) o h cl) \/
  (decision parent sel o = ClAdopt /\ rev_edit_call parent (adopt_edit c parent) o h cl /\
   passed_since c parent h0 h).

(* claim_rev_one_triple, relativised to h0: instantiate the abstract marker with
   "N holds and the recheck, if any, is newer than h0" *)
Lemma claim_rev_one_since c parent sel (N : hist -> Prop) h0 o :
  (forall h cl a, N h -> rev_call parent o cl -> N ((cl, a) :: h)) ->
  forall h st, rinv c parent N h0 h st ->
  hist_post (PhiR_since c parent sel N h0 o) (rinv c parent N h0) h (claim_rev_one c parent sel st o).
Proof.
  intros Hstep h [[once claimed] failed] [Hext Hi].
  unfold claim_rev_one.
  assert (Hext_au : forall h', C04Proofs.ext (rev_call parent o) h h' -> exists new, h' = new ++ h0).
  { intros h' (d & -> & _). destruct Hext as [new ->]. exists (d ++ new). apply app_assoc. }
  assert (Hps_au : forall h', C04Proofs.ext (rev_call parent o) h h' ->
                     passed_since c parent h0 h -> passed_since c parent h0 h').
  { intros h' (d & -> & _) Hp. induction d as [|x d IH]; [exact Hp|]. cbn [app]. apply passed_since_cons, IH. }
  assert (Hadopt : passed_since c parent h0 h ->
            claim_decision (get_uid parent) (is_deleting parent) sel o = ClAdopt ->
            hist_post (PhiR_since c parent sel N h0 o) (rinv c parent N h0) h
              (r <~ update_with_retries retry_steps (get_ns parent) (get_name o) (get_uid o)
                      (fun cur => Some (set_owner_refs cur (add_owner_ref (get_owner_refs cur)
                          (controller_ref (p_api_version c) (p_kind c) (get_name parent) (get_uid parent))))) ;;
               match r with
               | ROk _ => Ret (Some true, claimed ++ [o], failed)
               | RErr ENotFound => Ret (Some true, claimed, failed)
               | RErr _ => Ret (Some true, claimed, true)
               end)).
  { intros Hp Hd.
    apply hist_post_bind with (Q := fun h' (_ : apires) => C04Proofs.ext (rev_call parent o) h h').
    - apply update_with_retries_hist.
      + intros h' He. right. right. split; [exact Hd|]. split; [left; reflexivity|apply Hps_au; assumption].
      + intros h' cur upd He Hin Hu Hf. injection Hf as Hf. subst upd.
        right. right. split; [exact Hd|]. split; [|apply Hps_au; assumption].
        right. exists cur. split; [exact Hin|]. split; [exact Hu|reflexivity].
      + intros h' r He. exact He.
    - intros h' r He.
      assert (Hr : rinv c parent N h0 h' (Some true, claimed, failed) /\
                   rinv c parent N h0 h' (Some true, claimed ++ [o], failed) /\
                   rinv c parent N h0 h' (Some true, claimed, true)).
      { repeat split; try (apply Hext_au; exact He); cbn [fst snd]; apply Hps_au; assumption. }
      destruct Hr as (R1 & R2 & R3).
      destruct r as [x|e]; [apply HP_ret; exact R2|]. destruct e; apply HP_ret; assumption. }
  destruct (claim_decision (get_uid parent) (is_deleting parent) sel o) eqn:Hd.
  - apply HP_ret. split; [exact Hext|exact Hi].
  - apply HP_ret. split; [exact Hext|exact Hi].
  - (* release *)
    apply hist_post_bind with (Q := fun h' (_ : apires) => C04Proofs.ext (rev_call parent o) h h').
    + apply update_with_retries_hist.
      * intros h' He. right. left. split; [exact Hd|]. left. reflexivity.
      * intros h' cur upd He Hin Hu Hf. injection Hf as Hf. subst upd.
        right. left. split; [exact Hd|]. right. exists cur.
        split; [exact Hin|]. split; [exact Hu | reflexivity].
      * intros h' r He. exact He.
    + intros h' r He.
      assert (Hr : forall f', (failed = true -> f' = true) -> rinv c parent N h0 h' (once, claimed, f')).
      { intros f' Hf. split; [apply Hext_au; exact He|]. cbn [fst snd] in Hi |- *.
        destruct once as [[|]|].
        - apply Hps_au; assumption.
        - apply Hf. exact Hi.
        - eapply N_ext_rev; [exact Hstep|exact Hi|exact He]. }
      destruct r as [x|e]; [apply HP_ret; apply Hr; auto|].
      destruct e; apply HP_ret; apply Hr; auto.
  - (* adopt *)
    destruct once as [b|].
    + cbn [bind]. destruct b; cbn [negb].
      * apply Hadopt; [exact Hi|reflexivity].
      * apply HP_ret. split; [exact Hext|reflexivity].
    + unfold can_adopt_check, api. cbn [bind]. cbn [fst snd] in Hi.
      apply HP_do; [left; split; [reflexivity | exact Hi]|].
      intros a.
      assert (Hext1 : exists new, (parent_get c parent, a) :: h = new ++ h0).
      { destruct Hext as [new ->]. exists ((parent_get c parent, a) :: new). reflexivity. }
      destruct a as [fresh|e|b| |z]; cbn [bind negb];
        try (apply HP_ret; split; [exact Hext1|reflexivity]).
      destruct (String.eqb (get_uid fresh) (get_uid parent) && negb (is_deleting fresh)) eqn:Hchk;
        cbn [negb]; [|apply HP_ret; split; [exact Hext1|reflexivity]].
      apply Bool.andb_true_iff in Hchk. destruct Hchk as [Hu Hdel].
      apply String.eqb_eq in Hu. apply Bool.negb_true_iff in Hdel.
      assert (Hps : passed_since c parent h0 ((parent_get c parent, AObj fresh) :: h)).
      { destruct Hext as [new ->]. exists ((parent_get c parent, AObj fresh) :: new). split; [reflexivity|].
        exists fresh. split; [left; reflexivity|]. split; assumption. }
      (* the adoption proper, from the history that now contains the passed recheck *)
      clear Hadopt.
      assert (Hext_au' : forall h', C04Proofs.ext (rev_call parent o) ((parent_get c parent, AObj fresh) :: h) h' ->
                           exists new, h' = new ++ h0).
      { intros h' (d & -> & _). destruct Hext1 as [new Hn]. rewrite Hn. exists (d ++ new). apply app_assoc. }
      assert (Hps_au' : forall h', C04Proofs.ext (rev_call parent o) ((parent_get c parent, AObj fresh) :: h) h' ->
                           passed_since c parent h0 h').
      { intros h' (d & -> & _). induction d as [|x d IH]; [exact Hps|]. cbn [app]. apply passed_since_cons, IH. }
      apply hist_post_bind with
        (Q := fun h' (_ : apires) => C04Proofs.ext (rev_call parent o) ((parent_get c parent, AObj fresh) :: h) h').
      * apply update_with_retries_hist.
        -- intros h' He. right. right. split; [exact Hd|]. split; [left; reflexivity|apply Hps_au'; exact He].
        -- intros h' cur upd He Hin Hu' Hf. injection Hf as Hf. subst upd.
           right. right. split; [exact Hd|]. split; [|apply Hps_au'; exact He].
           right. exists cur. split; [exact Hin|]. split; [exact Hu'|reflexivity].
        -- intros h' r He. exact He.
      * intros h' r He.
        assert (Hr : forall cl' f', rinv c parent N h0 h' (Some true, cl', f')).
        { intros cl' f'. split; [apply Hext_au'; exact He|]. cbn [fst snd]. apply Hps_au'. exact He. }
        destruct r as [x|e]; [apply HP_ret; apply Hr|]. destruct e; apply HP_ret; apply Hr.
Qed.

Theorem C04_revision_adopt_only_after_recheck c parent sel all h0 :
  hist_post (C04_revision_phi c parent sel all h0)
    (fun h st => match fst (fst st) with
                 | Some true => passed_since c parent h0 h
                 | Some false => snd st = true
                 | None => True
                 end)
    h0 (foldM (claim_rev_one c parent sel) all (None, [], false)).
Proof.
  eapply hist_post_weaken with (Phi := C04_revision_phi c parent sel all h0)
                               (Q := rinv c parent (fun _ => True) h0);
    [intros h cl H; exact H|intros h st [_ H]; exact H|].
  apply hist_post_foldM; [|split; [exists []; reflexivity|exact I]].
  intros h st o Hin Hi.
  eapply hist_post_weaken; [| |apply (claim_rev_one_since c parent sel (fun _ => True) h0 o)].
  - intros h' cl [[Hc _] | [[Hd Hc] | [Hd [Hc Hp]]]].
    + left. exact Hc.
    + right. exists o. split; [exact Hin|]. left. split; assumption.
    + right. exists o. split; [exact Hin|]. right. split; [exact Hd|]. split; assumption.
  - intros h' st' Hi'. exact Hi'.
  - intros h' cl a _ _. exact I.
  - exact Hi.
Qed.

(* read on runs: an adoption PUT of a revision is preceded, within the round, by a passed recheck *)
Corollary C04_revision_adopt_after_recheck_in_run c parent sel all (e : env) h0 post o cur a pre :
  fst (run (foldM (claim_rev_one c parent sel) all (None, [], false)) e h0) =
    post ++ (rev_put parent o (adopt_edit c parent cur), a) :: pre ++ h0 ->
  (forall o', In o' all -> decision parent sel o' = ClRelease ->
              forall cur', rev_put parent o' (release_edit_typed parent cur') <> rev_put parent o (adopt_edit c parent cur)) ->
  exists fresh, In (parent_get c parent, AObj fresh) pre /\
                get_uid fresh = get_uid parent /\ is_deleting fresh = false.
Proof.
  intros Hrun Hnr.
  destruct (hist_post_run _ _ _ _ e (C04_revision_adopt_only_after_recheck c parent sel all h0))
    as [_ [new [Hnew Hall]]].
  rewrite Hnew in Hrun.
  assert (Hn : new = post ++ (rev_put parent o (adopt_edit c parent cur), a) :: pre).
  { apply (app_inv_tail h0). rewrite Hrun, <- app_assoc. reflexivity. }
  specialize (Hall _ _ _ _ Hn). destruct Hall as [Hc|(o' & Hin & [[Hd Hc]|(Hd & Hc & new' & Heq & Hp)])].
  - discriminate Hc.
  - exfalso. destruct Hc as [Hc|(cur' & _ & _ & Hc)]; [discriminate Hc|].
    eapply Hnr; eauto.
  - apply app_inv_tail in Heq. subst new'. exact Hp.
Qed.

(* at most one recheck per round, when the parent is not itself a ControllerRevision *)
Definition nocheck_since (c : ccfg) (parent : json) (h0 h : hist) : Prop :=
  exists new, h = new ++ h0 /\ forall a, ~ In (parent_get c parent, a) new.

Theorem C04_revision_one_recheck_per_manager c parent sel all h0 :
  String.eqb (p_res c) rev_res = false ->
  hist_post (fun h cl => cl = parent_get c parent -> nocheck_since c parent h0 h)
            (fun _ _ => True)
            h0 (foldM (claim_rev_one c parent sel) all (None, [], false)).
Proof.
  intros Hsep. apply String.eqb_neq in Hsep.
  eapply hist_post_weaken with (Q := rinv c parent (nocheck_since c parent h0) h0);
    [intros h cl Hc; exact Hc | intros h r _; exact I |].
  apply hist_post_foldM; [|split; [exists []; reflexivity|]; exists []; split; [reflexivity|intros a []]].
  intros h st o Hin Hi.
  assert (Hne : forall cl, rev_call parent o cl -> cl <> parent_get c parent).
  { intros cl [Hcl | [upd Hcl]] Heq; subst cl.
    - injection Heq as Heq _ _. apply Hsep. symmetry. exact Heq.
    - discriminate Heq. }
  eapply hist_post_weaken; [| |apply (claim_rev_one_since c parent sel (nocheck_since c parent h0) h0 o)].
  - intros h' cl [[Hc Hn] | [[Hd Hc] | [Hd [Hc Hp]]]] Heq.
    + exact Hn.
    + exfalso. subst cl. destruct Hc as [Hc | [cur [_ [_ Hc]]]].
      * injection Hc as Hc _ _. apply Hsep. exact Hc.
      * discriminate Hc.
    + exfalso. subst cl. destruct Hc as [Hc | [cur [_ [_ Hc]]]].
      * injection Hc as Hc _ _. apply Hsep. exact Hc.
      * discriminate Hc.
  - intros h' st' Hi'. exact Hi'.
  - intros h' cl a (new & -> & Hn) Hcl. exists ((cl, a) :: new). split; [reflexivity|].
    intros a' [Hin' | Hin'].
    + injection Hin' as Hc _. apply (Hne cl Hcl). exact Hc.
    + apply (Hn a'). exact Hin'.
  - exact Hi.
Qed.

Corollary C04_revision_one_recheck_in_run c parent sel all (e : env) h0 :
  String.eqb (p_res c) rev_res = false ->
  forall post a pre a',
    fst (run (foldM (claim_rev_one c parent sel) all (None, [], false)) e h0) =
      post ++ (parent_get c parent, a) :: pre ++ h0 ->
    ~ In (parent_get c parent, a') pre.
Proof.
  intros Hsep post a pre a' Hrun.
  destruct (hist_post_run _ _ _ _ e (C04_revision_one_recheck_per_manager c parent sel all h0 Hsep))
    as [_ [new [Hnew Hall]]].
  rewrite Hnew in Hrun.
  assert (Hn : new = post ++ (parent_get c parent, a) :: pre).
  { apply (app_inv_tail h0). rewrite Hrun, <- app_assoc. reflexivity. }
  destruct (Hall _ _ _ _ Hn eq_refl) as (new' & Heq & Hno).
  apply app_inv_tail in Heq. subst new'. apply Hno.
Qed.

(* ---- claim_revisions ---- *)
Definition rev_candidates (k : cache) (parent : json) : list json :=
  filter (fun o => String.eqb (get_ns parent) "" || String.eqb (get_ns o) (get_ns parent)) (cached k rev_res).

Theorem C04_claim_revisions_adopt_only_after_recheck c k parent h0 :
  hist_post (fun h cl => exists sel, revision_selector c parent = Some sel /\
                                     C04_revision_phi c parent sel (rev_candidates k parent) h0 h cl)
            (fun _ _ => True) h0 (claim_revisions c k parent).
Proof.
  unfold claim_revisions. destruct (revision_selector c parent) as [sel|]; [|apply HP_ret; exact I].
  cbv zeta. eapply hist_post_bind.
  - eapply hist_post_weaken; [| |apply (C04_revision_adopt_only_after_recheck c parent sel (rev_candidates k parent) h0)].
    + intros h cl H. exists sel. split; [reflexivity|exact H].
    + intros h st H. exact H.
  - intros h' [[once claimed] failed] _. apply HP_ret. exact I.
Qed.

Theorem C04_claim_revisions_one_recheck c k parent h0 :
  String.eqb (p_res c) rev_res = false ->
  hist_post (fun h cl => cl = parent_get c parent -> nocheck_since c parent h0 h)
            (fun _ _ => True) h0 (claim_revisions c k parent).
Proof.
  intros Hsep. unfold claim_revisions. destruct (revision_selector c parent) as [sel|]; [|apply HP_ret; exact I].
  cbv zeta. eapply hist_post_bind.
  - apply (C04_revision_one_recheck_per_manager c parent sel (rev_candidates k parent) h0 Hsep).
  - intros h' [[once claimed] failed] _. apply HP_ret. exact I.
Qed.

Corollary C04_claim_revisions_one_recheck_in_run c k parent (e : env) h0 :
  String.eqb (p_res c) rev_res = false ->
  forall post a pre a',
    fst (run (claim_revisions c k parent) e h0) = post ++ (parent_get c parent, a) :: pre ++ h0 ->
    ~ In (parent_get c parent, a') pre.
Proof.
  intros Hsep post a pre a' Hrun.
  destruct (hist_post_run _ _ _ _ e (C04_claim_revisions_one_recheck c k parent h0 Hsep))
    as [_ [new [Hnew Hall]]].
  rewrite Hnew in Hrun.
  assert (Hn : new = post ++ (parent_get c parent, a) :: pre).
  { apply (app_inv_tail h0). rewrite Hrun, <- app_assoc. reflexivity. }
  destruct (Hall _ _ _ _ Hn eq_refl) as (new' & Heq & Hno).
  apply app_inv_tail in Heq. subst new'. apply Hno.
Qed.

(* a parent that is pending deletion adopts (and releases) no revision: claim_revisions makes
   no request at all, it only keeps the revisions it already controls *)
Theorem C04_deleting_parent_claims_no_revision c k parent :
  is_deleting parent = true ->
  all_calls (fun _ => False) (claim_revisions c k parent).
Proof.
  intros Hdel. unfold claim_revisions. destruct (revision_selector c parent) as [sel|]; [|apply AC_ret].
  cbv zeta. apply all_calls_bind.
  - apply all_calls_foldM. intros [[once claimed] failed] o _. unfold claim_rev_one.
    destruct (claim_decision (get_uid parent) (is_deleting parent) sel o) eqn:Hd; try apply AC_ret.
    + apply claim_release_iff in Hd. destruct Hd as (_ & _ & Hd). congruence.
    + apply claim_adopt_iff in Hd. destruct Hd as (_ & Hd & _). congruence.
  - intros [[once claimed] failed]. apply AC_ret.
Qed.

Corollary C04_deleting_parent_claims_no_revision_run c k parent (e : env) h :
  is_deleting parent = true -> fst (run (claim_revisions c k parent) e h) = h.
Proof.
  intros Hdel. pose proof (C04_deleting_parent_claims_no_revision c k parent Hdel) as H.
  induction H as [r|cl kont Hc _ _]; [reflexivity|destruct Hc].
Qed.

(* ---- the same on requests, as the check reads them: a VUpdate of a ControllerRevision whose
        body is controlled by the parent ---- *)
Lemma get_owner_refs_set_owner_refs o refs :
  get_owner_refs (set_owner_refs o refs) = refs \/ get_owner_refs (set_owner_refs o refs) = [].
Proof.
  unfold set_owner_refs. destruct o as [| | | | | | |m]; try (right; reflexivity).
  destruct (nested_set m ["metadata"; "ownerReferences"] (JArr (map json_of_oref refs))) as [m'|] eqn:E.
  - left. eapply get_owner_refs_set; eauto.
  - right. rewrite nset2 in E. unfold get_owner_refs. cbn [obj_map]. rewrite nget2.
    destruct (alookup "metadata" m) as [mv|]; [|discriminate]. destruct mv; try discriminate; reflexivity.
Qed.

Lemma release_edit_not_ours parent cur : controlled_by (release_edit parent cur) (get_uid parent) = false.
Proof.
  unfold release_edit, controlled_by, controller_of.
  destruct (get_owner_refs_set_owner_refs cur (remove_owner_ref (get_owner_refs cur) (get_uid parent))) as [->| ->];
    [|reflexivity].
  match goal with |- context [find ?f ?l] => destruct (find f l) as [r|] eqn:Hf end; [|reflexivity].
  apply find_some in Hf. destruct Hf as [Hin _]. apply remove_owner_ref_In in Hin.
  apply String.eqb_neq. tauto.
Qed.

(* the typed client: with no owner reference left the key is removed, and the object has none *)
Lemma get_owner_refs_removed m : get_owner_refs (JObj (nested_remove m ["metadata"; "ownerReferences"])) = [].
Proof.
  unfold get_owner_refs. cbn [obj_map]. rewrite nremove2, nget2.
  destruct (alookup "metadata" m) as [mv|] eqn:E; [|rewrite E; reflexivity].
  destruct mv; rewrite ?E; try reflexivity.
  rewrite alookup_aset_same, alookup_aremove, eqb_refl'. reflexivity.
Qed.

Lemma release_edit_typed_not_ours parent cur :
  controlled_by (release_edit_typed parent cur) (get_uid parent) = false.
Proof.
  pose proof (release_edit_not_ours parent cur) as Hold. unfold release_edit in Hold.
  unfold release_edit_typed, set_owner_refs_typed.
  destruct (remove_owner_ref (get_owner_refs cur) (get_uid parent)) as [|r l]; [|exact Hold].
  destruct cur as [| | | | | | |m]; try exact Hold.
  unfold controlled_by, controller_of. rewrite get_owner_refs_removed. reflexivity.
Qed.

Theorem C04_revision_adoption_in_run c k parent (e : env) h0 post q a pre :
  fst (run (claim_revisions c k parent) e h0) = post ++ (CApi q, a) :: pre ++ h0 ->
  q_res q = rev_res -> q_verb q = VUpdate ->
  controlled_by (q_body q) (get_uid parent) = true ->
  is_deleting parent = false /\
  (exists o, In o (rev_candidates k parent) /\ controller_of o = None /\ is_deleting o = false /\
             q_name q = get_name o) /\
  exists fresh, In (parent_get c parent, AObj fresh) pre /\
                get_uid fresh = get_uid parent /\ is_deleting fresh = false.
Proof.
  intros Hrun Hres Hverb Hours.
  destruct (hist_post_run _ _ _ _ e (C04_claim_revisions_adopt_only_after_recheck c k parent h0))
    as [_ [new [Hnew Hall]]].
  rewrite Hnew in Hrun.
  assert (Hn : new = post ++ (CApi q, a) :: pre).
  { apply (app_inv_tail h0). rewrite Hrun, <- app_assoc. reflexivity. }
  destruct (Hall _ _ _ _ Hn) as (sel & Hsel & [Hc|(o & Hin & [[Hd Hc]|(Hd & Hc & new' & Heq & Hp)])]).
  - injection Hc as ->. discriminate Hverb.
  - exfalso. destruct Hc as [Hc|(cur & _ & _ & Hc)]; injection Hc as ->; [discriminate Hverb|].
    cbn [q_body rq_put] in Hours. rewrite release_edit_typed_not_ours in Hours. discriminate.
  - apply app_inv_tail in Heq. subst new'.
    apply claim_adopt_iff in Hd. destruct Hd as (Hco & Hpd & _ & Hod).
    split; [exact Hpd|]. split; [|exact Hp].
    exists o. split; [exact Hin|]. split; [exact Hco|]. split; [exact Hod|].
    destruct Hc as [Hc|(cur & _ & _ & Hc)]; injection Hc as ->; reflexivity.
Qed.

(* ---- and hence in the whole sync (sync_parent_object_r / sync_r) ---- *)

(* neither the parent nor a child kind is the ControllerRevision resource *)
Definition rev_not_child (c : ccfg) : bool :=
  negb (String.eqb (p_res c) rev_res) &&
  forallb (fun kc => negb (String.eqb (ch_res kc) rev_res)) (kids c).

Definition is_rev_update (cl : call) : Prop :=
  exists q, cl = CApi q /\ q_res q = rev_res /\ q_verb q = VUpdate.

(* the parent object the sync goes on with after the finalizer step: the cached one, or an
   object the server returned for the parent's name in this run *)
Definition parent_version (c : ccfg) (parent : json) (h : hist) (p1 : json) : Prop :=
  p1 = parent \/
  exists cl, In (cl, AObj p1) h /\ au_call (p_res c) (C11Proofs.pns c parent) (get_name parent) false cl.

Lemma parent_version_cons c parent h p1 x : parent_version c parent h p1 -> parent_version c parent (x :: h) p1.
Proof. intros [->|(cl & Hin & Hc)]; [left; reflexivity|]. right. exists cl. split; [right; exact Hin|exact Hc]. Qed.

Lemma parent_version_app c parent h p1 d : parent_version c parent h p1 -> parent_version c parent (d ++ h) p1.
Proof. intros H. induction d as [|x d IH]; [exact H|]. cbn [app]. apply parent_version_cons, IH. Qed.

(* before the first hook call of the sync, an update of a ControllerRevision is a release or
   an adoption request of the revision manager of the parent version p1, for a cached
   revision, and an adoption request comes only after a passed live recheck of p1 *)
Definition C04_revision_sync_phi (c : ccfg) (k : cache) (parent : json) (h : hist) (cl : call) : Prop :=
  has_hook h = false -> is_rev_update cl ->
  exists p1 sel o,
    parent_version c parent h p1 /\ revision_selector c p1 = Some sel /\ In o (rev_candidates k p1) /\
    ((decision p1 sel o = ClRelease /\ rev_edit_call p1 (release_edit_typed p1) o h cl) \/
     (decision p1 sel o = ClAdopt /\ rev_edit_call p1 (adopt_edit c p1) o h cl /\ passed c p1 h)).

(* generic rules *)
Lemma hist_post_conj_calls {R} (P : call -> Prop) (Phi : hist -> call -> Prop) (Q : hist -> R -> Prop) (p : prog R) :
  all_calls P p -> (forall h cl, P cl -> Phi h cl) ->
  forall h, hist_post (fun _ _ => True) Q h p -> hist_post Phi Q h p.
Proof.
  intros Hp HP. induction Hp as [r|cl kont Hc Hk IH]; intros h Hq; inversion Hq; subst.
  - apply HP_ret. assumption.
  - apply HP_do; [apply HP; exact Hc|]. intros a. apply IH. auto.
Qed.

Lemma hist_post_ext_gen {R} Phi (Q : hist -> R -> Prop) h (p : prog R) :
  hist_post Phi Q h p -> forall h0, (exists d, h = d ++ h0) ->
  hist_post (fun h' cl => Phi h' cl /\ exists d, h' = d ++ h0) (fun h' r => Q h' r /\ exists d, h' = d ++ h0) h p.
Proof.
  induction 1 as [h r Hq|h cl kont Hc Hk IH]; intros h0 He.
  - apply HP_ret. auto.
  - apply HP_do; [auto|]. intros a. apply IH. destruct He as [d ->]. exists ((cl, a) :: d). reflexivity.
Qed.

Lemma safeP_hist_post {R} Phi (Q : hist -> R -> Prop) h (p : prog R) :
  safeP (fun _ _ => True) Phi Q h p -> hist_post Phi Q h p.
Proof. induction 1 as [h r Hr|h cl kont Hc Hk IH]; [apply HP_ret|apply HP_do]; auto. Qed.

(* once a hook was called, nothing is asked of the remaining calls *)
Lemma phase_hooked {R} (Phi : hist -> call -> Prop) (p : prog R) :
  (forall h cl, has_hook h = true -> Phi h cl) ->
  forall h, has_hook h = true -> hist_post Phi (fun h' _ => has_hook h' = true) h p.
Proof.
  intros HPhi. induction p as [r|cl kont IH]; intros h Hh.
  - apply HP_ret. exact Hh.
  - apply HP_do; [apply HPhi; exact Hh|]. intros a. apply IH.
    rewrite has_hook_cons, Hh. apply Bool.orb_true_r.
Qed.

Lemma atomic_update_result res ns name uid status f fuel h :
  hist_post (fun _ _ => True)
            (fun h' r => forall o, r = ROk o -> exists cl, In (cl, AObj o) h' /\ au_call res ns name status cl)
            h (atomic_update fuel res ns name uid status f).
Proof.
  apply safeP_hist_post.
  apply safeP_atomic_update with (h0 := h); auto with safe.
  - intros h' e _ o Ho. discriminate.
  - intros h' cur _ _ _ _ o [= <-]. eexists. split; [left; reflexivity|]. left. reflexivity.
  - intros h' cur upd o _ _ _ _ _ o' [= <-]. eexists. split; [left; reflexivity|]. right. eexists. reflexivity.
Qed.

Lemma sync_finalizer_version c parent h :
  hist_post (fun _ _ => True) (fun h' fr => forall p1, fr = ROk p1 -> parent_version c parent h' p1)
            h (sync_finalizer c parent).
Proof.
  unfold sync_finalizer. cbv zeta.
  assert (Hau : forall f, hist_post (fun _ _ => True)
            (fun h' fr => forall p1, fr = ROk p1 -> parent_version c parent h' p1) h
            (atomic_update retry_steps (p_res c) (eff_ns (p_namespaced c) (get_ns parent)) (get_name parent)
               (get_uid parent) false f)).
  { intros f. eapply hist_post_weaken; [| |apply atomic_update_result].
    - auto.
    - intros h' r Hr p1 ->. right. apply Hr. reflexivity. }
  destruct (Bool.eqb (has_finalizer parent (finalizer_name c)) (has_finalize c)).
  - apply HP_ret. intros p1 [= <-]. left. reflexivity.
  - destruct (has_finalize c); [|apply Hau].
    destruct (is_deleting parent); [|apply Hau]. apply HP_ret. intros p1 [= <-]. left. reflexivity.
Qed.

Lemma prelude_not_rev_update c cl : rev_not_child c = true -> prelude_call c cl -> ~ is_rev_update cl.
Proof.
  unfold rev_not_child. intros Hsep. apply Bool.andb_true_iff in Hsep. destruct Hsep as [Hp Hk].
  apply Bool.negb_true_iff, String.eqb_neq in Hp. rewrite forallb_forall in Hk.
  intros (q & -> & H) (q' & [= <-] & Hr & Hv).
  destruct H as [H|[[_ H]|[_ (kc & cur & refs & Hin & H & _)]]].
  - rewrite H in Hv. discriminate.
  - apply Hp. rewrite <- H. exact Hr.
  - specialize (Hk kc Hin). apply Bool.negb_true_iff, String.eqb_neq in Hk. apply Hk. rewrite <- H. exact Hr.
Qed.

Lemma call_hook_only_hooks c parent observed related :
  all_calls (fun cl => is_hook_call cl = true) (call_hook c parent observed related).
Proof.
  unfold call_hook. cbv zeta.
  destruct (negb (has_finalize c && (is_deleting parent || negb (sel_matches (p_selector c) (get_labels parent))))
            && negb (has_sync c)); [apply AC_ret|].
  apply AC_do; [reflexivity|]. intros a. destruct a as [o|e|body| |z]; try apply AC_ret.
  destruct (decode_composite body); apply AC_ret.
Qed.

Lemma call_hooks_only_hooks c observed related prs :
  all_calls (fun cl => is_hook_call cl = true) (call_hooks c observed related prs).
Proof.
  unfold call_hooks. apply all_calls_mapM. intros p _.
  apply all_calls_bind; [apply call_hook_only_hooks|]. intros r. apply AC_ret.
Qed.

Lemma hook_not_rev_update cl : is_hook_call cl = true -> ~ is_rev_update cl.
Proof. intros H (q & -> & _). discriminate. Qed.

Lemma sync_revisions_rolling_c04 c k parent p1 observed related h :
  parent_version c parent h p1 ->
  hist_post (C04_revision_sync_phi c k parent) resp_needs_hook h (sync_revisions_rolling c k p1 observed related).
Proof.
  intros Hv. unfold sync_revisions_rolling.
  assert (Hvac : forall h', hist_post (C04_revision_sync_phi c k parent) resp_needs_hook h' (Ret HRErr)).
  { intros h'. apply HP_ret. intros r Hr. discriminate. }
  apply hist_post_bind with (Q := fun _ _ => True).
  { eapply hist_post_weaken;
      [| |apply (hist_post_ext_gen _ _ _ _ (C04_claim_revisions_adopt_only_after_recheck c k p1 h) h);
          exists []; reflexivity].
    - intros h' cl [(sel & Hsel & Hphi) (d & ->)] _ (q & -> & Hr & Hverb).
      destruct Hphi as [Hc|(o & Hin & Hcase)].
      + injection Hc as ->. discriminate Hverb.
      + exists p1, sel, o. split; [apply parent_version_app; exact Hv|]. split; [exact Hsel|]. split; [exact Hin|].
        destruct Hcase as [[Hd Hc]|(Hd & Hc & Hps)]; [left; auto|].
        right. split; [exact Hd|]. split; [exact Hc|]. eapply passed_since_passed; exact Hps.
    - auto. }
  intros h1 oc _. destruct oc as [claimed|]; [|apply Hvac]. cbv zeta.
  destruct (make_patch (obj_map p1) (field_paths c) []) as [latest_patch|]; [|apply Hvac].
  match goal with |- hist_post _ _ _ (match ?X with _ => _ end) => destruct X as [[latest_rev olds]|] end;
    [|apply Hvac].
  match goal with |- hist_post _ _ _ (match ?X with _ => _ end) => destruct X as [lrev|] end;
    [|apply Hvac].
  eapply hist_post_bind.
  { apply (hist_post_conj_calls (fun cl => is_hook_call cl = true)); [apply call_hooks_only_hooks| |].
    - intros h' cl Hcl _ Hru. exfalso. eapply hook_not_rev_update; eauto.
    - eapply hist_post_weaken; [| |apply call_hooks_before]; [auto|intros h' rs H; exact H]. }
  intros h2 answers Hans. cbv beta in Hans.
  destruct (first_hook_failure answers) as [r|] eqn:Hff.
  { destruct r as [| |z|r0]; try (apply HP_ret; intros r Hr; discriminate).
    exfalso. eapply first_hook_failure_not_resp; eauto. }
  assert (Hh2 : has_hook h2 = true).
  { destruct Hans as [H|(pr & Hin & Hn)]; [exact H|].
    exfalso. eapply first_hook_failure_none; eauto. }
  match goal with |- hist_post _ _ _ (match ?X with _ => _ end) => destruct X as [[prs2 st]|] end;
    [|apply Hvac].
  eapply hist_post_bind.
  { apply phase_hooked; [|exact Hh2]. intros h' cl Hh' Hno. congruence. }
  intros h3 ok Hh3. cbv beta in Hh3.
  destruct (negb ok); [apply Hvac|].
  destruct (prune prs2); [apply Hvac|]. apply HP_ret. intros r _. exact Hh3.
Qed.

Lemma hook_phase_rolling_c04 c k parent p1 observed related h :
  parent_version c parent h p1 ->
  hist_post (C04_revision_sync_phi c k parent) resp_needs_hook h (hook_phase_rolling c k p1 observed related).
Proof.
  intros Hv. unfold hook_phase_rolling.
  destruct (negb (any_rolling c) || (is_deleting p1 && negb (should_finalize c p1))).
  - apply (hist_post_conj_calls (fun cl => is_hook_call cl = true)); [apply call_hook_only_hooks| |].
    + intros h' cl Hcl _ Hru. exfalso. eapply hook_not_rev_update; eauto.
    + eapply hist_post_weaken; [| |apply (call_hook_before c)]; [auto|].
      intros h0 hr [H | ->] r Hr; [exact H|discriminate].
  - apply sync_revisions_rolling_c04. exact Hv.
Qed.

Theorem C04_revision_adoption_in_sync c k parent h :
  rev_not_child c = true ->
  hist_post (C04_revision_sync_phi c k parent) (fun _ _ => True) h (sync_parent_object_r c k parent).
Proof.
  intros Hsep. unfold sync_parent_object_r.
  assert (Hprel : forall h' cl, prelude_call c cl -> C04_revision_sync_phi c k parent h' cl).
  { intros h' cl Hcl _ Hru. exfalso. eapply prelude_not_rev_update; eauto. }
  destruct (ignores_parent c parent); [apply HP_ret; exact I|].
  apply hist_post_bind with (Q := fun h1 fr => forall p1, fr = ROk p1 -> parent_version c parent h1 p1).
  { apply (hist_post_conj_calls (prelude_call c)); [apply sync_finalizer_calls|exact Hprel|apply sync_finalizer_version]. }
  intros h1 fr Hv. destruct fr as [p1|err]; [|apply HP_ret; exact I]. specialize (Hv p1 eq_refl).
  destruct (ignores_parent c p1); [apply HP_ret; exact I|].
  apply hist_post_bind with (Q := fun h2 (_ : option umap) => parent_version c parent h2 p1).
  { apply (hist_post_of_all_calls (prelude_call c) (fun h' => parent_version c parent h' p1));
      [apply claim_children_calls| | |exact Hv].
    - intros h' cl a Hv' _. apply parent_version_cons. exact Hv'.
    - intros h' cl _ Hcl. apply Hprel. exact Hcl. }
  intros h2 oc Hv2. destruct oc as [observed|]; [|apply HP_ret; exact I].
  unfold related_phase. cbn [bind].
  eapply hist_post_bind; [apply hook_phase_rolling_c04; exact Hv2|].
  intros h3 hr Hhr. destruct hr as [| |n|r]; try (apply HP_ret; exact I).
  eapply hist_post_weaken with (Phi := C04_revision_sync_phi c k parent) (Q := fun h' _ => has_hook h' = true).
  - intros h' cl H. exact H.
  - auto.
  - apply phase_hooked; [|exact (Hhr r eq_refl)]. intros h' cl Hh' Hno. congruence.
Qed.

Corollary C04_revision_adoption_in_sync_r c k :
  rev_not_child c = true ->
  forall G, safe G (fun h cl => forall parent, k_parent k = Some parent -> C04_revision_sync_phi c k parent h cl)
                 [] (sync_r c k).
Proof.
  intros Hsep G. unfold sync_r. destruct (k_parent k) as [parent|]; [|constructor].
  apply (hist_post_safe G _ (fun _ _ => True)).
  eapply hist_post_weaken; [| |apply (C04_revision_adoption_in_sync c k parent [] Hsep)].
  - intros h cl H p [= <-]. exact H.
  - intros h r _. exact I.
Qed.

(* the same, read on a run of the whole sync: a ControllerRevision update issued before the
   first hook call whose body is controlled by the parent version p1 is an adoption of a cached
   orphan, p1 is not being deleted, and an earlier answer of this run to the GET of p1 showed
   p1's uid and no deletionTimestamp *)
Corollary C04_revision_adoption_in_sync_run c k parent (e : env) post q a pre :
  rev_not_child c = true ->
  fst (run (sync_parent_object_r c k parent) e []) = post ++ (CApi q, a) :: pre ->
  has_hook pre = false -> q_res q = rev_res -> q_verb q = VUpdate ->
  exists p1, parent_version c parent pre p1 /\
    (controlled_by (q_body q) (get_uid p1) = true ->
     is_deleting p1 = false /\
     (exists o, In o (rev_candidates k p1) /\ controller_of o = None /\ q_name q = get_name o) /\
     exists fresh, In (parent_get c p1, AObj fresh) pre /\
                   get_uid fresh = get_uid p1 /\ is_deleting fresh = false).
Proof.
  intros Hsep Hrun Hno Hres Hverb.
  destruct (hist_post_run _ _ _ _ e (C04_revision_adoption_in_sync c k parent [] Hsep)) as [_ [new [Hnew Hall]]].
  rewrite app_nil_r in Hnew. rewrite Hnew in Hrun. specialize (Hall _ _ _ _ Hrun).
  rewrite app_nil_r in Hall.
  destruct (Hall Hno (ex_intro _ q (conj eq_refl (conj Hres Hverb)))) as (p1 & sel & o & Hv & Hsel & Hin & Hcase).
  exists p1. split; [exact Hv|]. intros Hours.
  destruct Hcase as [[Hd Hc]|(Hd & Hc & Hp)].
  - exfalso. destruct Hc as [Hc|(cur & _ & _ & Hc)]; injection Hc as ->; [discriminate Hverb|].
    cbn [q_body rq_put] in Hours. rewrite release_edit_typed_not_ours in Hours. discriminate.
  - apply claim_adopt_iff in Hd. destruct Hd as (Hco & Hpd & _ & _).
    split; [exact Hpd|]. split; [|exact Hp].
    exists o. split; [exact Hin|]. split; [exact Hco|].
    destruct Hc as [Hc|(cur & _ & _ & Hc)]; injection Hc as ->; reflexivity.
Qed.

(* ---- a concrete rolling controller, used by the examples of parts 1 and 2 ---- *)
Module R3X.
  Definition kid : child_cfg := mkChild "apps/v1" "things" "Thing" true method_rolling_recreate.
  Definition cfg : ccfg :=
    mkCfg "cc" "ctl.example.com/v1" "Parent" "parents" true true true sel_everything [kid] true false
          [kid] false false [["spec"]] [].
  Definition pobj (uid : string) (v : Z) (extra : list (string * json)) : json :=
    JObj [("apiVersion", JStr "ctl.example.com/v1"); ("kind", JStr "Parent");
          ("metadata", JObj ([("name", JStr "p"); ("namespace", JStr "ns"); ("uid", JStr uid)] ++ extra));
          ("spec", JObj [("v", JInt v)])].
  Definition parent : json := pobj "uid-p" 2 [].
  Definition parent_deleting : json := pobj "uid-p" 2 [("deletionTimestamp", JStr "2026-01-01T00:00:00Z")].
  Definition parent_reborn : json := pobj "uid-other" 2 [].
  Definition rev_labels : json :=
    JObj [("controller-uid", JStr "uid-p"); (label_key_api_group, JStr "ctl.example.com");
          (label_key_resource, JStr "parents")].
  Definition revo (owners : list (string * json)) : json :=
    JObj [("apiVersion", JStr "metacontroller.k8s.io/v1alpha1"); ("kind", JStr "ControllerRevision");
          ("metadata", JObj ([("labels", rev_labels); ("name", JStr "p-old"); ("namespace", JStr "ns");
                              ("uid", JStr "uid-r1")] ++ owners));
          ("parentPatch", JObj [("spec", JObj [("v", JInt 1)])]);
          ("children", JArr [JObj [("apiGroup", JStr "apps"); ("kind", JStr "Thing");
                                   ("names", JArr [JStr "a"; JStr "b"])]])].
  (* the old revision, orphaned / controlled by the parent *)
  Definition orphan : json := revo [].
  Definition owned : json :=
    revo [("ownerReferences", JArr [json_of_oref (controller_ref "ctl.example.com/v1" "Parent" "p" "uid-p")])].
  Definition cache_of (p r : json) : cache :=
    mkCache (Some p) [(rev_res, [r]); ("fresh-revision-name", [JStr "p-new"])].
  Definition thing (av n img : string) : json :=
    JObj [("apiVersion", JStr av); ("kind", JStr "Thing");
          ("metadata", JObj [("labels", JObj [("controller-uid", JStr "uid-p")]); ("name", JStr n);
                             ("namespace", JStr "ns")]);
          ("spec", JObj [("image", JStr img)])].
  (* the hook: for the parent view with spec.v = 1 the old images (and, when beta, child b under the
     older apiVersion of its group); otherwise the new images *)
  Definition answer_of (body : json) (beta : bool) : json :=
    match nested_get (obj_map (jget "parent" (obj_map body))) ["spec"; "v"] with
    | NFound (JInt 1%Z) =>
        JObj [("children", JArr [thing "apps/v1" "a" "old";
                                 thing (if beta then "apps/v1beta1" else "apps/v1") "b" "old"])]
    | _ => JObj [("children", JArr [thing "apps/v1" "a" "new"; thing "apps/v1" "b" "new"])]
    end.
  Definition e_ok (live : json) (beta : bool) : env := fun _ cl =>
    match cl with
    | CApi q => match q_verb q with
                | VGet => if String.eqb (q_res q) rev_res then AObj orphan else AObj live
                | _ => AObj (q_body q) end
    | CHook _ body => AHook (answer_of body beta)
    end.
  Definition call_sig (cl : call) : verb * string * string :=
    match cl with CApi q => (q_verb q, q_res q, q_name q) | CHook _ _ => (VGet, "hook", "") end.
  (* name and .children of every ControllerRevision written *)
  Definition rev_children_written (h : list (call * answer)) : list (string * json) :=
    flat_map (fun ca => match fst ca with
                        | CApi q => if String.eqb (q_res q) rev_res && negb (verb_eqb (q_verb q) VGet)
                                    then [(q_name q, jget "children" (obj_map (q_body q)))] else []
                        | _ => [] end) h.
  Definition names (l : list string) : json :=
    JArr [JObj [("apiGroup", JStr "apps"); ("kind", JStr "Thing"); ("names", JArr (map JStr l))]].
  Definition R : string := rev_res.
  Definition P : string := "parents.ctl.example.com/v1".
End R3X.

(* C04, revisions: the orphan is adopted after the live recheck; the hypotheses of
   C04_revision_adoption_in_run hold of the PUT and its conclusion is visible in the trace *)
Example C04_revision_adoption_inhabited :
  let body := adopt_edit R3X.cfg R3X.parent R3X.orphan in
  decision R3X.parent (match revision_selector R3X.cfg R3X.parent with Some s => s | None => sel_everything end)
           R3X.orphan = ClAdopt /\
  trace_of (claim_revisions R3X.cfg (R3X.cache_of R3X.parent R3X.orphan) R3X.parent) (R3X.e_ok R3X.parent false) =
    [(parent_get R3X.cfg R3X.parent, AObj R3X.parent);
     (rev_get R3X.parent R3X.orphan, AObj R3X.orphan);
     (rev_put R3X.parent R3X.orphan body, AObj body)] /\
  rev_put R3X.parent R3X.orphan body = CApi (mkRq VUpdate rev_res "ns" "p-old" body "" "") /\
  controller_of R3X.orphan = None /\
  controlled_by body (get_uid R3X.parent) = true /\ controller_count body = 1 /\
  is_deleting R3X.parent = false /\
  result_of (claim_revisions R3X.cfg (R3X.cache_of R3X.parent R3X.orphan) R3X.parent) (R3X.e_ok R3X.parent false) =
    Some [R3X.orphan] /\
  String.eqb (p_res R3X.cfg) rev_res = false.
Proof. vm_compute. repeat split; reflexivity. Qed.

(* a parent pending deletion adopts nothing: no request; a recheck that shows another uid
   (the parent was deleted and recreated) stops the adoption after the one GET *)
Example C04_revision_no_adoption_inhabited :
  is_deleting R3X.parent_deleting = true /\
  trace_of (claim_revisions R3X.cfg (R3X.cache_of R3X.parent_deleting R3X.orphan) R3X.parent_deleting)
           (R3X.e_ok R3X.parent_deleting false) = [] /\
  result_of (claim_revisions R3X.cfg (R3X.cache_of R3X.parent_deleting R3X.orphan) R3X.parent_deleting)
            (R3X.e_ok R3X.parent_deleting false) = Some [] /\
  trace_of (claim_revisions R3X.cfg (R3X.cache_of R3X.parent R3X.orphan) R3X.parent) (R3X.e_ok R3X.parent_reborn false) =
    [(parent_get R3X.cfg R3X.parent, AObj R3X.parent_reborn)] /\
  trace_of (claim_revisions R3X.cfg (R3X.cache_of R3X.parent R3X.orphan) R3X.parent) (R3X.e_ok R3X.parent_deleting false) =
    [(parent_get R3X.cfg R3X.parent, AObj R3X.parent_deleting)] /\
  result_of (claim_revisions R3X.cfg (R3X.cache_of R3X.parent R3X.orphan) R3X.parent) (R3X.e_ok R3X.parent_reborn false) = None.
Proof. vm_compute. repeat split; reflexivity. Qed.

(* the whole sync: rev_not_child holds, the adoption precedes the hooks and follows the recheck *)
Example C04_revision_adoption_in_sync_inhabited :
  rev_not_child R3X.cfg = true /\
  map (fun ca => R3X.call_sig (fst ca)) (trace_of (sync_r R3X.cfg (R3X.cache_of R3X.parent R3X.orphan)) (R3X.e_ok R3X.parent false)) =
    [(VGet, R3X.P, "p"); (VGet, R3X.R, "p-old"); (VUpdate, R3X.R, "p-old");
     (VGet, "hook", ""); (VGet, "hook", "");
     (VCreate, R3X.R, "p-new"); (VUpdate, R3X.R, "p-old");
     (VCreate, "things.apps/v1", "a"); (VCreate, "things.apps/v1", "b");
     (VGet, R3X.P, "p"); (VUpdateStatus, R3X.P, "p")] /\
  result_of (sync_r R3X.cfg (R3X.cache_of R3X.parent R3X.orphan)) (R3X.e_ok R3X.parent false) = SDone.
Proof. vm_compute. repeat split; reflexivity. Qed.

(* C09, the whole hook phase.  Old revision p-old (spec.v = 1) lists a and b, the parent moved
   to spec.v = 2; nothing is observed yet, so one child (a) moves to the new revision and b stays.
   Same apiVersion in both answers: b is the OLD revision's object.
   The old answer has b at apps/v1beta1: b is the NEW revision's object although the revision
   written for p-old in this very run still lists b  (reachable instance of the refutation) *)
Example C09_children_follow_their_revisions_inhabited :
  cache_revisions_gk_unique (R3X.cache_of R3X.parent R3X.owned) = true /\
  (exists r, result_of (sync_revisions_rolling R3X.cfg (R3X.cache_of R3X.parent R3X.owned) R3X.parent [] [])
                       (R3X.e_ok R3X.parent false) = HRResp r /\
             hr_children r = [Some (R3X.thing "apps/v1" "a" "new"); Some (R3X.thing "apps/v1" "b" "old")]) /\
  (exists r, result_of (sync_revisions_rolling R3X.cfg (R3X.cache_of R3X.parent R3X.owned) R3X.parent [] [])
                       (R3X.e_ok R3X.parent true) = HRResp r /\
             hr_children r = [Some (R3X.thing "apps/v1" "a" "new"); Some (R3X.thing "apps/v1" "b" "new")]) /\
  R3X.rev_children_written (trace_of (sync_revisions_rolling R3X.cfg (R3X.cache_of R3X.parent R3X.owned) R3X.parent [] [])
                                     (R3X.e_ok R3X.parent true)) =
    [("p-new", R3X.names ["a"]); ("p-old", R3X.names ["b"])] /\
  R3X.rev_children_written (trace_of (sync_revisions_rolling R3X.cfg (R3X.cache_of R3X.parent R3X.owned) R3X.parent [] [])
                                     (R3X.e_ok R3X.parent false)) =
    [("p-new", R3X.names ["a"]); ("p-old", R3X.names ["b"])].
Proof.
  split; [vm_compute; reflexivity|].
  split; [eexists; split; [vm_compute; reflexivity|vm_compute; reflexivity]|].
  split; [eexists; split; [vm_compute; reflexivity|vm_compute; reflexivity]|].
  vm_compute. split; reflexivity.
Qed.

Print Assumptions update_with_retries_hist.
Print Assumptions C04_revision_adopt_first_asks.
Print Assumptions C04_revision_adopt_refused_no_call.
Print Assumptions claim_rev_one_since.
Print Assumptions C04_revision_adopt_only_after_recheck.
Print Assumptions C04_revision_adopt_after_recheck_in_run.
Print Assumptions C04_revision_one_recheck_per_manager.
Print Assumptions C04_revision_one_recheck_in_run.
Print Assumptions C04_claim_revisions_adopt_only_after_recheck.
Print Assumptions C04_claim_revisions_one_recheck.
Print Assumptions C04_claim_revisions_one_recheck_in_run.
Print Assumptions C04_deleting_parent_claims_no_revision.
Print Assumptions C04_deleting_parent_claims_no_revision_run.
Print Assumptions C04_revision_adoption_in_run.
Print Assumptions C04_revision_adoption_in_sync.
Print Assumptions C04_revision_adoption_in_sync_r.
Print Assumptions C04_revision_adoption_in_sync_run.
Print Assumptions C04_revision_adoption_inhabited.
Print Assumptions C04_revision_no_adoption_inhabited.
Print Assumptions C04_revision_adoption_in_sync_inhabited.
Print Assumptions C09_children_follow_their_revisions_inhabited.
