(* ApplyListMapLaws.v — containment, removal and preservation for the list-map
   case of merge. *)
From MC Require Import Generated Model.Json Model.Apply Model.ApplyLaws.
From MC Require Import Proofs.AssocLemmas Proofs.AssocLemmas2 Proofs.ApplyProofs Proofs.ApplyBase.
From MC Require Import Proofs.ApplyCore Proofs.ApplyListMap Proofs.ApplyListMapCtx.
Local Open Scope list_scope.

(* ---------- unfolding the array cases of the laws ---------- *)
Definition contains_items (key : string) (dl rl : list json) : bool :=
  forallb (fun it => match item_key key it with
                     | None => false
                     | Some k => existsb (fun it' => match item_key key it' with
                                                     | Some k' => String.eqb k k' && containsb it it'
                                                     | None => false end) rl
                     end) dl.

Lemma containsb_arr_arr dl rl :
  containsb (JArr dl) (JArr rl) =
  jeqb (JArr dl) (JArr rl) ||
  (all_objs rl && existsb (fun key => contains_items key dl rl) known_merge_keys).
Proof.
  reflexivity.
Qed.

Definition removed_items (key : string) (ol ll rl dl : list json) : bool :=
  forallb (fun it => match item_key key it with
                     | Some k => removedb it (find_item_or_null key k ol) (find_item_or_null key k ll)
                                             (find_item_or_null key k rl)
                     | None => true end) dl.

Lemma removedb_arr_arr dl ol l rl :
  removedb (JArr dl) (JArr ol) l (JArr rl) =
  match detect_key ol (arr_or_nil l) dl with
  | Some key =>
      forallb (fun k => mem_str k (keys_of key dl) || negb (mem_str k (keys_of key rl)))
              (keys_of key (arr_or_nil l)) &&
      removed_items key ol (arr_or_nil l) rl dl
  | None => true
  end.
Proof.
  reflexivity.
Qed.

Definition preserved_items (key : string) (ol ll rl dl : list json) : bool :=
  forallb (fun it => match item_key key it with
                     | Some k => preservedb it (find_item_or_null key k ol) (find_item_or_null key k ll)
                                               (find_item_or_null key k rl)
                     | None => true end) dl.

Lemma preservedb_arr_arr dl ol l rl :
  preservedb (JArr dl) (JArr ol) l (JArr rl) =
  let ll := arr_or_nil l in
  match detect_key ol ll dl with
  | Some key =>
      let ko := keys_of key ol in
      let kr := keys_of key rl in
      let kd := keys_of key dl in
      let kl := keys_of key ll in
      forallb (fun it => match item_key key it with
                         | Some k => mem_str k kl || mem_str k kd ||
                                     match find_item key k rl with
                                     | Some it' => jeqb it it' | None => false end
                         | None => true end) ol &&
      (if nodup_str ko && nodup_str kd then
         strs_eqb kr (filter (fun k => mem_str k kr) ko ++ filter (fun k => negb (mem_str k ko)) kd)
       else true) &&
      preserved_items key ol ll rl dl
  | None => true
  end.
Proof.
  reflexivity.
Qed.

(* ---------- what H and a detected key give ---------- *)
Definition carries (key : string) (l : list json) : Prop :=
  forall m, In (JObj m) l -> ahas key m = true /\ scalar_key (jget key m) = true.

Record lm_facts (key : string) (ol ll sl : list json) : Prop := {
  lf_known : In key known_merge_keys;
  lf_objs_o : all_objs ol = true;
  lf_objs_l : all_objs ll = true;
  lf_objs_s : all_objs sl = true;
  lf_car_o : carries key ol;
  lf_car_l : carries key ll;
  lf_car_s : carries key sl;
  lf_nd_o : nodup_str (keys_of key ol) = true;
  lf_nd_l : nodup_str (keys_of key ll) = true;
  lf_nd_s : nodup_str (keys_of key sl) = true
}.

Lemma lm_facts_of key ol ll sl :
  detect_key ol ll sl = Some key ->
  list_wf ol = true -> list_wf ll = true -> list_wf sl = true ->
  lm_facts key ol ll sl.
Proof.
  intros E Wo Wl Ws.
  destruct (detect_key_carries _ _ _ _ E) as [Hk Hc].
  destruct (detect_all_objs _ _ _ _ E) as (Oo & Ol & Os).
  assert (Co : forall m, In (JObj m) ol -> ahas key m = true).
  { intros m Hm. apply Hc. apply in_or_app. now left. }
  assert (Cl : forall m, In (JObj m) ll -> ahas key m = true).
  { intros m Hm. apply Hc. apply in_or_app. right. apply in_or_app. now left. }
  assert (Cs : forall m, In (JObj m) sl -> ahas key m = true).
  { intros m Hm. apply Hc. apply in_or_app. right. apply in_or_app. now right. }
  destruct (list_wf_key _ _ Wo Hk Co) as [No So].
  destruct (list_wf_key _ _ Wl Hk Cl) as [Nl Sl].
  destruct (list_wf_key _ _ Ws Hk Cs) as [Ns Ss].
  constructor; auto; intros m Hm; split; auto.
Qed.

Lemma Hb'_arr_inv sl ol l key :
  detect_key ol (arr_or_nil l) sl = Some key -> Hb' (JArr sl) (JArr ol) l = true ->
  list_wf ol = true /\ list_wf (arr_or_nil l) = true /\ list_wf sl = true /\
  cross_ok ol sl = true /\ cross_ok ol (arr_or_nil l) = true /\ cross_ok (arr_or_nil l) sl = true /\
  Hb'_items key ol (arr_or_nil l) sl = true.
Proof.
  intros E H. rewrite Hb'_arr in H. cbv zeta in H. cbn [arr_or_nil] in H. rewrite E in H.
  do 6 (apply andb_split in H as [H ?]). repeat split; auto.
Qed.

Lemma Hb'_items_In key ol ll sl s k :
  Hb'_items key ol ll sl = true -> In s sl -> item_key key s = Some k ->
  Hb' s (find_item_or_null key k ol) (find_item_or_null key k ll) = true.
Proof.
  unfold Hb'_items. intros H Hin Hk. pose proof (forallb_In _ _ _ H Hin) as H1.
  cbv beta in H1. now rewrite Hk in H1.
Qed.

Lemma item_key_of_obj key m : item_key key (JObj m) = Some (smk (jget key m)).
Proof. reflexivity. Qed.

Lemma wf_find_item_or_null key k l :
  wf_json (JArr l) = true -> wf_json (find_item_or_null key k l) = true.
Proof.
  intros H. unfold find_item_or_null. destruct (find_item key k l) eqn:E; [|reflexivity].
  apply find_item_Some in E as [Hin _]. eapply wf_arr_In; eauto.
Qed.

Lemma wf_arr_or_nil l : wf_json l = true -> wf_json (JArr (arr_or_nil l)) = true.
Proof. destruct l; auto. Qed.

(* ---------- the laws on the rebuilt list ---------- *)
Section LMLaws.
  Variables (key : string) (ol ll sl : list json) (dmap lmap merged : amap).
  Hypothesis F : lm_facts key ol ll sl.
  Hypothesis Hdmap : make_list_map key ol [] = Ok dmap.
  Hypothesis Hlmap : make_list_map key ll [] = Ok lmap.
  Hypothesis Hmerged :
    mlm_aux key (remove_last dmap (akeys lmap) (des_has_key key sl)) lmap sl
            (remove_last dmap (akeys lmap) (des_has_key key sl)) = Ok merged.
  (* containment holds for the items *)
  Hypothesis Hcontain : forall s k r,
    In s sl -> item_key key s = Some k ->
    merge s (find_item_or_null key k ol) (find_item_or_null key k ll) = Ok r ->
    containsb s r = true.

  Let rl := lm_res key ol sl merged.
  Let Hko := lf_nd_o _ _ _ _ F.
  Let Hkl := lf_nd_l _ _ _ _ F.
  Let Hkd := lf_nd_s _ _ _ _ F.

  Lemma lm_cons : forall s k r,
    In s sl -> item_key key s = Some k ->
    merge s (find_item_or_null key k ol) (find_item_or_null key k ll) = Ok r ->
    item_key key r = Some k.
  Proof.
    intros s k r Hin Hk Hm.
    destruct (all_objs_In _ _ (lf_objs_s _ _ _ _ F) Hin) as [ms ->].
    destruct (lf_car_s _ _ _ _ F ms Hin) as [Hc Hs].
    eapply contains_item_key; eauto.
  Qed.

  Let R_find_des := res_find_des key ol ll sl dmap lmap merged Hko Hkl Hkd Hdmap Hlmap Hmerged lm_cons.
  Let R_mem := res_mem key ol ll sl dmap lmap merged Hko Hkl Hkd Hdmap Hlmap Hmerged lm_cons.
  Let R_keys := res_keys key ol ll sl dmap lmap merged Hko Hkl Hkd Hdmap Hlmap Hmerged lm_cons.
  Let R_find := res_find key ol ll sl dmap lmap merged Hko Hkl Hkd Hdmap Hlmap Hmerged lm_cons.
  Let R_objs := res_all_objs key ol ll sl dmap lmap merged Hko Hkl Hkd Hdmap Hlmap Hmerged.
  Let C_other := ctx_merged_other key ol ll sl dmap lmap merged Hko Hkl Hdmap Hlmap Hmerged.
  Let C_ahas := ctx_ahas_merged key ol ll sl dmap lmap merged Hko Hkl Hdmap Hlmap Hmerged.

  Lemma lm_contain_res : containsb (JArr sl) (JArr rl) = true.
  Proof.
    rewrite containsb_arr_arr. apply Bool.orb_true_iff. right.
    apply Bool.andb_true_iff. split.
    - apply R_objs; apply F.
    - apply existsb_exists. exists key. split; [apply F|].
      unfold contains_items. apply forallb_forall. intros s Hin.
      destruct (all_objs_In _ _ (lf_objs_s _ _ _ _ F) Hin) as [ms ->].
      rewrite item_key_of_obj.
      destruct (R_find_des _ _ Hin (item_key_of_obj key ms)) as (r & Hr & _ & Hrin).
      apply existsb_exists. exists r. split; [exact Hrin|].
      rewrite (lm_cons _ _ _ Hin (item_key_of_obj key ms) Hr).
      rewrite eqb_refl'. cbn [andb]. eapply Hcontain; eauto. reflexivity.
  Qed.

  Lemma lm_removal_res :
    (forall s k r, In s sl -> item_key key s = Some k ->
       merge s (find_item_or_null key k ol) (find_item_or_null key k ll) = Ok r ->
       removedb s (find_item_or_null key k ol) (find_item_or_null key k ll) r = true) ->
    forallb (fun k => mem_str k (keys_of key sl) || negb (mem_str k (keys_of key rl)))
            (keys_of key ll) &&
    removed_items key ol ll rl sl = true.
  Proof.
    intros IH. apply Bool.andb_true_iff. split.
    - apply forallb_forall. intros k Hk. apply mem_str_In in Hk.
      destruct (mem_str k (keys_of key sl)) eqn:Ed; [reflexivity|]. cbn [orb].
      unfold rl. rewrite R_mem, C_ahas, Hk, Ed. cbn.
      now rewrite Bool.andb_false_r.
    - unfold removed_items. apply forallb_forall. intros s Hin.
      destruct (item_key key s) as [k|] eqn:Ek; [|reflexivity].
      destruct (R_find_des _ _ Hin Ek) as (r & Hr & Hf & _).
      unfold find_item_or_null at 3. fold rl in Hf. rewrite Hf. eapply IH; eauto.
  Qed.

  Lemma lm_preserv_res :
    wf_json (JArr ol) = true ->
    (forall s k r, In s sl -> item_key key s = Some k ->
       merge s (find_item_or_null key k ol) (find_item_or_null key k ll) = Ok r ->
       preservedb s (find_item_or_null key k ol) (find_item_or_null key k ll) r = true) ->
    let ko := keys_of key ol in
    let kr := keys_of key rl in
    let kd := keys_of key sl in
    let kl := keys_of key ll in
    forallb (fun it => match item_key key it with
                       | Some k => mem_str k kl || mem_str k kd ||
                                   match find_item key k rl with
                                   | Some it' => jeqb it it' | None => false end
                       | None => true end) ol &&
    (if nodup_str ko && nodup_str kd then
       strs_eqb kr (filter (fun k => mem_str k kr) ko ++ filter (fun k => negb (mem_str k ko)) kd)
     else true) &&
    preserved_items key ol ll rl sl = true.
  Proof.
    intros Hwo IH. cbv zeta.
    apply Bool.andb_true_iff. split; [apply Bool.andb_true_iff; split|].
    - apply forallb_forall. intros it Hin.
      destruct (item_key key it) as [k|] eqn:Ek; [|reflexivity].
      destruct (mem_str k (keys_of key ll)) eqn:El; [reflexivity|].
      destruct (mem_str k (keys_of key sl)) eqn:Ed; [reflexivity|]. cbn [orb].
      assert (Hl : alookup k merged = Some it).
      { rewrite (C_other k Ed), El. now apply find_item_nodup. }
      assert (Ho : mem_str k (keys_of key ol) = true) by (apply mem_keys_of; eauto).
      unfold rl. rewrite (R_find k it Hl) by (now rewrite Ho).
      apply jeqb_refl. eapply wf_arr_In; eauto.
    - destruct (nodup_str (keys_of key ol) && nodup_str (keys_of key sl)); [|reflexivity].
      unfold rl. rewrite R_keys at 1.
      rewrite (filter_ext_in (fun k => mem_str k (keys_of key (lm_res key ol sl merged)))
                             (fun k => ahas k merged) (keys_of key ol)).
      + apply strs_eqb_refl.
      + intros k Hk. apply mem_str_In in Hk. rewrite R_mem, Hk. cbn [negb andb].
        now rewrite Bool.andb_false_r, Bool.orb_false_r.
    - unfold preserved_items. apply forallb_forall. intros s Hin.
      destruct (item_key key s) as [k|] eqn:Ek; [|reflexivity].
      destruct (R_find_des _ _ Hin Ek) as (r & Hr & Hf & _).
      unfold find_item_or_null at 3. fold rl in Hf. rewrite Hf. eapply IH; eauto.
  Qed.
End LMLaws.

(* ---------- set-up: from the hypotheses of the theorems to the section ---------- *)
Lemma lm_setup sl ol l key r :
  detect_key ol (arr_or_nil l) sl = Some key ->
  Hb' (JArr sl) (JArr ol) l = true ->
  merge (JArr sl) (JArr ol) l = Ok r ->
  exists dmap lmap merged,
    lm_facts key ol (arr_or_nil l) sl /\
    make_list_map key ol [] = Ok dmap /\
    make_list_map key (arr_or_nil l) [] = Ok lmap /\
    mlm_aux key (remove_last dmap (akeys lmap) (des_has_key key sl)) lmap sl
            (remove_last dmap (akeys lmap) (des_has_key key sl)) = Ok merged /\
    r = JArr (lm_res key ol sl merged).
Proof.
  intros E Hh Hm.
  destruct (Hb'_arr_inv _ _ _ _ E Hh) as (Wo & Wl & Ws & _).
  pose proof (lm_facts_of _ _ _ _ E Wo Wl Ws) as F.
  destruct (merge_lm_inv _ _ _ _ _ E Hm) as (dmap & lmap & merged & l1 & a & l2 & H1 & H2 & H3 & H4 & H5 & ->).
  exists dmap, lmap, merged.
  split; [exact F|]. split; [exact H1|]. split; [exact H2|]. split; [exact H3|].
  f_equal.
  apply (ctx_result key ol (arr_or_nil l) sl dmap lmap merged
           (lf_nd_o _ _ _ _ F) (lf_nd_l _ _ _ _ F) (lf_nd_s _ _ _ _ F) H1 H2 H3 l1 a l2 H4 H5).
Qed.

(* ---------- the list-map cases, in the shape the core lemmas want ---------- *)
Lemma containment_lm sl ol l key r :
  Forall (fun s => forall o l r, self_wf s = true -> Hb' s o l = true -> wf_json s = true ->
                                 merge s o l = Ok r -> containsb s r = true) sl ->
  self_wf (JArr sl) = true -> Hb' (JArr sl) (JArr ol) l = true -> wf_json (JArr sl) = true ->
  detect_key ol (arr_or_nil l) sl = Some key ->
  merge (JArr sl) (JArr ol) l = Ok r -> containsb (JArr sl) r = true.
Proof.
  intros IH Hs Hh Hw E Hm.
  destruct (lm_setup _ _ _ _ _ E Hh Hm) as (dmap & lmap & merged & F & H1 & H2 & H3 & ->).
  destruct (Hb'_arr_inv _ _ _ _ E Hh) as (_ & _ & _ & _ & _ & _ & Hit).
  eapply lm_contain_res; eauto.
  intros s k r Hin Hk Hr. rewrite Forall_forall in IH. eapply IH; eauto.
  - rewrite self_wf_arr in Hs. apply andb_split in Hs as [_ Hs]. apply (forallb_In _ _ _ Hs Hin).
  - eapply Hb'_items_In; eauto.
  - eapply wf_arr_In; eauto.
Qed.
