(* ApplyListMapCtx.v — the state of a successful list-map merge, described in
   closed form: the three maps and the rebuilt list. *)
From MC Require Import Generated Model.Json Model.Apply Model.ApplyLaws.
From MC Require Import Proofs.AssocLemmas Proofs.AssocLemmas2 Proofs.ApplyProofs Proofs.ApplyBase.
From MC Require Import Proofs.ApplyCore Proofs.ApplyListMap.
From Coq Require Import Lia.
Local Open Scope list_scope.

Lemma find_item_or_null_alookup key k l m :
  (forall k, alookup k m = find_item key k l) -> jget k m = find_item_or_null key k l.
Proof. intros H. unfold jget, find_item_or_null. now rewrite H. Qed.

Section LMCtx.
  Variables (key : string) (ol ll sl : list json) (dmap lmap merged : amap).
  Hypothesis Hko : nodup_str (keys_of key ol) = true.
  Hypothesis Hkl : nodup_str (keys_of key ll) = true.
  Hypothesis Hkd : nodup_str (keys_of key sl) = true.
  Hypothesis Hdmap : make_list_map key ol [] = Ok dmap.
  Hypothesis Hlmap : make_list_map key ll [] = Ok lmap.
  Let dm1 := remove_last dmap (akeys lmap) (des_has_key key sl).
  Hypothesis Hmerged : mlm_aux key dm1 lmap sl dm1 = Ok merged.

  Let ko := keys_of key ol.
  Let kl := keys_of key ll.
  Let kd := keys_of key sl.

  Lemma ctx_dmap k : alookup k dmap = find_item key k ol.
  Proof. now apply make_list_map_nil. Qed.

  Lemma ctx_lmap k : alookup k lmap = find_item key k ll.
  Proof. now apply make_list_map_nil. Qed.

  Lemma ctx_jget_dmap k : jget k dmap = find_item_or_null key k ol.
  Proof. apply find_item_or_null_alookup. apply ctx_dmap. Qed.

  Lemma ctx_jget_lmap k : jget k lmap = find_item_or_null key k ll.
  Proof. apply find_item_or_null_alookup. apply ctx_lmap. Qed.

  Lemma ctx_lmap_mem k : mem_str k (akeys lmap) = mem_str k kl.
  Proof.
    rewrite mem_str_akeys. unfold ahas. rewrite ctx_lmap. apply find_item_is_some.
  Qed.

  Lemma ctx_dm1 k :
    alookup k dm1 = if mem_str k kl && negb (mem_str k kd) then None else find_item key k ol.
  Proof.
    unfold dm1. rewrite alookup_remove_last, ctx_lmap_mem, des_has_key_mem, ctx_dmap. reflexivity.
  Qed.

  Lemma ctx_jget_dm1_des k : mem_str k kd = true -> jget k dm1 = find_item_or_null key k ol.
  Proof.
    intros H. unfold jget, find_item_or_null. rewrite ctx_dm1. fold kd. rewrite H.
    now rewrite Bool.andb_false_r.
  Qed.

  Lemma ctx_merged_des s k :
    In s sl -> item_key key s = Some k ->
    exists r, merge s (find_item_or_null key k ol) (find_item_or_null key k ll) = Ok r /\
              alookup k merged = Some r.
  Proof.
    intros Hin Hk.
    destruct (mlm_aux_In _ _ _ _ _ _ Hmerged Hkd s k Hin Hk) as (r & Hr & Hl).
    exists r. split; [|exact Hl].
    rewrite ctx_jget_dm1_des in Hr by (apply mem_keys_of; eauto).
    now rewrite ctx_jget_lmap in Hr.
  Qed.

  Lemma ctx_merged_other k :
    mem_str k kd = false ->
    alookup k merged = if mem_str k kl then None else find_item key k ol.
  Proof.
    intros H. rewrite (mlm_aux_other _ _ _ _ _ _ k Hmerged H). rewrite ctx_dm1. fold kd.
    rewrite H. now rewrite Bool.andb_true_r.
  Qed.

  Lemma ctx_ahas_merged k :
    ahas k merged = (negb (mem_str k kl && negb (mem_str k kd)) && mem_str k ko) || mem_str k kd.
  Proof.
    rewrite (mlm_aux_ahas _ _ _ _ _ _ k Hmerged). f_equal.
    unfold ahas. rewrite ctx_dm1. fold kl kd.
    destruct (mem_str k kl && negb (mem_str k kd)); [reflexivity|].
    cbn [negb andb]. apply find_item_is_some.
  Qed.

  Lemma ctx_ahas_merged_des k : mem_str k kd = true -> ahas k merged = true.
  Proof. intros H. rewrite ctx_ahas_merged, H. now rewrite Bool.orb_true_r. Qed.

  (* the merge results keep their merge key *)
  Hypothesis Hcons : forall s k r,
    In s sl -> item_key key s = Some k ->
    merge s (find_item_or_null key k ol) (find_item_or_null key k ll) = Ok r ->
    item_key key r = Some k.

  Lemma ctx_consistent k v : alookup k merged = Some v -> item_key key v = Some k.
  Proof.
    intros H. destruct (mem_str k kd) eqn:E.
    - apply mem_keys_of in E as (s & Hin & Hk).
      destruct (ctx_merged_des s k Hin Hk) as (r & Hr & Hl).
      rewrite Hl in H. inversion H; subst v. eapply Hcons; eauto.
    - rewrite (ctx_merged_other k E) in H. destruct (mem_str k kl); [discriminate|].
      now apply find_item_Some in H.
  Qed.

  (* ----- the rebuilt list ----- *)
  Definition lm_res : list json :=
    rd_items key ol merged ++ rs_items key sl merged (fun k => mem_str k ko).

  Lemma ctx_result l1 a l2 :
    rebuild_dest key ol merged [] = Ok (l1, a) -> rebuild_des key sl merged a = Ok l2 ->
    l1 ++ l2 = lm_res.
  Proof.
    intros H1 H2. apply rebuild_dest_spec in H1 as [-> Ha].
    apply rebuild_des_spec in H2; [|exact Hkd]. subst l2. unfold lm_res. f_equal.
    apply rs_items_ext. intros k Hk. rewrite Ha. cbn [mem_str orb].
    fold ko. now rewrite (ctx_ahas_merged_des k Hk), Bool.andb_true_r.
  Qed.

  Lemma keys_rd_items l :
    keys_of key (rd_items key l merged) = filter (fun k => ahas k merged) (keys_of key l).
  Proof.
    induction l as [|it l IH]; [reflexivity|].
    unfold rd_items. cbn [flat_map]. fold (rd_items key l merged).
    rewrite keys_of_app, IH, keys_of_cons.
    destruct (item_key key it) as [k|]; [|reflexivity].
    cbn [filter]. unfold ahas. destruct (alookup k merged) as [v|] eqn:E; [|reflexivity].
    rewrite keys_of_cons. rewrite (ctx_consistent k v E). reflexivity.
  Qed.

  Lemma keys_rs_items l skip :
    (forall k, mem_str k (keys_of key l) = true -> ahas k merged = true) ->
    keys_of key (rs_items key l merged skip) = filter (fun k => negb (skip k)) (keys_of key l).
  Proof.
    induction l as [|s l IH]; intros H; [reflexivity|].
    unfold rs_items. cbn [flat_map]. fold (rs_items key l merged skip).
    rewrite keys_of_app, keys_of_cons.
    assert (IH' : keys_of key (rs_items key l merged skip) =
                  filter (fun k => negb (skip k)) (keys_of key l)).
    { apply IH. intros k Hk. apply H. rewrite keys_of_cons. destruct (item_key key s); auto.
      cbn [mem_str]. rewrite Hk. now rewrite Bool.orb_true_r. }
    rewrite IH'. destruct (item_key key s) as [k|] eqn:Es; [|reflexivity].
    cbn [filter]. destruct (skip k); cbn [negb]; [reflexivity|].
    assert (Hh : ahas k merged = true).
    { apply H. rewrite keys_of_cons, Es. cbn. now rewrite eqb_refl'. }
    apply ahas_true_alookup in Hh as [v Hv]. unfold jget. rewrite Hv.
    rewrite keys_of_cons. rewrite (ctx_consistent k v Hv). reflexivity.
  Qed.

  Lemma res_keys :
    keys_of key lm_res =
    filter (fun k => ahas k merged) ko ++ filter (fun k => negb (mem_str k ko)) kd.
  Proof.
    unfold lm_res. rewrite keys_of_app, keys_rd_items, keys_rs_items; [reflexivity|].
    apply ctx_ahas_merged_des.
  Qed.

  Lemma res_mem k :
    mem_str k (keys_of key lm_res) =
    (mem_str k ko && ahas k merged) || (mem_str k kd && negb (mem_str k ko)).
  Proof. rewrite res_keys, mem_str_app, !mem_str_filter. reflexivity. Qed.

  Lemma res_nodup : nodup_str (keys_of key lm_res) = true.
  Proof.
    rewrite res_keys. apply nodup_str_NoDup. apply NoDup_app'.
    - apply NoDup_filter. now apply nodup_str_NoDup.
    - apply NoDup_filter. now apply nodup_str_NoDup.
    - intros x H1 H2. apply filter_In in H1 as [H1 _]. apply filter_In in H2 as [_ H2].
      apply mem_str_In in H1. fold ko in H1. rewrite H1 in H2. discriminate.
  Qed.

  Lemma res_In v :
    In v lm_res <->
    exists k, mem_str k ko || mem_str k kd = true /\ alookup k merged = Some v.
  Proof.
    unfold lm_res. rewrite in_app_iff. split.
    - intros [H|H].
      + unfold rd_items in H. apply in_flat_map in H as (it & Hin & Hv).
        destruct (item_key key it) as [k|] eqn:Ek; [|destruct Hv].
        destruct (alookup k merged) as [v'|] eqn:El; [|destruct Hv].
        destruct Hv as [->|[]]. exists k. split; auto.
        assert (Hm : mem_str k ko = true) by (apply mem_keys_of; eauto). now rewrite Hm.
      + unfold rs_items in H. apply in_flat_map in H as (s & Hin & Hv).
        destruct (item_key key s) as [k|] eqn:Ek; [|destruct Hv].
        destruct (mem_str k ko) eqn:Eo; [destruct Hv|]. destruct Hv as [<-|[]].
        assert (Hm : mem_str k kd = true) by (apply mem_keys_of; eauto).
        exists k. rewrite Hm, Bool.orb_true_r. split; auto.
        destruct (ahas_true_alookup _ _ (ctx_ahas_merged_des k Hm)) as [v Hv].
        unfold jget. now rewrite Hv.
    - intros (k & Hk & Hl). destruct (mem_str k ko) eqn:Eo.
      + left. apply mem_keys_of in Eo as (it & Hin & Hik).
        unfold rd_items. apply in_flat_map. exists it. split; auto. rewrite Hik, Hl. now left.
      + right. cbn [orb] in Hk. apply mem_keys_of in Hk as (s & Hin & Hik).
        unfold rs_items. apply in_flat_map. exists s. split; auto. rewrite Hik. fold ko. rewrite Eo.
        left. unfold jget. now rewrite Hl.
  Qed.

  Lemma res_find k v :
    alookup k merged = Some v -> mem_str k ko || mem_str k kd = true ->
    find_item key k lm_res = Some v.
  Proof.
    intros Hl Hk. apply find_item_nodup.
    - apply res_nodup.
    - apply res_In. eauto.
    - now apply ctx_consistent.
  Qed.

  Lemma res_find_des s k :
    In s sl -> item_key key s = Some k ->
    exists r, merge s (find_item_or_null key k ol) (find_item_or_null key k ll) = Ok r /\
              find_item key k lm_res = Some r /\ In r lm_res.
  Proof.
    intros Hin Hk. destruct (ctx_merged_des s k Hin Hk) as (r & Hr & Hl).
    assert (Hm : mem_str k kd = true) by (apply mem_keys_of; eauto).
    exists r. split; [exact Hr|]. split.
    - apply res_find; auto. now rewrite Hm, Bool.orb_true_r.
    - apply res_In. exists k. now rewrite Hm, Bool.orb_true_r.
  Qed.

  Lemma res_all_objs : all_objs ol = true -> all_objs sl = true -> all_objs lm_res = true.
  Proof.
    intros Ho Hs. unfold all_objs. apply forallb_forall. intros v Hv.
    apply res_In in Hv as (k & _ & Hl).
    destruct (mem_str k kd) eqn:E.
    - apply mem_keys_of in E as (s & Hin & Hk).
      destruct (ctx_merged_des s k Hin Hk) as (r & Hr & Hl').
      rewrite Hl' in Hl. inversion Hl; subst v.
      destruct (all_objs_In _ _ Hs Hin) as [ms ->].
      apply merge_obj_result in Hr as [rm ->]. reflexivity.
    - rewrite (ctx_merged_other k E) in Hl. destruct (mem_str k kl); [discriminate|].
      apply find_item_Some in Hl as [Hin _].
      destruct (all_objs_In _ _ Ho Hin) as [m ->]. reflexivity.
  Qed.
End LMCtx.
