(* C01Fixpoint.v — C01: the object an in-place update produces, and the object
   a create produces, are fixpoints of ApplyUpdate for the same desired
   object — also after the API server changed the system metadata. *)
From MC Require Import Generated Model.Json Model.Apply Model.ApplyLaws.
From MC Require Import Proofs.AssocLemmas Proofs.AssocLemmas2 Proofs.ApplyProofs Proofs.ApplyBase
                       Proofs.ApplyCore Proofs.ApplyUpdateProofs Proofs.ApplyWf Proofs.ApplyIdemCore Proofs.ApplyIdem
                       Proofs.ApplyIdemLM Proofs.C01Frame.
Local Open Scope string_scope.
Local Open Scope list_scope.

(* ------------------------------------------------------------------ *)
(* side conditions on the desired object and on the observed one       *)
(* ------------------------------------------------------------------ *)
Notation stringyb := (fun kv : string * json => is_stringy (snd kv)).

(* the desired object leaves the server-owned fields alone: no status, metadata
   absent or an object without system fields and without ownerReferences *)
Definition no_server_fields (m : amap) : bool :=
  negb (ahas "status" m) &&
  match alookup "metadata" m with
  | None => true
  | Some (JObj mm) => forallb (fun f => negb (ahas f mm)) ("ownerReferences" :: object_meta_system_fields)
  | Some _ => false
  end.

(* its annotations are absent or a map of strings without the last-applied record *)
Definition clean_annots (m : amap) : bool :=
  match nested_get m ["metadata"; "annotations"] with
  | NFound (JObj a) => forallb stringyb a && negb (ahas last_applied_annotation a)
  | NMissing => true
  | _ => false
  end.

(* annotations of the observed object: absent or a map of strings *)
Definition stringy_annots (m : amap) : bool :=
  match nested_get m ["metadata"; "annotations"] with
  | NFound (JObj a) => forallb stringyb a
  | NMissing => true
  | _ => false
  end.

Definition desired_ok (m : amap) : bool := no_server_fields m && clean_annots m.

(* ------------------------------------------------------------------ *)
(* building agreement from facts about metadata                        *)
(* ------------------------------------------------------------------ *)
Definition meta_agree (dmeta am bm : amap) : Prop :=
  forall f fv, In (f, fv) dmeta ->
    alookup f am = alookup f bm \/
    (f = "annotations" /\
     exists dann aann X,
       fv = JObj dann /\ ahas last_applied_annotation dann = false /\
       alookup f am = Some (JObj aann) /\
       alookup f bm = Some (JObj (aset last_applied_annotation X aann))).

Lemma agree_meta dm a b :
  nodup_str (akeys dm) = true ->
  ahas "status" dm = false ->
  (forall k, k <> "metadata" -> k <> "status" -> alookup k a = alookup k b) ->
  match alookup "metadata" dm with
  | None => True
  | Some (JObj dmeta) =>
      exists am bm, alookup "metadata" a = Some (JObj am) /\ alookup "metadata" b = Some (JObj bm) /\
                    meta_agree dmeta am bm
  | Some _ => False
  end ->
  agree (JObj dm) (JObj a) (JObj b).
Proof.
  intros Hnd Hst Hother Hmeta. apply agree_obj. intros k dv Hin.
  destruct (string_dec k "metadata") as [->|Hk].
  - rewrite (alookup_nodup_In _ _ _ Hnd Hin) in Hmeta.
    destruct dv as [| | | | | | |dmeta]; try contradiction.
    destruct Hmeta as (am & bm & Ha & Hb & Hag). right.
    exists (JObj am), (JObj bm). split; [exact Ha|]. split; [exact Hb|].
    apply agree_obj. intros f fv Hf.
    destruct (Hag f fv Hf) as [Heq|(-> & dann & aann & X & -> & Hla & Haa & Hbb)]; [now left|].
    right. exists (JObj aann), (JObj (aset last_applied_annotation X aann)).
    split; [exact Haa|]. split; [exact Hbb|].
    apply agree_obj. intros x xv Hx. left.
    rewrite alookup_aset_other; [reflexivity|].
    intros ->. apply ahas_nodup_In in Hx. congruence.
  - left. apply Hother; [exact Hk|].
    intros ->. apply ahas_nodup_In in Hin. congruence.
Qed.

(* ------------------------------------------------------------------ *)
(* string maps through the merge                                       *)
(* ------------------------------------------------------------------ *)
Lemma stringy_jget_nc m k : forallb stringyb m = true -> is_container (jget k m) = false.
Proof.
  intros H. unfold jget. destruct (alookup k m) as [v|] eqn:E; [|reflexivity].
  apply alookup_In in E. rewrite forallb_forall in H. specialize (H _ E).
  cbn [snd] in H. destruct v; try discriminate; reflexivity.
Qed.

Lemma forallb_aremove (P : string * json -> bool) k m :
  forallb P m = true -> forallb P (aremove k m) = true.
Proof.
  induction m as [|[k' v] m IH]; [reflexivity|]. cbn [forallb aremove]. intros H.
  apply andb_split in H as [H1 H2]. destruct (String.eqb k k'); [auto|].
  cbn [forallb]. now rewrite H1, IH.
Qed.

Lemma forallb_remove_last (P : string * json -> bool) m ks has :
  forallb P m = true -> forallb P (remove_last m ks has) = true.
Proof.
  unfold remove_last. revert m. induction ks as [|x ks IH]; intros m H; [exact H|].
  cbn [fold_left]. apply IH. destruct (has x); [exact H|now apply forallb_aremove].
Qed.

Lemma mobj_aux_stringy dm1 lm sm : forall acc m,
  mobj_aux dm1 lm sm acc = Ok m ->
  forallb stringyb dm1 = true -> forallb stringyb sm = true -> forallb stringyb acc = true ->
  forallb stringyb m = true.
Proof.
  induction sm as [|[k dv] sm IH]; intros acc m H Hd Hs Ha; cbn [mobj_aux] in H.
  - now inversion H; subst.
  - cbn [forallb] in Hs. apply andb_split in Hs as [Hdv Hs].
    rewrite (merge_nc dv (jget k dm1) (jget k lm) (stringy_jget_nc dm1 k Hd)) in H.
    eapply IH; [exact H|exact Hd|exact Hs|]. apply forallb_aset; assumption.
Qed.

Lemma merge_stringy dann oa la r :
  forallb stringyb dann = true ->
  (oa = JNull \/ exists oann, oa = JObj oann /\ forallb stringyb oann = true) ->
  merge (JObj dann) oa la = Ok r ->
  exists aann, r = JObj aann /\ forallb stringyb aann = true.
Proof.
  intros Hd [->|(oann & -> & Ho)] H.
  - cbn in H. inversion H; subst. eauto.
  - rewrite merge_obj_obj in H. cbv zeta in H.
    destruct (mobj_aux _ _ dann _) as [m| |] eqn:E; try discriminate.
    inversion H; subst. exists m. split; [reflexivity|].
    eapply mobj_aux_stringy; [exact E| |exact Hd|]; now apply forallb_remove_last.
Qed.

(* ------------------------------------------------------------------ *)
(* metadata fields as plain lookups                                    *)
(* ------------------------------------------------------------------ *)
Lemma mfield_obj m mm f :
  alookup "metadata" m = Some (JObj mm) ->
  mfield m f = match alookup f mm with Some v => NFound v | None => NMissing end.
Proof. intros H. unfold mfield. now rewrite nested_get2, H. Qed.

Lemma mfield_alookup m mm m' mm' f :
  alookup "metadata" m = Some (JObj mm) -> alookup "metadata" m' = Some (JObj mm') ->
  mfield m f = mfield m' f -> alookup f mm = alookup f mm'.
Proof.
  intros H H'. rewrite (mfield_obj _ _ _ H), (mfield_obj _ _ _ H').
  destruct (alookup f mm), (alookup f mm'); congruence.
Qed.

Lemma revert_status_other m orig m' k :
  revert_field m orig ["status"] = Ok m' -> k <> "status" -> alookup k m' = alookup k m.
Proof.
  unfold revert_field. rewrite (nested_get1 orig). intros H Hk.
  apply String.eqb_neq in Hk.
  destruct (alookup "status" orig) as [v|].
  - cbn [nested_set] in H. inversion H; subst. now rewrite alookup_aset, Hk.
  - cbn [nested_remove] in H. inversion H; subst. now rewrite alookup_aremove, Hk.
Qed.

Lemma meta_ok_obj m : meta_ok m = true -> alookup "metadata" m = None \/ exists mm, alookup "metadata" m = Some (JObj mm).
Proof.
  unfold meta_ok. destruct (alookup "metadata" m) as [v|]; [|now left].
  destruct v; try discriminate. right. eauto.
Qed.

(* the shape of SetLastApplied on an object whose metadata is a map or absent *)
Lemma set_last_applied_shape m la :
  meta_ok m = true ->
  exists mm,
    set_last_applied m la =
      aset "metadata" (JObj (aset "annotations"
         (JObj (aset last_applied_annotation (JText la)
                  (match get_annotations m with Some a => a | None => [] end))) mm)) m /\
    (forall f, String.eqb f "annotations" = false ->
       mfield m f = match alookup f mm with Some v => NFound v | None => NMissing end) /\
    forallb stringyb (aset last_applied_annotation (JText la)
                        (match get_annotations m with Some a => a | None => [] end)) = true.
Proof.
  intros Hok. unfold set_last_applied.
  destruct (set_annotations_shape m
              (aset last_applied_annotation (JText la)
                 match get_annotations m with Some a => a | None => [] end) Hok) as (mm & Hs & Hg).
  exists mm. split; [exact Hs|]. split; [exact Hg|].
  apply forallb_aset; [|reflexivity].
  destruct (get_annotations m) as [a|] eqn:E; [|reflexivity].
  exact (get_annotations_stringy _ _ E).
Qed.

Lemma system_not (f : string) :
  forallb (fun g => negb (String.eqb f g)) object_meta_system_fields = true ->
  ~ In f object_meta_system_fields.
Proof.
  intros H Hin. rewrite forallb_forall in H. specialize (H f Hin). now rewrite eqb_refl' in H.
Qed.

Lemma no_server_fields_inv dm :
  no_server_fields dm = true ->
  ahas "status" dm = false /\
  match alookup "metadata" dm with
  | None => True
  | Some (JObj dmeta) =>
      forall f fv, In (f, fv) dmeta -> f <> "ownerReferences" /\ ~ In f object_meta_system_fields
  | Some _ => False
  end.
Proof.
  unfold no_server_fields. intros H. apply andb_split in H as [H1 H2].
  apply Bool.negb_true_iff in H1. split; [exact H1|].
  destruct (alookup "metadata" dm) as [v|]; [|exact I].
  destruct v; try discriminate.
  intros f fv Hin. rewrite forallb_forall in H2.
  split.
  - intros ->. specialize (H2 "ownerReferences" (or_introl eq_refl)).
    apply ahas_nodup_In in Hin. rewrite Hin in H2. discriminate.
  - intros Hs. specialize (H2 f (or_intror Hs)).
    apply ahas_nodup_In in Hin. rewrite Hin in H2. discriminate.
Qed.

Lemma clean_annots_inv dm dmeta fv :
  clean_annots dm = true -> alookup "metadata" dm = Some (JObj dmeta) ->
  alookup "annotations" dmeta = Some fv ->
  exists dann, fv = JObj dann /\ forallb stringyb dann = true /\ ahas last_applied_annotation dann = false.
Proof.
  unfold clean_annots. intros H Hm Ha. rewrite nested_get2, Hm, Ha in H.
  destruct fv; try discriminate. apply andb_split in H as [H1 H2].
  apply Bool.negb_true_iff in H2. eauto.
Qed.

Lemma stringy_annots_inv m mm :
  stringy_annots m = true -> alookup "metadata" m = Some (JObj mm) ->
  jget "annotations" mm = JNull \/ exists oann, jget "annotations" mm = JObj oann /\ forallb stringyb oann = true.
Proof.
  unfold stringy_annots, jget. intros H Hm. rewrite nested_get2, Hm in H.
  destruct (alookup "annotations" mm) as [v|]; [|now left].
  destruct v; try discriminate. right. eauto.
Qed.

(* ------------------------------------------------------------------ *)
(* 2. the result of an update is stable                                *)
(* ------------------------------------------------------------------ *)
Theorem update_result_stable old d n om last :
  apply_update old d = Ok n ->
  alookup "metadata" old = Some (JObj om) ->
  get_last_applied old = Ok last ->
  null_okb (JObj (desired_of d)) (JObj old) last = true ->
  Hb (JObj (desired_of d)) (JObj old) last = true ->
  wf_json (JObj (desired_of d)) = true -> wf_json (JObj old) = true -> wf_json last = true ->
  desired_ok (desired_of d) = true ->
  stringy_annots old = true ->
  stable d n.
Proof.
  intros Hap Hom Hlast Hnull HHb Hwd Hwo Hwl Hdok Hso.
  pose proof (apply_update_wf _ _ _ Hwo Hwd Hap) as Hwn.
  destruct (apply_update_meta_obj _ _ _ _ Hap Hom) as (nmeta & Hnmeta).
  pose proof Hap as Hinv.
  apply apply_update_inv in Hinv as (last' & nm & n1 & n2 & Hl' & Hm & H1 & H2 & Hn).
  rewrite Hlast in Hl'. inversion Hl'; subst last'. clear Hl'.
  fold (desired_of d) in Hm, Hn.
  set (dm := desired_of d) in *.
  (* metadata stays a map all the way *)
  pose proof (merge_keeps_meta_obj _ _ _ _ _ Hm Hom) as Hok.
  pose proof (revert_fields_meta_fwd _ _ _ _ H1 Hok) as Hok1.
  destruct (revert_status _ _ _ H2) as (_ & Hmeta2).
  assert (Hok2 : meta_ok n2 = true) by (unfold meta_ok in *; now rewrite Hmeta2).
  destruct (revert_fields_meta _ _ _ _ H1 Hok1) as (_ & _ & Hkeep1 & Hother1).
  (* the second merge on nm is the identity *)
  change (null_ok (JObj dm) (JObj old) last = true) in Hnull.
  pose proof (idempotent_partial _ _ _ _ Hnull HHb Hwd Hwo Hwl Hm) as Hidem.
  apply andb_split in Hdok as [Hnsf Hclean].
  destruct (no_server_fields_inv _ Hnsf) as (Hnost & Hdmeta).
  pose proof (wf_obj_nodup _ Hwd) as Hnd.
  destruct (set_last_applied_shape n2 (JObj dm) Hok2) as (mm2 & Hshape & Hmm2 & Hstr).
  assert (Hchain : forall f, ~ In f object_meta_system_fields -> mfield n2 f = mfield nm f).
  { intros f Hf. rewrite <- (Hkeep1 f Hf). unfold mfield. now rewrite !nested_get2, Hmeta2. }
  split; [|split; [exact Hwn|]].
  - (* the merge is the identity on n: frame rule from nm *)
    apply (merge_fix_frame (JObj dm) Hwd (JObj nm) (JObj n) Hidem).
    apply agree_meta; [exact Hnd|exact Hnost| |].
    + intros k Hk1 Hk2. rewrite Hn, Hshape. rewrite alookup_aset_other by exact Hk1.
      rewrite (revert_status_other _ _ _ k H2 Hk2). symmetry. apply Hother1. now apply String.eqb_neq.
    + revert Hdmeta. destruct (alookup "metadata" dm) as [dv|] eqn:Edm; intros Hdmeta; [|exact I].
      destruct dv as [| | | | | | |dmeta]; try exact Hdmeta.
      pose proof (wf_obj_nodup _ (wf_alookup _ _ _ Hwd Edm)) as Hndm.
      (* the metadata of nm *)
      rewrite merge_obj_obj in Hm. cbv zeta in Hm.
      destruct (mobj_aux _ _ dm _) as [nm'| |] eqn:EM; try discriminate.
      assert (nm' = nm) by congruence. subst nm'. clear Hm.
      destruct (mobj_aux_In _ _ _ _ _ EM Hnd "metadata" (JObj dmeta) (alookup_In _ _ _ Edm)) as (r & Hr & Hlr).
      rewrite jget_remove_last_keep in Hr by (unfold ahas; now rewrite Edm).
      unfold jget at 1 in Hr. rewrite Hom in Hr.
      destruct (merge_dest_obj _ _ _ _ Hr) as (nmm & ->).
      exists nmm, (aset "annotations"
                     (JObj (aset last_applied_annotation (JText (JObj dm))
                              (match get_annotations n2 with Some a => a | None => [] end))) mm2).
      split; [exact Hlr|]. split; [rewrite Hn, Hshape; apply alookup_aset_same|].
      intros f fv Hf. destruct (Hdmeta f fv Hf) as [_ Hnsys].
      destruct (string_dec f "annotations") as [->|Hfa].
      * right. split; [reflexivity|].
        pose proof (alookup_nodup_In _ _ _ Hndm Hf) as Hfl.
        destruct (clean_annots_inv _ _ _ Hclean Edm Hfl) as (dann & -> & Hsd & Hlad).
        rewrite merge_obj_obj in Hr. cbv zeta in Hr.
        destruct (mobj_aux _ _ dmeta _) as [nmm'| |] eqn:EM2; try discriminate.
        assert (nmm' = nmm) by congruence. subst nmm'. clear Hr.
        destruct (mobj_aux_In _ _ _ _ _ EM2 Hndm "annotations" (JObj dann) Hf) as (r2 & Hr2 & Hlr2).
        rewrite jget_remove_last_keep in Hr2 by (unfold ahas; now rewrite Hfl).
        destruct (merge_stringy _ _ _ _ Hsd (stringy_annots_inv _ _ Hso Hom) Hr2) as (aann & -> & Hsa).
        assert (Hga : get_annotations n2 = Some aann).
        { unfold get_annotations. change (nested_get n2 ["metadata"; "annotations"]) with (mfield n2 "annotations").
          rewrite (Hchain "annotations").
          - rewrite (mfield_obj _ _ _ Hlr), Hlr2, Hsa. reflexivity.
          - intros Hin. apply system_field_not_annotations in Hin. now rewrite eqb_refl' in Hin. }
        rewrite Hga. exists dann, aann, (JText (JObj dm)).
        split; [reflexivity|]. split; [exact Hlad|]. split; [exact Hlr2|]. apply alookup_aset_same.
      * left. rewrite alookup_aset_other by exact Hfa.
        assert (Hfa' : String.eqb f "annotations" = false) by now apply String.eqb_neq.
        pose proof (Hmm2 f Hfa') as Hx. rewrite (Hchain f Hnsys), (mfield_obj _ _ _ Hlr) in Hx.
        destruct (alookup f nmm), (alookup f mm2); congruence.
  - eexists _, _. rewrite Hn, Hshape. split; [apply alookup_aset_same|].
    split; [apply alookup_aset_same|]. split; [exact Hstr|]. apply alookup_aset_same.
Qed.

(* ------------------------------------------------------------------ *)
(* stability survives the API server (or the controller) setting a     *)
(* metadata field the desired object does not mention                  *)
(* ------------------------------------------------------------------ *)
Definition server_meta_fields : list string := "ownerReferences" :: object_meta_system_fields.

Lemma server_field_not_annotations g : In g server_meta_fields -> g <> "annotations".
Proof.
  intros Hin ->. apply mem_str_In in Hin. vm_compute in Hin. discriminate.
Qed.

Theorem stable_set_meta d m g v m' :
  stable d m ->
  wf_json (JObj (desired_of d)) = true ->
  no_server_fields (desired_of d) = true ->
  In g server_meta_fields ->
  wf_json v = true ->
  nested_set m ["metadata"; g] v = Some m' ->
  stable d m'.
Proof.
  intros (Hmerge & Hwf & mmeta & ann & Hmeta & Hann & Hstr & Hla) Hwd Hnsf Hg Hwv Hset.
  rewrite nested_set2, Hmeta in Hset. inversion Hset; subst m'; clear Hset.
  destruct (no_server_fields_inv _ Hnsf) as (Hnost & Hdmeta).
  pose proof (wf_obj_nodup _ Hwd) as Hnd.
  pose proof (server_field_not_annotations g Hg) as Hga.
  split; [|split].
  - apply (merge_fix_frame (JObj (desired_of d)) Hwd (JObj m) _ Hmerge).
    apply agree_meta; [exact Hnd|exact Hnost| |].
    + intros k Hk1 _. now rewrite alookup_aset_other by exact Hk1.
    + revert Hdmeta. destruct (alookup "metadata" (desired_of d)) as [dv|] eqn:Edm; intros Hdmeta; [|exact I].
      destruct dv as [| | | | | | |dmeta]; try exact Hdmeta.
      exists mmeta, (aset g v mmeta). split; [exact Hmeta|]. split; [apply alookup_aset_same|].
      intros f fv Hf. left. destruct (Hdmeta f fv Hf) as [Hno Hnsys].
      rewrite alookup_aset_other; [reflexivity|].
      intros ->. destruct Hg as [Hg|Hg]; [now apply Hno|now apply Hnsys].
  - apply wf_aset; [exact Hwf|]. apply wf_aset; [|exact Hwv]. exact (wf_alookup _ _ _ Hwf Hmeta).
  - exists (aset g v mmeta), ann. split; [apply alookup_aset_same|].
    split; [|split; assumption].
    rewrite alookup_aset_other; [exact Hann|]. intros Heq. now apply Hga.
Qed.

(* ------------------------------------------------------------------ *)
(* 3. the object a create sends is stable                              *)
(* ------------------------------------------------------------------ *)
Lemma nullify_clean dm : clean_annots dm = true -> nullify_last_applied dm = dm.
Proof.
  unfold clean_annots, nullify_last_applied, get_annotations.
  destruct (nested_get dm ["metadata"; "annotations"]) as [v| |]; try reflexivity.
  destruct v; try reflexivity. intros H. apply andb_split in H as [H1 H2].
  rewrite H1. apply Bool.negb_true_iff in H2. now rewrite H2.
Qed.

Lemma no_server_fields_meta_ok dm : no_server_fields dm = true -> meta_ok dm = true.
Proof.
  unfold no_server_fields, meta_ok. intros H. apply andb_split in H as [_ H].
  destruct (alookup "metadata" dm) as [v|]; [|reflexivity]. destruct v; try discriminate. reflexivity.
Qed.

Theorem created_stable dm :
  self_wf (JObj dm) = true -> wf_json (JObj dm) = true -> desired_ok dm = true ->
  desired_of dm = dm /\ stable dm (set_last_applied dm (JObj dm)).
Proof.
  intros Hself Hwd Hdok. apply andb_split in Hdok as [Hnsf Hclean].
  pose proof (nullify_clean _ Hclean) as Hnull. unfold desired_of. split; [exact Hnull|].
  unfold stable, desired_of. rewrite Hnull.
  pose proof (no_server_fields_meta_ok _ Hnsf) as Hok.
  destruct (set_last_applied_shape dm (JObj dm) Hok) as (mm & Hshape & Hmm & Hstr).
  destruct (no_server_fields_inv _ Hnsf) as (Hnost & Hdmeta).
  pose proof (wf_obj_nodup _ Hwd) as Hnd.
  split; [|split].
  - apply (merge_fix_frame (JObj dm) Hwd (JObj dm) _ (merge_self _ Hself Hwd)).
    apply agree_meta; [exact Hnd|exact Hnost| |].
    + intros k Hk1 _. rewrite Hshape. now rewrite alookup_aset_other by exact Hk1.
    + revert Hdmeta. destruct (alookup "metadata" dm) as [dv|] eqn:Edm; intros Hdmeta; [|exact I].
      destruct dv as [| | | | | | |dmeta]; try exact Hdmeta.
      pose proof (wf_obj_nodup _ (wf_alookup _ _ _ Hwd Edm)) as Hndm.
      eexists dmeta, _. split; [reflexivity|]. split; [rewrite Hshape; apply alookup_aset_same|].
      intros f fv Hf.
      assert (Hmmf : forall f, String.eqb f "annotations" = false -> alookup f mm = alookup f dmeta).
      { intros f0 Hf0. pose proof (Hmm f0 Hf0) as Hx. rewrite (mfield_obj _ _ _ Edm) in Hx.
        destruct (alookup f0 mm), (alookup f0 dmeta); congruence. }
      destruct (string_dec f "annotations") as [->|Hfa].
      * right. split; [reflexivity|].
        pose proof (alookup_nodup_In _ _ _ Hndm Hf) as Hfl.
        destruct (clean_annots_inv _ _ _ Hclean Edm Hfl) as (dann & -> & Hsd & Hlad).
        assert (Hga : get_annotations dm = Some dann).
        { unfold get_annotations. now rewrite nested_get2, Edm, Hfl, Hsd. }
        rewrite Hga. exists dann, dann, (JText (JObj dm)).
        split; [reflexivity|]. split; [exact Hlad|]. split; [exact Hfl|]. apply alookup_aset_same.
      * left. rewrite alookup_aset_other by exact Hfa. symmetry. apply Hmmf. now apply String.eqb_neq.
  - apply wf_set_last_applied; assumption.
  - eexists _, _. rewrite Hshape. split; [apply alookup_aset_same|].
    split; [apply alookup_aset_same|]. split; [exact Hstr|]. apply alookup_aset_same.
Qed.

Print Assumptions update_result_stable.
Print Assumptions stable_set_meta.
Print Assumptions created_stable.
