(* RollGate.v — the rollout gate (shouldContinueRolling) of Model/Rolling.v
   characterised: the gate is open exactly when every child listed under a
   rolling kind in the latest revision is ready. *)
From MC Require Import Generated.
From MC Require Import Model.Rolling.
Local Open Scope list_scope.

(* ------------------------------------------------------------------ *)
(* generic                                                              *)
(* ------------------------------------------------------------------ *)
Lemma first_some_none_iff {A} (f : A -> option string) (l : list A) :
  first_some f l = None <-> forall x, In x l -> f x = None.
Proof.
  induction l as [|a l IH].
  - cbn [first_some]. split; [intros _ x Hin; destruct Hin | reflexivity].
  - cbn [first_some]. destruct (f a) as [s|] eqn:Hfa.
    + split; [discriminate|].
      intros Hall. rewrite <- Hfa. apply Hall. left. reflexivity.
    + rewrite IH. split.
      * intros Hall x [Hx | Hx]; [subst x; exact Hfa | apply Hall; exact Hx].
      * intros Hall x Hx. apply Hall. right. exact Hx.
Qed.

Lemma first_some_some_in {A} (f : A -> option string) (l : list A) (s : string) :
  first_some f l = Some s -> exists x, In x l /\ f x = Some s.
Proof.
  induction l as [|a l IH]; cbn [first_some]; [discriminate|].
  destruct (f a) as [s'|] eqn:Hfa.
  - intros Heq. exists a. split; [left; reflexivity | rewrite Hfa; exact Heq].
  - intros Heq. destruct (IH Heq) as [x [Hin Hx]]. exists x. split; [right; exact Hin | exact Hx].
Qed.

(* ------------------------------------------------------------------ *)
(* a ready child                                                        *)
(* ------------------------------------------------------------------ *)
(* the RollingInPlace "has not observed the latest spec yet" test *)
Definition stale_in_place (c : ccfg) (ck : rck) (child : json) : bool :=
  String.eqb (match has_strategy c (ck_group ck) (ck_kind ck) with Some k => ch_method k | None => "" end)
             method_rolling_in_place &&
  match observed_generation child with
  | Some og => Z.ltb 0 og && Z.ltb og (get_generation child)
  | None => false end.

Definition child_ready (c : ccfg) (pns : string) (latest : prev) (observed : umap) (ck : rck) (name : string) : Prop :=
  exists child,
    find_observed pns observed (ck_group ck) (ck_kind ck) name = Some child /\
    child_up_to_date child (find_desired (pr_desired latest) (ck_group ck) (ck_kind ck) name) = Some true /\
    child_status_why (checks_for c (ck_group ck) (ck_kind ck)) child = None /\
    (String.eqb (match has_strategy c (ck_group ck) (ck_kind ck) with Some k => ch_method k | None => "" end)
                method_rolling_in_place &&
     match observed_generation child with
     | Some og => Z.ltb 0 og && Z.ltb og (get_generation child)
     | None => false end) = false.

Definition child_readyb (c : ccfg) (pns : string) (latest : prev) (observed : umap) (ck : rck) (name : string) : bool :=
  match find_observed pns observed (ck_group ck) (ck_kind ck) name with
  | None => false
  | Some child =>
      match child_up_to_date child (find_desired (pr_desired latest) (ck_group ck) (ck_kind ck) name) with
      | Some true =>
          match child_status_why (checks_for c (ck_group ck) (ck_kind ck)) child with
          | None => negb (stale_in_place c ck child)
          | Some _ => false
          end
      | _ => false
      end
  end.

Lemma child_readyb_spec c pns latest observed ck name :
  child_readyb c pns latest observed ck name = true <-> child_ready c pns latest observed ck name.
Proof.
  unfold child_readyb, child_ready. split.
  - intros Hb.
    destruct (find_observed pns observed (ck_group ck) (ck_kind ck) name) as [child|] eqn:Hfo; [|discriminate].
    destruct (child_up_to_date child (find_desired (pr_desired latest) (ck_group ck) (ck_kind ck) name))
      as [[|]|] eqn:Hup; try discriminate.
    destruct (child_status_why (checks_for c (ck_group ck) (ck_kind ck)) child) as [why|] eqn:Hwhy; [discriminate|].
    exists child. repeat split; try assumption; try reflexivity.
    apply negb_true_iff in Hb. exact Hb.
  - intros [child [Hfo [Hup [Hwhy Hst]]]].
    rewrite Hfo, Hup, Hwhy. apply negb_true_iff. exact Hst.
Qed.

(* the per-name body of shouldContinueRolling *)
Definition gate_name (c : ccfg) (pns : string) (latest : prev) (observed : umap) (ck : rck) (name : string)
  : option string :=
  match find_observed pns observed (ck_group ck) (ck_kind ck) name with
  | None => Some ("missing child " ++ ck_kind ck ++ " " ++ name)%string
  | Some child =>
      match child_up_to_date child (find_desired (pr_desired latest) (ck_group ck) (ck_kind ck) name) with
      | None => Some ("can't check if child " ++ ck_kind ck ++ " " ++ name ++ " is updated")%string
      | Some false => Some ("child " ++ ck_kind ck ++ " " ++ name ++ " is not updated yet")%string
      | Some true =>
          let m := match has_strategy c (ck_group ck) (ck_kind ck) with Some k => ch_method k | None => "" end in
          if String.eqb m method_rolling_in_place &&
             match observed_generation child with
             | Some og => Z.ltb 0 og && Z.ltb og (get_generation child)
             | None => false end
          then Some ("child " ++ ck_kind ck ++ " " ++ name ++ " with RollingInPlace update strategy hasn't observed latest spec")%string
          else match child_status_why (checks_for c (ck_group ck) (ck_kind ck)) child with
               | None => None
               | Some why => Some ("child " ++ ck_kind ck ++ " " ++ name ++ " failed status check: " ++ why)%string
               end
      end
  end.

Definition gate_kind (c : ccfg) (pns : string) (latest : prev) (observed : umap) (ck : rck) : option string :=
  if negb (is_rolling c (ck_group ck) (ck_kind ck)) then None
  else first_some (gate_name c pns latest observed ck) (ck_names ck).

Lemma should_continue_rolling_unfold c pns latest observed :
  should_continue_rolling c pns latest observed =
  first_some (gate_kind c pns latest observed) (rev_children (pr_rev latest)).
Proof. reflexivity. Qed.

Lemma gate_name_none_iff c pns latest observed ck name :
  gate_name c pns latest observed ck name = None <-> child_ready c pns latest observed ck name.
Proof.
  unfold gate_name, child_ready. split.
  - intros Hg.
    destruct (find_observed pns observed (ck_group ck) (ck_kind ck) name) as [child|] eqn:Hfo; [|discriminate].
    destruct (child_up_to_date child (find_desired (pr_desired latest) (ck_group ck) (ck_kind ck) name))
      as [[|]|] eqn:Hup; try discriminate.
    cbv zeta in Hg.
    destruct (String.eqb (match has_strategy c (ck_group ck) (ck_kind ck) with Some k => ch_method k | None => "" end)
                         method_rolling_in_place &&
              match observed_generation child with
              | Some og => Z.ltb 0 og && Z.ltb og (get_generation child)
              | None => false end) eqn:Hst; [discriminate|].
    destruct (child_status_why (checks_for c (ck_group ck) (ck_kind ck)) child) as [why|] eqn:Hwhy; [discriminate|].
    exists child. repeat split; try assumption; reflexivity.
  - intros [child [Hfo [Hup [Hwhy Hst]]]].
    rewrite Hfo, Hup. cbv zeta. rewrite Hst, Hwhy. reflexivity.
Qed.

(* ------------------------------------------------------------------ *)
(* the gate                                                             *)
(* ------------------------------------------------------------------ *)
Definition gate_openb (c : ccfg) (pns : string) (latest : prev) (observed : umap) : bool :=
  forallb (fun ck => negb (is_rolling c (ck_group ck) (ck_kind ck)) ||
                     forallb (child_readyb c pns latest observed ck) (ck_names ck))
          (rev_children (pr_rev latest)).

Theorem gate_open_iff c pns latest observed :
  should_continue_rolling c pns latest observed = None <->
  forall ck name, In ck (rev_children (pr_rev latest)) ->
                  is_rolling c (ck_group ck) (ck_kind ck) = true ->
                  In name (ck_names ck) ->
                  child_ready c pns latest observed ck name.
Proof.
  rewrite should_continue_rolling_unfold, first_some_none_iff. split.
  - intros Hall ck name Hck Hroll Hname.
    specialize (Hall ck Hck). unfold gate_kind in Hall. rewrite Hroll in Hall. cbn [negb] in Hall.
    rewrite first_some_none_iff in Hall.
    apply gate_name_none_iff. apply Hall. exact Hname.
  - intros Hall ck Hck. unfold gate_kind.
    destruct (is_rolling c (ck_group ck) (ck_kind ck)) eqn:Hroll; cbn [negb]; [|reflexivity].
    apply first_some_none_iff. intros name Hname.
    apply gate_name_none_iff. apply Hall; assumption.
Qed.

Theorem gate_openb_spec c pns latest observed :
  gate_openb c pns latest observed = true <-> should_continue_rolling c pns latest observed = None.
Proof.
  rewrite gate_open_iff. unfold gate_openb. rewrite forallb_forall. split.
  - intros Hall ck name Hck Hroll Hname.
    specialize (Hall ck Hck). rewrite Hroll in Hall. cbn [negb orb] in Hall.
    rewrite forallb_forall in Hall. apply child_readyb_spec. apply Hall. exact Hname.
  - intros Hall ck Hck.
    destruct (is_rolling c (ck_group ck) (ck_kind ck)) eqn:Hroll; cbn [negb orb]; [|reflexivity].
    apply forallb_forall. intros name Hname. apply child_readyb_spec. apply Hall; assumption.
Qed.

(* a closed gate names a concrete rolling child that is not ready *)
Theorem gate_closed_witness c pns latest observed why :
  should_continue_rolling c pns latest observed = Some why ->
  exists ck name, In ck (rev_children (pr_rev latest)) /\
                  is_rolling c (ck_group ck) (ck_kind ck) = true /\
                  In name (ck_names ck) /\
                  ~ child_ready c pns latest observed ck name.
Proof.
  rewrite should_continue_rolling_unfold. intros Hsome.
  destruct (first_some_some_in _ _ _ Hsome) as [ck [Hck Hk]].
  unfold gate_kind in Hk.
  destruct (is_rolling c (ck_group ck) (ck_kind ck)) eqn:Hroll; cbn [negb] in Hk; [|discriminate].
  destruct (first_some_some_in _ _ _ Hk) as [name [Hname Hn]].
  exists ck, name. repeat split; try assumption.
  intros Hready. apply gate_name_none_iff in Hready. rewrite Hready in Hn. discriminate.
Qed.

(* ------------------------------------------------------------------ *)
(* second_pass only progresses through an open gate                     *)
(* ------------------------------------------------------------------ *)
Lemma second_pass_progressing c pns observed prs cl prs' kind name :
  second_pass c pns observed prs cl = (prs', RProgressing kind name) ->
  exists latest rest, prs = latest :: rest /\ should_continue_rolling c pns latest observed = None.
Proof.
  unfold second_pass. destruct prs as [|latest rest]; [discriminate|].
  intros Hsp. exists latest, rest. split; [reflexivity|].
  match type of Hsp with context [find ?f ?l] => destruct (find f l) as [[o|]|] eqn:Hfind end;
    try discriminate.
  destruct (should_continue_rolling c pns latest observed) as [why|] eqn:Hgate; [discriminate|].
  reflexivity.
Qed.

Lemma second_pass_waiting c pns observed prs cl prs' why :
  second_pass c pns observed prs cl = (prs', RWaiting why) ->
  exists latest rest, prs = latest :: rest /\ prs' = prs /\
                      should_continue_rolling c pns latest observed = Some why.
Proof.
  unfold second_pass. destruct prs as [|latest rest]; [discriminate|].
  intros Hsp. exists latest, rest. split; [reflexivity|].
  match type of Hsp with context [find ?f ?l] => destruct (find f l) as [[o|]|] eqn:Hfind end;
    try discriminate.
  destruct (should_continue_rolling c pns latest observed) as [why'|] eqn:Hgate; [|discriminate].
  inversion Hsp. split; reflexivity.
Qed.

Print Assumptions first_some_none_iff.
Print Assumptions child_readyb_spec.
Print Assumptions gate_open_iff.
Print Assumptions gate_openb_spec.
Print Assumptions gate_closed_witness.
Print Assumptions second_pass_progressing.
Print Assumptions second_pass_waiting.
