(* C17Proofs.v — syncs with disjoint footprints commute: under any interleaving
   of their API/hook calls each sync sees the answers, makes the calls and
   returns the result it would running alone (hence the same as any serial order),
   provided the environment answers a call from the history of calls with the
   same target only (the API server keeps objects independently). *)
From MC Require Import Model.Json Model.Prog.
Local Open Scope list_scope.

Section Commute.
  Variable key : call -> string.

  Definition hist := list (call * answer).
  Definition on (k : string -> bool) (h : hist) : hist := filter (fun p => k (key (fst p))) h.

  (* the answer to a call depends only on earlier calls with the same key *)
  Definition key_local (e : env) : Prop :=
    forall h1 h2 c,
      filter (fun p => String.eqb (key (fst p)) (key c)) h1 =
      filter (fun p => String.eqb (key (fst p)) (key c)) h2 -> e h1 c = e h2 c.

  Definition uses {R} (k : string -> bool) (p : prog R) : Prop := all_calls (fun c => k (key c) = true) p.

  Lemma filter_filter_key (k : string -> bool) (c : call) (h1 h2 : hist) :
    k (key c) = true -> on k h1 = on k h2 ->
    filter (fun p => String.eqb (key (fst p)) (key c)) h1 =
    filter (fun p => String.eqb (key (fst p)) (key c)) h2.
  Proof.
    intros Hk Heq.
    assert (F : forall h, filter (fun p => String.eqb (key (fst p)) (key c)) h =
                          filter (fun p => String.eqb (key (fst p)) (key c)) (on k h)).
    { induction h as [|[c' a'] h IH]; [reflexivity|].
      unfold on in *. cbn [filter fst].
      destruct (String.eqb (key c') (key c)) eqn:E.
      - assert (Hk' : k (key c') = true) by (apply String.eqb_eq in E; now rewrite E).
        rewrite Hk'. cbn [filter fst]. rewrite E. now rewrite IH.
      - destruct (k (key c')); cbn [filter fst]; rewrite ?E; exact IH. }
    rewrite (F h1), (F h2), Heq. reflexivity.
  Qed.

  (* a program only looks at its own part of the history, and only extends that part *)
  Lemma run_local {R} (k : string -> bool) (p : prog R) (e : env) :
    key_local e -> uses k p ->
    forall h h', on k h = on k h' ->
      snd (run p e h) = snd (run p e h') /\
      on k (fst (run p e h)) = on k (fst (run p e h')).
  Proof.
    intros He Hu. induction Hu as [r|c kont Hc Hk IH]; intros h h' Heq.
    - cbn. auto.
    - cbn [run].
      assert (Ea : e h c = e h' c) by (apply He; eapply filter_filter_key; eauto).
      rewrite Ea. apply IH. unfold on in *. cbn [filter fst]. rewrite Hc. now rewrite Heq.
  Qed.

  Lemma run_frame {R} (k k' : string -> bool) (p : prog R) (e : env) :
    uses k p -> (forall s, k s = true -> k' s = false) ->
    forall h, on k' (fst (run p e h)) = on k' h.
  Proof.
    intros Hu Hd. induction Hu as [r|c kont Hc Hk IH]; intros h; [reflexivity|].
    cbn [run]. rewrite IH. unfold on. cbn [filter fst]. now rewrite (Hd _ Hc).
  Qed.

  (* an interleaving: true = the first program makes its next call *)
  Fixpoint irun {A B} (s : list bool) (p1 : prog A) (p2 : prog B) (e : env) (h : hist) : hist * A * B :=
    match s with
    | [] => let '(h1, a) := run p1 e h in let '(h2, b) := run p2 e h1 in (h2, a, b)
    | true :: s' =>
        match p1 with
        | Ret a => let '(h2, b) := run p2 e h in (h2, a, b)
        | Do c kont => let ans := e h c in irun s' (kont ans) p2 e ((c, ans) :: h)
        end
    | false :: s' =>
        match p2 with
        | Ret b => let '(h1, a) := run p1 e h in (h1, a, b)
        | Do c kont => let ans := e h c in irun s' p1 (kont ans) e ((c, ans) :: h)
        end
    end.

  Theorem interleaving_is_serial {A B} (k1 k2 : string -> bool) (e : env) :
    key_local e ->
    (forall s, k1 s = true -> k2 s = false) -> (forall s, k2 s = true -> k1 s = false) ->
    forall (s : list bool) (p1 : prog A) (p2 : prog B) (h : hist),
      uses k1 p1 -> uses k2 p2 ->
      let '(hf, a, b) := irun s p1 p2 e h in
      a = snd (run p1 e h) /\ b = snd (run p2 e h) /\
      on k1 hf = on k1 (fst (run p1 e h)) /\ on k2 hf = on k2 (fst (run p2 e h)).
  Proof.
    intros He D12 D21. induction s as [|b s IH]; intros p1 p2 h U1 U2.
    - cbn [irun]. destruct (run p1 e h) as [h1 a] eqn:E1. destruct (run p2 e h1) as [h2 b] eqn:E2.
      assert (F1 : on k2 h1 = on k2 h) by (change h1 with (fst (h1, a)); rewrite <- E1; eapply run_frame; eauto).
      destruct (run_local k2 p2 e He U2 h1 h F1) as [R1 R2]. rewrite E2 in R1, R2. cbn in R1, R2.
      repeat split; auto.
      change h2 with (fst (h2, b)). rewrite <- E2. rewrite (run_frame k2 k1 p2 e U2 D21). reflexivity.
    - destruct b.
      + cbn [irun]. destruct p1 as [a|c kont].
        * destruct (run p2 e h) as [h2 b] eqn:E2. cbn. repeat split; auto.
          change h2 with (fst (h2, b)). rewrite <- E2. now rewrite (run_frame k2 k1 p2 e U2 D21).
        * inversion U1 as [|? ? Hc Hk]; subst.
          specialize (IH (kont (e h c)) p2 ((c, e h c) :: h) (Hk _) U2).
          destruct (irun s (kont (e h c)) p2 e ((c, e h c) :: h)) as [[hf a] b].
          destruct IH as (Ia & Ib & I1 & I2). cbn [run].
          assert (F : on k2 ((c, e h c) :: h) = on k2 h) by (unfold on; cbn [filter fst]; now rewrite (D12 _ Hc)).
          destruct (run_local k2 p2 e He U2 _ _ F) as [R1 R2].
          repeat split; auto; congruence.
      + cbn [irun]. destruct p2 as [b|c kont].
        * destruct (run p1 e h) as [h1 a] eqn:E1. cbn. repeat split; auto.
          change h1 with (fst (h1, a)). rewrite <- E1. now rewrite (run_frame k1 k2 p1 e U1 D12).
        * inversion U2 as [|? ? Hc Hk]; subst.
          specialize (IH p1 (kont (e h c)) ((c, e h c) :: h) U1 (Hk _)).
          destruct (irun s p1 (kont (e h c)) e ((c, e h c) :: h)) as [[hf a] b].
          destruct IH as (Ia & Ib & I1 & I2). cbn [run].
          assert (F : on k1 ((c, e h c) :: h) = on k1 h) by (unfold on; cbn [filter fst]; now rewrite (D21 _ Hc)).
          destruct (run_local k1 p1 e He U1 _ _ F) as [R1 R2].
          repeat split; auto; congruence.
  Qed.

  (* any two schedules agree: results and per-program traces do not depend on the interleaving *)
  Corollary schedules_agree {A B} (k1 k2 : string -> bool) (e : env) (s s' : list bool)
            (p1 : prog A) (p2 : prog B) (h : hist) :
    key_local e ->
    (forall x, k1 x = true -> k2 x = false) -> (forall x, k2 x = true -> k1 x = false) ->
    uses k1 p1 -> uses k2 p2 ->
    let '(hf, a, b) := irun s p1 p2 e h in
    let '(hf', a', b') := irun s' p1 p2 e h in
    a = a' /\ b = b' /\ on k1 hf = on k1 hf' /\ on k2 hf = on k2 hf'.
  Proof.
    intros He D12 D21 U1 U2.
    pose proof (interleaving_is_serial k1 k2 e He D12 D21 s p1 p2 h U1 U2) as H1.
    pose proof (interleaving_is_serial k1 k2 e He D12 D21 s' p1 p2 h U1 U2) as H2.
    destruct (irun s p1 p2 e h) as [[hf a] b]. destruct (irun s' p1 p2 e h) as [[hf' a'] b'].
    destruct H1 as (A1 & B1 & C1 & D1). destruct H2 as (A2 & B2 & C2 & D2).
    repeat split; congruence.
  Qed.
End Commute.
