(* RollMoves.v — add_child / remove_child / update_nth and the effect of the
   two passes of the rolling update on "which revision lists which child":
   helper for C09Proofs.v item 3. *)
From MC Require Import Generated.
From MC Require Import Model.Rolling.
From MC Require Import Proofs.RollClaims.
From Coq Require Import Lia.
Local Open Scope string_scope.
Local Open Scope list_scope.

(* ------------------------------------------------------------------ *)
(* strings                                                             *)
(* ------------------------------------------------------------------ *)

Lemma mem_str_app n l1 l2 : mem_str n (l1 ++ l2) = mem_str n l1 || mem_str n l2.
Proof.
  induction l1 as [|x l1 IH]; cbn [app mem_str]; [reflexivity|]. rewrite IH. apply Bool.orb_assoc.
Qed.

Lemma nodup_str_snoc l n : nodup_str l = true -> mem_str n l = false -> nodup_str (l ++ [n]) = true.
Proof.
  induction l as [|x l IH]; cbn [app nodup_str mem_str]; intros Hnd Hm; [reflexivity|].
  apply Bool.andb_true_iff in Hnd. destruct Hnd as [Hx Hl].
  apply Bool.orb_false_iff in Hm. destruct Hm as [Hnx Hm].
  rewrite IH by assumption. rewrite mem_str_app. cbn [mem_str].
  apply Bool.negb_true_iff in Hx. rewrite Hx. cbn [orb].
  rewrite String.eqb_sym, Hnx. reflexivity.
Qed.

Lemma mem_remove_first_other n n' l : n' <> n -> mem_str n' (remove_first n l) = mem_str n' l.
Proof.
  intros Hne. induction l as [|x l IH]; cbn [remove_first mem_str]; [reflexivity|].
  destruct (String.eqb x n) eqn:E.
  - apply String.eqb_eq in E. subst x. apply String.eqb_neq in Hne. rewrite Hne. reflexivity.
  - cbn [mem_str]. rewrite IH. reflexivity.
Qed.

Lemma mem_remove_first_sub n x l : mem_str x (remove_first n l) = true -> mem_str x l = true.
Proof.
  induction l as [|y l IH]; cbn [remove_first mem_str]; [discriminate|].
  destruct (String.eqb y n) eqn:E.
  - intros H. rewrite H. apply Bool.orb_true_r.
  - cbn [mem_str]. intros H. apply Bool.orb_true_iff in H. destruct H as [H|H].
    + rewrite H. reflexivity.
    + rewrite IH by exact H. apply Bool.orb_true_r.
Qed.

Lemma mem_remove_first_same n l : nodup_str l = true -> mem_str n (remove_first n l) = false.
Proof.
  induction l as [|x l IH]; cbn [remove_first nodup_str mem_str]; intros Hnd; [reflexivity|].
  apply Bool.andb_true_iff in Hnd. destruct Hnd as [Hx Hl]. apply Bool.negb_true_iff in Hx.
  destruct (String.eqb x n) eqn:E.
  - apply String.eqb_eq in E. subst x. exact Hx.
  - cbn [mem_str]. rewrite String.eqb_sym, E. cbn [orb]. apply IH. exact Hl.
Qed.

Lemma nodup_remove_first n l : nodup_str l = true -> nodup_str (remove_first n l) = true.
Proof.
  induction l as [|x l IH]; cbn [remove_first nodup_str]; intros Hnd; [reflexivity|].
  apply Bool.andb_true_iff in Hnd. destruct Hnd as [Hx Hl].
  destruct (String.eqb x n); [exact Hl|].
  cbn [nodup_str]. rewrite IH by exact Hl. rewrite Bool.andb_true_r.
  apply Bool.negb_true_iff. apply Bool.negb_true_iff in Hx.
  destruct (mem_str x (remove_first n l)) eqn:E; [|reflexivity].
  apply mem_remove_first_sub in E. congruence.
Qed.

(* ------------------------------------------------------------------ *)
(* one entry                                                           *)
(* ------------------------------------------------------------------ *)

Definition entry_lists (k : claim_key) (ck : rck) : bool :=
  match k with (g, kd, n) => gk_match g kd ck && mem_str n (ck_names ck) end.

Lemma lists_cs_existsb cs k : lists_cs cs k = existsb (entry_lists k) cs.
Proof. destruct k as [[g kd] n]. reflexivity. Qed.

Lemma lists_cs_cons ck cs k : lists_cs (ck :: cs) k = entry_lists k ck || lists_cs cs k.
Proof. rewrite !lists_cs_existsb. reflexivity. Qed.

Lemma lists_cs_no_group cs g kd n : existsb (gk_match g kd) cs = false -> lists_cs cs (g, kd, n) = false.
Proof.
  intros H. unfold lists_cs. induction cs as [|ck cs IH]; cbn [existsb] in *; [reflexivity|].
  apply Bool.orb_false_iff in H. destruct H as [H1 H2]. rewrite H1, IH by exact H2. reflexivity.
Qed.

(* simple_cs / simple (each (group, kind) once, each name once) are defined in RollClaims.v *)

(* ------------------------------------------------------------------ *)
(* add_child                                                           *)
(* ------------------------------------------------------------------ *)

Section GoAdd.
  Variables g kd name : string.
  Fixpoint go_add (cs : list rck) (done : bool) : list rck :=
    match cs with
    | [] => []
    | ck :: cs' =>
        if negb done && String.eqb (ck_group ck) g && String.eqb (ck_kind ck) kd
        then (if mem_str name (ck_names ck) then ck
              else mkRck (ck_group ck) (ck_kind ck) (ck_names ck ++ [name])) :: go_add cs' true
        else ck :: go_add cs' done
    end.
End GoAdd.

Lemma add_child_children r g kd name :
  rev_children (add_child r g kd name) =
  if existsb (gk_match g kd) (rev_children r) then go_add g kd name (rev_children r) false
  else rev_children r ++ [mkRck g kd [name]].
Proof.
  unfold add_child. cbv zeta.
  change (existsb (fun ck => String.eqb (ck_group ck) g && String.eqb (ck_kind ck) kd) (rev_children r))
    with (existsb (gk_match g kd) (rev_children r)).
  destruct (existsb (gk_match g kd) (rev_children r)); reflexivity.
Qed.

Lemma go_add_done g kd name cs : go_add g kd name cs true = cs.
Proof. induction cs as [|ck cs IH]; cbn [go_add negb andb]; [reflexivity|]. rewrite IH. reflexivity. Qed.

Definition added (name : string) (ck : rck) : rck :=
  if mem_str name (ck_names ck) then ck else mkRck (ck_group ck) (ck_kind ck) (ck_names ck ++ [name]).

Lemma added_gk name ck g kd : gk_match g kd (added name ck) = gk_match g kd ck.
Proof. unfold added. destruct (mem_str name (ck_names ck)); reflexivity. Qed.

Lemma added_mem name ck : mem_str name (ck_names (added name ck)) = true.
Proof.
  unfold added. destruct (mem_str name (ck_names ck)) eqn:E; [exact E|].
  cbn [ck_names]. rewrite mem_str_app. cbn [mem_str]. rewrite String.eqb_refl. apply Bool.orb_true_r.
Qed.

Lemma added_entry_other g kd name ck k' :
  gk_match g kd ck = true -> (g, kd, name) <> k' -> entry_lists k' (added name ck) = entry_lists k' ck.
Proof.
  destruct k' as [[g' kd'] n']. intros Hm Hne. unfold entry_lists. rewrite added_gk.
  destruct (gk_match g' kd' ck) eqn:Hm'; [|reflexivity]. cbn [andb].
  unfold added. destruct (mem_str name (ck_names ck)); [reflexivity|]. cbn [ck_names].
  rewrite mem_str_app. cbn [mem_str].
  assert (Hn : String.eqb n' name = false).
  { apply String.eqb_neq. intros ->. apply Hne.
    unfold gk_match in Hm, Hm'. apply Bool.andb_true_iff in Hm, Hm'.
    destruct Hm as [H1 H2], Hm' as [H3 H4]. apply String.eqb_eq in H1, H2, H3, H4. congruence. }
  rewrite Hn. cbn [orb]. apply Bool.orb_false_r.
Qed.

Lemma go_add_eq g kd name cs done :
  go_add g kd name cs done =
  match cs with
  | [] => []
  | ck :: cs' => if negb done && gk_match g kd ck then added name ck :: go_add g kd name cs' true
                 else ck :: go_add g kd name cs' done
  end.
Proof. destruct cs as [|ck cs']; [reflexivity|]. cbn [go_add]. unfold gk_match, added. rewrite Bool.andb_assoc. reflexivity. Qed.

Lemma go_add_other g kd name k' : (g, kd, name) <> k' -> forall cs done,
  lists_cs (go_add g kd name cs done) k' = lists_cs cs k'.
Proof.
  intros Hne. induction cs as [|ck cs IH]; intros done; rewrite go_add_eq; [reflexivity|].
  destruct (negb done && gk_match g kd ck) eqn:E.
  - apply Bool.andb_true_iff in E. destruct E as [_ E].
    rewrite !lists_cs_cons, go_add_done, (added_entry_other g kd) by assumption. reflexivity.
  - rewrite !lists_cs_cons, IH. reflexivity.
Qed.

Lemma go_add_same g kd name : forall cs,
  existsb (gk_match g kd) cs = true -> lists_cs (go_add g kd name cs false) (g, kd, name) = true.
Proof.
  induction cs as [|ck cs IH]; cbn [existsb]; [discriminate|]. intros H. rewrite go_add_eq. cbn [negb andb].
  destruct (gk_match g kd ck) eqn:E.
  - rewrite lists_cs_cons. unfold entry_lists. rewrite added_gk, E, added_mem. reflexivity.
  - cbn [orb] in H. rewrite lists_cs_cons, IH by exact H. apply Bool.orb_true_r.
Qed.

Lemma go_add_gk g kd name g' kd' : forall cs done,
  existsb (gk_match g' kd') (go_add g kd name cs done) = existsb (gk_match g' kd') cs.
Proof.
  induction cs as [|ck cs IH]; intros done; rewrite go_add_eq; [reflexivity|].
  destruct (negb done && gk_match g kd ck); cbn [existsb]; rewrite IH; [rewrite added_gk|]; reflexivity.
Qed.

Lemma added_simple name ck : nodup_str (ck_names ck) = true -> nodup_str (ck_names (added name ck)) = true.
Proof.
  intros H. unfold added. destruct (mem_str name (ck_names ck)) eqn:E; [exact H|].
  cbn [ck_names]. apply nodup_str_snoc; assumption.
Qed.

Lemma added_group name ck : ck_group (added name ck) = ck_group ck /\ ck_kind (added name ck) = ck_kind ck.
Proof. unfold added. destruct (mem_str name (ck_names ck)); split; reflexivity. Qed.

Lemma go_add_simple g kd name : forall cs done, simple_cs cs = true -> simple_cs (go_add g kd name cs done) = true.
Proof.
  induction cs as [|ck cs IH]; intros done Hs; rewrite go_add_eq; [reflexivity|].
  cbn [simple_cs] in Hs. apply Bool.andb_true_iff in Hs. destruct Hs as [Hs H3].
  apply Bool.andb_true_iff in Hs. destruct Hs as [H1 H2].
  destruct (negb done && gk_match g kd ck); cbn [simple_cs].
  - destruct (added_group name ck) as [-> ->]. rewrite go_add_gk, H1, added_simple, IH by assumption. reflexivity.
  - rewrite go_add_gk, H1, H2, IH by assumption. reflexivity.
Qed.

Lemma gk_match_sym ck g kd ns : gk_match (ck_group ck) (ck_kind ck) (mkRck g kd ns) = gk_match g kd ck.
Proof. unfold gk_match. cbn [ck_group ck_kind]. rewrite (String.eqb_sym g), (String.eqb_sym kd). reflexivity. Qed.

Lemma simple_cs_snoc cs g kd ns :
  simple_cs cs = true -> existsb (gk_match g kd) cs = false -> nodup_str ns = true ->
  simple_cs (cs ++ [mkRck g kd ns]) = true.
Proof.
  induction cs as [|ck cs IH]; cbn [app simple_cs existsb]; intros Hs He Hn.
  - cbn [ck_names]. rewrite Hn. reflexivity.
  - apply Bool.andb_true_iff in Hs. destruct Hs as [Hs H3].
    apply Bool.andb_true_iff in Hs. destruct Hs as [H1 H2].
    apply Bool.orb_false_iff in He. destruct He as [He1 He2].
    rewrite existsb_app. cbn [existsb]. rewrite gk_match_sym, He1.
    apply Bool.negb_true_iff in H1. rewrite H1. cbn [orb negb andb]. rewrite H2, IH by assumption. reflexivity.
Qed.

Lemma add_child_same r g kd name : lists (add_child r g kd name) (g, kd, name) = true.
Proof.
  unfold lists. rewrite add_child_children.
  destruct (existsb (gk_match g kd) (rev_children r)) eqn:E; [apply go_add_same; exact E|].
  rewrite lists_cs_app. apply Bool.orb_true_iff. right.
  cbn [lists_cs existsb]. unfold gk_match. cbn [ck_group ck_kind ck_names mem_str].
  rewrite !String.eqb_refl. reflexivity.
Qed.

Lemma add_child_other r g kd name k' : (g, kd, name) <> k' -> lists (add_child r g kd name) k' = lists r k'.
Proof.
  intros Hne. unfold lists. rewrite add_child_children.
  destruct (existsb (gk_match g kd) (rev_children r)) eqn:E; [apply go_add_other; exact Hne|].
  rewrite lists_cs_app. destruct k' as [[g' kd'] n'].
  replace (lists_cs [mkRck g kd [name]] (g', kd', n')) with false; [apply Bool.orb_false_r|].
  symmetry. cbn [lists_cs existsb]. unfold gk_match. cbn [ck_group ck_kind ck_names mem_str].
  rewrite !Bool.orb_false_r.
  destruct (String.eqb g g') eqn:E1; [|reflexivity]. destruct (String.eqb kd kd') eqn:E2; [|reflexivity].
  destruct (String.eqb n' name) eqn:E3; [|reflexivity].
  apply String.eqb_eq in E1, E2, E3. subst. contradiction.
Qed.

Lemma add_child_simple r g kd name : simple r = true -> simple (add_child r g kd name) = true.
Proof.
  unfold simple. rewrite add_child_children. intros Hs.
  destruct (existsb (gk_match g kd) (rev_children r)) eqn:E; [apply go_add_simple; exact Hs|].
  apply simple_cs_snoc; auto.
Qed.

(* ------------------------------------------------------------------ *)
(* remove_child                                                        *)
(* ------------------------------------------------------------------ *)

Definition removed (name : string) (ck : rck) : rck :=
  mkRck (ck_group ck) (ck_kind ck) (remove_first name (ck_names ck)).

Fixpoint go_rem (g kd name : string) (cs : list rck) (done : bool) : list rck :=
  match cs with
  | [] => []
  | ck :: cs' => if negb done && gk_match g kd ck then removed name ck :: go_rem g kd name cs' true
                 else ck :: go_rem g kd name cs' done
  end.

Lemma remove_child_children r g kd name :
  rev_children (remove_child r g kd name) = go_rem g kd name (rev_children r) false.
Proof.
  unfold remove_child. cbn [rev_children]. generalize false.
  induction (rev_children r) as [|ck cs IH]; intros done; [reflexivity|].
  cbn [go_rem]. unfold gk_match, removed. rewrite <- Bool.andb_assoc.
  destruct (negb done && (String.eqb (ck_group ck) g && String.eqb (ck_kind ck) kd)); rewrite IH; reflexivity.
Qed.

Lemma go_rem_done g kd name cs : go_rem g kd name cs true = cs.
Proof. induction cs as [|ck cs IH]; cbn [go_rem negb andb]; [reflexivity|]. rewrite IH. reflexivity. Qed.

Lemma removed_gk name ck g kd : gk_match g kd (removed name ck) = gk_match g kd ck.
Proof. reflexivity. Qed.

Lemma removed_entry_other g kd name ck k' :
  gk_match g kd ck = true -> (g, kd, name) <> k' -> entry_lists k' (removed name ck) = entry_lists k' ck.
Proof.
  destruct k' as [[g' kd'] n']. intros Hm Hne. unfold entry_lists. rewrite removed_gk.
  destruct (gk_match g' kd' ck) eqn:Hm'; [|reflexivity]. cbn [andb removed ck_names].
  apply mem_remove_first_other. intros ->. apply Hne.
  unfold gk_match in Hm, Hm'. apply Bool.andb_true_iff in Hm, Hm'.
  destruct Hm as [H1 H2], Hm' as [H3 H4]. apply String.eqb_eq in H1, H2, H3, H4. congruence.
Qed.

Lemma go_rem_other g kd name k' : (g, kd, name) <> k' -> forall cs done,
  lists_cs (go_rem g kd name cs done) k' = lists_cs cs k'.
Proof.
  intros Hne. induction cs as [|ck cs IH]; intros done; cbn [go_rem]; [reflexivity|].
  destruct (negb done && gk_match g kd ck) eqn:E.
  - apply Bool.andb_true_iff in E. destruct E as [_ E].
    rewrite !lists_cs_cons, go_rem_done, (removed_entry_other g kd) by assumption. reflexivity.
  - rewrite !lists_cs_cons, IH. reflexivity.
Qed.

Lemma gk_match_eq g kd ck : gk_match g kd ck = true -> ck_group ck = g /\ ck_kind ck = kd.
Proof. unfold gk_match. intros H. apply Bool.andb_true_iff in H. rewrite !String.eqb_eq in H. exact H. Qed.

Lemma go_rem_same g kd name : forall cs,
  simple_cs cs = true -> lists_cs (go_rem g kd name cs false) (g, kd, name) = false.
Proof.
  induction cs as [|ck cs IH]; cbn [go_rem simple_cs negb andb]; intros Hs; [reflexivity|].
  apply Bool.andb_true_iff in Hs. destruct Hs as [Hs H3].
  apply Bool.andb_true_iff in Hs. destruct Hs as [H1 H2]. apply Bool.negb_true_iff in H1.
  destruct (gk_match g kd ck) eqn:E.
  - rewrite lists_cs_cons, go_rem_done. unfold entry_lists. rewrite removed_gk, E. cbn [andb removed ck_names].
    rewrite mem_remove_first_same by exact H2. cbn [orb].
    apply gk_match_eq in E. destruct E as [<- <-]. apply lists_cs_no_group. exact H1.
  - rewrite lists_cs_cons, IH by exact H3. unfold entry_lists. rewrite E. reflexivity.
Qed.

Lemma go_rem_gk g kd name g' kd' : forall cs done,
  existsb (gk_match g' kd') (go_rem g kd name cs done) = existsb (gk_match g' kd') cs.
Proof.
  induction cs as [|ck cs IH]; intros done; cbn [go_rem]; [reflexivity|].
  destruct (negb done && gk_match g kd ck); cbn [existsb]; rewrite IH; reflexivity.
Qed.

Lemma go_rem_simple g kd name : forall cs done, simple_cs cs = true -> simple_cs (go_rem g kd name cs done) = true.
Proof.
  induction cs as [|ck cs IH]; intros done Hs; cbn [go_rem]; [reflexivity|].
  cbn [simple_cs] in Hs. apply Bool.andb_true_iff in Hs. destruct Hs as [Hs H3].
  apply Bool.andb_true_iff in Hs. destruct Hs as [H1 H2].
  destruct (negb done && gk_match g kd ck); cbn [simple_cs removed ck_group ck_kind ck_names].
  - rewrite go_rem_gk, H1, nodup_remove_first, IH by assumption. reflexivity.
  - rewrite go_rem_gk, H1, H2, IH by assumption. reflexivity.
Qed.

Lemma remove_child_same r g kd name : simple r = true -> lists (remove_child r g kd name) (g, kd, name) = false.
Proof. unfold lists, simple. rewrite remove_child_children. apply go_rem_same. Qed.

Lemma remove_child_other r g kd name k' : (g, kd, name) <> k' -> lists (remove_child r g kd name) k' = lists r k'.
Proof. intros Hne. unfold lists. rewrite remove_child_children. apply go_rem_other. exact Hne. Qed.

Lemma remove_child_simple r g kd name : simple r = true -> simple (remove_child r g kd name) = true.
Proof. unfold simple. rewrite remove_child_children. apply go_rem_simple. Qed.

Lemma remove_child_sub r g kd name k' : lists (remove_child r g kd name) k' = true -> lists r k' = true.
Proof.
  destruct (ck_dec (g, kd, name) k') as [<-|Hne]; [|rewrite remove_child_other by exact Hne; auto].
  unfold lists. rewrite remove_child_children. generalize false.
  induction (rev_children r) as [|ck cs IH]; intros done; cbn [go_rem]; [auto|].
  destruct (negb done && gk_match g kd ck).
  - rewrite !lists_cs_cons, go_rem_done. intros H. apply Bool.orb_true_iff in H. destruct H as [H|H].
    + unfold entry_lists in H |- *. rewrite removed_gk in H. apply Bool.andb_true_iff in H. destruct H as [H1 H2].
      cbn [removed ck_names] in H2. apply mem_remove_first_sub in H2. rewrite H1, H2. reflexivity.
    + rewrite H. apply Bool.orb_true_r.
  - rewrite !lists_cs_cons. intros H. apply Bool.orb_true_iff in H. destruct H as [H|H].
    + rewrite H. reflexivity.
    + rewrite (IH _ H). apply Bool.orb_true_r.
Qed.

(* ------------------------------------------------------------------ *)
(* update_nth                                                          *)
(* ------------------------------------------------------------------ *)

Section UpdGo.
  Context {A : Type}.
  Variables (n : nat) (f : A -> A).
  Fixpoint upd_go (i : nat) (l : list A) : list A :=
    match l with [] => [] | a :: l' => (if Nat.eqb i n then f a else a) :: upd_go (S i) l' end.
End UpdGo.

Lemma update_nth_eq {A} n (f : A -> A) l : update_nth n f l = upd_go n f 0 l.
Proof. reflexivity. Qed.

Lemma upd_go_nth {A} n (f : A -> A) : forall l i m,
  nth_error (upd_go n f i l) m =
  if Nat.eqb (i + m) n then option_map f (nth_error l m) else nth_error l m.
Proof.
  induction l as [|a l IH]; intros i m; cbn [upd_go].
  - destruct m; cbn [nth_error option_map]; destruct (Nat.eqb _ n); reflexivity.
  - destruct m as [|m]; cbn [nth_error].
    + rewrite Nat.add_0_r. destruct (Nat.eqb i n); reflexivity.
    + rewrite IH. replace (S i + m) with (i + S m) by lia. reflexivity.
Qed.

Lemma update_nth_nth {A} n (f : A -> A) l m :
  nth_error (update_nth n f l) m =
  if Nat.eqb m n then option_map f (nth_error l m) else nth_error l m.
Proof. rewrite update_nth_eq, upd_go_nth. reflexivity. Qed.

(* ------------------------------------------------------------------ *)
(* at most one revision lists a key                                    *)
(* ------------------------------------------------------------------ *)

Definition listsP (p : prev) (k : claim_key) : bool := lists (pr_rev p) k.

Definition count_listing (prs : list prev) (k : claim_key) : nat :=
  List.length (filter (fun p => listsP p k) prs).

Definition excl (prs : list prev) (k : claim_key) : Prop :=
  forall a b pa pb, nth_error prs a = Some pa -> nth_error prs b = Some pb ->
                    listsP pa k = true -> listsP pb k = true -> a = b.

Lemma count_zero_none prs k : count_listing prs k = 0 -> forall p, In p prs -> listsP p k = false.
Proof.
  unfold count_listing. induction prs as [|q prs IH]; cbn [filter]; intros H p Hin; [destruct Hin|].
  destruct (listsP q k) eqn:E; [discriminate|].
  destruct Hin as [<-|Hin]; [exact E|apply IH; assumption].
Qed.

Lemma excl_of_count prs k : count_listing prs k <= 1 -> excl prs k.
Proof.
  unfold count_listing. induction prs as [|q prs IH]; cbn [filter]; intros H a b pa pb Ha Hb La Lb.
  - destruct a; discriminate.
  - destruct (listsP q k) eqn:E.
    + cbn [List.length] in H.
      assert (H0 : count_listing prs k = 0) by (unfold count_listing; lia).
      destruct a as [|a], b as [|b]; cbn [nth_error] in Ha, Hb; [reflexivity| | |].
      * apply nth_error_In in Hb. rewrite (count_zero_none prs k H0 pb Hb) in Lb. discriminate.
      * apply nth_error_In in Ha. rewrite (count_zero_none prs k H0 pa Ha) in La. discriminate.
      * apply nth_error_In in Ha. rewrite (count_zero_none prs k H0 pa Ha) in La. discriminate.
    + destruct a as [|a], b as [|b]; cbn [nth_error] in Ha, Hb; [reflexivity| | |].
      * injection Ha as <-. congruence.
      * injection Hb as <-. congruence.
      * f_equal. eapply IH; eauto.
Qed.

Lemma count_of_excl prs k : excl prs k -> count_listing prs k <= 1.
Proof.
  unfold count_listing. induction prs as [|q prs IH]; cbn [filter]; intros H; [cbn; lia|].
  assert (Ht : excl prs k).
  { intros a b pa pb Ha Hb La Lb. specialize (H (S a) (S b) pa pb Ha Hb La Lb). lia. }
  destruct (listsP q k) eqn:E; [|apply IH; exact Ht].
  cbn [List.length].
  assert (H0 : filter (fun p => listsP p k) prs = []).
  { destruct (filter (fun p => listsP p k) prs) as [|x l] eqn:Hf; [reflexivity|].
    assert (Hx : In x (filter (fun p => listsP p k) prs)) by (rewrite Hf; now left).
    apply filter_In in Hx. destruct Hx as [Hin Hl].
    apply In_nth_error in Hin. destruct Hin as [m Hm].
    specialize (H 0 (S m) q x eq_refl Hm E Hl). discriminate. }
  rewrite H0. cbn. lia.
Qed.

Lemma count_filter_le (f : prev -> bool) prs k : count_listing (filter f prs) k <= count_listing prs k.
Proof.
  unfold count_listing. induction prs as [|q prs IH]; cbn [filter]; [lia|].
  destruct (f q); cbn [filter]; destruct (listsP q k); cbn [List.length]; lia.
Qed.

(* ------------------------------------------------------------------ *)
(* moving one key to the head revision                                 *)
(* ------------------------------------------------------------------ *)

Definition addf (k : claim_key) (p : prev) : prev :=
  match k with (g, kd, n) => set_rev p (add_child (pr_rev p) g kd n) end.
Definition remf (k : claim_key) (p : prev) : prev :=
  match k with (g, kd, n) => set_rev p (remove_child (pr_rev p) g kd n) end.

(* index 0 gets the key, the indices selected by rem lose it *)
Definition move_at (k : claim_key) (rem : nat -> bool) (m : nat) (p : prev) : prev :=
  if Nat.eqb m 0 then addf k p else if rem m then remf k p else p.

Definition moved (k : claim_key) (rem : nat -> bool) (prs prs' : list prev) : Prop :=
  forall m, nth_error prs' m = option_map (move_at k rem m) (nth_error prs m).

Lemma move_at_other k rem m p k' : k <> k' -> listsP (move_at k rem m p) k' = listsP p k'.
Proof.
  intros Hne. destruct k as [[g kd] n]. unfold move_at, addf, remf, listsP, set_rev.
  destruct (Nat.eqb m 0); cbn [pr_rev]; [apply add_child_other; exact Hne|].
  destruct (rem m); cbn [pr_rev]; [apply remove_child_other; exact Hne|reflexivity].
Qed.

Lemma move_at_simple k rem m p : simple (pr_rev p) = true -> simple (pr_rev (move_at k rem m p)) = true.
Proof.
  intros Hs. destruct k as [[g kd] n]. unfold move_at, addf, remf, set_rev.
  destruct (Nat.eqb m 0); cbn [pr_rev]; [apply add_child_simple; exact Hs|].
  destruct (rem m); cbn [pr_rev]; [apply remove_child_simple; exact Hs|exact Hs].
Qed.

Lemma move_at_head k rem p : listsP (move_at k rem 0 p) k = true.
Proof. destruct k as [[g kd] n]. unfold move_at, addf, listsP, set_rev. cbn [Nat.eqb pr_rev]. apply add_child_same. Qed.

Lemma move_at_tail_sub k rem m p : m <> 0 -> listsP (move_at k rem m p) k = true -> listsP p k = true.
Proof.
  intros Hm. destruct k as [[g kd] n]. unfold move_at, addf, remf, listsP, set_rev.
  apply Nat.eqb_neq in Hm. rewrite Hm. destruct (rem m); cbn [pr_rev]; [apply remove_child_sub|auto].
Qed.

Lemma move_at_tail_removed k rem m p :
  m <> 0 -> rem m = true -> simple (pr_rev p) = true -> listsP (move_at k rem m p) k = false.
Proof.
  intros Hm Hr Hs. destruct k as [[g kd] n]. unfold move_at, addf, remf, listsP, set_rev.
  apply Nat.eqb_neq in Hm. rewrite Hm, Hr. cbn [pr_rev]. apply remove_child_same. exact Hs.
Qed.

Lemma moved_bwd k rem prs prs' m p' :
  moved k rem prs prs' -> nth_error prs' m = Some p' ->
  exists p, nth_error prs m = Some p /\ p' = move_at k rem m p.
Proof.
  intros Hmv Hm. rewrite (Hmv m) in Hm. destruct (nth_error prs m) as [p|]; [|discriminate].
  injection Hm as <-. eauto.
Qed.

Lemma moved_excl k rem prs prs' :
  moved k rem prs prs' ->
  (forall p, In p prs -> simple (pr_rev p) = true) ->
  (forall k', excl prs k') ->
  (forall m p, m <> 0 -> nth_error prs m = Some p -> listsP p k = true -> rem m = true) ->
  forall k', excl prs' k'.
Proof.
  intros Hmv Hs Hex Hrem k' a b pa' pb' Ha Hb La Lb.
  destruct (moved_bwd _ _ _ _ _ _ Hmv Ha) as (pa & Ha0 & ->).
  destruct (moved_bwd _ _ _ _ _ _ Hmv Hb) as (pb & Hb0 & ->).
  destruct (ck_dec k k') as [<-|Hne].
  - assert (Hz : forall m p, nth_error prs m = Some p -> listsP (move_at k rem m p) k = true -> m = 0).
    { intros m p Hm Hl. destruct (Nat.eq_dec m 0) as [->|Hm0]; [reflexivity|]. exfalso.
      pose proof (move_at_tail_sub _ _ _ _ Hm0 Hl) as Hold.
      pose proof (Hrem m p Hm0 Hm Hold) as Hr.
      rewrite (move_at_tail_removed k rem m p Hm0 Hr (Hs p (nth_error_In _ _ Hm))) in Hl. discriminate. }
    rewrite (Hz a pa Ha0 La), (Hz b pb Hb0 Lb). reflexivity.
  - rewrite move_at_other in La, Lb by exact Hne. eapply Hex; eauto.
Qed.

Lemma moved_simple k rem prs prs' :
  moved k rem prs prs' -> (forall p, In p prs -> simple (pr_rev p) = true) ->
  forall p', In p' prs' -> simple (pr_rev p') = true.
Proof.
  intros Hmv Hs p' Hin. apply In_nth_error in Hin. destruct Hin as [m Hm].
  destruct (moved_bwd _ _ _ _ _ _ Hmv Hm) as (p & Hp & ->).
  apply move_at_simple. apply Hs. eapply nth_error_In; eauto.
Qed.

(* the three shapes in which the passes move a key *)
Lemma moved_add k prs :
  moved k (fun _ => false) prs (update_nth 0 (addf k) prs).
Proof.
  intros m. rewrite update_nth_nth. unfold move_at. destruct (Nat.eqb m 0); [reflexivity|].
  destruct (nth_error prs m); reflexivity.
Qed.

Lemma moved_add_rem k i prs :
  moved k (fun m => Nat.eqb m (S i)) prs (update_nth (S i) (remf k) (update_nth 0 (addf k) prs)).
Proof.
  intros m. rewrite !update_nth_nth. unfold move_at.
  destruct (Nat.eqb m 0) eqn:E0.
  - apply Nat.eqb_eq in E0. subst m. cbn [Nat.eqb]. reflexivity.
  - destruct (Nat.eqb m (S i)); destruct (nth_error prs m); reflexivity.
Qed.

Lemma moved_head_tail k l rest :
  moved k (fun _ => true) (l :: rest) (addf k l :: map (remf k) rest).
Proof.
  intros m. destruct m as [|m]; cbn [nth_error option_map]; [reflexivity|].
  unfold move_at. cbn [Nat.eqb]. rewrite nth_error_map. reflexivity.
Qed.

(* ------------------------------------------------------------------ *)
(* the invariant of the first pass                                     *)
(* ------------------------------------------------------------------ *)

Record inv (ds : dlist) (prs : list prev) (cl : claims) : Prop := {
  iv_excl : forall k, excl prs k;
  iv_claim : forall k j, claimant cl k = Some j -> exists p, nth_error prs j = Some p /\ listsP p k = true;
  iv_complete : forall p g kd n, In p prs -> listsP p (g, kd, n) = true -> find_desired ds g kd n <> None ->
                  claimant cl (g, kd, n) <> None;
  iv_simple : forall p, In p prs -> simple (pr_rev p) = true
}.

Lemma inv_move ds prs cl k rem prs' :
  inv ds prs cl -> prs <> [] -> moved k rem prs prs' ->
  (forall m p, m <> 0 -> nth_error prs m = Some p -> listsP p k = true -> rem m = true) ->
  inv ds prs' (set_claim cl k 0).
Proof.
  intros [Iex Icl Ico Isi] Hne Hmv Hrem. constructor.
  - eapply moved_excl; eauto.
  - intros k' j Hk'. destruct (ck_dec k k') as [<-|Hd].
    + rewrite claimant_set_same in Hk'. injection Hk' as <-.
      destruct prs as [|p0 rest]; [contradiction|].
      exists (move_at k rem 0 p0). split; [rewrite (Hmv 0); reflexivity|apply move_at_head].
    + rewrite claimant_set_other in Hk' by (apply ck_eqb_neq; exact Hd).
      destruct (Icl k' j Hk') as (p & Hp & Hl).
      exists (move_at k rem j p). split; [rewrite (Hmv j), Hp; reflexivity|].
      rewrite move_at_other by exact Hd. exact Hl.
  - intros p' g kd n Hin Hl Hdes. destruct (ck_dec k (g, kd, n)) as [<-|Hd].
    + rewrite claimant_set_same. discriminate.
    + rewrite claimant_set_other by (apply ck_eqb_neq; exact Hd).
      apply In_nth_error in Hin. destruct Hin as [m Hm].
      destruct (moved_bwd _ _ _ _ _ _ Hmv Hm) as (p & Hp & ->).
      rewrite move_at_other in Hl by exact Hd.
      eapply Ico; eauto. eapply nth_error_In; eauto.
  - eapply moved_simple; eauto.
Qed.

Lemma moved_nonempty k rem prs prs' : moved k rem prs prs' -> prs <> [] -> prs' <> [].
Proof.
  intros Hmv Hne ->. destruct prs as [|p0 rest]; [contradiction|].
  specialize (Hmv 0). cbn in Hmv. discriminate.
Qed.

Definition fp_step (c : ccfg) (pns : string) (observed : umap)
           (acc : list prev * claims) (e : string * string * string * json) : list prev * claims :=
  let '(prs0, cl0) := acc in
  match e with (av, kind, name, desired_child) =>
    let group := group_of av in
    if negb (is_rolling c group kind) then acc else
    match claimant cl0 (group, kind, name) with
    | None => (update_nth 0 (fun p => set_rev p (add_child (pr_rev p) group kind name)) prs0,
               set_claim cl0 (group, kind, name) 0)
    | Some O => acc
    | Some i =>
        match find_observed pns observed group kind name with
        | None => acc
        | Some child =>
            match apply_update (obj_map child) (obj_map desired_child) with
            | Ok n =>
                if jeqb (JObj n) child then
                  (update_nth i (fun p => set_rev p (remove_child (pr_rev p) group kind name))
                     (update_nth 0 (fun p => set_rev p (add_child (pr_rev p) group kind name)) prs0),
                   set_claim cl0 (group, kind, name) 0)
                else acc
            | _ => acc
            end
        end
    end
  end.

Lemma first_pass_eq c pns observed latest rest cl :
  first_pass c pns observed (latest :: rest) cl =
  fold_left (fp_step c pns observed) (pr_desired latest) (latest :: rest, cl).
Proof. reflexivity. Qed.

Lemma find_desired_in (ds : dlist) av kind name o :
  In (av, kind, name, o) ds -> find_desired ds (group_of av) kind name <> None.
Proof.
  intros Hin. unfold find_desired.
  match goal with |- context [find ?f ds] => destruct (find f ds) as [[[[a k] n] x]|] eqn:Hf end; [discriminate|].
  exfalso. eapply find_none in Hf; [|exact Hin]. cbv beta iota in Hf.
  rewrite !String.eqb_refl in Hf. discriminate.
Qed.

Lemma fp_step_inv c pns observed ds prs cl e prs' cl' :
  inv ds prs cl -> prs <> [] -> In e ds ->
  fp_step c pns observed (prs, cl) e = (prs', cl') ->
  inv ds prs' cl' /\ prs' <> [].
Proof.
  intros Hinv Hne Hin Hs. destruct e as [[[av kind] name] dc]. unfold fp_step in Hs. cbv zeta in Hs.
  set (k := (group_of av, kind, name)) in *.
  assert (Hsame : (prs, cl) = (prs', cl') -> inv ds prs' cl' /\ prs' <> []).
  { intros [= <- <-]. auto. }
  destruct (negb (is_rolling c (group_of av) kind)); [auto|].
  destruct (claimant cl k) as [j|] eqn:Hc.
  - destruct j as [|i]; [auto|].
    destruct (find_observed pns observed (group_of av) kind name) as [child|]; [|auto].
    destruct (apply_update (obj_map child) (obj_map dc)) as [n| |]; auto.
    destruct (jeqb (JObj n) child); [|auto].
    injection Hs as <- <-.
    pose proof (moved_add_rem k i prs) as Hmv. unfold k, addf, remf in Hmv.
    split; [|eapply moved_nonempty; eauto].
    eapply inv_move; eauto.
    intros m p Hm0 Hm Hl. apply Nat.eqb_eq.
    destruct (iv_claim _ _ _ Hinv k (S i) Hc) as (pi & Hpi & Hli).
    eapply (iv_excl _ _ _ Hinv k); eauto.
  - injection Hs as <- <-.
    pose proof (moved_add k prs) as Hmv. unfold k, addf in Hmv.
    split; [|eapply moved_nonempty; eauto].
    eapply inv_move; eauto.
    intros m p Hm0 Hm Hl. exfalso.
    eapply (iv_complete _ _ _ Hinv p (group_of av) kind name); eauto.
    + eapply nth_error_In; eauto.
    + eapply find_desired_in; eauto.
Qed.

Lemma fp_fold_inv c pns observed ds : forall l prs cl prs' cl',
  (forall e, In e l -> In e ds) ->
  inv ds prs cl -> prs <> [] ->
  fold_left (fp_step c pns observed) l (prs, cl) = (prs', cl') ->
  inv ds prs' cl' /\ prs' <> [].
Proof.
  induction l as [|e l IH]; intros prs cl prs' cl' Hsub Hinv Hne Hf; cbn [fold_left] in Hf.
  - injection Hf as <- <-. auto.
  - destruct (fp_step c pns observed (prs, cl) e) as [prs1 cl1] eqn:Hs.
    destruct (fp_step_inv c pns observed ds prs cl e prs1 cl1 Hinv Hne (Hsub e (or_introl eq_refl)) Hs)
      as [Hinv1 Hne1].
    eapply IH; eauto. intros e' Hin. apply Hsub. now right.
Qed.

(* ------------------------------------------------------------------ *)
(* the first pass only ever lists desired names                        *)
(* ------------------------------------------------------------------ *)

Lemma move_at_lists_sub k rem m p k' : listsP (move_at k rem m p) k' = true -> k' = k \/ listsP p k' = true.
Proof.
  intros H. destruct (ck_dec k k') as [<-|Hne]; [left; reflexivity|].
  rewrite move_at_other in H by exact Hne. right. exact H.
Qed.

Lemma move_at_desired k rem m p : pr_desired (move_at k rem m p) = pr_desired p.
Proof.
  destruct k as [[g kd] n]. unfold move_at, addf, remf, set_rev.
  destruct (Nat.eqb m 0); [reflexivity|]. destruct (rem m); reflexivity.
Qed.

Definition all_desired (ds : dlist) (prs : list prev) : Prop :=
  forall p g kd n, In p prs -> listsP p (g, kd, n) = true -> find_desired ds g kd n <> None.

Definition head_desired (ds : dlist) (prs : list prev) : Prop :=
  exists p0 rest, prs = p0 :: rest /\ pr_desired p0 = ds.

Lemma moved_all_desired ds g kd n rem prs prs' :
  moved (g, kd, n) rem prs prs' -> find_desired ds g kd n <> None ->
  all_desired ds prs -> all_desired ds prs'.
Proof.
  intros Hmv Hd Hall p' g' kd' n' Hin Hl. apply In_nth_error in Hin. destruct Hin as [m Hm].
  destruct (moved_bwd _ _ _ _ _ _ Hmv Hm) as (p & Hp & ->).
  apply move_at_lists_sub in Hl. destruct Hl as [[= -> -> ->]|Hl]; [exact Hd|].
  eapply Hall; eauto. eapply nth_error_In; eauto.
Qed.

Lemma moved_head_desired ds k rem prs prs' : moved k rem prs prs' -> head_desired ds prs -> head_desired ds prs'.
Proof.
  intros Hmv (p0 & rest & -> & Hd). pose proof (Hmv 0) as H0. cbn [nth_error option_map] in H0.
  destruct prs' as [|p0' rest']; [discriminate|]. cbn [nth_error] in H0. injection H0 as ->.
  exists (move_at k rem 0 p0), rest'. split; [reflexivity|]. rewrite move_at_desired. exact Hd.
Qed.

Lemma fp_step_desired c pns observed ds prs cl e prs' cl' :
  all_desired ds prs -> head_desired ds prs -> In e ds ->
  fp_step c pns observed (prs, cl) e = (prs', cl') ->
  all_desired ds prs' /\ head_desired ds prs'.
Proof.
  intros Hall Hhd Hin Hs. destruct e as [[[av kind] name] dc]. unfold fp_step in Hs. cbv zeta in Hs.
  pose proof (find_desired_in ds av kind name dc Hin) as Hd.
  assert (Hsame : (prs, cl) = (prs', cl') -> all_desired ds prs' /\ head_desired ds prs').
  { intros [= <- <-]. auto. }
  destruct (negb (is_rolling c (group_of av) kind)); [auto|].
  destruct (claimant cl (group_of av, kind, name)) as [j|] eqn:Hc.
  - destruct j as [|i]; [auto|].
    destruct (find_observed pns observed (group_of av) kind name) as [child|]; [|auto].
    destruct (apply_update (obj_map child) (obj_map dc)) as [n| |]; auto.
    destruct (jeqb (JObj n) child); [|auto].
    injection Hs as <- <-.
    pose proof (moved_add_rem (group_of av, kind, name) i prs) as Hmv. unfold addf, remf in Hmv.
    split; [eapply moved_all_desired; eauto|eapply moved_head_desired; eauto].
  - injection Hs as <- <-.
    pose proof (moved_add (group_of av, kind, name) prs) as Hmv. unfold addf in Hmv.
    split; [eapply moved_all_desired; eauto|eapply moved_head_desired; eauto].
Qed.

Lemma fp_fold_desired c pns observed ds : forall l prs cl prs' cl',
  (forall e, In e l -> In e ds) ->
  all_desired ds prs -> head_desired ds prs ->
  fold_left (fp_step c pns observed) l (prs, cl) = (prs', cl') ->
  all_desired ds prs' /\ head_desired ds prs'.
Proof.
  induction l as [|e l IH]; intros prs cl prs' cl' Hsub Hall Hhd Hf; cbn [fold_left] in Hf.
  - injection Hf as <- <-. auto.
  - destruct (fp_step c pns observed (prs, cl) e) as [prs1 cl1] eqn:Hs.
    destruct (fp_step_desired c pns observed ds prs cl e prs1 cl1 Hall Hhd (Hsub e (or_introl eq_refl)) Hs)
      as [Hall1 Hhd1].
    eapply IH; eauto. intros e' Hin. apply Hsub. now right.
Qed.

(* ------------------------------------------------------------------ *)
(* the second pass                                                     *)
(* ------------------------------------------------------------------ *)

Lemma upd_go_id {A} n (f : A -> A) : forall l i, n < i -> upd_go n f i l = l.
Proof.
  induction l as [|a l IH]; intros i Hi; cbn [upd_go]; [reflexivity|].
  assert (E : Nat.eqb i n = false) by (apply Nat.eqb_neq; lia). rewrite E, IH by lia. reflexivity.
Qed.

Lemma update_nth_0 {A} (f : A -> A) a l : update_nth 0 f (a :: l) = f a :: l.
Proof. rewrite update_nth_eq. cbn [upd_go Nat.eqb]. rewrite upd_go_id by lia. reflexivity. Qed.

Lemma second_pass_shape c pns observed latest rest cl prs' st :
  second_pass c pns observed (latest :: rest) cl = (prs', st) ->
  prs' = latest :: rest \/ exists k, prs' = addf k latest :: map (remf k) rest.
Proof.
  unfold second_pass.
  match goal with |- context [find ?f ?l] => destruct (find f l) as [[o|]|] end;
    try (intros [= <- <-]; left; reflexivity).
  destruct (should_continue_rolling c pns latest observed); [intros [= <- <-]; left; reflexivity|].
  intros [= <- <-]. right. exists (group_of (get_api_version o), get_kind o, relative_name pns o).
  rewrite map_id. rewrite update_nth_0. reflexivity.
Qed.

Lemma second_pass_excl c pns observed prs cl prs' st :
  second_pass c pns observed prs cl = (prs', st) ->
  (forall p, In p prs -> simple (pr_rev p) = true) ->
  (forall k, excl prs k) ->
  forall k, excl prs' k.
Proof.
  intros Hs Hsi Hex. destruct prs as [|latest rest].
  - cbn in Hs. injection Hs as <- <-. exact Hex.
  - apply second_pass_shape in Hs. destruct Hs as [->|(k & ->)]; [exact Hex|].
    eapply moved_excl; [apply moved_head_tail|exact Hsi|exact Hex|reflexivity].
Qed.

Print Assumptions add_child_same.
Print Assumptions add_child_other.
Print Assumptions remove_child_same.
Print Assumptions update_nth_nth.
Print Assumptions excl_of_count.
Print Assumptions fp_fold_inv.
Print Assumptions second_pass_excl.
Print Assumptions fp_fold_desired.
