(* C18Proofs.v — proofs about Model/Informer.v (pkg/dynamic/informer). *)
From Coq Require Import List Arith Bool Lia.
From MC Require Import Model.Informer.
Import ListNotations.

(* ------------------------------------------------------------------ *)
(* basics                                                               *)
(* ------------------------------------------------------------------ *)
Lemma upd_same : forall A (f : nat -> A) k v, upd f k v k = v.
Proof. intros. unfold upd. rewrite Nat.eqb_refl. reflexivity. Qed.

Lemma upd_other : forall A (f : nat -> A) k v x, x <> k -> upd f k v x = f x.
Proof. intros A f k v x Hne. unfold upd. destruct (Nat.eqb_spec x k); [contradiction|reflexivity]. Qed.

(* case analysis on every [upd] lookup; terminates: each destruct removes one test *)
Ltac eqb_cases :=
  repeat match goal with
  | |- context [Nat.eqb ?a ?b] => destruct (Nat.eqb_spec a b)
  | H : context [Nat.eqb ?a ?b] |- _ => destruct (Nat.eqb_spec a b)
  end.
Ltac upd_cases := unfold upd in *; eqb_cases; try subst; simpl in *.

Lemma run_from_app : forall ops1 ops2 st, run_from st (ops1 ++ ops2) = run_from (run_from st ops1) ops2.
Proof. induction ops1 as [|o ops1 IH]; intros; simpl; [reflexivity|apply IH]. Qed.

Lemma run_app : forall ops1 ops2, run (ops1 ++ ops2) = run_from (run ops1) ops2.
Proof. intros. apply run_from_app. Qed.

Lemma track_from_app : forall ops1 ops2 tr, track_from tr (ops1 ++ ops2) = track_from (track_from tr ops1) ops2.
Proof. induction ops1 as [|o ops1 IH]; intros; simpl; [reflexivity|apply IH]. Qed.

Lemma outs_from_cons : forall st o ops,
  outs_from st (o :: ops) = (r_out (step st o) ++ outs_from (r_st (step st o)) ops)%list.
Proof. reflexivity. Qed.

Lemma outs_from_app : forall ops1 ops2 st,
  outs_from st (ops1 ++ ops2) = (outs_from st ops1 ++ outs_from (run_from st ops1) ops2)%list.
Proof.
  induction ops1 as [|o ops1 IH]; intros; simpl; [reflexivity|].
  rewrite !outs_from_cons, IH, app_assoc. reflexivity.
Qed.

Lemma wf_from_app : forall ops1 ops2 tr,
  wf_from tr (ops1 ++ ops2) = wf_from tr ops1 && wf_from (track_from tr ops1) ops2.
Proof.
  induction ops1 as [|o ops1 IH]; intros; simpl; [reflexivity|].
  rewrite IH, andb_assoc. reflexivity.
Qed.

Lemma memn_In : forall o l, memn o l = true <-> In o l.
Proof.
  intros. unfold memn. rewrite existsb_exists. split.
  - intros [x [Hin He]]. apply Nat.eqb_eq in He. subst. exact Hin.
  - intros Hin. exists o. split; [exact Hin|apply Nat.eqb_refl].
Qed.

Lemma NoDup_removen : forall o l, NoDup l -> NoDup (removen o l).
Proof. intros. unfold removen. apply NoDup_filter. assumption. Qed.

Lemma NoDup_snoc : forall (o : nat) l, NoDup l -> ~ In o l -> NoDup (l ++ [o]).
Proof.
  intros o l Hnd Hni. induction l as [|x l IH]; simpl.
  - constructor; [intros []|constructor].
  - inversion Hnd; subst. constructor.
    + rewrite in_app_iff. intros [H|[H|[]]]; [contradiction|subst; apply Hni; left; reflexivity].
    + apply IH; [assumption|intros H; apply Hni; right; exact H].
Qed.

Lemma cache_apply_nodup : forall k o c, NoDup c -> NoDup (fst (cache_apply k o c)).
Proof.
  intros k o c Hnd. unfold cache_apply.
  destruct k; destruct (memn o c) eqn:Hm; simpl; try assumption.
  - apply NoDup_snoc; [assumption|]. rewrite <- memn_In, Hm. discriminate.
  - apply NoDup_snoc; [assumption|]. rewrite <- memn_In, Hm. discriminate.
  - apply NoDup_removen. assumption.
Qed.

(* ------------------------------------------------------------------ *)
(* the factory invariant: holds in every reachable state               *)
(* ------------------------------------------------------------------ *)
Record Inv (st : state) : Prop := mkInv {
  inv_cur : forall r i, rs_cur (st_rs st r) = Some i ->
              i < st_ninf st /\ i_res (st_inf st i) = r /\ i_stopped (st_inf st i) = false;
  inv_live : forall i, i < st_ninf st -> i_stopped (st_inf st i) = false ->
              rs_cur (st_rs st (i_res (st_inf st i))) = Some i;
  inv_ref : forall r, rs_cur (st_rs st r) = None <-> rs_ref (st_rs st r) = 0;
  inv_sub : forall s i, st_sub st s = Some i -> s < st_nsub st /\ i < st_ninf st;
  inv_sub_some : forall s, s < st_nsub st -> st_sub st s <> None;
  inv_cache : forall r i, rs_cur (st_rs st r) = Some i -> i_cache (st_inf st i) = rs_store (st_rs st r);
  inv_nodup_cache : forall i, NoDup (i_cache (st_inf st i));
  inv_nodup_store : forall r, NoDup (rs_store (st_rs st r));
  inv_hs : forall i e, In e (i_hs (st_inf st i)) -> st_sub st (he_sub e) = Some i
}.

Lemma Inv_init : Inv init.
Proof.
  constructor; simpl; intros; try discriminate; try lia; try contradiction; try constructor; auto.
Qed.

Lemma Inv_step : forall st o, Inv st -> Inv (r_st (step st o)).
Proof.
  intros st o I. destruct I as [Icur Ilive Iref Isub Isubs Icache Indc Inds Ihs].
  destruct o as [r|s h own|s|s|r k o|s h]; simpl.
  - (* Subscribe *)
    destruct (rs_cur (st_rs st r)) as [i|] eqn:Hc; simpl.
    + destruct (Icur _ _ Hc) as [Hi [Hr Hs]].
      constructor; simpl; intros.
      * upd_cases; simpl in *.
        -- inversion H; subst. auto.
        -- apply Icur; assumption.
      * upd_cases; simpl; [rewrite Hr in *|]; auto.
        -- destruct (Nat.eq_dec (i_res (st_inf st i0)) (i_res (st_inf st i))) as [E|E].
           ++ rewrite E. rewrite upd_same. simpl. rewrite <- E. rewrite <- (Ilive _ H H0). rewrite E, Hr. exact Hc.
           ++ rewrite upd_other by (rewrite Hr in E; exact E). apply Ilive; assumption.
      * upd_cases; simpl; [split; intros; [discriminate|lia]|apply Iref].
      * upd_cases; simpl in *.
        -- inversion H; subst. split; [lia|assumption].
        -- destruct (Isub _ _ H). split; [lia|assumption].
      * upd_cases; simpl; [discriminate|]. apply Isubs. lia.
      * upd_cases; simpl in *; [inversion H; subst; apply Icache; assumption|apply Icache; assumption].
      * apply Indc.
      * upd_cases; simpl; apply Inds.
      * specialize (Ihs _ _ H). destruct (Isub _ _ Ihs) as [Hlt _].
        rewrite upd_other by lia. exact Ihs.
    + constructor; simpl; intros.
      * upd_cases; simpl in *.
        -- inversion H; subst. rewrite upd_same. simpl. auto.
        -- destruct (Icur _ _ H) as [Hi [Hr Hs]]. rewrite upd_other by lia. auto.
      * destruct (Nat.eq_dec i (st_ninf st)) as [E|E].
        -- subst. rewrite upd_same. simpl. rewrite upd_same. reflexivity.
        -- rewrite upd_other in * by assumption.
           assert (Hlt : i < st_ninf st) by lia.
           specialize (Ilive _ Hlt H0).
           destruct (Nat.eq_dec (i_res (st_inf st i)) r) as [E2|E2].
           ++ rewrite E2 in Ilive. congruence.
           ++ rewrite upd_other by assumption. exact Ilive.
      * upd_cases; simpl; [split; intros; [discriminate|lia]|apply Iref].
      * upd_cases; simpl in *.
        -- inversion H; subst. split; lia.
        -- destruct (Isub _ _ H). split; lia.
      * upd_cases; simpl; [discriminate|]. apply Isubs. lia.
      * upd_cases; simpl in *.
        -- inversion H; subst. rewrite upd_same. reflexivity.
        -- destruct (Icur _ _ H) as [Hi _]. rewrite upd_other by lia. apply Icache; assumption.
      * upd_cases; simpl; [apply Inds|apply Indc].
      * upd_cases; simpl; apply Inds.
      * destruct (Nat.eq_dec i (st_ninf st)) as [E|E].
        -- subst. rewrite upd_same in H. simpl in H. contradiction.
        -- rewrite upd_other in H by assumption. specialize (Ihs _ _ H).
           destruct (Isub _ _ Ihs) as [Hlt _]. rewrite upd_other by lia. exact Ihs.
  - (* AddHandler *)
    destruct (st_sub st s) as [i|] eqn:Hs; simpl; [|constructor; assumption].
    constructor; simpl; intros.
    + destruct (Icur _ _ H) as [Hi [Hr Hst]]. upd_cases; simpl; auto.
    + upd_cases; simpl in *; apply Ilive; assumption.
    + apply Iref.
    + apply Isub; assumption.
    + apply Isubs; assumption.
    + upd_cases; simpl; apply Icache; assumption.
    + upd_cases; simpl; apply Indc.
    + apply Inds.
    + upd_cases; simpl in *.
      * rewrite in_app_iff in H. destruct H as [H|[H|[]]]; [apply Ihs; assumption|subst; simpl; assumption].
      * apply Ihs; assumption.
  - (* RemoveHandlers *)
    destruct (st_sub st s) as [i|] eqn:Hs; simpl; [|constructor; assumption].
    constructor; simpl; intros.
    + destruct (Icur _ _ H) as [Hi [Hr Hst]]. upd_cases; simpl; auto.
    + upd_cases; simpl in *; apply Ilive; assumption.
    + apply Iref.
    + apply Isub; assumption.
    + apply Isubs; assumption.
    + upd_cases; simpl; apply Icache; assumption.
    + upd_cases; simpl; apply Indc.
    + apply Inds.
    + upd_cases; simpl in *.
      * apply filter_In in H. destruct H as [H _]. apply Ihs; assumption.
      * apply Ihs; assumption.
  - (* Close *)
    destruct (st_sub st s) as [i|] eqn:Hs; simpl; [|constructor; assumption].
    destruct (2 <=? rs_ref (st_rs st (i_res (st_inf st i)))) eqn:Hge; simpl.
    + apply Nat.leb_le in Hge.
      constructor; simpl; intros.
      * upd_cases; simpl in *; apply Icur; assumption.
      * destruct (Nat.eq_dec (i_res (st_inf st i0)) (i_res (st_inf st i))) as [E|E].
        -- rewrite E, upd_same. simpl. rewrite <- E. apply Ilive; assumption.
        -- rewrite upd_other by assumption. apply Ilive; assumption.
      * upd_cases; simpl; [|apply Iref].
        split; intros H.
        -- apply Iref in H. lia.
        -- lia.
      * apply Isub; assumption.
      * apply Isubs; assumption.
      * upd_cases; simpl in *; apply Icache; assumption.
      * apply Indc.
      * upd_cases; simpl; apply Inds.
      * apply Ihs; assumption.
    + destruct (i_stopped (st_inf st i)) eqn:Hst; simpl; [constructor; assumption|].
      destruct (Isub _ _ Hs) as [Hslt Hilt].
      pose proof (Ilive _ Hilt Hst) as Hcur.
      constructor; simpl; intros.
      * upd_cases; simpl in *; try discriminate.
        -- destruct (Icur _ _ H) as [_ [Hr _]]. congruence.
        -- apply Icur; assumption.
      * destruct (Nat.eq_dec i0 i) as [E|E].
        -- subst. rewrite upd_same in H0. simpl in H0. discriminate.
        -- rewrite upd_other in * by assumption.
           specialize (Ilive _ H H0).
           destruct (Nat.eq_dec (i_res (st_inf st i0)) (i_res (st_inf st i))) as [E2|E2].
           ++ rewrite E2 in Ilive. congruence.
           ++ rewrite upd_other by assumption. exact Ilive.
      * upd_cases; simpl; [split; reflexivity|apply Iref].
      * apply Isub; assumption.
      * apply Isubs; assumption.
      * upd_cases; simpl in *; try discriminate.
        -- destruct (Icur _ _ H) as [_ [Hr _]]. congruence.
        -- apply Icache; assumption.
      * upd_cases; simpl; apply Indc.
      * upd_cases; simpl; apply Inds.
      * upd_cases; simpl in *; apply Ihs; assumption.
  - (* Event *)
    destruct (rs_cur (st_rs st r)) as [i|] eqn:Hc; simpl.
    + destruct (Icur _ _ Hc) as [Hi [Hr Hst]].
      constructor; simpl; intros.
      * upd_cases; simpl in *; auto.
        -- destruct (Icur _ _ H) as [? [? ?]]. auto.
        -- destruct (Icur _ _ H) as [? [? ?]]. auto.
      * destruct (Nat.eq_dec i0 i) as [E|E].
        -- subst. rewrite upd_same. simpl. rewrite Hr, upd_same. simpl. exact Hc.
        -- rewrite upd_other in * by assumption. specialize (Ilive _ H H0).
           destruct (Nat.eq_dec (i_res (st_inf st i0)) r) as [E2|E2].
           ++ rewrite E2 in *. congruence.
           ++ rewrite upd_other by assumption. exact Ilive.
      * upd_cases; simpl; apply Iref.
      * apply Isub; assumption.
      * apply Isubs; assumption.
      * destruct (Nat.eq_dec r0 r) as [E|E].
        -- subst. rewrite upd_same in *. simpl in *. rewrite Hc in H. inversion H; subst.
           rewrite upd_same. simpl. rewrite (Icache _ _ Hc). reflexivity.
        -- rewrite upd_other in * by assumption.
           destruct (Nat.eq_dec i0 i) as [E2|E2].
           ++ subst. destruct (Icur _ _ H) as [_ [Hr2 _]]. congruence.
           ++ rewrite upd_other by assumption. apply Icache; assumption.
      * upd_cases; simpl; [apply cache_apply_nodup|]; apply Indc.
      * upd_cases; simpl; [apply cache_apply_nodup|]; apply Inds.
      * upd_cases; simpl in *; apply Ihs; assumption.
    + constructor; simpl; intros.
      * upd_cases; simpl in *; [congruence|apply Icur; assumption].
      * specialize (Ilive _ H H0).
        destruct (Nat.eq_dec (i_res (st_inf st i)) r) as [E|E].
        -- rewrite E in Ilive. congruence.
        -- rewrite upd_other by assumption. exact Ilive.
      * upd_cases; simpl; apply Iref.
      * apply Isub; assumption.
      * apply Isubs; assumption.
      * upd_cases; simpl in *; [congruence|apply Icache; assumption].
      * apply Indc.
      * upd_cases; simpl; [apply cache_apply_nodup|]; apply Inds.
      * apply Ihs; assumption.
  - (* Tick *)
    destruct (st_sub st s) as [i|] eqn:Hs; simpl; constructor; assumption.
Qed.

Lemma Inv_run_from : forall ops st, Inv st -> Inv (run_from st ops).
Proof. induction ops as [|o ops IH]; intros st I; simpl; [exact I|]. apply IH, Inv_step, I. Qed.

Lemma Inv_run : forall ops, Inv (run ops).
Proof. intros. apply Inv_run_from, Inv_init. Qed.
