(* C18Proofs.v — proofs about Model/Informer.v (pkg/dynamic/informer). *)
From Coq Require Import List Arith Bool Lia.
From MC Require Import Model.Informer.
Import ListNotations.

(* ------------------------------------------------------------------ *)
(* basics                                                               *)
(* ------------------------------------------------------------------ *)
Lemma upd_same : forall A (f : nat -> A) k v, upd f k v k = v.
Proof. intros. unfold upd. rewrite Nat.eqb_refl. reflexivity. Qed.

Lemma upd_other : forall A (f : nat -> A) k v x, x <> k -> upd f k v x = f x.
Proof. intros A f k v x Hne. unfold upd. destruct (Nat.eqb_spec x k); [contradiction|reflexivity]. Qed.

(* case analysis on every [upd] lookup; terminates: each destruct removes one test *)
Ltac eqb_cases :=
  repeat match goal with
  | |- context [Nat.eqb ?a ?b] => destruct (Nat.eqb_spec a b)
  | H : context [Nat.eqb ?a ?b] |- _ => destruct (Nat.eqb_spec a b)
  end.
Ltac upd_cases := unfold upd in *; eqb_cases; try subst; simpl in *.

Lemma run_from_app : forall ops1 ops2 st, run_from st (ops1 ++ ops2) = run_from (run_from st ops1) ops2.
Proof. induction ops1 as [|o ops1 IH]; intros; simpl; [reflexivity|apply IH]. Qed.

Lemma run_app : forall ops1 ops2, run (ops1 ++ ops2) = run_from (run ops1) ops2.
Proof. intros. apply run_from_app. Qed.

Lemma track_from_app : forall ops1 ops2 tr, track_from tr (ops1 ++ ops2) = track_from (track_from tr ops1) ops2.
Proof. induction ops1 as [|o ops1 IH]; intros; simpl; [reflexivity|apply IH]. Qed.

Lemma outs_from_cons : forall st o ops,
  outs_from st (o :: ops) = (r_out (step st o) ++ outs_from (r_st (step st o)) ops)%list.
Proof. reflexivity. Qed.

Lemma outs_from_app : forall ops1 ops2 st,
  outs_from st (ops1 ++ ops2) = (outs_from st ops1 ++ outs_from (run_from st ops1) ops2)%list.
Proof.
  induction ops1 as [|o ops1 IH]; intros; simpl; [reflexivity|].
  rewrite !outs_from_cons, IH, app_assoc. reflexivity.
Qed.

Lemma memn_In : forall o l, memn o l = true <-> In o l.
Proof.
  intros. unfold memn. rewrite existsb_exists. split.
  - intros [x [Hin He]]. apply Nat.eqb_eq in He. subst. exact Hin.
  - intros Hin. exists o. split; [exact Hin|apply Nat.eqb_refl].
Qed.

Lemma NoDup_removen : forall o l, NoDup l -> NoDup (removen o l).
Proof. intros. unfold removen. apply NoDup_filter. assumption. Qed.

Lemma NoDup_snoc : forall (o : nat) l, NoDup l -> ~ In o l -> NoDup (l ++ [o]).
Proof.
  intros o l Hnd Hni. induction l as [|x l IH]; simpl.
  - constructor; [intros []|constructor].
  - inversion Hnd; subst. constructor.
    + rewrite in_app_iff. intros [H|[H|[]]]; [contradiction|subst; apply Hni; left; reflexivity].
    + apply IH; [assumption|intros H; apply Hni; right; exact H].
Qed.

Lemma cache_apply_nodup : forall k o c, NoDup c -> NoDup (fst (cache_apply k o c)).
Proof.
  intros k o c Hnd. unfold cache_apply.
  destruct k; destruct (memn o c) eqn:Hm; simpl; try assumption.
  - apply NoDup_snoc; [assumption|]. rewrite <- memn_In, Hm. discriminate.
  - apply NoDup_snoc; [assumption|]. rewrite <- memn_In, Hm. discriminate.
  - apply NoDup_removen. assumption.
Qed.

(* ------------------------------------------------------------------ *)
(* the factory invariant: holds in every reachable state               *)
(* ------------------------------------------------------------------ *)
Record Inv (st : state) : Prop := mkInv {
  inv_cur : forall r i, rs_cur (st_rs st r) = Some i ->
              i < st_ninf st /\ i_res (st_inf st i) = r /\ i_stopped (st_inf st i) = false;
  inv_live : forall i, i < st_ninf st -> i_stopped (st_inf st i) = false ->
              rs_cur (st_rs st (i_res (st_inf st i))) = Some i;
  inv_ref : forall r, rs_cur (st_rs st r) = None <-> rs_ref (st_rs st r) = 0;
  inv_sub : forall s i, st_sub st s = Some i -> s < st_nsub st /\ i < st_ninf st;
  inv_sub_some : forall s, s < st_nsub st -> st_sub st s <> None;
  inv_cache : forall r i, rs_cur (st_rs st r) = Some i -> i_cache (st_inf st i) = rs_store (st_rs st r);
  inv_nodup_cache : forall i, NoDup (i_cache (st_inf st i));
  inv_nodup_store : forall r, NoDup (rs_store (st_rs st r));
  inv_hs : forall i e, In e (i_hs (st_inf st i)) -> st_sub st (he_sub e) = Some i
}.

Lemma Inv_init : Inv init.
Proof.
  constructor; simpl; intros; try discriminate; try lia; try contradiction; try constructor; auto.
Qed.

Ltac learn H :=
  let T := type of H in
  lazymatch goal with
  | _ : T |- _ => fail
  | _ => pose proof H
  end.

Ltac split_hyps :=
  repeat match goal with
  | H : _ /\ _ |- _ => destruct H
  | H : Some _ = Some _ |- _ => injection H as H
  | H : In _ (_ ++ _) |- _ => apply in_app_iff in H; destruct H as [H|H]
  | H : In _ [_] |- _ => destruct H as [H|[]]
  | H : In _ (filter _ _) |- _ => apply filter_In in H
  end.

Local Arguments Nat.leb : simpl never.

Section InvStep.
  Variable st : state.
  Hypothesis I : Inv st.

  Ltac sat1 :=
    match goal with
    | H : ?i < S (st_ninf st), n : ?i <> st_ninf st |- _ =>
        lazymatch goal with
        | _ : i < st_ninf st |- _ => fail
        | _ => assert (i < st_ninf st) by lia
        end
    | H : rs_cur (st_rs st ?r) = Some ?i |- _ => learn (proj1 (inv_cur st I r i H))
    | H : rs_cur (st_rs st ?r) = Some ?i |- _ => learn (proj1 (proj2 (inv_cur st I r i H)))
    | H : rs_cur (st_rs st ?r) = Some ?i |- _ => learn (proj2 (proj2 (inv_cur st I r i H)))
    | H : rs_cur (st_rs st ?r) = Some ?i |- _ => learn (inv_cache st I r i H)
    | H : st_sub st ?s = Some ?i |- _ => learn (proj1 (inv_sub st I s i H))
    | H : st_sub st ?s = Some ?i |- _ => learn (proj2 (inv_sub st I s i H))
    | H : In ?e (i_hs (st_inf st ?i)) |- _ => learn (inv_hs st I i e H)
    | H1 : ?i < st_ninf st, H2 : i_stopped (st_inf st ?i) = false |- _ => learn (inv_live st I i H1 H2)
    end.
  Ltac saturate := split_hyps; repeat (sat1; split_hyps).

  Ltac close :=
    saturate; try subst; simpl in *;
    first [ assumption | congruence | lia
          | solve [split; intros; first [congruence | lia]]
          | solve [repeat split; first [assumption | congruence | lia]] ].

  Ltac iff_ref :=
    match goal with
    | |- rs_cur (st_rs st ?r) = None <-> _ =>
        let P1 := fresh in let P2 := fresh in let Hx := fresh in
        destruct (inv_ref st I r) as [P1 P2]; split; intro Hx;
        [ try (apply P1 in Hx); first [lia | congruence]
        | first [lia | congruence | solve [apply P2; lia]] ]
    end.

  Ltac iff_some :=
    match goal with
    | Hc : rs_cur (st_rs st ?r) = Some _ |- Some _ = None <-> _ =>
        let P := fresh in let Hx := fresh in
        destruct (inv_ref st I r) as [_ P]; split; intro Hx;
        [ discriminate | rewrite P in Hc by exact Hx; discriminate ]
    end.

  Ltac iff_none :=
    match goal with
    | Hc : rs_cur (st_rs st ?r) = None |- None = None <-> _ =>
        let P := fresh in
        destruct (inv_ref st I r) as [P _]; split; intro; [apply P; exact Hc | reflexivity]
    end.

  Ltac fin :=
    first [ close
          | iff_ref
          | iff_some
          | iff_none
          | apply (inv_ref st I)
          | apply (inv_nodup_cache st I)
          | apply (inv_nodup_store st I)
          | solve [apply (inv_sub_some st I); lia]
          | solve [apply cache_apply_nodup; first [apply (inv_nodup_cache st I) | apply (inv_nodup_store st I)]] ].

  Lemma Inv_subscribe : forall r, Inv (r_st (step st (Subscribe r))).
  Proof.
    intros r. simpl. destruct (rs_cur (st_rs st r)) as [i|] eqn:Hc; simpl.
    - constructor; simpl; intros; upd_cases; try fin.
    - constructor; simpl; intros; upd_cases; try fin.
  Qed.

  Lemma Inv_addhandler : forall s h own, Inv (r_st (step st (AddHandler s h own))).
  Proof.
    intros. simpl. destruct (st_sub st s) as [i|] eqn:Hs; simpl; [|exact I].
    constructor; simpl; intros; upd_cases; try fin.
  Qed.

  Lemma Inv_removehandlers : forall s, Inv (r_st (step st (RemoveHandlers s))).
  Proof.
    intros. simpl. destruct (st_sub st s) as [i|] eqn:Hs; simpl; [|exact I].
    constructor; simpl; intros; upd_cases; try fin.
  Qed.

  Lemma Inv_close : forall s, Inv (r_st (step st (Close s))).
  Proof.
    intros. simpl. destruct (st_sub st s) as [i|] eqn:Hs; simpl; [|exact I].
    destruct (st_closed st s) eqn:Hcl; simpl; [exact I|].
    destruct (2 <=? rs_ref (st_rs st (i_res (st_inf st i)))) eqn:Hge; simpl.
    - apply Nat.leb_le in Hge. constructor; simpl; intros; upd_cases; try fin.
    - apply Nat.leb_gt in Hge. destruct (i_stopped (st_inf st i)) eqn:Hst; simpl.
      + destruct I; constructor; simpl; assumption.
      + constructor; simpl; intros; upd_cases; try fin.
  Qed.

  Lemma Inv_event : forall r k o, Inv (r_st (step st (Event r k o))).
  Proof.
    intros. simpl. destruct (rs_cur (st_rs st r)) as [i|] eqn:Hc; simpl.
    - constructor; simpl; intros; upd_cases; try fin.
    - constructor; simpl; intros; upd_cases; try fin.
  Qed.

  Lemma Inv_tick : forall s h, Inv (r_st (step st (Tick s h))).
  Proof. intros. simpl. destruct (st_sub st s); exact I. Qed.
End InvStep.

Lemma Inv_step : forall st o, Inv st -> Inv (r_st (step st o)).
Proof.
  intros st o I. destruct o.
  - apply Inv_subscribe, I.
  - apply Inv_addhandler, I.
  - apply Inv_removehandlers, I.
  - apply Inv_close, I.
  - apply Inv_event, I.
  - apply Inv_tick, I.
  - exact I.
Qed.

Lemma Inv_run_from : forall ops st, Inv st -> Inv (run_from st ops).
Proof. induction ops as [|o ops IH]; intros st I; simpl; [exact I|]. apply IH, Inv_step, I. Qed.

Lemma Inv_run : forall ops, Inv (run ops).
Proof. intros. apply Inv_run_from, Inv_init. Qed.

(* ================================================================== *)
(* isolation of handler operations: a simulation between a run and the run without a's AddHandler/RemoveHandlers *)
(* ================================================================== *)
Module Iso.
(* ---- the simulation relation ---- *)
Definition hs_but (a : nat) (l : list hent) : list hent :=
  filter (fun e => negb (Nat.eqb (he_sub e) a)) l.

Definition isim (a : nat) (i1 i2 : inf) : Prop :=
  i_res i1 = i_res i2 /\ i_stopped i1 = i_stopped i2 /\
  i_cache i1 = i_cache i2 /\ hs_but a (i_hs i1) = hs_but a (i_hs i2).

Record Sim (a : nat) (s1 s2 : state) : Prop := mkSim {
  sim_ninf : st_ninf s1 = st_ninf s2;
  sim_nsub : st_nsub s1 = st_nsub s2;
  sim_sub : forall s, st_sub s1 s = st_sub s2 s;
  sim_rs : forall r, st_rs s1 r = st_rs s2 r;
  sim_inf : forall i, isim a (st_inf s1 i) (st_inf s2 i);
  sim_closed : forall s, st_closed s1 s = st_closed s2 s }.

Lemma Sim_refl : forall a s, Sim a s s.
Proof. intros a s. constructor; try reflexivity. intro i. repeat split. Qed.

(* ---- utilities ---- *)
Lemma upd_rel : forall {A : Type} (R : A -> A -> Prop) f g k v w,
  (forall x, R (f x) (g x)) -> R v w -> forall x, R (upd f k v x) (upd g k w x).
Proof. intros A R f g k v w H1 H2 x. unfold upd. destruct (Nat.eqb x k); auto. Qed.

Lemma upd_eq : forall {A : Type} (f g : nat -> A) k v,
  (forall x, f x = g x) -> forall x, upd f k v x = upd g k v x.
Proof. intros A f g k v H x. unfold upd. destruct (Nat.eqb x k); auto. Qed.

Lemma upd_rel_left : forall {A : Type} (R : A -> A -> Prop) f g k v,
  (forall x, R (f x) (g x)) -> R v (g k) -> forall x, R (upd f k v x) (g x).
Proof.
  intros A R f g k v H1 H2 x. unfold upd. destruct (Nat.eqb_spec x k); subst; auto.
Qed.

Lemma filter_fanout : forall a hs n,
  filter (not_to_sub a) (fanout hs n) = fanout (hs_but a hs) n.
Proof.
  intros a hs [n|]; simpl; [|reflexivity].
  induction hs as [|e hs IH]; simpl; [reflexivity|].
  unfold not_to_sub at 1, d_sub at 1. simpl.
  destruct (Nat.eqb (he_sub e) a); simpl; rewrite IH; reflexivity.
Qed.

Lemma filter_replay_ne : forall a s h c, s <> a ->
  filter (not_to_sub a) (replay s h c) = replay s h c.
Proof.
  intros a s h c Hne. unfold replay.
  induction c as [|o c IH]; simpl; [reflexivity|].
  unfold not_to_sub at 1, d_sub at 1. simpl.
  destruct (Nat.eqb_spec s a); [contradiction|]. simpl. rewrite IH. reflexivity.
Qed.

Lemma filter_replay_eq : forall a h c,
  filter (not_to_sub a) (replay a h c) = [].
Proof.
  intros a h c. unfold replay.
  induction c as [|o c IH]; simpl; [reflexivity|].
  unfold not_to_sub at 1, d_sub at 1. simpl.
  rewrite Nat.eqb_refl. simpl. exact IH.
Qed.

Lemma hs_but_app : forall a l1 l2, hs_but a (l1 ++ l2) = hs_but a l1 ++ hs_but a l2.
Proof. intros. unfold hs_but. apply filter_app. Qed.

Lemma filter_comm : forall {A : Type} (f g : A -> bool) l,
  filter f (filter g l) = filter g (filter f l).
Proof.
  intros A f g l. induction l as [|x l IH]; simpl; [reflexivity|].
  destruct (f x) eqn:Ef, (g x) eqn:Eg; simpl; rewrite ?Ef, ?Eg, IH; reflexivity.
Qed.

Lemma filter_idem : forall {A : Type} (f : A -> bool) l,
  filter f (filter f l) = filter f l.
Proof.
  intros A f l. induction l as [|x l IH]; simpl; [reflexivity|].
  destruct (f x) eqn:Ef; simpl; rewrite ?Ef, IH; reflexivity.
Qed.

Lemma has_own_but : forall a s h hs, s <> a ->
  has_own s h hs = has_own s h (hs_but a hs).
Proof.
  intros a s h hs Hne. unfold has_own.
  induction hs as [|e hs IH]; simpl; [reflexivity|].
  destruct (Nat.eqb_spec (he_sub e) a) as [E|E]; simpl.
  - destruct (Nat.eqb_spec (he_sub e) s) as [E'|E']; [congruence|]. simpl. exact IH.
  - rewrite IH. reflexivity.
Qed.

Lemma filter_imp : forall {A : Type} (f g : A -> bool) l,
  (forall x, f x = true -> g x = true) -> filter f (filter g l) = filter f l.
Proof.
  intros A f g l H. induction l as [|x l IH]; simpl; [reflexivity|].
  destruct (g x) eqn:Eg; simpl.
  - rewrite IH. reflexivity.
  - destruct (f x) eqn:Ef; [|exact IH]. apply H in Ef. congruence.
Qed.

(* ---- Lemma A: both sides do the same operation ---- *)
Lemma stepA : forall a s1 s2 o, Sim a s1 s2 ->
  Sim a (r_st (step s1 o)) (r_st (step s2 o)) /\
  filter (not_to_sub a) (r_out (step s1 o)) = filter (not_to_sub a) (r_out (step s2 o)) /\
  r_panic (step s1 o) = r_panic (step s2 o).
Proof.
  intros a s1 s2 o [Hni Hns Hsub Hrs Hinf Hcl].
  destruct s1 as [ni1 inf1 ns1 sub1 rs1 cl1], s2 as [ni2 inf2 ns2 sub2 rs2 cl2].
  simpl in Hni, Hns, Hsub, Hrs, Hinf, Hcl. subst ni2 ns2.
  destruct o as [r|s h own|s|s|r k o|s h|ru]; unfold step; cbn [st_ninf st_inf st_nsub st_sub st_rs st_closed].
  - (* Subscribe *)
    rewrite (Hrs r). destruct (rs_cur (rs2 r)) as [i|]; cbn [r_st r_out r_panic].
    + split; [|split; reflexivity].
      constructor; cbn [st_ninf st_inf st_nsub st_sub st_rs st_closed]; auto.
      * apply upd_eq; assumption.
      * apply upd_eq; assumption.
    + split; [|split; reflexivity].
      constructor; cbn [st_ninf st_inf st_nsub st_sub st_rs st_closed]; auto.
      * apply upd_eq; assumption.
      * apply upd_eq; assumption.
      * apply upd_rel; [assumption|]. repeat split.
  - (* AddHandler *)
    rewrite (Hsub s). destruct (sub2 s) as [i|]; cbn [r_st r_out r_panic].
    + destruct (Hinf i) as (Hr & Hst & Hc & Hh).
      split; [|split; [rewrite Hc; reflexivity | reflexivity]].
      constructor; cbn [st_ninf st_inf st_nsub st_sub st_rs st_closed]; auto.
      apply upd_rel; [assumption|].
      unfold isim, set_hs; cbn [i_res i_stopped i_cache i_hs].
      repeat split; auto. rewrite !hs_but_app, Hh. reflexivity.
    + split; [|split; reflexivity].
      constructor; cbn [st_ninf st_inf st_nsub st_sub st_rs st_closed]; auto.
  - (* RemoveHandlers *)
    rewrite (Hsub s). destruct (sub2 s) as [i|]; cbn [r_st r_out r_panic].
    + destruct (Hinf i) as (Hr & Hst & Hc & Hh).
      split; [|split; reflexivity].
      constructor; cbn [st_ninf st_inf st_nsub st_sub st_rs st_closed]; auto.
      apply upd_rel; [assumption|].
      unfold isim, set_hs; cbn [i_res i_stopped i_cache i_hs].
      repeat split; auto. unfold hs_but in *.
      rewrite (filter_comm _ _ (i_hs (inf1 i))), (filter_comm _ _ (i_hs (inf2 i))), Hh.
      reflexivity.
    + split; [|split; reflexivity].
      constructor; cbn [st_ninf st_inf st_nsub st_sub st_rs st_closed]; auto.
  - (* Close *)
    rewrite (Hsub s). destruct (sub2 s) as [i|]; cbn [r_st r_out r_panic].
    + destruct (Hinf i) as (Hr & Hst & Hc & Hh).
      rewrite (Hcl s). destruct (cl2 s); cbn [r_st r_out r_panic].
      { split; [|split; reflexivity].
        constructor; cbn [st_ninf st_inf st_nsub st_sub st_rs st_closed]; auto. }
      rewrite Hr, Hst, (Hrs (i_res (inf2 i))).
      destruct (2 <=? rs_ref (rs2 (i_res (inf2 i)))); cbn [r_st r_out r_panic].
      * split; [|split; reflexivity].
        constructor; cbn [st_ninf st_inf st_nsub st_sub st_rs st_closed]; auto;
          apply upd_eq; assumption.
      * destruct (i_stopped (inf2 i)); cbn [r_st r_out r_panic].
        -- split; [|split; reflexivity].
           constructor; cbn [st_ninf st_inf st_nsub st_sub st_rs st_closed]; auto.
           apply upd_eq; assumption.
        -- split; [|split; reflexivity].
           constructor; cbn [st_ninf st_inf st_nsub st_sub st_rs st_closed]; auto.
           ++ apply upd_eq; assumption.
           ++ apply upd_rel; [assumption|].
              unfold isim; cbn [i_res i_stopped i_cache i_hs]. repeat split; auto.
           ++ apply upd_eq; assumption.
    + split; [|split; reflexivity].
      constructor; cbn [st_ninf st_inf st_nsub st_sub st_rs st_closed]; auto.
  - (* Event *)
    rewrite (Hrs r). destruct (rs_cur (rs2 r)) as [i|]; cbn [r_st r_out r_panic].
    + destruct (Hinf i) as (Hr & Hst & Hc & Hh).
      rewrite Hc.
      split; [|split; [rewrite !filter_fanout, Hh; reflexivity | reflexivity]].
      constructor; cbn [st_ninf st_inf st_nsub st_sub st_rs st_closed]; auto.
      * apply upd_eq; assumption.
      * apply upd_rel; [assumption|].
        unfold isim; cbn [i_res i_stopped i_cache i_hs]. repeat split; auto.
    + split; [|split; reflexivity].
      constructor; cbn [st_ninf st_inf st_nsub st_sub st_rs st_closed]; auto.
      apply upd_eq; assumption.
  - (* Tick *)
    rewrite (Hsub s). destruct (sub2 s) as [i|]; cbn [r_st r_out r_panic].
    + destruct (Hinf i) as (Hr & Hst & Hc & Hh).
      split; [constructor; cbn [st_ninf st_inf st_nsub st_sub st_rs st_closed]; auto|].
      split; [|reflexivity].
      rewrite Hc.
      destruct (Nat.eq_dec s a) as [E|E].
      * subst s.
        destruct (has_own a h (i_hs (inf1 i))), (has_own a h (i_hs (inf2 i)));
          rewrite ?filter_replay_eq; reflexivity.
      * rewrite (has_own_but a s h (i_hs (inf1 i)) E), (has_own_but a s h (i_hs (inf2 i)) E), Hh.
        reflexivity.
    + split; [|split; reflexivity].
      constructor; cbn [st_ninf st_inf st_nsub st_sub st_rs st_closed]; auto.
  - (* SubscribeUnknown *)
    cbn [r_st r_out r_panic]. split; [|split; reflexivity].
    constructor; cbn [st_ninf st_inf st_nsub st_sub st_rs st_closed]; auto.
Qed.

(* ---- Lemma B: the left side alone does an erased operation ---- *)
Lemma stepB : forall a s1 s2 o, is_handler_op_of a o = true -> Sim a s1 s2 ->
  Sim a (r_st (step s1 o)) s2 /\
  filter (not_to_sub a) (r_out (step s1 o)) = [] /\
  r_panic (step s1 o) = false.
Proof.
  intros a s1 s2 o Ho [Hni Hns Hsub Hrs Hinf Hcl].
  destruct s1 as [ni1 inf1 ns1 sub1 rs1 cl1], s2 as [ni2 inf2 ns2 sub2 rs2 cl2].
  simpl in Hni, Hns, Hsub, Hrs, Hinf, Hcl. subst ni2 ns2.
  destruct o as [r|s h own|s|s|r k o|s h|ru]; simpl in Ho; try discriminate Ho;
    apply Nat.eqb_eq in Ho; subst s;
    unfold step; cbn [st_ninf st_inf st_nsub st_sub st_rs st_closed].
  - (* AddHandler a *)
    destruct (sub1 a) as [i|]; cbn [r_st r_out r_panic].
    + split; [|split; [apply filter_replay_eq | reflexivity]].
      constructor; cbn [st_ninf st_inf st_nsub st_sub st_rs st_closed]; auto.
      apply upd_rel_left; [assumption|].
      destruct (Hinf i) as (Hr & Hst & Hc & Hh).
      unfold isim, set_hs; cbn [i_res i_stopped i_cache i_hs].
      repeat split; auto. rewrite hs_but_app, <- Hh.
      unfold hs_but at 2. simpl. rewrite Nat.eqb_refl. simpl. apply app_nil_r.
    + split; [|split; reflexivity].
      constructor; cbn [st_ninf st_inf st_nsub st_sub st_rs st_closed]; auto.
  - (* RemoveHandlers a *)
    destruct (sub1 a) as [i|]; cbn [r_st r_out r_panic].
    + split; [|split; reflexivity].
      constructor; cbn [st_ninf st_inf st_nsub st_sub st_rs st_closed]; auto.
      apply upd_rel_left; [assumption|].
      destruct (Hinf i) as (Hr & Hst & Hc & Hh).
      unfold isim, set_hs; cbn [i_res i_stopped i_cache i_hs].
      repeat split; auto. rewrite <- Hh. unfold hs_but. apply filter_idem.
    + split; [|split; reflexivity].
      constructor; cbn [st_ninf st_inf st_nsub st_sub st_rs st_closed]; auto.
Qed.

(* ---- runs ---- *)
Lemma outs_from_cons : forall st o ops,
  outs_from st (o :: ops) = r_out (step st o) ++ outs_from (r_st (step st o)) ops.
Proof. reflexivity. Qed.

Lemma erase_cons : forall a o ops,
  erase_handler_ops a (o :: ops) =
  if is_handler_op_of a o then erase_handler_ops a ops else o :: erase_handler_ops a ops.
Proof.
  intros. unfold erase_handler_ops. simpl. destruct (is_handler_op_of a o); reflexivity.
Qed.

Lemma isolation_from : forall a ops s1 s2, Sim a s1 s2 ->
  filter (not_to_sub a) (outs_from s1 ops) =
    filter (not_to_sub a) (outs_from s2 (erase_handler_ops a ops)) /\
  panics_from s1 ops = panics_from s2 (erase_handler_ops a ops).
Proof.
  intros a ops. induction ops as [|o ops IH]; intros s1 s2 HS.
  - split; reflexivity.
  - rewrite erase_cons, outs_from_cons, filter_app.
    destruct (is_handler_op_of a o) eqn:E.
    + destruct (stepB a s1 s2 o E HS) as (HS' & Ho & Hp).
      destruct (IH _ _ HS') as (IHo & IHp).
      split.
      * rewrite Ho, IHo. reflexivity.
      * cbn [panics_from]. rewrite Hp, IHp. reflexivity.
    + destruct (stepA a s1 s2 o HS) as (HS' & Ho & Hp).
      destruct (IH _ _ HS') as (IHo & IHp).
      split.
      * rewrite outs_from_cons, filter_app, Ho, IHo. reflexivity.
      * cbn [panics_from]. rewrite Hp, IHp. reflexivity.
Qed.

Theorem isolation_handlers : forall (a : nat) (ops : list op),
  filter (not_to_sub a) (outs ops) = filter (not_to_sub a) (outs (erase_handler_ops a ops)).
Proof.
  intros a ops. unfold outs. apply (isolation_from a ops init init (Sim_refl a init)).
Qed.

Corollary isolation_handlers_b : forall (a b : nat) (ops : list op), a <> b ->
  filter (to_sub b) (outs ops) = filter (to_sub b) (outs (erase_handler_ops a ops)).
Proof.
  intros a b ops Hne.
  assert (Himp : forall d, to_sub b d = true -> not_to_sub a d = true).
  { intros d Hd. unfold to_sub in Hd. unfold not_to_sub.
    apply Nat.eqb_eq in Hd. destruct (Nat.eqb_spec (d_sub d) a); [congruence|reflexivity]. }
  rewrite <- (filter_imp (to_sub b) (not_to_sub a) (outs ops) Himp).
  rewrite <- (filter_imp (to_sub b) (not_to_sub a) (outs (erase_handler_ops a ops)) Himp).
  rewrite (isolation_handlers a ops). reflexivity.
Qed.

Theorem isolation_handlers_panics : forall (a : nat) (ops : list op),
  panics_from init ops = panics_from init (erase_handler_ops a ops).
Proof.
  intros a ops. apply (isolation_from a ops init init (Sim_refl a init)).
Qed.

(* the same, for runs started in any state *)
Theorem isolation_handlers_from : forall (a : nat) (st : state) (ops : list op),
  filter (not_to_sub a) (outs_from st ops) =
    filter (not_to_sub a) (outs_from st (erase_handler_ops a ops)) /\
  panics_from st ops = panics_from st (erase_handler_ops a ops).
Proof. intros a st ops. apply isolation_from, Sim_refl. Qed.
End Iso.

(* ================================================================== *)
(* the handler tables are what the callers registered; replay, delivery, removal, ticks *)
(* ================================================================== *)
Module Link.
(* C18Link.v — link between the tracker (specification side) and the model state,
   and the delivery theorems of pkg/dynamic/informer that follow from it. *)

Local Arguments Nat.leb : simpl never.
Local Arguments Nat.ltb : simpl never.

(* ------------------------------------------------------------------ *)
(* list utilities                                                       *)
(* ------------------------------------------------------------------ *)
Lemma filter_nil_of : forall A (f : A -> bool) l,
  (forall e, In e l -> f e = false) -> filter f l = [].
Proof.
  intros A f l. induction l as [|a l IH]; simpl; intros H; [reflexivity|].
  rewrite (H a) by (left; reflexivity). apply IH. intros e He. apply H. right. exact He.
Qed.

Lemma filter_sub_remove_same : forall s l,
  filter (fun e => Nat.eqb (he_sub e) s) (filter (fun e => negb (Nat.eqb (he_sub e) s)) l) = [].
Proof.
  intros s l. induction l as [|a l IH]; simpl; [reflexivity|].
  destruct (Nat.eqb (he_sub a) s) eqn:E; simpl; [exact IH|]. rewrite E. exact IH.
Qed.

Lemma filter_sub_remove_other : forall s0 s l, s0 <> s ->
  filter (fun e => Nat.eqb (he_sub e) s0) (filter (fun e => negb (Nat.eqb (he_sub e) s)) l) =
  filter (fun e => Nat.eqb (he_sub e) s0) l.
Proof.
  intros s0 s l Hne. induction l as [|a l IH]; simpl; [reflexivity|].
  destruct (Nat.eqb (he_sub a) s) eqn:E; simpl.
  - apply Nat.eqb_eq in E. destruct (Nat.eqb_spec (he_sub a) s0) as [E0|E0]; [congruence|exact IH].
  - rewrite IH. reflexivity.
Qed.

Lemma fanout_nil : forall n, fanout [] n = [].
Proof. destruct n; reflexivity. Qed.

Lemma filter_fanout : forall s hs n,
  filter (to_sub s) (fanout hs n) = fanout (filter (fun e => Nat.eqb (he_sub e) s) hs) n.
Proof.
  intros s hs n. destruct n as [n|]; simpl; [|reflexivity].
  induction hs as [|a hs IH]; simpl; [reflexivity|].
  unfold to_sub at 1. unfold d_sub at 1. simpl.
  destruct (Nat.eqb (he_sub a) s); simpl; rewrite IH; reflexivity.
Qed.

Lemma filter_replay_other : forall s s' h c, s' <> s -> filter (to_sub s) (replay s' h c) = [].
Proof.
  intros s s' h c Hne. unfold replay. induction c as [|a c IH]; simpl; [reflexivity|].
  unfold to_sub at 1. unfold d_sub at 1. simpl.
  destruct (Nat.eqb_spec s' s); [contradiction|exact IH].
Qed.

Lemma has_own_filter : forall s h hs,
  has_own s h hs = has_own s h (filter (fun e => Nat.eqb (he_sub e) s) hs).
Proof.
  intros s h hs. unfold has_own. induction hs as [|a hs IH]; simpl; [reflexivity|].
  destruct (Nat.eqb (he_sub a) s) eqn:E; simpl.
  - rewrite E. simpl. rewrite IH. reflexivity.
  - exact IH.
Qed.

Definition mk_he (s : nat) (p : nat * bool) : hent := mkHe s (fst p) (snd p).

Lemma has_own_map : forall s h reg,
  has_own s h (map (mk_he s) reg) = existsb (fun p => Nat.eqb (fst p) h && snd p) reg.
Proof.
  intros s h reg. unfold has_own. induction reg as [|a reg IH]; simpl; [reflexivity|].
  rewrite Nat.eqb_refl. simpl. rewrite IH. reflexivity.
Qed.

Lemma has_own_none : forall s h hs,
  (forall e, In e hs -> he_sub e <> s) -> has_own s h hs = false.
Proof.
  intros s h hs H. unfold has_own. induction hs as [|a hs IH]; simpl; [reflexivity|].
  destruct (Nat.eqb_spec (he_sub a) s) as [E|E].
  - exfalso. apply (H a); [left; reflexivity|exact E].
  - simpl. apply IH. intros e He. apply H. right. exact He.
Qed.

(* ------------------------------------------------------------------ *)
(* Part 1: the link invariant                                           *)
(* ------------------------------------------------------------------ *)
Record Link (tr : tracker) (st : state) : Prop := {
  lk_nsub : t_nsub tr = st_nsub st;
  lk_store : forall r, t_store tr r = rs_store (st_rs st r);
  lk_reg : forall s i, st_sub st s = Some i ->
             filter (fun e => Nat.eqb (he_sub e) s) (i_hs (st_inf st i)) = map (mk_he s) (t_reg tr s);
  lk_reg_none : forall s, st_sub st s = None -> t_reg tr s = []
}.

Lemma Link_init : Link tr0 init.
Proof. constructor; simpl; intros; try reflexivity; discriminate. Qed.

Section LinkStep.
  Variable tr : tracker.
  Variable st : state.
  Hypothesis I : Inv st.
  Hypothesis L : Link tr st.

  Lemma fresh_sub_none : st_sub st (st_nsub st) = None.
  Proof.
    destruct (st_sub st (st_nsub st)) as [i|] eqn:E; [|reflexivity].
    apply (inv_sub st I) in E. lia.
  Qed.

  Lemma no_fresh_entry : forall i,
    filter (fun e => Nat.eqb (he_sub e) (st_nsub st)) (i_hs (st_inf st i)) = [].
  Proof.
    intros i. apply filter_nil_of. intros e He.
    apply (inv_hs st I) in He. apply (inv_sub st I) in He.
    destruct (Nat.eqb_spec (he_sub e) (st_nsub st)); [lia|reflexivity].
  Qed.

  Lemma Link_subscribe : forall r, Link (track_step tr (Subscribe r)) (r_st (step st (Subscribe r))).
  Proof.
    intros r. simpl. destruct (rs_cur (st_rs st r)) as [i|] eqn:Hc; simpl.
    - constructor; simpl.
      + f_equal. apply (lk_nsub _ _ L).
      + intros r0. rewrite (lk_store _ _ L). unfold upd.
        destruct (Nat.eqb_spec r0 r); [subst; reflexivity|reflexivity].
      + intros s i0 Hs. unfold upd in Hs. destruct (Nat.eqb_spec s (st_nsub st)) as [E|E].
        * subst s. rewrite (lk_reg_none _ _ L _ fresh_sub_none). simpl. apply no_fresh_entry.
        * apply (lk_reg _ _ L). exact Hs.
      + intros s Hs. unfold upd in Hs. destruct (Nat.eqb_spec s (st_nsub st)); [discriminate|].
        apply (lk_reg_none _ _ L). exact Hs.
    - constructor; simpl.
      + f_equal. apply (lk_nsub _ _ L).
      + intros r0. rewrite (lk_store _ _ L). unfold upd.
        destruct (Nat.eqb_spec r0 r); [subst; reflexivity|reflexivity].
      + intros s i0 Hs. unfold upd in Hs. destruct (Nat.eqb_spec s (st_nsub st)) as [E|E].
        * subst s. injection Hs as Hs. subst i0.
          rewrite (lk_reg_none _ _ L _ fresh_sub_none). rewrite upd_same. reflexivity.
        * pose proof (inv_sub st I s i0 Hs) as [_ Hlt].
          rewrite upd_other by lia. apply (lk_reg _ _ L). exact Hs.
      + intros s Hs. unfold upd in Hs. destruct (Nat.eqb_spec s (st_nsub st)); [discriminate|].
        apply (lk_reg_none _ _ L). exact Hs.
  Qed.

  Lemma Link_addhandler : forall s h own,
    Link (track_step tr (AddHandler s h own)) (r_st (step st (AddHandler s h own))).
  Proof.
    intros s h own. unfold track_step. simpl.
    destruct (st_sub st s) as [i|] eqn:Hs; simpl.
    - pose proof (inv_sub st I s i Hs) as [Hlt _].
      rewrite <- (lk_nsub _ _ L) in Hlt.
      destruct (Nat.ltb_spec s (t_nsub tr)) as [_|Hge]; [|lia].
      constructor; simpl.
      + apply (lk_nsub _ _ L).
      + apply (lk_store _ _ L).
      + intros s0 i0 Hs0. unfold upd at 1. destruct (Nat.eqb_spec i0 i) as [Ei|Ei].
        * subst i0. simpl. rewrite filter_app. rewrite (lk_reg _ _ L s0 i Hs0). simpl.
          unfold upd. destruct (Nat.eqb_spec s s0) as [Es|Es].
          -- subst s0. rewrite Nat.eqb_refl. rewrite map_app. reflexivity.
          -- destruct (Nat.eqb_spec s0 s); [congruence|]. apply app_nil_r.
        * rewrite (lk_reg _ _ L s0 i0 Hs0). unfold upd.
          destruct (Nat.eqb_spec s0 s); [subst; congruence|reflexivity].
      + intros s0 Hs0. unfold upd. destruct (Nat.eqb_spec s0 s); [subst; congruence|].
        apply (lk_reg_none _ _ L). exact Hs0.
    - destruct (Nat.ltb_spec s (t_nsub tr)) as [Hlt|_]; [|exact L].
      exfalso. rewrite (lk_nsub _ _ L) in Hlt. apply (inv_sub_some st I s Hlt). exact Hs.
  Qed.

  Lemma Link_removehandlers : forall s,
    Link (track_step tr (RemoveHandlers s)) (r_st (step st (RemoveHandlers s))).
  Proof.
    intros s. simpl. destruct (st_sub st s) as [i|] eqn:Hs; simpl.
    - constructor; simpl.
      + apply (lk_nsub _ _ L).
      + apply (lk_store _ _ L).
      + intros s0 i0 Hs0. unfold upd at 1. destruct (Nat.eqb_spec i0 i) as [Ei|Ei].
        * subst i0. simpl. unfold upd. destruct (Nat.eqb_spec s0 s) as [Es|Es].
          -- subst s0. apply filter_sub_remove_same.
          -- rewrite filter_sub_remove_other by exact Es. apply (lk_reg _ _ L). exact Hs0.
        * rewrite (lk_reg _ _ L s0 i0 Hs0). unfold upd.
          destruct (Nat.eqb_spec s0 s); [subst; congruence|reflexivity].
      + intros s0 Hs0. unfold upd. destruct (Nat.eqb_spec s0 s); [reflexivity|].
        apply (lk_reg_none _ _ L). exact Hs0.
    - constructor; simpl.
      + apply (lk_nsub _ _ L).
      + apply (lk_store _ _ L).
      + intros s0 i0 Hs0. rewrite (lk_reg _ _ L s0 i0 Hs0). unfold upd.
        destruct (Nat.eqb_spec s0 s); [subst; congruence|reflexivity].
      + intros s0 Hs0. unfold upd. destruct (Nat.eqb_spec s0 s); [reflexivity|].
        apply (lk_reg_none _ _ L). exact Hs0.
  Qed.

  Lemma Link_close : forall s, Link (track_step tr (Close s)) (r_st (step st (Close s))).
  Proof.
    intros s. simpl. destruct (st_sub st s) as [i|] eqn:Hs; simpl.
    - destruct (st_closed st s); simpl; [constructor; simpl; apply L|].
      destruct (2 <=? rs_ref (st_rs st (i_res (st_inf st i)))); simpl;
        [|destruct (i_stopped (st_inf st i)); simpl].
      + constructor; simpl.
        * apply (lk_nsub _ _ L).
        * intros r0. rewrite (lk_store _ _ L). unfold upd.
          destruct (Nat.eqb_spec r0 (i_res (st_inf st i))) as [E|E]; [rewrite E; reflexivity|reflexivity].
        * apply (lk_reg _ _ L).
        * apply (lk_reg_none _ _ L).
      + constructor; simpl; apply L.
      + constructor; simpl.
        * apply (lk_nsub _ _ L).
        * intros r0. rewrite (lk_store _ _ L). unfold upd.
          destruct (Nat.eqb_spec r0 (i_res (st_inf st i))) as [E|E]; [rewrite E; reflexivity|reflexivity].
        * intros s0 i0 Hs0. unfold upd. destruct (Nat.eqb_spec i0 i) as [Ei|Ei].
          -- subst i0. simpl. apply (lk_reg _ _ L). exact Hs0.
          -- apply (lk_reg _ _ L). exact Hs0.
        * apply (lk_reg_none _ _ L).
    - constructor; simpl; apply L.
  Qed.

  Lemma Link_event : forall r k o, Link (track_step tr (Event r k o)) (r_st (step st (Event r k o))).
  Proof.
    intros r k o. simpl. destruct (rs_cur (st_rs st r)) as [i|] eqn:Hc; simpl.
    - constructor; simpl.
      + apply (lk_nsub _ _ L).
      + intros r0. unfold upd. destruct (Nat.eqb_spec r0 r) as [E|E]; simpl.
        * rewrite (lk_store _ _ L). reflexivity.
        * apply (lk_store _ _ L).
      + intros s0 i0 Hs0. unfold upd. destruct (Nat.eqb_spec i0 i) as [Ei|Ei].
        * subst i0. simpl. apply (lk_reg _ _ L). exact Hs0.
        * apply (lk_reg _ _ L). exact Hs0.
      + apply (lk_reg_none _ _ L).
    - constructor; simpl.
      + apply (lk_nsub _ _ L).
      + intros r0. unfold upd. destruct (Nat.eqb_spec r0 r) as [E|E]; simpl.
        * rewrite (lk_store _ _ L). reflexivity.
        * apply (lk_store _ _ L).
      + apply (lk_reg _ _ L).
      + apply (lk_reg_none _ _ L).
  Qed.

  Lemma Link_tick : forall s h, Link (track_step tr (Tick s h)) (r_st (step st (Tick s h))).
  Proof. intros s h. simpl. destruct (st_sub st s); exact L. Qed.
End LinkStep.

Lemma Link_step : forall tr st o, Inv st -> Link tr st -> Link (track_step tr o) (r_st (step st o)).
Proof.
  intros tr st o I L. destruct o.
  - apply Link_subscribe; assumption.
  - apply Link_addhandler; assumption.
  - apply Link_removehandlers; assumption.
  - apply Link_close; assumption.
  - apply Link_event; assumption.
  - apply Link_tick; assumption.
  - exact L.
Qed.

Lemma Link_run_from : forall ops tr st, Inv st -> Link tr st -> Link (track_from tr ops) (run_from st ops).
Proof.
  induction ops as [|o ops IH]; intros tr st I L; simpl; [exact L|].
  apply IH; [apply Inv_step; exact I|apply Link_step; assumption].
Qed.

Lemma Link_run : forall ops, Link (track ops) (run ops).
Proof. intros. apply Link_run_from; [apply Inv_init|apply Link_init]. Qed.

(* ------------------------------------------------------------------ *)
(* Part 2: theorems                                                     *)
(* ------------------------------------------------------------------ *)

(* Theorem 3: replay on add *)
Lemma replay_on_add_gen : forall st s h own i, Inv st ->
  st_sub st s = Some i ->
  r_out (step st (AddHandler s h own)) = replay s h (sub_cache st s) /\
  NoDup (sub_cache st s) /\
  (sub_live st s = true ->
     exists r, sub_res st s = Some r /\ sub_cache st s = store st r).
Proof.
  intros st s h own i I Hs. unfold sub_cache, sub_live, sub_res, store. simpl. rewrite Hs. simpl.
  split; [reflexivity|]. split; [apply (inv_nodup_cache st I)|].
  intros Hl. exists (i_res (st_inf st i)). split; [reflexivity|].
  destruct (rs_cur (st_rs st (i_res (st_inf st i)))) as [j|] eqn:Hc; [|discriminate].
  apply Nat.eqb_eq in Hl. subst j. apply (inv_cache st I). exact Hc.
Qed.

Theorem replay_on_add : forall ops s h own i,
  st_sub (run ops) s = Some i ->
  r_out (step (run ops) (AddHandler s h own)) = replay s h (sub_cache (run ops) s) /\
  NoDup (sub_cache (run ops) s) /\
  (sub_live (run ops) s = true ->
     exists r, sub_res (run ops) s = Some r /\ sub_cache (run ops) s = store (run ops) r).
Proof. intros ops s h own i Hs. apply (replay_on_add_gen _ s h own i (Inv_run ops) Hs). Qed.

(* Theorem 4a *)
Lemma delivery_event_gen : forall tr st r k o s, Inv st -> Link tr st ->
  filter (to_sub s) (r_out (step st (Event r k o))) =
  if sub_live st s && match sub_res st s with Some r' => Nat.eqb r' r | None => false end
  then fanout (map (mk_he s) (t_reg tr s)) (snd (cache_apply k o (store st r)))
  else [].
Proof.
  intros tr st r k o s I L. unfold sub_live, sub_res, store. simpl.
  destruct (rs_cur (st_rs st r)) as [i|] eqn:Hc; simpl.
  - rewrite filter_fanout. rewrite (inv_cache st I r i Hc).
    destruct (inv_cur st I r i Hc) as [_ [Hres _]].
    destruct (st_sub st s) as [j|] eqn:Hs.
    + destruct (Nat.eqb_spec (i_res (st_inf st j)) r) as [E|E].
      * rewrite E, Hc. rewrite andb_true_r. destruct (Nat.eqb_spec j i) as [Ej|Ej].
        -- subst j. rewrite (lk_reg _ _ L s i Hs). reflexivity.
        -- rewrite filter_nil_of; [apply fanout_nil|].
           intros e He. apply (inv_hs st I) in He.
           destruct (Nat.eqb_spec (he_sub e) s) as [Ee|Ee]; [|reflexivity].
           rewrite Ee in He. congruence.
      * rewrite andb_false_r. rewrite filter_nil_of; [apply fanout_nil|].
        intros e He. apply (inv_hs st I) in He.
        destruct (Nat.eqb_spec (he_sub e) s) as [Ee|Ee]; [|reflexivity].
        rewrite Ee in He. rewrite Hs in He. injection He as He. subst j. contradiction.
    + simpl. rewrite filter_nil_of; [apply fanout_nil|].
      intros e He. apply (inv_hs st I) in He.
      destruct (Nat.eqb_spec (he_sub e) s) as [Ee|Ee]; [|reflexivity].
      rewrite Ee in He. congruence.
  - destruct (st_sub st s) as [j|] eqn:Hs; simpl; [|reflexivity].
    destruct (Nat.eqb_spec (i_res (st_inf st j)) r) as [E|E].
    + rewrite E, Hc. reflexivity.
    + rewrite andb_false_r. reflexivity.
Qed.

Theorem delivery_event : forall ops r k o s,
  filter (to_sub s) (r_out (step (run ops) (Event r k o))) =
  if sub_live (run ops) s && match sub_res (run ops) s with Some r' => Nat.eqb r' r | None => false end
  then fanout (map (mk_he s) (t_reg (track ops) s)) (snd (cache_apply k o (store (run ops) r)))
  else [].
Proof. intros. apply delivery_event_gen; [apply Inv_run|apply Link_run]. Qed.

(* Theorem 4b *)
Definition NoEnt (s : nat) (st : state) : Prop :=
  forall i e, In e (i_hs (st_inf st i)) -> he_sub e <> s.

Lemma NoEnt_after_remove : forall st s, Inv st -> NoEnt s (r_st (step st (RemoveHandlers s))).
Proof.
  intros st s I. unfold NoEnt. simpl.
  destruct (st_sub st s) as [i|] eqn:Hs; simpl; intros i0 e He Heq.
  - unfold upd in He. destruct (Nat.eqb_spec i0 i) as [Ei|Ei]; simpl in He.
    + apply filter_In in He. destruct He as [_ He]. rewrite Heq, Nat.eqb_refl in He. discriminate.
    + apply (inv_hs st I) in He. rewrite Heq in He. congruence.
  - apply (inv_hs st I) in He. rewrite Heq in He. congruence.
Qed.

Lemma NoEnt_step : forall st s o, mentions_add s o = false -> NoEnt s st -> NoEnt s (r_st (step st o)).
Proof.
  intros st s o Hm N. unfold NoEnt. destruct o as [r|s0 h own|s0|s0|r k o|s0 h|ru]; simpl in *.
  - destruct (rs_cur (st_rs st r)); simpl; intros i0 e He.
    + exact (N _ _ He).
    + unfold upd in He. destruct (Nat.eqb_spec i0 (st_ninf st)); simpl in He; [contradiction|].
      exact (N _ _ He).
  - destruct (st_sub st s0) as [i|]; simpl; [|exact N].
    intros i0 e He. unfold upd in He. destruct (Nat.eqb_spec i0 i); simpl in He.
    + apply in_app_iff in He. destruct He as [He|[He|[]]]; [exact (N _ _ He)|].
      subst e. simpl. apply Nat.eqb_neq. exact Hm.
    + exact (N _ _ He).
  - destruct (st_sub st s0) as [i|]; simpl; [|exact N].
    intros i0 e He. unfold upd in He. destruct (Nat.eqb_spec i0 i); simpl in He.
    + apply filter_In in He. destruct He as [He _]. subst i0. exact (N _ _ He).
    + exact (N _ _ He).
  - destruct (st_sub st s0) as [i|]; simpl; [|exact N].
    destruct (st_closed st s0); simpl; [exact N|].
    destruct (2 <=? rs_ref (st_rs st (i_res (st_inf st i)))); simpl; [exact N|].
    destruct (i_stopped (st_inf st i)); simpl; [exact N|].
    intros i0 e He. unfold upd in He. destruct (Nat.eqb_spec i0 i); simpl in He.
    + subst i0. exact (N _ _ He).
    + exact (N _ _ He).
  - destruct (rs_cur (st_rs st r)) as [i|]; simpl; [|exact N].
    intros i0 e He. unfold upd in He. destruct (Nat.eqb_spec i0 i); simpl in He.
    + subst i0. exact (N _ _ He).
    + exact (N _ _ He).
  - destruct (st_sub st s0); exact N.
  - exact N.
Qed.

Lemma NoEnt_out : forall st s o, mentions_add s o = false -> NoEnt s st ->
  filter (to_sub s) (r_out (step st o)) = [].
Proof.
  intros st s o Hm N. destruct o as [r|s0 h own|s0|s0|r k o|s0 h|ru]; simpl in *.
  - destruct (rs_cur (st_rs st r)); reflexivity.
  - destruct (st_sub st s0) as [i|]; simpl; [|reflexivity].
    apply filter_replay_other. apply Nat.eqb_neq. exact Hm.
  - destruct (st_sub st s0); reflexivity.
  - destruct (st_sub st s0) as [i|]; simpl; [|reflexivity].
    destruct (st_closed st s0); simpl; [reflexivity|].
    destruct (2 <=? rs_ref (st_rs st (i_res (st_inf st i)))); simpl; [reflexivity|].
    destruct (i_stopped (st_inf st i)); reflexivity.
  - destruct (rs_cur (st_rs st r)) as [i|]; simpl; [|reflexivity].
    rewrite filter_fanout. rewrite filter_nil_of; [apply fanout_nil|].
    intros e He. pose proof (N _ _ He) as Hn. destruct (Nat.eqb_spec (he_sub e) s); [contradiction|reflexivity].
  - destruct (st_sub st s0) as [i|]; simpl; [|reflexivity].
    destruct (Nat.eqb_spec s0 s) as [E|E].
    + subst s0. rewrite has_own_none; [reflexivity|]. intros e He. exact (N _ _ He).
    + destruct (has_own s0 h (i_hs (st_inf st i))); [|reflexivity].
      apply filter_replay_other. exact E.
  - reflexivity.
Qed.

Lemma nothing_from : forall s ops st,
  forallb (fun o => negb (mentions_add s o)) ops = true -> NoEnt s st ->
  filter (to_sub s) (outs_from st ops) = [].
Proof.
  intros s ops. induction ops as [|o ops IH]; intros st Hf N; [reflexivity|].
  simpl in Hf. apply andb_true_iff in Hf. destruct Hf as [Ho Hf].
  apply negb_true_iff in Ho.
  rewrite outs_from_cons, filter_app. rewrite (NoEnt_out st s o Ho N). simpl.
  apply IH; [exact Hf|apply NoEnt_step; assumption].
Qed.

Theorem nothing_after_removal : forall ops1 ops2 s,
  forallb (fun o => negb (mentions_add s o)) ops2 = true ->
  filter (to_sub s) (outs_from (run (ops1 ++ [RemoveHandlers s])) ops2) = [].
Proof.
  intros ops1 ops2 s Hf. rewrite run_app. apply nothing_from; [exact Hf|].
  apply (NoEnt_after_remove (run ops1) s (Inv_run ops1)).
Qed.

(* tick *)
Lemma tick_delivery_gen : forall tr st s h, Inv st -> Link tr st ->
  r_out (step st (Tick s h)) =
  if existsb (fun p => Nat.eqb (fst p) h && snd p) (t_reg tr s)
  then replay s h (sub_cache st s) else [].
Proof.
  intros tr st s h I L. unfold sub_cache. simpl.
  destruct (st_sub st s) as [i|] eqn:Hs; simpl.
  - rewrite has_own_filter, (lk_reg _ _ L s i Hs), has_own_map. reflexivity.
  - rewrite (lk_reg_none _ _ L s Hs). reflexivity.
Qed.

Theorem tick_delivery : forall ops s h,
  r_out (step (run ops) (Tick s h)) =
  if existsb (fun p => Nat.eqb (fst p) h && snd p) (t_reg (track ops) s)
  then replay s h (sub_cache (run ops) s) else [].
Proof. intros. apply tick_delivery_gen; [apply Inv_run|apply Link_run]. Qed.
End Link.

(* ================================================================== *)
(* reference counts = open subscriptions for ALL sequences (closeOnce); repeated Close is a no-op; no panic; isolation of Close *)
(* ================================================================== *)
Module Wf.
(* C18Wf.v — Close under closeOnce (all operation sequences): refcount = number of open subscriptions,
   no panic, liveness of open subscriptions, isolation of Close. *)
Local Arguments Nat.leb : simpl never.   (* so that simpl keeps `2 <=? n` in the Close case of step *)

(* ------------------------------------------------------------------ *)
(* counting lemmas on the list of open (subscription, resource) pairs  *)
(* ------------------------------------------------------------------ *)
Local Notation rm s l := (filter (fun p : nat * nat => negb (Nat.eqb (fst p) s)) l).
Local Notation cnt r l := (length (filter (fun p : nat * nat => Nat.eqb (snd p) r) l)).

Lemma rm_notin : forall s (l : list (nat * nat)), ~ In s (map fst l) -> rm s l = l.
Proof.
  induction l as [|p l IH]; simpl; intros H; [reflexivity|].
  destruct (Nat.eqb_spec (fst p) s) as [E|E]; simpl.
  - exfalso. apply H. left. exact E.
  - f_equal. apply IH. intro; apply H; right; assumption.
Qed.

Lemma in_map_fst : forall (s r : nat) l, In (s, r) l -> In s (map fst l).
Proof. intros. change s with (fst (s, r)). apply in_map. assumption. Qed.

Lemma cnt_rm : forall s r (l : list (nat * nat)), NoDup (map fst l) -> In (s, r) l ->
  cnt r l = S (cnt r (rm s l)) /\ forall x, x <> r -> cnt x (rm s l) = cnt x l.
Proof.
  induction l as [|p l IH]; simpl; intros Hnd Hin; [contradiction|].
  inversion Hnd as [|? ? Hni Hnd']; subst.
  destruct Hin as [E|Hin].
  - subst p. simpl in *. rewrite !Nat.eqb_refl. simpl. rewrite (rm_notin s l Hni). split; [reflexivity|].
    intros x Hx. destruct (Nat.eqb_spec r x); [congruence|]. reflexivity.
  - destruct (Nat.eqb_spec (fst p) s) as [E|E].
    + exfalso. apply Hni. rewrite E. eapply in_map_fst; eauto.
    + simpl. destruct (IH Hnd' Hin) as [H1 H2]. split.
      * destruct (Nat.eqb (snd p) r); simpl; rewrite H1; reflexivity.
      * intros x Hx. destruct (Nat.eqb (snd p) x); simpl; rewrite (H2 x Hx); reflexivity.
Qed.

Lemma In_cnt_pos : forall s r (l : list (nat * nat)), In (s, r) l -> 0 < cnt r l.
Proof.
  intros s r l Hin.
  assert (H : In (s, r) (filter (fun p : nat * nat => Nat.eqb (snd p) r) l)).
  { apply filter_In. split; [assumption|simpl; apply Nat.eqb_refl]. }
  destruct (filter (fun p : nat * nat => Nat.eqb (snd p) r) l); [contradiction|simpl; lia].
Qed.

Lemma cnt_two : forall a b r (l : list (nat * nat)), NoDup (map fst l) -> a <> b ->
  In (a, r) l -> In (b, r) l -> 2 <= cnt r l.
Proof.
  intros a b r l Hnd Hne Ha Hb.
  destruct (cnt_rm a r l Hnd Ha) as [H1 _].
  assert (Hb' : In (b, r) (rm a l)).
  { apply filter_In. split; [assumption|]. simpl. destruct (Nat.eqb_spec b a); [congruence|reflexivity]. }
  apply In_cnt_pos in Hb'. lia.
Qed.

Lemma cnt_snoc : forall x n r (l : list (nat * nat)),
  cnt x (l ++ [(n, r)]) = cnt x l + (if Nat.eqb r x then 1 else 0).
Proof.
  intros. rewrite filter_app, app_length. simpl. destruct (Nat.eqb r x); reflexivity.
Qed.

Lemma NoDup_map_fst_filter : forall (f : nat * nat -> bool) l,
  NoDup (map fst l) -> NoDup (map fst (filter f l)).
Proof.
  induction l as [|p l IH]; simpl; intros Hnd; [constructor|].
  inversion Hnd as [|? ? Hni Hnd']; subst.
  destruct (f p); simpl; [|apply IH; assumption].
  constructor; [|apply IH; assumption].
  intro Hin. apply Hni. apply in_map_iff in Hin. destruct Hin as [q [E Hq]].
  apply filter_In in Hq. destruct Hq as [Hq _]. rewrite <- E. apply in_map. assumption.
Qed.

Lemma is_open_In : forall tr s, is_open tr s = true -> exists r, In (s, r) (t_open tr).
Proof.
  intros tr s H. unfold is_open in H. apply existsb_exists in H.
  destruct H as [[s' r] [Hin E]]. simpl in E. apply Nat.eqb_eq in E. subst. exists r. assumption.
Qed.

(* list-level facts about "is s open" and removing s *)
Local Notation opn s l := (existsb (fun p : nat * nat => Nat.eqb (fst p) s) l).

Lemma opn_rm_same : forall s (l : list (nat * nat)), opn s (rm s l) = false.
Proof.
  induction l as [|p l IH]; simpl; [reflexivity|].
  destruct (Nat.eqb (fst p) s) eqn:E; simpl; [exact IH|]. rewrite E. simpl. exact IH.
Qed.

Lemma opn_rm_other : forall s s' (l : list (nat * nat)), s' <> s -> opn s' (rm s l) = opn s' l.
Proof.
  intros s s' l Hne. induction l as [|p l IH]; simpl; [reflexivity|].
  destruct (Nat.eqb_spec (fst p) s) as [E|E]; simpl.
  - destruct (Nat.eqb_spec (fst p) s'); [congruence|]. simpl. exact IH.
  - rewrite IH. reflexivity.
Qed.

Lemma opn_false_rm : forall s (l : list (nat * nat)), opn s l = false -> rm s l = l.
Proof.
  induction l as [|p l IH]; simpl; intros H; [reflexivity|].
  apply orb_false_iff in H. destruct H as [H1 H2]. rewrite H1. simpl. f_equal. apply IH. exact H2.
Qed.

Lemma In_opn : forall (s r : nat) (l : list (nat * nat)), In (s, r) l -> opn s l = true.
Proof.
  intros s r l Hin. apply existsb_exists. exists (s, r). split; [assumption|]. simpl. apply Nat.eqb_refl.
Qed.

(* a Close through a subscription that is not open leaves the tracker as it is *)
Lemma track_close_not_open : forall tr s, is_open tr s = false -> track_step tr (Close s) = tr.
Proof.
  intros tr s H. unfold is_open in H. unfold track_step. rewrite (opn_false_rm _ _ H).
  destruct tr; reflexivity.
Qed.

(* ------------------------------------------------------------------ *)
(* Part 1: the link between the tracker and the factory state          *)
(* ------------------------------------------------------------------ *)
Record WLink (tr : tracker) (st : state) : Prop := {
  wl_nsub : t_nsub tr = st_nsub st;
  wl_ids : forall p, In p (t_open tr) -> fst p < t_nsub tr;
  wl_nodup : NoDup (map fst (t_open tr));
  wl_ref : forall r, rs_ref (st_rs st r) = open_count tr r;
  wl_live : forall s r, In (s, r) (t_open tr) -> exists i, st_sub st s = Some i /\ rs_cur (st_rs st r) = Some i;
  (* closeOnce has fired exactly for the subscriptions that were created and are not open any more *)
  wl_closed : forall s, s < t_nsub tr -> st_closed st s = negb (is_open tr s);
  wl_closed_fresh : forall s, t_nsub tr <= s -> st_closed st s = false
}.

Lemma WLink_init : WLink tr0 init.
Proof. constructor; simpl; intros; try contradiction; try reflexivity; try lia. constructor. Qed.

(* Close through a subscription that is not open: the step is literally a no-op *)
Lemma close_not_open_step : forall tr st s, Inv st -> WLink tr st -> is_open tr s = false ->
  step st (Close s) = mkRes st [] false.
Proof.
  intros tr st s I W Hop. simpl. destruct (st_sub st s) as [i|] eqn:Hs; [|reflexivity].
  destruct (inv_sub st I s i Hs) as [Hlt _].
  rewrite (wl_closed _ _ W s) by (rewrite (wl_nsub _ _ W); exact Hlt).
  rewrite Hop. reflexivity.
Qed.

Lemma WLink_step : forall tr st o, Inv st -> WLink tr st ->
   WLink (track_step tr o) (r_st (step st o)) /\ r_panic (step st o) = false.
Proof.
  intros tr st o I W. pose proof W as W0. destruct W as [Wn Wi Wd Wr Wl Wc Wf].
  destruct o as [r|s h own|s|s|r k o|s h|ru].
  - (* Subscribe *)
    assert (Hids : forall p, In p (t_open tr ++ [(t_nsub tr, r)]) -> fst p < S (t_nsub tr)).
    { intros p Hp. apply in_app_iff in Hp. destruct Hp as [Hp|[Hp|[]]];
        [specialize (Wi p Hp); lia|subst p; simpl; lia]. }
    assert (Hnd : NoDup (map fst (t_open tr ++ [(t_nsub tr, r)]))).
    { rewrite map_app. simpl. apply NoDup_snoc; [assumption|]. intro Hin.
      apply in_map_iff in Hin. destruct Hin as [p [E Hp]]. specialize (Wi p Hp). lia. }
    assert (Hcl : forall s, s < S (t_nsub tr) ->
              st_closed st s = negb (opn s (t_open tr ++ [(t_nsub tr, r)]))).
    { intros s0 Hs0. rewrite existsb_app. simpl. destruct (Nat.eqb_spec (t_nsub tr) s0) as [E|E].
      - rewrite orb_true_r. simpl. apply Wf. lia.
      - simpl. rewrite orb_false_r. apply (Wc s0). lia. }
    assert (Hfr : forall s, S (t_nsub tr) <= s -> st_closed st s = false).
    { intros s0 Hs0. apply Wf. lia. }
    simpl. destruct (rs_cur (st_rs st r)) as [i|] eqn:Hc; simpl; (split; [|reflexivity]).
    + constructor; simpl.
      * congruence.
      * exact Hids.
      * exact Hnd.
      * intros x. unfold open_count. simpl. rewrite cnt_snoc. unfold upd.
        destruct (Nat.eqb_spec x r).
        -- subst. rewrite Nat.eqb_refl. simpl. rewrite Wr. unfold open_count. lia.
        -- destruct (Nat.eqb_spec r x); [congruence|]. rewrite Wr. unfold open_count. lia.
      * intros s x Hp. apply in_app_iff in Hp. destruct Hp as [Hp|[Hp|[]]].
        -- destruct (Wl s x Hp) as [j [H1 H2]]. specialize (Wi _ Hp). simpl in Wi.
           exists j. rewrite upd_other by lia. split; [assumption|].
           unfold upd. destruct (Nat.eqb_spec x r); simpl; [subst; congruence|assumption].
        -- inversion Hp; subst. exists i. rewrite Wn, !upd_same. simpl. split; reflexivity.
      * exact Hcl.
      * exact Hfr.
    + assert (Hz : rs_ref (st_rs st r) = 0) by (apply (inv_ref st I); assumption).
      constructor; simpl.
      * congruence.
      * exact Hids.
      * exact Hnd.
      * intros x. unfold open_count. simpl. rewrite cnt_snoc. unfold upd.
        destruct (Nat.eqb_spec x r).
        -- subst. rewrite Nat.eqb_refl. simpl. rewrite Wr in Hz. unfold open_count in Hz. lia.
        -- destruct (Nat.eqb_spec r x); [congruence|]. rewrite Wr. unfold open_count. lia.
      * intros s x Hp. apply in_app_iff in Hp. destruct Hp as [Hp|[Hp|[]]].
        -- destruct (Wl s x Hp) as [j [H1 H2]]. specialize (Wi _ Hp). simpl in Wi.
           exists j. rewrite upd_other by lia. split; [assumption|].
           unfold upd. destruct (Nat.eqb_spec x r); simpl; [subst; congruence|assumption].
        -- inversion Hp; subst. exists (st_ninf st). rewrite Wn, !upd_same. simpl. split; reflexivity.
      * exact Hcl.
      * exact Hfr.
  - (* AddHandler *)
    simpl. assert (Ht : WLink (if s <? t_nsub tr
                   then mkTr (t_nsub tr) (t_open tr) (upd (t_reg tr) s (t_reg tr s ++ [(h, own)])) (t_store tr)
                   else tr) st).
    { destruct (s <? t_nsub tr); constructor; simpl; assumption. }
    destruct (st_sub st s) as [i|] eqn:Hs; simpl; (split; [|reflexivity]); [|exact Ht].
    destruct Ht as [Tn Ti Td Tr Tl Tc Tf]. constructor; simpl; assumption.
  - (* RemoveHandlers *)
    simpl. destruct (st_sub st s) as [i|] eqn:Hs; simpl; (split; [|reflexivity]);
      constructor; simpl; assumption.
  - (* Close *)
    destruct (is_open tr s) eqn:Hop.
    + (* s is open: the first Close through it *)
      destruct (is_open_In _ _ Hop) as [r Hin].
      destruct (Wl s r Hin) as [i [Hs Hc]].
      destruct (inv_cur st I r i Hc) as [Hi [Hres Hstop]].
      destruct (cnt_rm s r (t_open tr) Wd Hin) as [Hcnt Hoth].
      pose proof (Wr r) as Hr. unfold open_count in Hr.
      assert (Hlt : s < t_nsub tr) by (apply (Wi _ Hin)).
      assert (Hcs : st_closed st s = false) by (rewrite (Wc s Hlt), Hop; reflexivity).
      assert (Hnd : NoDup (map fst (rm s (t_open tr)))) by (apply NoDup_map_fst_filter; assumption).
      assert (Hids : forall p, In p (rm s (t_open tr)) -> fst p < t_nsub tr).
      { intros p Hp. apply filter_In in Hp. apply Wi. apply Hp. }
      assert (Hc1 : forall s0, s0 < t_nsub tr ->
                upd (st_closed st) s true s0 = negb (opn s0 (rm s (t_open tr)))).
      { intros s0 Hs0. destruct (Nat.eq_dec s0 s) as [E|E].
        - subst s0. rewrite upd_same, opn_rm_same. reflexivity.
        - rewrite upd_other by assumption. rewrite opn_rm_other by assumption. exact (Wc s0 Hs0). }
      assert (Hc2 : forall s0, t_nsub tr <= s0 -> upd (st_closed st) s true s0 = false).
      { intros s0 Hs0. rewrite upd_other by lia. apply Wf. assumption. }
      simpl. rewrite Hs. simpl. rewrite Hcs. simpl. rewrite Hres.
      destruct (2 <=? rs_ref (st_rs st r)) eqn:Hge; simpl.
      * apply Nat.leb_le in Hge. split; [|reflexivity]. constructor; simpl.
        -- exact Wn.
        -- exact Hids.
        -- exact Hnd.
        -- intros x. unfold open_count. simpl. unfold upd. destruct (Nat.eqb_spec x r); simpl.
           ++ subst. lia.
           ++ rewrite (Hoth x n). apply Wr.
        -- intros s' x Hp. apply filter_In in Hp. destruct Hp as [Hp _].
           destruct (Wl s' x Hp) as [j [H1 H2]]. exists j. split; [assumption|].
           unfold upd. destruct (Nat.eqb_spec x r); simpl; [subst; assumption|assumption].
        -- exact Hc1.
        -- exact Hc2.
      * apply Nat.leb_gt in Hge. rewrite Hstop. simpl. split; [|reflexivity].
        constructor; simpl.
        -- exact Wn.
        -- exact Hids.
        -- exact Hnd.
        -- intros x. unfold open_count. simpl. unfold upd. destruct (Nat.eqb_spec x r); simpl.
           ++ subst. lia.
           ++ rewrite (Hoth x n). apply Wr.
        -- intros s' x Hp.
           assert (Hx : x <> r).
           { intro; subst x. apply In_cnt_pos in Hp. lia. }
           apply filter_In in Hp. destruct Hp as [Hp _].
           destruct (Wl s' x Hp) as [j [H1 H2]]. exists j. split; [assumption|].
           rewrite upd_other by assumption. assumption.
        -- exact Hc1.
        -- exact Hc2.
    + (* s is not open (closed before, or never created): nothing happens on either side *)
      rewrite (close_not_open_step tr st s I W0 Hop), (track_close_not_open tr s Hop).
      simpl. split; [exact W0|reflexivity].
  - (* Event *)
    simpl. destruct (rs_cur (st_rs st r)) as [i|] eqn:Hc; simpl; (split; [|reflexivity]).
    + constructor; simpl; try assumption.
      * intros x. unfold upd. destruct (Nat.eqb_spec x r); simpl; [subst|]; apply Wr.
      * intros s x Hp. destruct (Wl s x Hp) as [j [H1 H2]]. exists j. split; [assumption|].
        unfold upd. destruct (Nat.eqb_spec x r); simpl; [subst; congruence|assumption].
    + constructor; simpl; try assumption.
      * intros x. unfold upd. destruct (Nat.eqb_spec x r); simpl; [subst|]; apply Wr.
      * intros s x Hp. destruct (Wl s x Hp) as [j [H1 H2]]. exists j. split; [assumption|].
        unfold upd. destruct (Nat.eqb_spec x r); simpl; [subst; congruence|assumption].
  - (* Tick *)
    simpl. destruct (st_sub st s) as [i|] eqn:Hs; simpl; (split; [|reflexivity]);
      constructor; simpl; assumption.
  - (* SubscribeUnknown *)
    simpl. split; [|reflexivity]. constructor; simpl; assumption.
Qed.

Lemma WLink_run_from : forall ops tr st, Inv st -> WLink tr st ->
   WLink (track_from tr ops) (run_from st ops) /\ panics_from st ops = false.
Proof.
  induction ops as [|o ops IH]; intros tr st I W; simpl.
  - split; [assumption|reflexivity].
  - destruct (WLink_step tr st o I W) as [W' Hp].
    destruct (IH _ _ (Inv_step st o I) W') as [W'' Hp'].
    split; [assumption|]. rewrite Hp, Hp'. reflexivity.
Qed.

Lemma WLink_run : forall ops, WLink (track ops) (run ops) /\ panics_from init ops = false.
Proof. intros ops. apply WLink_run_from; [apply Inv_init|apply WLink_init]. Qed.

(* ------------------------------------------------------------------ *)
(* Part 2: theorems                                                     *)
(* ------------------------------------------------------------------ *)
Theorem running_iff_refcount : forall ops r, running (run ops) r = true <-> 0 < refcount (run ops) r.
Proof.
  intros ops r. pose proof (inv_ref _ (Inv_run ops) r) as [H1 H2].
  unfold running, refcount. destruct (rs_cur (st_rs (run ops) r)) as [i|] eqn:Hc.
  - split; [|reflexivity]. intros _.
    destruct (rs_ref (st_rs (run ops) r)); [|lia]. specialize (H2 eq_refl). discriminate.
  - split; [discriminate|]. intro H. rewrite (H1 eq_refl) in H. lia.
Qed.

Theorem refcount_is_open_count : forall ops r,
  refcount (run ops) r = open_count (track ops) r /\
  (running (run ops) r = true <-> 0 < open_count (track ops) r).
Proof.
  intros ops r. destruct (WLink_run ops) as [W _].
  assert (E : refcount (run ops) r = open_count (track ops) r) by (apply (wl_ref _ _ W)).
  split; [exact E|]. rewrite <- E. apply running_iff_refcount.
Qed.

Theorem no_panic : forall ops, panics_from init ops = false.
Proof. intros ops. apply (WLink_run ops). Qed.

Lemma WLink_sub_live : forall tr st s r, Inv st -> WLink tr st -> In (s, r) (t_open tr) ->
  sub_live st s = true /\ sub_res st s = Some r.
Proof.
  intros tr st s r I W Hin. destruct (wl_live _ _ W s r Hin) as [i [Hs Hc]].
  destruct (inv_cur st I r i Hc) as [_ [Hres _]].
  unfold sub_live, sub_res. rewrite Hs, Hres, Hc, Nat.eqb_refl. split; reflexivity.
Qed.

(* every open subscription is attached to the running informer of its resource *)
Theorem open_sub_is_live : forall ops s r, In (s, r) (t_open (track ops)) ->
  sub_live (run ops) s = true /\ sub_res (run ops) s = Some r.
Proof.
  intros ops s r Hin. destruct (WLink_run ops) as [W _].
  eapply WLink_sub_live; eauto. apply Inv_run.
Qed.

(* Close through a subscription that is not open (closed before, or never created): NOTHING changes *)
Theorem close_not_open_noop : forall ops s, is_open (track ops) s = false ->
  step (run ops) (Close s) = mkRes (run ops) [] false.
Proof.
  intros ops s H. destruct (WLink_run ops) as [W _].
  apply (close_not_open_step (track ops)); [apply Inv_run|exact W|exact H].
Qed.

Corollary repeated_close_no_effect : forall ops1 ops2 s, is_open (track ops1) s = false ->
  run (ops1 ++ Close s :: ops2) = run (ops1 ++ ops2) /\
  trace_from (run (ops1 ++ [Close s])) ops2 = trace_from (run ops1) ops2 /\
  outs (ops1 ++ Close s :: ops2) = outs (ops1 ++ ops2) /\
  track (ops1 ++ Close s :: ops2) = track (ops1 ++ ops2).
Proof.
  intros ops1 ops2 s H. pose proof (close_not_open_noop ops1 s H) as E.
  assert (E1 : run (ops1 ++ [Close s]) = run ops1).
  { rewrite run_app. change (run_from (run ops1) [Close s]) with (r_st (step (run ops1) (Close s))).
    rewrite E. reflexivity. }
  split; [|split; [|split]].
  - rewrite !run_app.
    change (run_from (run ops1) (Close s :: ops2)) with (run_from (r_st (step (run ops1) (Close s))) ops2).
    rewrite E. reflexivity.
  - rewrite E1. reflexivity.
  - unfold outs. rewrite !outs_from_app. change (run_from init ops1) with (run ops1).
    f_equal. rewrite outs_from_cons, E. reflexivity.
  - unfold track. rewrite !track_from_app. change (track_from tr0 ops1) with (track ops1).
    change (track_from (track ops1) (Close s :: ops2))
      with (track_from (track_step (track ops1) (Close s)) ops2).
    rewrite (track_close_not_open _ _ H). reflexivity.
Qed.

Lemma close_open_step : forall tr st s r, Inv st -> WLink tr st -> In (s, r) (t_open tr) ->
  refcount (r_st (step st (Close s))) r = refcount st r - 1 /\
  (refcount st r = 1 -> running (r_st (step st (Close s))) r = false) /\
  (1 < refcount st r -> running (r_st (step st (Close s))) r = true) /\
  r_panic (step st (Close s)) = false.
Proof.
  intros tr st s r I W Hin. destruct (wl_live _ _ W s r Hin) as [i [Hs Hc]].
  destruct (inv_cur st I r i Hc) as [_ [Hres Hstop]].
  assert (Hcs : st_closed st s = false).
  { rewrite (wl_closed _ _ W s (wl_ids _ _ W _ Hin)). unfold is_open.
    rewrite (In_opn _ _ _ Hin). reflexivity. }
  assert (Hnz : rs_ref (st_rs st r) <> 0).
  { intro Hz. apply (inv_ref st I) in Hz. congruence. }
  unfold refcount, running. simpl. rewrite Hs. simpl. rewrite Hcs. simpl. rewrite Hres.
  destruct (2 <=? rs_ref (st_rs st r)) eqn:Hge; simpl.
  - apply Nat.leb_le in Hge. rewrite upd_same. simpl. rewrite Hc.
    split; [reflexivity|]. split; [intro; lia|]. split; [intros _; reflexivity|reflexivity].
  - apply Nat.leb_gt in Hge. rewrite Hstop. simpl. rewrite upd_same. simpl.
    split; [lia|]. split; [intros _; reflexivity|]. split; [intro; lia|reflexivity].
Qed.

(* the first Close of an open subscription takes exactly one reference *)
Theorem close_open_decrements : forall ops s r, In (s, r) (t_open (track ops)) ->
  let st' := r_st (step (run ops) (Close s)) in
  refcount st' r = refcount (run ops) r - 1 /\
  (refcount (run ops) r = 1 -> running st' r = false) /\
  (1 < refcount (run ops) r -> running st' r = true) /\
  r_panic (step (run ops) (Close s)) = false.
Proof.
  intros ops s r Hin. destruct (WLink_run ops) as [W _].
  apply (close_open_step (track ops)); [apply Inv_run|exact W|exact Hin].
Qed.

(* ------------------------------------------------------------------ *)
(* isolation of Close                                                   *)
(* ------------------------------------------------------------------ *)
(* a pair that left the open list never comes back *)
Lemma t_nsub_mono_step : forall tr o, t_nsub tr <= t_nsub (track_step tr o).
Proof.
  intros tr o. destruct o as [x|s h own|s|s|x k o|s h|ru]; simpl; try lia.
  unfold track_step. destruct (s <? t_nsub tr); simpl; lia.
Qed.

Lemma open_step_back : forall tr o b r, b < t_nsub tr ->
  In (b, r) (t_open (track_step tr o)) -> In (b, r) (t_open tr).
Proof.
  intros tr o b r Hlt H. destruct o as [x|s h own|s|s|x k o|s h|ru].
  - simpl in H. apply in_app_iff in H. destruct H as [H|[H|[]]]; [assumption|]. inversion H; lia.
  - unfold track_step in H. destruct (s <? t_nsub tr); exact H.
  - exact H.
  - simpl in H. apply filter_In in H. apply H.
  - exact H.
  - exact H.
  - exact H.
Qed.

Lemma open_from_back : forall ops tr b r, b < t_nsub tr ->
  In (b, r) (t_open (track_from tr ops)) -> In (b, r) (t_open tr).
Proof.
  induction ops as [|o ops IH]; intros tr b r Hlt H; simpl in H; [assumption|].
  apply (open_step_back tr o); [assumption|]. apply IH; [|assumption].
  pose proof (t_nsub_mono_step tr o). lia.
Qed.

(* a subscription stays bound to its informer, and an informer keeps its resource *)
Lemma sub_res_step : forall st o a i, Inv st -> st_sub st a = Some i ->
  st_sub (r_st (step st o)) a = Some i /\
  i_res (st_inf (r_st (step st o)) i) = i_res (st_inf st i).
Proof.
  intros st o a i I Ha. destruct (inv_sub st I a i Ha) as [Hlt Hi].
  Ltac updi := unfold upd;
    match goal with |- context [Nat.eqb ?x ?y] => destruct (Nat.eqb_spec x y) end;
    try subst; reflexivity.
  destruct o as [x|s h own|s|s|x k o|s h|ru]; simpl.
  - destruct (rs_cur (st_rs st x)) as [j|]; simpl; split;
      try (rewrite upd_other by lia); try assumption; reflexivity.
  - destruct (st_sub st s) as [j|]; simpl; (split; [assumption|]); [updi|reflexivity].
  - destruct (st_sub st s) as [j|]; simpl; (split; [assumption|]); [updi|reflexivity].
  - destruct (st_sub st s) as [j|]; simpl; [|split; [assumption|reflexivity]].
    destruct (st_closed st s); simpl; [split; [assumption|reflexivity]|].
    destruct (2 <=? rs_ref (st_rs st (i_res (st_inf st j)))); simpl; [split; [assumption|reflexivity]|].
    destruct (i_stopped (st_inf st j)); simpl; (split; [assumption|]); [reflexivity|updi].
  - destruct (rs_cur (st_rs st x)) as [j|]; simpl; (split; [assumption|]); [updi|reflexivity].
  - destruct (st_sub st s) as [j|]; simpl; (split; [assumption|reflexivity]).
  - split; [assumption|reflexivity].
Qed.

(* sl (where a has been closed) and sr (where a has not been closed yet when d = true) agree on
   everything except: the reference count of r is one higher in sr while d = true, and
   closeOnce of a has fired in sl and, in sr, only once d = false *)
Record RefSim (a r : nat) (d : bool) (sl sr : state) : Prop := {
  fs_ninf : st_ninf sl = st_ninf sr;
  fs_nsub : st_nsub sl = st_nsub sr;
  fs_inf : forall i, st_inf sl i = st_inf sr i;
  fs_sub : forall s, st_sub sl s = st_sub sr s;
  fs_cur : forall x, rs_cur (st_rs sl x) = rs_cur (st_rs sr x);
  fs_gen : forall x, rs_gen (st_rs sl x) = rs_gen (st_rs sr x);
  fs_store : forall x, rs_store (st_rs sl x) = rs_store (st_rs sr x);
  fs_ref : forall x, x <> r -> rs_ref (st_rs sl x) = rs_ref (st_rs sr x);
  fs_ref_r : rs_ref (st_rs sr r) = rs_ref (st_rs sl r) + (if d then 1 else 0);
  fs_closed : forall s, s <> a -> st_closed sl s = st_closed sr s;
  fs_closed_l : st_closed sl a = true;
  fs_closed_r : st_closed sr a = negb d
}.

Lemma RefSim_step : forall a r b d trL sl sr o,
  Inv sl -> WLink trL sl -> RefSim a r d sl sr ->
  (exists i, st_sub sl a = Some i /\ i_res (st_inf sl i) = r) ->
  In (b, r) (t_open trL) -> In (b, r) (t_open (track_step trL o)) ->
  exists d', RefSim a r d' (r_st (step sl o)) (r_st (step sr o)) /\ r_out (step sl o) = r_out (step sr o).
Proof.
  intros a r b d trL sl sr o I W R HA Hb Hb'.
  pose proof R as R0.
  destruct R as [Hninf Hnsub Hinf Hsub Hcur Hgen Hstore Href Hrefr Hcl HclL HclR].
  destruct (wl_live _ _ W b r Hb) as [ib [Hsb Hcb]].
  assert (H1 : 1 <= rs_ref (st_rs sl r)).
  { rewrite (wl_ref _ _ W). unfold open_count. apply (In_cnt_pos b). exact Hb. }
  Ltac fin_sim Hninf Hnsub Hinf Hsub Hcur Hgen Hstore Href Hcl :=
    constructor; simpl; intros; unfold upd;
    repeat match goal with |- context [Nat.eqb ?a ?b] => destruct (Nat.eqb_spec a b) end;
    simpl;
    rewrite ?Hninf, ?Hnsub, ?Hinf, ?Hsub, ?Hcur, ?Hgen, ?Hstore;
    repeat match goal with H : _ <> _ |- _ => learn (Href _ H) end;
    repeat match goal with H : _ <> _ |- _ => learn (Hcl _ H) end;
    first [reflexivity | assumption | congruence | lia].
  destruct o as [x|s h own|s|s|x k o|s h|ru]; simpl.
  - (* Subscribe *)
    rewrite <- Hcur. destruct (rs_cur (st_rs sl x)) as [i|] eqn:Hc; simpl;
      exists d; (split; [|reflexivity]).
    + fin_sim Hninf Hnsub Hinf Hsub Hcur Hgen Hstore Href Hcl.
    + assert (Hx : x <> r) by congruence.
      fin_sim Hninf Hnsub Hinf Hsub Hcur Hgen Hstore Href Hcl.
  - (* AddHandler *)
    rewrite <- Hsub. destruct (st_sub sl s) as [i|] eqn:Hs; simpl; exists d;
      [|split; [exact R0|reflexivity]].
    split; [|rewrite ?Hinf; reflexivity].
    fin_sim Hninf Hnsub Hinf Hsub Hcur Hgen Hstore Href Hcl.
  - (* RemoveHandlers *)
    rewrite <- Hsub. destruct (st_sub sl s) as [i|] eqn:Hs; simpl; exists d;
      [|split; [exact R0|reflexivity]].
    split; [|reflexivity].
    fin_sim Hninf Hnsub Hinf Hsub Hcur Hgen Hstore Href Hcl.
  - (* Close *)
    rewrite <- Hsub. destruct (st_sub sl s) as [i|] eqn:Hs; simpl;
      [|exists d; split; [exact R0|reflexivity]].
    destruct (Nat.eq_dec s a) as [Esa|Esa].
    + (* Close a again: nothing on the left; on the right it is the first one while d = true *)
      subst s. rewrite HclL, HclR.
      assert (Hai : i_res (st_inf sl i) = r).
      { destruct HA as [i0 [HA1 HA2]]. congruence. }
      destruct d; simpl in Hrefr, HclR; simpl.
      * rewrite <- Hinf, Hai.
        replace (2 <=? rs_ref (st_rs sr r)) with true by (symmetry; apply Nat.leb_le; lia).
        simpl. exists false. split; [|reflexivity].
        fin_sim Hninf Hnsub Hinf Hsub Hcur Hgen Hstore Href Hcl.
      * exists false. split; [exact R0|reflexivity].
    + rewrite <- (Hcl s Esa).
      destruct (st_closed sl s) eqn:Hcs; simpl; [exists d; split; [exact R0|reflexivity]|].
      rewrite <- Hinf.
      destruct (Nat.eq_dec (i_res (st_inf sl i)) r) as [E|E].
      * (* same resource as b: s and b are two open subscriptions on r, both sides decrement *)
        assert (H2 : 2 <= rs_ref (st_rs sl r)).
        { destruct (inv_sub sl I s i Hs) as [Hlt _].
          assert (Hop : is_open trL s = true).
          { pose proof (wl_closed _ _ W s) as Hw. rewrite (wl_nsub _ _ W) in Hw.
            specialize (Hw Hlt). rewrite Hcs in Hw. destruct (is_open trL s); [reflexivity|discriminate]. }
          apply is_open_In in Hop. destruct Hop as [r2 Hin].
          destruct (wl_live _ _ W s r2 Hin) as [i2 [Hs2 Hc2]].
          assert (i2 = i) by congruence. subst i2.
          destruct (inv_cur sl I r2 i Hc2) as [_ [Hres _]].
          assert (r2 = r) by congruence. clear Hres. subst r2.
          rewrite (wl_ref _ _ W). unfold open_count.
          apply (cnt_two s b); [apply (wl_nodup _ _ W)| |assumption|assumption].
          simpl in Hb'. apply filter_In in Hb'. destruct Hb' as [_ Hb']. simpl in Hb'.
          destruct (Nat.eqb_spec b s); [discriminate|congruence]. }
        rewrite E.
        replace (2 <=? rs_ref (st_rs sl r)) with true by (symmetry; apply Nat.leb_le; lia).
        replace (2 <=? rs_ref (st_rs sr r)) with true by (symmetry; apply Nat.leb_le; lia).
        simpl. exists d. split; [|reflexivity].
        fin_sim Hninf Hnsub Hinf Hsub Hcur Hgen Hstore Href Hcl.
      * rewrite <- (Href _ E).
        destruct (2 <=? rs_ref (st_rs sl (i_res (st_inf sl i)))); simpl.
        -- exists d. split; [|reflexivity]. fin_sim Hninf Hnsub Hinf Hsub Hcur Hgen Hstore Href Hcl.
        -- destruct (i_stopped (st_inf sl i)); simpl; exists d; (split; [|reflexivity]);
             fin_sim Hninf Hnsub Hinf Hsub Hcur Hgen Hstore Href Hcl.
  - (* Event *)
    rewrite <- Hcur. destruct (rs_cur (st_rs sl x)) as [i|] eqn:Hc; simpl; exists d.
    + split; [|rewrite ?Hinf; reflexivity].
      fin_sim Hninf Hnsub Hinf Hsub Hcur Hgen Hstore Href Hcl.
    + split; [|reflexivity].
      fin_sim Hninf Hnsub Hinf Hsub Hcur Hgen Hstore Href Hcl.
  - (* Tick *)
    rewrite <- Hsub. destruct (st_sub sl s) as [i|] eqn:Hs; simpl; exists d;
      [|split; [exact R0|reflexivity]].
    split; [exact R0|rewrite ?Hinf; reflexivity].
  - (* SubscribeUnknown *)
    exists d. split; [exact R0|reflexivity].
Qed.

Lemma RefSim_run : forall a r b ops d trL sl sr,
  Inv sl -> WLink trL sl -> RefSim a r d sl sr ->
  (exists i, st_sub sl a = Some i /\ i_res (st_inf sl i) = r) ->
  In (b, r) (t_open trL) -> In (b, r) (t_open (track_from trL ops)) ->
  trace_from sl ops = trace_from sr ops.
Proof.
  induction ops as [|o ops IH]; intros d trL sl sr I W R HA Hb Hend; simpl; [reflexivity|].
  simpl in Hend.
  destruct (WLink_step trL sl o I W) as [W' _].
  assert (Hb' : In (b, r) (t_open (track_step trL o))).
  { apply (open_from_back ops); [|assumption].
    pose proof (wl_ids _ _ W _ Hb) as Hlt. pose proof (t_nsub_mono_step trL o). simpl in Hlt. lia. }
  destruct (RefSim_step a r b d trL sl sr o I W R HA Hb Hb') as [d' [R' Ho]].
  assert (HA' : exists i, st_sub (r_st (step sl o)) a = Some i /\
                          i_res (st_inf (r_st (step sl o)) i) = r).
  { destruct HA as [i [HA1 HA2]]. destruct (sub_res_step sl o a i I HA1) as [S1 S2].
    exists i. split; [exact S1|congruence]. }
  rewrite Ho. f_equal.
  apply (IH d' (track_step trL o)); try assumption. apply Inv_step; assumption.
Qed.

Lemma close_out_nil : forall st s, r_out (step st (Close s)) = [].
Proof.
  intros st s. simpl. destruct (st_sub st s); [|reflexivity].
  destruct (st_closed st s); [reflexivity|].
  destruct (2 <=? _); [reflexivity|]. destruct (i_stopped _); reflexivity.
Qed.

(* isolation of Close: if a and b are both open on resource r, closing a changes no delivery at all
   (in particular none of b's) as long as b stays open — whatever else is done, including further
   Close calls through a *)
Theorem isolation_close : forall ops1 ops2 a b r,
  a <> b ->
  In (a, r) (t_open (track ops1)) -> In (b, r) (t_open (track ops1)) ->
  In (b, r) (t_open (track (ops1 ++ Close a :: ops2))) ->
  trace_from (run (ops1 ++ [Close a])) ops2 = trace_from (run ops1) ops2 /\
  outs (ops1 ++ Close a :: ops2) = outs (ops1 ++ ops2).
Proof.
  intros ops1 ops2 a b r Hab Ha Hb Hend.
  destruct (WLink_run ops1) as [W _]. pose proof (Inv_run ops1) as I.
  destruct (WLink_step (track ops1) (run ops1) (Close a) I W) as [W' _].
  assert (Hb' : In (b, r) (t_open (track_step (track ops1) (Close a)))).
  { simpl. apply filter_In. split; [assumption|]. simpl.
    destruct (Nat.eqb_spec b a); [congruence|reflexivity]. }
  assert (Hend' : In (b, r) (t_open (track_from (track_step (track ops1) (Close a)) ops2))).
  { unfold track in Hend. rewrite track_from_app in Hend. exact Hend. }
  assert (Hrun : run (ops1 ++ [Close a]) = r_st (step (run ops1) (Close a))).
  { rewrite run_app. reflexivity. }
  destruct (wl_live _ _ W a r Ha) as [i [Hs Hc]].
  destruct (inv_cur _ I r i Hc) as [_ [Hres _]].
  assert (Hcs : st_closed (run ops1) a = false).
  { rewrite (wl_closed _ _ W a (wl_ids _ _ W _ Ha)). unfold is_open.
    rewrite (In_opn _ _ _ Ha). reflexivity. }
  assert (R : RefSim a r true (r_st (step (run ops1) (Close a))) (run ops1)).
  { assert (H2 : 2 <= rs_ref (st_rs (run ops1) r)).
    { rewrite (wl_ref _ _ W). unfold open_count.
      apply (cnt_two a b); [apply (wl_nodup _ _ W)|assumption|assumption|assumption]. }
    simpl. rewrite Hs. simpl. rewrite Hcs. simpl. rewrite Hres.
    replace (2 <=? rs_ref (st_rs (run ops1) r)) with true by (symmetry; apply Nat.leb_le; lia).
    simpl. constructor; simpl; intros; try reflexivity; unfold upd;
      repeat match goal with |- context [Nat.eqb ?x ?y] => destruct (Nat.eqb_spec x y) end;
      simpl; first [reflexivity | assumption | congruence | lia]. }
  assert (HA : exists i0, st_sub (r_st (step (run ops1) (Close a))) a = Some i0 /\
                          i_res (st_inf (r_st (step (run ops1) (Close a))) i0) = r).
  { destruct (sub_res_step (run ops1) (Close a) a i I Hs) as [S1 S2].
    exists i. split; [exact S1|congruence]. }
  assert (T : trace_from (r_st (step (run ops1) (Close a))) ops2 = trace_from (run ops1) ops2).
  { apply (RefSim_run a r b ops2 true (track_step (track ops1) (Close a))); try assumption.
    apply Inv_step; assumption. }
  split.
  - rewrite Hrun. exact T.
  - unfold outs. rewrite !outs_from_app. change (run_from init ops1) with (run ops1).
    f_equal. rewrite outs_from_cons, close_out_nil, app_nil_l. unfold outs_from. rewrite T. reflexivity.
Qed.
End Wf.

(* ================================================================== *)
(* a fresh informer after the last close *)
(* ================================================================== *)
Module Fresh.
Local Arguments Nat.leb : simpl never.

(* Theorem 2: once the reference count of r is back to 0, the next Subscribe r
   starts a new informer: a new generation, running, with an empty handler table
   and a cache that is the server's content (its own LIST) - nothing is carried
   over, and no earlier subscription is attached to it. *)
Theorem fresh_after_last_close : forall ops r,
  refcount (run ops) r = 0 ->
  let st := run ops in
  let st' := r_st (step st (Subscribe r)) in
  let s := st_nsub st in
  running st r = false /\
  running st' r = true /\
  generation st' r = S (generation st r) /\
  refcount st' r = 1 /\
  cur_handlers st' r = [] /\
  cur_cache st' r = store st r /\
  sub_live st' s = true /\ sub_res st' s = Some r /\
  (forall s0, s0 <> s -> sub_live st' s0 = true -> sub_res st' s0 <> Some r) /\
  r_out (step st (Subscribe r)) = [] /\ r_panic (step st (Subscribe r)) = false.
Proof.
  intros ops r Href st st' s.
  pose proof (Inv_run ops) as I. fold st in I.
  unfold refcount in Href. fold st in Href.
  assert (Hc : rs_cur (st_rs st r) = None) by (apply (inv_ref st I); exact Href).
  subst st'. unfold running, generation, refcount, cur_handlers, cur_cache, store, sub_live, sub_res.
  simpl. rewrite Hc. simpl.
  rewrite ?upd_same. simpl. rewrite ?upd_same. simpl. rewrite ?upd_same. simpl.
  rewrite ?Nat.eqb_refl.
  repeat split; try reflexivity.
  intros s0 Hne. subst s. rewrite (upd_other _ _ _ _ s0 Hne).
  destruct (st_sub st s0) as [i|] eqn:Hs0; [|discriminate].
  destruct (inv_sub st I _ _ Hs0) as [_ Hi].
  rewrite (upd_other _ _ _ _ i) by lia.
  intros Hlive Hres. inversion Hres as [Hr]. rewrite Hr, upd_same in Hlive. simpl in Hlive.
  apply Nat.eqb_eq in Hlive. lia.
Qed.

(* ... and it works: a handler added through the new subscription gets the
   server's content replayed and then the next event *)
Theorem fresh_informer_works : forall ops r h own k o,
  refcount (run ops) r = 0 ->
  let st := run ops in
  let s := st_nsub st in
  trace_from st [Subscribe r; AddHandler s h own; Event r k o] =
    [ []; replay s h (store st r);
      fanout [mkHe s h own] (snd (cache_apply k o (store st r))) ].
Proof.
  intros ops r h own k o Href st s.
  pose proof (Inv_run ops) as I. fold st in I.
  unfold refcount in Href. fold st in Href.
  assert (Hc : rs_cur (st_rs st r) = None) by (apply (inv_ref st I); exact Href).
  unfold store. subst s.
  cbn [trace_from]. 
  unfold step at 1 2 3. rewrite Hc. cbn [r_st r_out st_sub st_inf st_rs st_ninf st_nsub].
  rewrite ?upd_same. cbn [r_st r_out st_sub st_inf st_rs st_ninf st_nsub i_cache i_hs rs_cur rs_store set_hs].
  rewrite ?upd_same. cbn [r_st r_out i_cache i_hs rs_cur rs_store set_hs app].
  do 3 f_equal.
  unfold step. rewrite Hc. cbn. rewrite ?upd_same. cbn. rewrite ?upd_same. cbn. rewrite ?upd_same. cbn.
  rewrite ?upd_same. cbn.
  reflexivity.
Qed.
End Fresh.

(* ================================================================== *)
(* adding a handler is atomic with respect to events *)
(* ================================================================== *)
Module Atomic.
Local Arguments Nat.leb : simpl never.

Lemma cache_apply_new : forall k o c x,
  In x (fst (cache_apply k o c)) ->
  In x c \/ (x = o /\ snd (cache_apply k o c) = Some (NAdd o)).
Proof.
  intros k o c x. unfold cache_apply.
  destruct k; destruct (memn o c) eqn:Hm; simpl; intros H; auto.
  - apply in_app_iff in H. destruct H as [H|[H|[]]]; [left; exact H|right; split; [symmetry; exact H|reflexivity]].
  - apply in_app_iff in H. destruct H as [H|[H|[]]]; [left; exact H|right; split; [symmetry; exact H|reflexivity]].
  - left. unfold removen in H. apply filter_In in H. apply H.
Qed.

Lemma outs_from_two : forall st a b,
  outs_from st [a; b] = (r_out (step st a) ++ r_out (step (r_st (step st a)) b))%list.
Proof. intros. unfold outs_from. cbn [trace_from concat]. rewrite app_nil_r. reflexivity. Qed.

(* Adding a handler is atomic with respect to events: whatever is in the server
   after the next event of the resource was shown to the new handler, in its
   replay or as that event. *)
Theorem add_is_atomic : forall ops s h own r k o x,
  sub_live (run ops) s = true -> sub_res (run ops) s = Some r ->
  In x (fst (cache_apply k o (store (run ops) r))) ->
  exists n, In (s, h, n) (outs_from (run ops) [AddHandler s h own; Event r k o]) /\ note_obj n = x.
Proof.
  intros ops s h own r k o x Hlive Hres Hx.
  pose proof (Inv_run ops) as I. set (st := run ops) in *.
  unfold sub_live in Hlive. unfold sub_res in Hres. unfold store in Hx.
  destruct (st_sub st s) as [i|] eqn:Hs; [|discriminate].
  inversion Hres as [Hr]. rewrite Hr in Hlive.
  destruct (rs_cur (st_rs st r)) as [j|] eqn:Hc; [|discriminate].
  apply Nat.eqb_eq in Hlive. subst j.
  pose proof (inv_cache st I r i Hc) as Hcache.
  rewrite outs_from_two.
  assert (H1 : r_out (step st (AddHandler s h own)) = replay s h (rs_store (st_rs st r))).
  { simpl. rewrite Hs. simpl. rewrite Hcache. reflexivity. }
  assert (H2 : r_out (step (r_st (step st (AddHandler s h own))) (Event r k o)) =
               fanout (i_hs (st_inf st i) ++ [mkHe s h own]) (snd (cache_apply k o (rs_store (st_rs st r))))).
  { simpl. rewrite Hs. simpl. rewrite Hc. simpl. rewrite upd_same. simpl. rewrite Hcache. reflexivity. }
  rewrite ?Hr. rewrite H1, H2.
  destruct (cache_apply_new _ _ _ _ Hx) as [Hold|[Hxo Hn]].
  - exists (NSync x). split; [|reflexivity]. apply in_or_app. left.
    unfold replay. apply in_map_iff. exists x. split; [reflexivity|exact Hold].
  - exists (NAdd o). split; [|simpl; symmetry; exact Hxo]. apply in_or_app. right.
    rewrite Hn. unfold fanout. apply in_map_iff. exists (mkHe s h own). split; [reflexivity|].
    apply in_or_app. right. left. reflexivity.
Qed.
End Atomic.

(* ================================================================== *)
(* a failed Resource() call (resource unknown to discovery) changes nothing *)
(* ================================================================== *)
Module Unknown.
Theorem failed_subscribe_noop : forall ops1 ops2 r,
  step (run ops1) (SubscribeUnknown r) = mkRes (run ops1) [] false /\
  run (ops1 ++ SubscribeUnknown r :: ops2) = run (ops1 ++ ops2) /\
  outs (ops1 ++ SubscribeUnknown r :: ops2) = outs (ops1 ++ ops2) /\
  track (ops1 ++ SubscribeUnknown r :: ops2) = track (ops1 ++ ops2).
Proof.
  intros ops1 ops2 r. split; [reflexivity|]. split; [|split].
  - rewrite !run_app. reflexivity.
  - unfold outs. rewrite !outs_from_app. reflexivity.
  - unfold track. rewrite !track_from_app. reflexivity.
Qed.
End Unknown.
