(* C01Quiescent.v — C01, the anti-hot-loop core: a sync of a converged
   state (nothing to adopt or release, nothing to delete, create or update,
   parent status already right) sends no create, update, patch or delete. *)
From MC Require Import Generated.
From MC Require Import Model.Safe.
From MC Require Import Proofs.AssocLemmas Proofs.SafeLemmas Proofs.C11Proofs.
Local Open Scope string_scope.
Local Open Scope list_scope.

(* ------------------------------------------------------------------ *)
(* foldM of steps that return at once                                  *)
(* ------------------------------------------------------------------ *)
Lemma foldM_ret {A S} (f : S -> A -> prog S) (g : S -> A -> S) (l : list A) :
  (forall s a, In a l -> f s a = Ret (g s a)) ->
  forall s, foldM f l s = Ret (fold_left g l s).
Proof.
  induction l as [|a l IH]; intros Hf s; cbn [foldM fold_left]; [reflexivity|].
  rewrite (Hf s a (or_introl eq_refl)). cbn [bind].
  apply IH. intros s' a' Hin. apply Hf. right. exact Hin.
Qed.

Lemma fold_left_const {A S} (l : list A) (s : S) : fold_left (fun s _ => s) l s = s.
Proof. induction l as [|a l IH]; cbn [fold_left]; [reflexivity|exact IH]. Qed.

Lemma fold_left_some {A S} (g : S -> A -> S) (l : list A) : forall s,
  fold_left (fun (acc : option S) a => match acc with None => None | Some m => Some (g m a) end) l (Some s)
  = Some (fold_left g l s).
Proof. induction l as [|a l IH]; intros s; cbn [fold_left]; [reflexivity|apply IH]. Qed.

(* ------------------------------------------------------------------ *)
(* the converged state                                                 *)
(* ------------------------------------------------------------------ *)

(* what call_hook makes of a decoded hook answer: namespaces defaulted, null
   children dropped *)
Definition hook_view (parent : json) (r0 : hook_resp) : hook_resp :=
  mkHR (hr_status r0)
       (map (default_ns (get_ns parent))
            (filter (fun c => match c with Some _ => true | None => false end) (hr_children r0)))
       (hr_resync r0) (hr_finalized r0).

Definition claim_quiet (uid : string) (del : bool) (sel : selector) (o : json) : bool :=
  match claim_decision uid del sel o with ClKeep | ClIgnore => true | _ => false end.
Definition claim_kept (uid : string) (del : bool) (sel : selector) (o : json) : bool :=
  match claim_decision uid del sel o with ClKeep => true | _ => false end.

Definition visible_cached (c : ccfg) (k : cache) (parent : json) (kc : child_cfg) : list json :=
  filter (visible c parent) (cached k (ch_res kc)).

(* the observed children claim_children returns when there is nothing to adopt or release *)
Definition observed_of (c : ccfg) (k : cache) (parent : json) (sel : selector) : umap :=
  fold_left (fun m kc =>
               fold_left (fun m o => uinsert o m)
                         (filter (claim_kept (get_uid parent) (is_deleting parent) sel) (visible_cached c k parent kc))
                         (uinit (ch_api_version kc) (ch_kind kc) m))
            (kids c) [].

Definition group_or_nil (av kd : string) (m : umap) : list (string * json) :=
  match ufind_group av kd m with Some d => d | None => [] end.

(* nothing to delete: every observed group is of a known kind and every observed
   object is being deleted already or is desired *)
Definition quiet_delete (c : ccfg) (observed desired : umap) : bool :=
  forallb (fun g : group =>
             match g with (av, kd, os) =>
               match lookup_kind c av kd with
               | None => false
               | Some kc =>
                   forallb (fun p : string * json =>
                              is_deleting (snd p) ||
                              match olookup (fst p) (group_or_nil av kd desired) with
                              | Some _ => true | None => false end) os
               end end) observed.

(* nothing to create or update: every desired object has an observed object of its
   key and the decision for the pair is "leave it" *)
Definition quiet_update (c : ccfg) (parent : json) (observed desired : umap) : bool :=
  forallb (fun g : group =>
             match g with (av, kd, ds) =>
               match lookup_kind c av kd with
               | None => false
               | Some kc =>
                   forallb (fun p : string * json =>
                              match olookup (fst p) (group_or_nil av kd observed) with
                              | Some old =>
                                  match child_decision c kc parent (Some old) (snd p) with
                                  | ActNone => true | _ => false end
                              | None => false
                              end) ds
               end end) desired.

Definition finalizing (c : ccfg) (parent : json) : bool :=
  has_finalize c && (is_deleting parent || negb (sel_matches (p_selector c) (get_labels parent))).

Definition convergedb (c : ccfg) (k : cache) (parent : json) (r : hook_resp) : bool :=
  negb (ignores_parent c parent) &&
  Bool.eqb (has_finalizer parent (finalizer_name c)) (has_finalize c) &&
  (finalizing c parent || has_sync c) &&
  negb (hr_finalized r) &&
  negb (ssa c) &&
  jeqb (jget "status" (obj_map parent)) (desired_status parent (hr_status r)) &&
  match make_selector c parent with
  | None => false
  | Some sel =>
      forallb (fun kc => forallb (claim_quiet (get_uid parent) (is_deleting parent) sel)
                                 (visible_cached c k parent kc)) (kids c) &&
      match desired_map (hr_children r) [] with
      | None => false
      | Some d0 =>
          match enforce_labels c parent sel (uobjects d0) with
          | None => false
          | Some ds =>
              let desired := fold_left (fun m o => uinsert o m) ds [] in
              let observed := observed_of c k parent sel in
              if negb (is_deleting parent) || should_finalize c parent
              then quiet_delete c observed desired && quiet_update c parent observed desired
              else true
          end
      end
  end.

Definition converged (c : ccfg) (k : cache) (parent : json) (r : hook_resp) : Prop :=
  k_parent k = Some parent /\ convergedb c k parent r = true.

(* the environment: the hook is deterministic (its decoded answer, as call_hook
   views it, is r) and the store did not change (a GET of the parent returns the
   parent that was synced).  The model's "note" pseudo-call (resyncAfterSeconds)
   is unconstrained. *)
Definition parent_get (c : ccfg) (parent : json) : req :=
  rq_get (p_res c) (eff_ns (p_namespaced c) (get_ns parent)) (get_name parent).

Definition C01_env (c : ccfg) (parent : json) (r : hook_resp) (cl : call) (a : answer) : Prop :=
  match cl with
  | CHook HCustomize _ => True
  | CHook _ _ => exists body r0, a = AHook body /\ decode_composite body = Some r0 /\ hook_view parent r0 = r
  | CApi q => q = parent_get c parent -> a = AObj parent
  end.

(* only reads: every API call is a GET *)
Definition read_only (cl : call) : Prop :=
  match cl with CApi q => q_verb q = VGet | CHook _ _ => True end.

(* ------------------------------------------------------------------ *)
(* claim_children with nothing to adopt or release                     *)
(* ------------------------------------------------------------------ *)
Definition claim_step (uid : string) (del : bool) (sel : selector)
           (st : option bool * list json * bool) (o : json) : option bool * list json * bool :=
  let '(once, claimed, failed) := st in
  if claim_kept uid del sel o then (once, claimed ++ [o], failed) else (once, claimed, failed).

Lemma claim_one_quiet c kc parent sel st o :
  claim_quiet (get_uid parent) (is_deleting parent) sel o = true ->
  claim_one c kc parent sel st o = Ret (claim_step (get_uid parent) (is_deleting parent) sel st o).
Proof.
  intros Hq. destruct st as [[once claimed] failed].
  unfold claim_one, claim_step, claim_quiet, claim_kept in *.
  destruct (claim_decision (get_uid parent) (is_deleting parent) sel o) eqn:Ed;
    try discriminate; reflexivity.
Qed.

Lemma claim_step_fold uid del sel (l : list json) : forall once claimed failed,
  fold_left (claim_step uid del sel) l (once, claimed, failed) =
  (once, claimed ++ filter (claim_kept uid del sel) l, failed).
Proof.
  induction l as [|o l IH]; intros once claimed failed; cbn [fold_left filter].
  - now rewrite app_nil_r.
  - unfold claim_step at 2. destruct (claim_kept uid del sel o) eqn:Ek.
    + rewrite IH. rewrite <- app_assoc. reflexivity.
    + apply IH.
Qed.

Lemma claim_children_quiet c k parent sel :
  make_selector c parent = Some sel ->
  forallb (fun kc => forallb (claim_quiet (get_uid parent) (is_deleting parent) sel)
                             (visible_cached c k parent kc)) (kids c) = true ->
  claim_children c k parent = Ret (Some (observed_of c k parent sel)).
Proof.
  intros Hsel Hq. unfold claim_children. rewrite Hsel.
  rewrite (foldM_ret _
             (fun (acc : option umap) kc =>
                match acc with
                | None => None
                | Some m =>
                    Some (fold_left (fun m o => uinsert o m)
                            (filter (claim_kept (get_uid parent) (is_deleting parent) sel) (visible_cached c k parent kc))
                            (uinit (ch_api_version kc) (ch_kind kc) m))
                end)).
  - rewrite fold_left_some. reflexivity.
  - intros acc kc Hin. destruct acc as [m|]; [|reflexivity].
    rewrite forallb_forall in Hq. specialize (Hq kc Hin). rewrite forallb_forall in Hq.
    fold (visible_cached c k parent kc).
    rewrite (foldM_ret _ (claim_step (get_uid parent) (is_deleting parent) sel)).
    + rewrite claim_step_fold. cbn [bind app]. reflexivity.
    + intros st o Ho. apply claim_one_quiet. apply Hq. exact Ho.
Qed.

(* ------------------------------------------------------------------ *)
(* manage_children with nothing to do                                  *)
(* ------------------------------------------------------------------ *)
Lemma delete_children_quiet kc os ds :
  forallb (fun p : string * json =>
             is_deleting (snd p) || match olookup (fst p) ds with Some _ => true | None => false end) os = true ->
  delete_children kc os ds = Ret false.
Proof.
  intros H. unfold delete_children.
  rewrite (foldM_ret _ (fun s _ => s)); [now rewrite fold_left_const|].
  intros s p Hin. rewrite forallb_forall in H. specialize (H p Hin).
  destruct (is_deleting (snd p)) eqn:Ed; [reflexivity|].
  cbn [orb] in H. destruct (olookup (fst p) ds) as [x|] eqn:El; [reflexivity|discriminate].
Qed.

Lemma update_children_quiet c kc parent os ds :
  ssa c = false ->
  forallb (fun p : string * json =>
             match olookup (fst p) os with
             | Some old => match child_decision c kc parent (Some old) (snd p) with
                           | ActNone => true | _ => false end
             | None => false
             end) ds = true ->
  update_children c kc parent os ds = Ret false.
Proof.
  intros Hssa H. unfold update_children.
  rewrite (foldM_ret _ (fun s _ => s)); [now rewrite fold_left_const|].
  intros s p Hin. rewrite forallb_forall in H. specialize (H p Hin). rewrite Hssa.
  destruct (olookup (fst p) os) as [old|] eqn:El; [|discriminate].
  destruct (child_decision c kc parent (Some old) (snd p)) eqn:Ed; try discriminate. reflexivity.
Qed.

Lemma manage_children_quiet c parent observed desired :
  ssa c = false ->
  quiet_delete c observed desired = true ->
  quiet_update c parent observed desired = true ->
  manage_children c parent observed desired = Ret false.
Proof.
  intros Hssa Hd Hu. unfold manage_children.
  rewrite (foldM_ret _ (fun s _ => s)).
  - rewrite fold_left_const. cbn [bind].
    rewrite (foldM_ret _ (fun s _ => s)); [now rewrite fold_left_const|].
    intros s g Hin. unfold quiet_update in Hu. rewrite forallb_forall in Hu. specialize (Hu g Hin).
    destruct g as [[av kd] ds].
    destruct (lookup_kind c av kd) as [kc|] eqn:Ek; [|discriminate].
    fold (group_or_nil av kd observed).
    rewrite (update_children_quiet _ _ _ _ _ Hssa Hu). cbn [bind]. now rewrite Bool.orb_false_r.
  - intros s g Hin. unfold quiet_delete in Hd. rewrite forallb_forall in Hd. specialize (Hd g Hin).
    destruct g as [[av kd] os].
    destruct (lookup_kind c av kd) as [kc|] eqn:Ek; [|discriminate].
    fold (group_or_nil av kd desired).
    rewrite (delete_children_quiet _ _ _ Hd). cbn [bind]. now rewrite Bool.orb_false_r.
Qed.

(* ------------------------------------------------------------------ *)
(* the theorem                                                         *)
(* ------------------------------------------------------------------ *)
Theorem C01_quiescent_post c k parent r :
  converged c k parent r ->
  safeP (C01_env c parent r) (fun _ cl => read_only cl) (fun _ res => res = SDone) [] (sync c k).
Proof.
  intros [Hk Hc]. unfold convergedb in Hc.
  apply andb_true_iff in Hc as [Hc Hrest].
  apply andb_true_iff in Hc as [Hc Hst].
  apply andb_true_iff in Hc as [Hc Hssa].
  apply andb_true_iff in Hc as [Hc Hfz].
  apply andb_true_iff in Hc as [Hc Hhook].
  apply andb_true_iff in Hc as [Hign Hfin].
  apply Bool.negb_true_iff in Hign, Hssa, Hfz.
  destruct (make_selector c parent) as [sel|] eqn:Hsel; [|discriminate].
  apply andb_true_iff in Hrest as [Hclaim Hrest].
  destruct (desired_map (hr_children r) []) as [d0|] eqn:Hdm; [|discriminate].
  destruct (enforce_labels c parent sel (uobjects d0)) as [ds|] eqn:Hel; [|discriminate].
  cbv zeta in Hrest.
  unfold sync. rewrite Hk. unfold sync_parent_object. rewrite Hign.
  unfold sync_finalizer. cbv zeta. rewrite Hfin. cbn [bind]. rewrite Hign.
  rewrite (claim_children_quiet _ _ _ _ Hsel Hclaim). cbn [bind].
  unfold related_phase. cbn [bind]. unfold hook_phase, call_hook. cbv zeta.
  fold (finalizing c parent).
  assert (Hcall : negb (finalizing c parent) && negb (has_sync c) = false).
  { destruct (finalizing c parent); [reflexivity|]. cbn [orb] in Hhook. now rewrite Hhook. }
  rewrite Hcall. cbn [bind].
  apply safeP_do; [exact I|].
  intros a Ga.
  assert (Ha : exists body r0, a = AHook body /\ decode_composite body = Some r0 /\ hook_view parent r0 = r).
  { unfold C01_env in Ga. destruct (finalizing c parent); exact Ga. }
  clear Ga. destruct Ha as (body & r0 & -> & Hdec & Hview).
  rewrite Hdec. cbn [bind]. fold (hook_view parent r0). rewrite Hview.
  unfold finish_sync. rewrite Hdm.
  eapply safeP_bind with (Q := fun _ _ => True).
  { destruct (positive_number (hr_resync r)); [|constructor; exact I].
    unfold note. apply safeP_do; [exact I|]. intros a _. constructor. exact I. }
  intros h1 _ _. rewrite Hfz. cbn [bind]. rewrite Hsel, Hel. cbv zeta.
  assert (Hch : (if negb (is_deleting parent) || should_finalize c parent
                 then manage_children c parent (observed_of c k parent sel)
                        (fold_left (fun m o => uinsert o m) ds [])
                 else Ret false) = Ret false).
  { destruct (negb (is_deleting parent) || should_finalize c parent); [|reflexivity].
    apply andb_true_iff in Hrest as [Hd Hu]. now apply manage_children_quiet. }
  rewrite Hch. cbn [bind].
  destruct (C11_no_put_when_equal c parent (hr_status r) parent eq_refl Hst) as (kk & -> & Hkk).
  cbn [bind]. apply safeP_do; [reflexivity|].
  intros a Ga. cbn [C01_env] in Ga. specialize (Ga eq_refl). subst a.
  rewrite Hkk. cbn [bind]. constructor. reflexivity.
Qed.

Theorem C01_quiescent c k parent r :
  converged c k parent r ->
  safe (C01_env c parent r) (fun _ cl => read_only cl) [] (sync c k).
Proof. intros H. eapply safeP_safe. apply C01_quiescent_post. exact H. Qed.

(* on runs: against any environment that answers as C01_env says, the trace of
   the sync holds only GETs and hook calls, and the result is SDone *)
Corollary C01_quiescent_run c k parent r (e : env) :
  converged c k parent r ->
  (forall h cl, C01_env c parent r cl (e h cl)) ->
  Forall (fun hc => read_only (snd hc)) (calls_with_history (fst (run (sync c k) e []))) /\
  snd (run (sync c k) e []) = SDone.
Proof.
  intros H He.
  exact (safeP_run _ _ _ e _ (C01_quiescent_post c k parent r H) He).
Qed.

Print Assumptions C01_quiescent_post.
Print Assumptions C01_quiescent.
Print Assumptions C01_quiescent_run.
