(* ApplyProofs.v — lemmas about Model/Apply.v (property C05). *)
From MC Require Import Generated Model.Json Model.Apply Model.ApplyLaws Proofs.AssocLemmas.
From Coq Require Import Lia.

(* ---------- unfolding equations for merge ---------- *)
Fixpoint mobj_aux (dm1 lm : amap) (sm acc : amap) : res amap :=
  match sm with
  | [] => Ok acc
  | (k, dv) :: sm' =>
      match merge dv (jget k dm1) (jget k lm) with
      | Ok r => mobj_aux dm1 lm sm' (aset k r acc)
      | Err => Err
      | Panic => Panic
      end
  end.

Fixpoint mlm_aux (key : string) (dm1 lmap : amap) (sl : list json) (acc : amap) : res amap :=
  match sl with
  | [] => Ok acc
  | s :: sl' =>
      match item_key key s with
      | None => Panic
      | Some k =>
          match merge s (jget k dm1) (jget k lmap) with
          | Ok r => mlm_aux key dm1 lmap sl' (aset k r acc)
          | Err => Err
          | Panic => Panic
          end
      end
  end.

Definition des_has_key (key : string) (sl : list json) (k : string) : bool :=
  existsb (fun it => match item_key key it with Some k' => String.eqb k k' | None => false end) sl.

Lemma merge_obj_obj sm dm l :
  merge (JObj sm) (JObj dm) l =
  let lm := obj_or_nil l in
  let dm1 := remove_last dm (akeys lm) (fun k => ahas k sm) in
  match mobj_aux dm1 lm sm dm1 with
  | Ok m => Ok (JObj m) | Err => Err | Panic => Panic
  end.
Proof.
  cbn [merge]. cbv zeta.
  set (lm := obj_or_nil l).
  set (dm1 := remove_last dm (akeys lm) (fun k => ahas k sm)).
  generalize dm1 at 2 4 as acc.
  clearbody dm1.
  induction sm as [|[k dv] sm IH]; intros acc; [reflexivity|].
  cbn [mobj_aux].
  destruct (merge dv (jget k dm1) (jget k lm)); auto.
Qed.

Lemma merge_arr_arr sl dl l :
  merge (JArr sl) (JArr dl) l =
  let ll := arr_or_nil l in
  match detect_key dl ll sl with
  | None => Ok (JArr sl)
  | Some key =>
      dmap <- make_list_map key dl [] ;;
      lmap <- make_list_map key ll [] ;;
      let dm1 := remove_last dmap (akeys lmap) (des_has_key key sl) in
      merged <- mlm_aux key dm1 lmap sl dm1 ;;
      '(l1, added) <- rebuild_dest key dl merged [] ;;
      l2 <- rebuild_des key sl merged added ;;
      Ok (JArr (l1 ++ l2))
  end.
Proof.
  cbn [merge]. cbv zeta.
  destruct (detect_key dl (arr_or_nil l) sl) as [key|]; [|reflexivity].
  destruct (make_list_map key dl []) as [dmap| |]; cbn [rbind]; auto.
  destruct (make_list_map key (arr_or_nil l) []) as [lmap| |]; cbn [rbind]; auto.
  fold (des_has_key key sl).
  set (dm1 := remove_last dmap (akeys lmap) (des_has_key key sl)).
  assert (E : forall acc,
    (fix mlm (sl0 : list json) (acc0 : amap) {struct sl0} : res amap :=
       match sl0 with
       | [] => Ok acc0
       | s :: sl' =>
           match item_key key s with
           | Some k =>
               match merge s (jget k dm1) (jget k lmap) with
               | Ok r => mlm sl' (aset k r acc0)
               | Err => Err
               | Panic => Panic
               end
           | None => Panic
           end
       end) sl acc = mlm_aux key dm1 lmap sl acc).
  { clearbody dm1. induction sl as [|s sl IH]; intros acc; [reflexivity|].
    cbn [mlm_aux]. destruct (item_key key s); auto.
    destruct (merge s _ _); auto. }
  rewrite E. reflexivity.
Qed.

Lemma merge_scalar_dest d o l :
  (forall m, o <> JObj m) -> (forall x, o <> JArr x) -> merge d o l = Ok d.
Proof.
  intros Ho Ha. destruct d, o; try reflexivity; solve [exfalso; eapply Ho; eauto | exfalso; eapply Ha; eauto].
Qed.

(* ---------- no panic ---------- *)
Lemma scan_all_objs items ck x : scan_common items ck = Some x -> all_objs items = true.
Proof.
  revert ck. induction items as [|it items IH]; intros ck H; [reflexivity|].
  destruct it; try discriminate. cbn in *. eapply IH; eauto.
Qed.

Lemma all_objs_app a b : all_objs (a ++ b) = all_objs a && all_objs b.
Proof. unfold all_objs. apply forallb_app. Qed.

Lemma detect_all_objs dl ll sl key :
  detect_key dl ll sl = Some key ->
  all_objs dl = true /\ all_objs ll = true /\ all_objs sl = true.
Proof.
  unfold detect_key. destruct (scan_common (dl ++ ll ++ sl) None) as [[ck|]|] eqn:E; try discriminate.
  intros _. apply scan_all_objs in E. rewrite !all_objs_app in E.
  apply Bool.andb_true_iff in E as [E1 E2]. apply Bool.andb_true_iff in E2 as [E2 E3]. auto.
Qed.

Lemma item_key_obj key it : all_objs [it] = true -> exists k, item_key key it = Some k.
Proof. destruct it; cbn; try discriminate. eauto. Qed.

Lemma all_objs_cons it l : all_objs (it :: l) = true -> all_objs [it] = true /\ all_objs l = true.
Proof. cbn. intros H. apply Bool.andb_true_iff in H as [H1 H2]. rewrite H1. auto. Qed.

Lemma make_list_map_ok key items acc :
  all_objs items = true -> exists m, make_list_map key items acc = Ok m.
Proof.
  revert acc. induction items as [|it items IH]; intros acc H; cbn; [eauto|].
  apply all_objs_cons in H as [H1 H2]. destruct (item_key_obj key it H1) as [k ->]. auto.
Qed.

Lemma rebuild_dest_ok key dl dm added :
  all_objs dl = true -> exists r, rebuild_dest key dl dm added = Ok r.
Proof.
  revert added. induction dl as [|it dl IH]; intros added H; cbn; [eauto|].
  apply all_objs_cons in H as [H1 H2]. destruct (item_key_obj key it H1) as [k ->].
  destruct (alookup k dm).
  - destruct (IH (k :: added) H2) as [[l a] ->]. eauto.
  - auto.
Qed.

Lemma rebuild_des_ok key sl dm added :
  all_objs sl = true -> exists r, rebuild_des key sl dm added = Ok r.
Proof.
  revert added. induction sl as [|it sl IH]; intros added H; cbn; [eauto|].
  apply all_objs_cons in H as [H1 H2]. destruct (item_key_obj key it H1) as [k ->].
  destruct (mem_str k added); auto.
  destruct (IH (k :: added) H2) as [l ->]. eauto.
Qed.

Lemma mobj_aux_no_panic dm1 lm sm acc :
  Forall (fun kv => forall o l, merge (snd kv) o l <> Panic) sm ->
  mobj_aux dm1 lm sm acc <> Panic.
Proof.
  revert acc. induction sm as [|[k dv] sm IH]; intros acc HF; cbn; [discriminate|].
  inversion HF as [|? ? Hh Ht]; subst. cbn in Hh.
  destruct (merge dv (jget k dm1) (jget k lm)) eqn:E; try discriminate; auto.
  exfalso. eapply Hh; eauto.
Qed.

Lemma mlm_aux_no_panic key dm1 lmap sl acc :
  all_objs sl = true ->
  Forall (fun s => forall o l, merge s o l <> Panic) sl ->
  mlm_aux key dm1 lmap sl acc <> Panic.
Proof.
  revert acc. induction sl as [|s sl IH]; intros acc HO HF; cbn; [discriminate|].
  apply all_objs_cons in HO as [H1 H2]. destruct (item_key_obj key s H1) as [k ->].
  inversion HF as [|? ? Hh Ht]; subst.
  destruct (merge s (jget k dm1) (jget k lmap)) eqn:E; try discriminate; auto.
  exfalso. eapply Hh; eauto.
Qed.

Lemma merge_null_arr_no_panic dl l : merge JNull (JArr dl) l <> Panic.
Proof.
  cbn [merge]. cbv zeta.
  destruct (detect_key dl (arr_or_nil l) []) as [key|] eqn:E; [|discriminate].
  apply detect_all_objs in E as (H1 & H2 & _).
  destruct (make_list_map_ok key dl [] H1) as [dmap ->]. cbn [rbind].
  destruct (make_list_map_ok key (arr_or_nil l) [] H2) as [lmap ->]. cbn [rbind].
  match goal with |- context [rebuild_dest key dl ?m []] =>
    destruct (rebuild_dest_ok key dl m [] H1) as [[l1 a] ->] end.
  cbn. discriminate.
Qed.

Theorem merge_no_panic : forall d o l, merge d o l <> Panic.
Proof.
  induction d as [| | | | | | sl IH | sm IH] using json_ind'; intros o l.
  1-6: destruct o; try (cbn; discriminate); apply merge_null_arr_no_panic || (cbn; discriminate).
  - (* desired array *)
    destruct o; try (cbn; discriminate).
    rewrite merge_arr_arr. cbv zeta.
    destruct (detect_key l0 (arr_or_nil l) sl) as [key|] eqn:E; [|discriminate].
    apply detect_all_objs in E as (H1 & H2 & H3).
    destruct (make_list_map_ok key l0 [] H1) as [dmap ->]. cbn [rbind].
    destruct (make_list_map_ok key (arr_or_nil l) [] H2) as [lmap ->]. cbn [rbind].
    match goal with |- context [mlm_aux key ?a ?b sl ?c] =>
      pose proof (mlm_aux_no_panic key a b sl c H3 IH) as HM;
      destruct (mlm_aux key a b sl c) as [merged| |] eqn:EM end; cbn [rbind]; try discriminate; try congruence.
    destruct (rebuild_dest_ok key l0 merged [] H1) as [[l1 a] ->]. cbn [rbind].
    destruct (rebuild_des_ok key sl merged a H3) as [l2 ->]. cbn. discriminate.
  - (* desired object *)
    destruct o; try (cbn; discriminate).
    rewrite merge_obj_obj. cbv zeta.
    match goal with |- context [mobj_aux ?a ?b sm ?c] =>
      pose proof (mobj_aux_no_panic a b sm c) as HM;
      destruct (mobj_aux a b sm c) eqn:EM end; try discriminate.
    exfalso. apply HM; auto.
Qed.
