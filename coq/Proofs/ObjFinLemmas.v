(* ObjFinLemmas.v — finalizer lists under the setters the controller uses. *)
From MC Require Import Model.Safe Model.TracePreds Proofs.AssocLemmas Proofs.AssocLemmas2 Proofs.ObjLemmas.
Local Open Scope list_scope.

Lemma get_finalizers_mget o :
  get_finalizers o =
  match mget o "finalizers" with
  | NFound (JArr l) =>
      if forallb (fun j => match j with JStr _ => true | _ => false end) l
      then map (fun j => match j with JStr s => s | _ => "" end) l else []
  | _ => []
  end.
Proof. reflexivity. Qed.

Lemma jstr_roundtrip fs :
  forallb (fun j => match j with JStr _ => true | _ => false end) (map JStr fs) = true /\
  map (fun j => match j with JStr s => s | _ => "" end) (map JStr fs) = fs.
Proof.
  induction fs as [|f fs [IH1 IH2]]; [split; reflexivity|].
  cbn [map forallb]. rewrite IH1, IH2. split; reflexivity.
Qed.

Lemma get_finalizers_set m fs m' :
  nested_set m ["metadata"; "finalizers"] (JArr (map JStr fs)) = Some m' ->
  get_finalizers (JObj m') = fs.
Proof.
  intros H. rewrite get_finalizers_mget. unfold mget. cbn [obj_map].
  rewrite (nget_meta_set_same _ _ _ _ H).
  destruct (jstr_roundtrip fs) as [-> ->]. reflexivity.
Qed.

(* an object with a readable metadata field has an object as metadata *)
Lemma mget_found_meta o g v : mget o g = NFound v ->
  exists m mm, o = JObj m /\ alookup "metadata" m = Some (JObj mm).
Proof.
  unfold mget. destruct o; cbn [obj_map]; try discriminate.
  rewrite nget2. destruct (alookup "metadata" m) as [mv|] eqn:E; [|discriminate].
  destruct mv; try discriminate. eauto.
Qed.

Lemma uid_nonempty_meta o : get_uid o <> "" ->
  exists m mm, o = JObj m /\ alookup "metadata" m = Some (JObj mm).
Proof.
  rewrite get_uid_mget. destruct (mget o "uid") as [v| |] eqn:E; try congruence.
  intros _. eapply mget_found_meta; eauto.
Qed.

Lemma has_finalizer_meta o f : has_finalizer o f = true ->
  exists m mm, o = JObj m /\ alookup "metadata" m = Some (JObj mm).
Proof.
  unfold has_finalizer. rewrite get_finalizers_mget.
  destruct (mget o "finalizers") as [v| |] eqn:E; try discriminate.
  intros _. eapply mget_found_meta; eauto.
Qed.

Lemma set_finalizers_get o fs :
  (exists m mm, o = JObj m /\ alookup "metadata" m = Some (JObj mm)) ->
  get_finalizers (set_finalizers o fs) = fs.
Proof.
  intros (m & mm & -> & Hm). unfold set_finalizers.
  destruct (nested_set m _ _) as [m'|] eqn:E.
  - eapply get_finalizers_set; eauto.
  - rewrite nset2, Hm in E. discriminate.
Qed.

Lemma mem_str_filter_neq f l : mem_str f (filter (fun x => negb (String.eqb x f)) l) = false.
Proof.
  induction l as [|x l IH]; [reflexivity|]. cbn [filter].
  destruct (String.eqb x f) eqn:E; cbn [negb]; [exact IH|].
  cbn [mem_str]. rewrite eqb_sym', E, IH. reflexivity.
Qed.

Lemma add_finalizer_lacked fin cur upd : add_finalizer fin cur = Some upd -> has_finalizer cur fin = false.
Proof. unfold add_finalizer. destruct (has_finalizer cur fin); [discriminate|reflexivity]. Qed.

Lemma add_finalizer_none fin cur : add_finalizer fin cur = None -> has_finalizer cur fin = true.
Proof. unfold add_finalizer. destruct (has_finalizer cur fin); [reflexivity|discriminate]. Qed.

Lemma remove_finalizer_had fin cur upd : remove_finalizer fin cur = Some upd -> has_finalizer cur fin = true.
Proof. unfold remove_finalizer. destruct (has_finalizer cur fin); [reflexivity|discriminate]. Qed.

Lemma remove_finalizer_none fin cur : remove_finalizer fin cur = None -> has_finalizer cur fin = false.
Proof. unfold remove_finalizer. destruct (has_finalizer cur fin); [discriminate|reflexivity]. Qed.

Lemma add_finalizer_has fin cur upd :
  add_finalizer fin cur = Some upd -> get_uid cur <> "" -> has_finalizer upd fin = true.
Proof.
  unfold add_finalizer. destruct (has_finalizer cur fin); [discriminate|]. intros [= <-] Hu.
  unfold has_finalizer. rewrite set_finalizers_get by (now apply uid_nonempty_meta).
  rewrite mem_str_app. cbn [mem_str]. rewrite eqb_refl'. apply Bool.orb_true_r.
Qed.

Lemma add_finalizer_keeps fin cur upd f :
  add_finalizer fin cur = Some upd -> has_finalizer cur f = true -> has_finalizer upd f = true.
Proof.
  unfold add_finalizer. destruct (has_finalizer cur fin); [discriminate|]. intros [= <-] Hf.
  pose proof (has_finalizer_meta _ _ Hf) as Hm.
  unfold has_finalizer in *. rewrite set_finalizers_get by exact Hm.
  rewrite mem_str_app, Hf. reflexivity.
Qed.

Lemma remove_finalizer_lacks fin cur upd :
  remove_finalizer fin cur = Some upd -> has_finalizer upd fin = false.
Proof.
  unfold remove_finalizer. destruct (has_finalizer cur fin) eqn:Hf; [|discriminate]. intros [= <-].
  pose proof (has_finalizer_meta _ _ Hf) as Hm.
  unfold has_finalizer. rewrite set_finalizers_get by exact Hm. apply mem_str_filter_neq.
Qed.

Lemma get_finalizers_set_owner_refs o refs : get_finalizers (set_owner_refs o refs) = get_finalizers o.
Proof. rewrite !get_finalizers_mget, mget_set_owner_refs; reflexivity. Qed.

Lemma get_finalizers_set_status m v : get_finalizers (JObj (aset "status" v m)) = get_finalizers (JObj m).
Proof.
  rewrite !get_finalizers_mget. unfold mget. cbn [obj_map]. rewrite !nget2.
  rewrite alookup_aset_other by discriminate. reflexivity.
Qed.
