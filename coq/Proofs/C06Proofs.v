(* C06Proofs.v — C06: the update strategy decides the verb.
   Facts about child_decision / method_of / delete_children / update_children
   of Model/Composite.v. *)
From MC Require Import Generated.
From MC Require Import Model.Composite.
Local Open Scope list_scope.
Local Open Scope string_scope.

(* ------------------------------------------------------------------ *)
(* generic facts about programs                                        *)
(* ------------------------------------------------------------------ *)

Lemma all_calls_bind {A B} (Phi : call -> Prop) (p : prog A) (f : A -> prog B) :
  all_calls Phi p -> (forall a, all_calls Phi (f a)) -> all_calls Phi (bind p f).
Proof.
  intros Hp Hf. induction Hp as [r | c k Hc Hk IH].
  - cbn [bind]. apply Hf.
  - cbn [bind]. apply AC_do; [exact Hc | exact IH].
Qed.

Lemma all_calls_weaken {R} (Phi Psi : call -> Prop) (p : prog R) :
  (forall c, Phi c -> Psi c) -> all_calls Phi p -> all_calls Psi p.
Proof.
  intros Himp Hp. induction Hp as [r | c k Hc Hk IH].
  - apply AC_ret.
  - apply AC_do; [apply Himp; exact Hc | exact IH].
Qed.

Lemma all_calls_foldM {A S} (Phi : call -> Prop) (f : S -> A -> prog S) (l : list A) :
  (forall s a, In a l -> all_calls Phi (f s a)) ->
  forall s, all_calls Phi (foldM f l s).
Proof.
  induction l as [|a l IH]; intros Hf s.
  - cbn [foldM]. apply AC_ret.
  - cbn [foldM]. apply all_calls_bind.
    + apply Hf. left. reflexivity.
    + intros s'. apply IH. intros s0 a0 Hin. apply Hf. right. exact Hin.
Qed.

Lemma all_calls_api (Phi : call -> Prop) (q : req) :
  Phi (CApi q) -> all_calls Phi (api q).
Proof.
  intros Hq. unfold api. apply AC_do; [exact Hq|].
  intros a. destruct a; apply AC_ret.
Qed.

(* "the program issues call c on every path, whatever the answers" *)
Inductive always_calls {R} (c : call) : prog R -> Prop :=
| AC_here k : always_calls c (Do c k)
| AC_later c' k : (forall a, always_calls c (k a)) -> always_calls c (Do c' k).

Lemma always_calls_bind_left {A B} (c : call) (p : prog A) (f : A -> prog B) :
  always_calls c p -> always_calls c (bind p f).
Proof.
  intros Hp. induction Hp as [k | c' k Hk IH].
  - cbn [bind]. apply AC_here.
  - cbn [bind]. apply AC_later. exact IH.
Qed.

(* programs are finite trees: the first part always terminates, so a call
   issued by every continuation is issued on every path *)
Lemma always_calls_bind_right {A B} (c : call) (p : prog A) (f : A -> prog B) :
  (forall a, always_calls c (f a)) -> always_calls c (bind p f).
Proof.
  intros Hf. induction p as [r | c' k IH].
  - cbn [bind]. apply Hf.
  - cbn [bind]. apply AC_later. exact IH.
Qed.

Lemma always_calls_foldM {A S} (c : call) (f : S -> A -> prog S) (l : list A) (a : A) :
  In a l -> (forall s, always_calls c (f s a)) ->
  forall s, always_calls c (foldM f l s).
Proof.
  induction l as [|a' l IH]; intros Hin Hf s.
  - destruct Hin.
  - cbn [foldM]. destruct Hin as [Heq | Hin].
    + subst a'. apply always_calls_bind_left. apply Hf.
    + apply always_calls_bind_right. intros s'. apply IH; assumption.
Qed.

Lemma always_calls_api (q : req) : always_calls (CApi q) (api q).
Proof. unfold api. apply AC_here. Qed.

(* an issued call on every path is in particular in every trace *)
Lemma always_calls_in_run {R} (c : call) (p : prog R) (e : env) :
  always_calls c p -> forall hist, exists a, In (c, a) (fst (run p e hist)).
Proof.
  assert (Hmono : forall (q : prog R) hist x, In x hist -> In x (fst (run q e hist))).
  { induction q as [r | c' k IHq]; intros hist x Hx.
    - cbn [run fst]. exact Hx.
    - cbn [run]. apply IHq. right. exact Hx. }
  intros Hp. induction Hp as [k | c' k Hk IH]; intros hist.
  - exists (e hist c). cbn [run]. apply Hmono. left. reflexivity.
  - cbn [run]. apply IH.
Qed.

Theorem always_calls_in_trace {R} (c : call) (p : prog R) (e : env) :
  always_calls c p -> exists a, In (c, a) (trace_of p e).
Proof.
  intros Hp. destruct (always_calls_in_run c p e Hp []) as [a Ha].
  exists a. unfold trace_of. apply in_rev in Ha. exact Ha.
Qed.

(* ------------------------------------------------------------------ *)
(* the five method constants                                           *)
(* ------------------------------------------------------------------ *)

Lemma methods_distinct :
  NoDup [method_on_delete; method_recreate; method_in_place;
         method_rolling_recreate; method_rolling_in_place].
Proof.
  repeat (apply NoDup_cons; [cbn [In]; vm_compute; intuition discriminate|]).
  apply NoDup_nil.
Qed.

(* ------------------------------------------------------------------ *)
(* child_decision, one layer at a time                                 *)
(* ------------------------------------------------------------------ *)

Definition meth (c : ccfg) (kc : child_cfg) : string :=
  method_of c (group_of (ch_api_version kc)) (ch_kind kc).

(* the innermost choice of child_decision *)
Definition verb_by_method (m : string) (old : json) (newm : amap) : child_action :=
  if String.eqb m method_on_delete then ActNone
  else if String.eqb m method_recreate || String.eqb m method_rolling_recreate then ActDelete (get_uid old)
  else if String.eqb m method_in_place || String.eqb m method_rolling_in_place then ActUpdate (JObj newm)
  else ActError.

Lemma child_decision_some c kc parent old desired :
  child_decision c kc parent (Some old) desired =
  match apply_update (obj_map old) (obj_map desired) with
  | Err => ActError
  | Panic => ActPanic
  | Ok newm =>
      if jeqb (JObj newm) old then ActNone
      else if is_deleting old then ActNone
      else verb_by_method (meth c kc) old newm
  end.
Proof. reflexivity. Qed.

Definition no_write (a : child_action) : Prop := a = ActNone \/ a = ActError \/ a = ActPanic.

Lemma verb_on_delete old n : verb_by_method method_on_delete old n = ActNone.
Proof. reflexivity. Qed.
Lemma verb_recreate old n : verb_by_method method_recreate old n = ActDelete (get_uid old).
Proof. reflexivity. Qed.
Lemma verb_rolling_recreate old n : verb_by_method method_rolling_recreate old n = ActDelete (get_uid old).
Proof. reflexivity. Qed.
Lemma verb_in_place old n : verb_by_method method_in_place old n = ActUpdate (JObj n).
Proof. reflexivity. Qed.
Lemma verb_rolling_in_place old n : verb_by_method method_rolling_in_place old n = ActUpdate (JObj n).
Proof. reflexivity. Qed.

Lemma verb_unknown m old n :
  m <> method_on_delete -> m <> method_recreate -> m <> method_rolling_recreate ->
  m <> method_in_place -> m <> method_rolling_in_place ->
  verb_by_method m old n = ActError.
Proof.
  intros H1 H2 H3 H4 H5. unfold verb_by_method.
  apply String.eqb_neq in H1, H2, H3, H4, H5.
  rewrite H1, H2, H3, H4, H5. reflexivity.
Qed.

(* 1 *)
Theorem C06_on_delete c kc parent old desired :
  method_of c (group_of (ch_api_version kc)) (ch_kind kc) = method_on_delete ->
  no_write (child_decision c kc parent (Some old) desired).
Proof.
  intros Hm. rewrite child_decision_some. unfold meth. rewrite Hm.
  unfold no_write.
  destruct (apply_update (obj_map old) (obj_map desired)) as [n| |] eqn:Hap; auto.
  destruct (jeqb (JObj n) old) eqn:Heq; auto.
  destruct (is_deleting old) eqn:Hdel; auto.
Qed.

Theorem method_of_default c g kd :
  (forall k, In k (kids c) ->
             group_of (ch_api_version k) = g -> ch_kind k = kd ->
             ch_method k = "" \/ ch_method k = method_on_delete) ->
  method_of c g kd = method_on_delete.
Proof.
  intros Hall. unfold method_of.
  match goal with |- match find ?f ?l with _ => _ end = _ => destruct (find f l) as [k|] eqn:Hf end;
    [|reflexivity].
  apply find_some in Hf. destruct Hf as [Hin Hp].
  apply Bool.andb_true_iff in Hp. destruct Hp as [Hp Hnd].
  apply Bool.andb_true_iff in Hp. destruct Hp as [Hp Hne].
  apply Bool.andb_true_iff in Hp. destruct Hp as [Hg Hk].
  apply String.eqb_eq in Hg. apply String.eqb_eq in Hk.
  apply Bool.negb_true_iff in Hnd. apply Bool.negb_true_iff in Hne.
  apply String.eqb_neq in Hnd. apply String.eqb_neq in Hne.
  destruct (Hall k Hin Hg Hk) as [He | He]; contradiction.
Qed.

(* the strategy is never the empty string, and anything other than OnDelete
   is the configured method of a kid of that group/kind *)
Theorem method_of_spec c g kd :
  method_of c g kd = method_on_delete \/
  exists k, In k (kids c) /\ group_of (ch_api_version k) = g /\ ch_kind k = kd /\
            ch_method k = method_of c g kd /\ ch_method k <> "" /\ ch_method k <> method_on_delete.
Proof.
  unfold method_of.
  match goal with |- context [find ?f ?l] => destruct (find f l) as [k|] eqn:Hf end;
    [|left; reflexivity].
  right. exists k.
  apply find_some in Hf. destruct Hf as [Hin Hp].
  apply Bool.andb_true_iff in Hp. destruct Hp as [Hp Hnd].
  apply Bool.andb_true_iff in Hp. destruct Hp as [Hp Hne].
  apply Bool.andb_true_iff in Hp. destruct Hp as [Hg Hk].
  apply String.eqb_eq in Hg. apply String.eqb_eq in Hk.
  apply Bool.negb_true_iff in Hnd. apply Bool.negb_true_iff in Hne.
  apply String.eqb_neq in Hnd. apply String.eqb_neq in Hne.
  repeat split; assumption.
Qed.

(* 2 *)
Theorem C06_recreate c kc parent old desired :
  method_of c (group_of (ch_api_version kc)) (ch_kind kc) = method_recreate \/
  method_of c (group_of (ch_api_version kc)) (ch_kind kc) = method_rolling_recreate ->
  (forall b, child_decision c kc parent (Some old) desired <> ActUpdate b) /\
  (forall u, child_decision c kc parent (Some old) desired = ActDelete u -> u = get_uid old).
Proof.
  intros Hm. rewrite child_decision_some. unfold meth.
  destruct (apply_update (obj_map old) (obj_map desired)) as [n| |] eqn:Hap;
    [|split; intros; discriminate|split; intros; discriminate].
  destruct (jeqb (JObj n) old) eqn:Heq; [split; intros; discriminate|].
  destruct (is_deleting old) eqn:Hdel; [split; intros; discriminate|].
  destruct Hm as [Hm | Hm]; rewrite Hm.
  - rewrite verb_recreate. split; [intros b Hb; discriminate|].
    intros u Hu. injection Hu as Hu. symmetry. exact Hu.
  - rewrite verb_rolling_recreate. split; [intros b Hb; discriminate|].
    intros u Hu. injection Hu as Hu. symmetry. exact Hu.
Qed.

(* 3 *)
Theorem C06_in_place c kc parent old desired :
  method_of c (group_of (ch_api_version kc)) (ch_kind kc) = method_in_place \/
  method_of c (group_of (ch_api_version kc)) (ch_kind kc) = method_rolling_in_place ->
  (forall u, child_decision c kc parent (Some old) desired <> ActDelete u) /\
  (forall b, child_decision c kc parent (Some old) desired = ActUpdate b ->
             exists n, apply_update (obj_map old) (obj_map desired) = Ok n /\ b = JObj n).
Proof.
  intros Hm. rewrite child_decision_some. unfold meth.
  destruct (apply_update (obj_map old) (obj_map desired)) as [n| |] eqn:Hap;
    [|split; intros; discriminate|split; intros; discriminate].
  destruct (jeqb (JObj n) old) eqn:Heq; [split; intros; discriminate|].
  destruct (is_deleting old) eqn:Hdel; [split; intros; discriminate|].
  destruct Hm as [Hm | Hm]; rewrite Hm.
  - rewrite verb_in_place. split; [intros u Hu; discriminate|].
    intros b Hb. injection Hb as Hb. exists n. split; [reflexivity | symmetry; exact Hb].
  - rewrite verb_rolling_in_place. split; [intros u Hu; discriminate|].
    intros b Hb. injection Hb as Hb. exists n. split; [reflexivity | symmetry; exact Hb].
Qed.

(* any ActUpdate body, whatever the method, is the result of apply_update *)
Theorem C06_update_body c kc parent old desired b :
  child_decision c kc parent (Some old) desired = ActUpdate b ->
  exists n, apply_update (obj_map old) (obj_map desired) = Ok n /\ b = JObj n /\
            jeqb (JObj n) old = false /\ is_deleting old = false /\
            (meth c kc = method_in_place \/ meth c kc = method_rolling_in_place).
Proof.
  rewrite child_decision_some.
  destruct (apply_update (obj_map old) (obj_map desired)) as [n| |] eqn:Hap;
    [|discriminate|discriminate].
  destruct (jeqb (JObj n) old) eqn:Heq; [discriminate|].
  destruct (is_deleting old) eqn:Hdel; [discriminate|].
  unfold verb_by_method.
  destruct (String.eqb (meth c kc) method_on_delete) eqn:E1; [discriminate|].
  destruct (String.eqb (meth c kc) method_recreate || String.eqb (meth c kc) method_rolling_recreate) eqn:E2;
    [discriminate|].
  destruct (String.eqb (meth c kc) method_in_place || String.eqb (meth c kc) method_rolling_in_place) eqn:E3;
    [|discriminate].
  intros Hb. injection Hb as Hb. exists n.
  apply Bool.orb_true_iff in E3. rewrite !String.eqb_eq in E3.
  repeat split; auto.
Qed.

(* any ActDelete, whatever the method, carries the observed uid and comes from a recreate method *)
Theorem C06_delete_uid c kc parent old desired u :
  child_decision c kc parent (Some old) desired = ActDelete u ->
  u = get_uid old /\ is_deleting old = false /\
  (meth c kc = method_recreate \/ meth c kc = method_rolling_recreate).
Proof.
  rewrite child_decision_some.
  destruct (apply_update (obj_map old) (obj_map desired)) as [n| |] eqn:Hap;
    [|discriminate|discriminate].
  destruct (jeqb (JObj n) old) eqn:Heq; [discriminate|].
  destruct (is_deleting old) eqn:Hdel; [discriminate|].
  unfold verb_by_method.
  destruct (String.eqb (meth c kc) method_on_delete) eqn:E1; [discriminate|].
  destruct (String.eqb (meth c kc) method_recreate || String.eqb (meth c kc) method_rolling_recreate) eqn:E2.
  - intros Hu. injection Hu as Hu.
    apply Bool.orb_true_iff in E2. rewrite !String.eqb_eq in E2. auto.
  - destruct (String.eqb (meth c kc) method_in_place || String.eqb (meth c kc) method_rolling_in_place);
      discriminate.
Qed.

(* 4 *)
Theorem C06_equal_no_write c kc parent old desired n :
  apply_update (obj_map old) (obj_map desired) = Ok n ->
  jeqb (JObj n) old = true ->
  child_decision c kc parent (Some old) desired = ActNone.
Proof.
  intros Hap Heq. rewrite child_decision_some, Hap, Heq. reflexivity.
Qed.

(* 5 *)
Theorem C06_pending_no_write c kc parent old desired :
  is_deleting old = true ->
  no_write (child_decision c kc parent (Some old) desired).
Proof.
  intros Hdel. rewrite child_decision_some. unfold no_write.
  destruct (apply_update (obj_map old) (obj_map desired)) as [n| |] eqn:Hap; auto.
  destruct (jeqb (JObj n) old) eqn:Heq; auto.
  rewrite Hdel. auto.
Qed.

(* 6 *)
Theorem C06_unknown_method_error c kc parent old desired n :
  let m := method_of c (group_of (ch_api_version kc)) (ch_kind kc) in
  m <> method_on_delete -> m <> method_recreate -> m <> method_rolling_recreate ->
  m <> method_in_place -> m <> method_rolling_in_place ->
  apply_update (obj_map old) (obj_map desired) = Ok n ->
  jeqb (JObj n) old = false ->
  is_deleting old = false ->
  child_decision c kc parent (Some old) desired = ActError.
Proof.
  intros m H1 H2 H3 H4 H5 Hap Heq Hdel.
  rewrite child_decision_some, Hap, Heq, Hdel.
  apply verb_unknown; assumption.
Qed.

(* ------------------------------------------------------------------ *)
(* 7. delete_children                                                  *)
(* ------------------------------------------------------------------ *)

Definition delete_step (kc : child_cfg) (desired : list (string * json))
           (failed : bool) (p : string * json) : prog bool :=
  let o := snd p in
  if is_deleting o then Ret failed else
  match olookup (fst p) desired with
  | Some _ => Ret failed
  | None =>
      r <~ api (rq_delete (ch_res kc) (eff_ns (ch_namespaced kc) (get_ns o)) (get_name o) (get_uid o)) ;;
      match r with
      | ROk _ | RErr ENotFound => Ret failed
      | RErr _ => Ret true
      end
  end.

Lemma delete_children_fold kc observed desired :
  delete_children kc observed desired = foldM (delete_step kc desired) observed false.
Proof. reflexivity. Qed.

Definition delete_req_of (kc : child_cfg) (o : json) : req :=
  rq_delete (ch_res kc) (eff_ns (ch_namespaced kc) (get_ns o)) (get_name o) (get_uid o).

(* the call is the background delete of an observed, live, undesired child *)
Definition is_undesired_delete (kc : child_cfg) (observed desired : list (string * json)) (cl : call) : Prop :=
  exists key o,
    In (key, o) observed /\ is_deleting o = false /\ olookup key desired = None /\
    cl = CApi (delete_req_of kc o).

Lemma delete_req_shape kc o :
  q_verb (delete_req_of kc o) = VDelete /\
  q_res (delete_req_of kc o) = ch_res kc /\
  q_ns (delete_req_of kc o) = eff_ns (ch_namespaced kc) (get_ns o) /\
  q_name (delete_req_of kc o) = get_name o /\
  q_body (delete_req_of kc o) = JNull /\
  q_uid_pre (delete_req_of kc o) = get_uid o /\
  q_prop (delete_req_of kc o) = "Background".
Proof. repeat split. Qed.

Theorem C06_undesired_deleted_background kc observed desired :
  all_calls (is_undesired_delete kc observed desired) (delete_children kc observed desired).
Proof.
  rewrite delete_children_fold. apply all_calls_foldM.
  intros s [key o] Hin. unfold delete_step. cbn [fst snd].
  destruct (is_deleting o) eqn:Hdel; [apply AC_ret|].
  destruct (olookup key desired) as [d|] eqn:Hlk; [apply AC_ret|].
  apply all_calls_bind.
  - apply all_calls_api. exists key, o. repeat split; assumption.
  - intros r. destruct r as [x|e]; [apply AC_ret|]. destruct e; apply AC_ret.
Qed.

(* spelled out on the request fields *)
Corollary C06_undesired_deleted_background_fields kc observed desired :
  all_calls (fun cl => exists key o q,
               cl = CApi q /\ In (key, o) observed /\ is_deleting o = false /\
               olookup key desired = None /\
               q_verb q = VDelete /\ q_res q = ch_res kc /\ q_name q = get_name o /\
               q_uid_pre q = get_uid o /\ q_prop q = "Background")
            (delete_children kc observed desired).
Proof.
  eapply all_calls_weaken; [|apply C06_undesired_deleted_background].
  intros cl (key & o & Hin & Hdel & Hlk & Hcl).
  exists key, o, (delete_req_of kc o). repeat split; assumption.
Qed.

(* conversely: every live undesired observed child is deleted on every path,
   whatever the answers to the earlier deletes were *)
Theorem C06_undesired_always_deleted kc observed desired key o :
  In (key, o) observed -> is_deleting o = false -> olookup key desired = None ->
  always_calls (CApi (delete_req_of kc o)) (delete_children kc observed desired).
Proof.
  intros Hin Hdel Hlk. rewrite delete_children_fold.
  apply always_calls_foldM with (a := (key, o)); [exact Hin|].
  intros s. unfold delete_step. cbn [fst snd]. rewrite Hdel, Hlk.
  apply always_calls_bind_left. apply always_calls_api.
Qed.

(* ------------------------------------------------------------------ *)
(* 7'. update_children (dynamic apply, ssa c = false)                  *)
(* ------------------------------------------------------------------ *)

Definition update_step (c : ccfg) (kc : child_cfg) (parent : json)
           (observed : list (string * json)) (failed : bool) (p : string * json) : prog bool :=
  let d := snd p in
  let ns := eff_ns (ch_namespaced kc) (get_ns d) in
  if ssa c then f <~ ssa_child c kc parent (olookup (fst p) observed) d ;; Ret (failed || f) else
  match child_decision c kc parent (olookup (fst p) observed) d with
  | ActNone => Ret failed
  | ActError | ActPanic => Ret true
  | ActDelete uid =>
      r <~ api (rq_delete (ch_res kc) ns (get_name d) uid) ;;
      match r with ROk _ | RErr ENotFound => Ret failed | RErr _ => Ret true end
  | ActUpdate body =>
      r <~ api (rq_put false (ch_res kc) ns (get_name d) body) ;;
      match r with ROk _ | RErr ENotFound | RErr EConflict => Ret failed | RErr _ => Ret true end
  | ActCreate body =>
      r <~ api (rq_create (ch_res kc) ns (get_name d) body) ;;
      match r with ROk _ | RErr EAlreadyExists => Ret failed | RErr _ => Ret true end
  end.

Lemma update_children_fold c kc parent observed desired :
  update_children c kc parent observed desired = foldM (update_step c kc parent observed) desired false.
Proof. reflexivity. Qed.

(* the request that carries out a decision on desired object d *)
Definition request_of_action (kc : child_cfg) (d : json) (a : child_action) : option call :=
  let ns := eff_ns (ch_namespaced kc) (get_ns d) in
  match a with
  | ActDelete uid => Some (CApi (rq_delete (ch_res kc) ns (get_name d) uid))
  | ActUpdate body => Some (CApi (rq_put false (ch_res kc) ns (get_name d) body))
  | ActCreate body => Some (CApi (rq_create (ch_res kc) ns (get_name d) body))
  | ActNone | ActError | ActPanic => None
  end.

(* completeness: one bad child blocks nothing *)
Theorem C06_update_children_complete c kc parent observed desired key d cl :
  ssa c = false ->
  In (key, d) desired ->
  request_of_action kc d (child_decision c kc parent (olookup key observed) d) = Some cl ->
  always_calls cl (update_children c kc parent observed desired).
Proof.
  intros Hssa Hin Hreq. rewrite update_children_fold.
  apply always_calls_foldM with (a := (key, d)); [exact Hin|].
  intros s. unfold update_step. cbn [fst snd]. rewrite Hssa.
  destruct (child_decision c kc parent (olookup key observed) d) as [ | | |uid|body|body] eqn:Hdec;
    cbn [request_of_action] in Hreq; try discriminate;
    injection Hreq as Hreq; subst cl;
    apply always_calls_bind_left; apply always_calls_api.
Qed.

(* the three instances, spelled out *)
Corollary C06_update_children_always_deletes c kc parent observed desired key d uid :
  ssa c = false -> In (key, d) desired ->
  child_decision c kc parent (olookup key observed) d = ActDelete uid ->
  always_calls (CApi (rq_delete (ch_res kc) (eff_ns (ch_namespaced kc) (get_ns d)) (get_name d) uid))
               (update_children c kc parent observed desired).
Proof.
  intros Hssa Hin Hdec. apply C06_update_children_complete with (key := key) (d := d); auto.
  rewrite Hdec. reflexivity.
Qed.

Corollary C06_update_children_always_updates c kc parent observed desired key d body :
  ssa c = false -> In (key, d) desired ->
  child_decision c kc parent (olookup key observed) d = ActUpdate body ->
  always_calls (CApi (rq_put false (ch_res kc) (eff_ns (ch_namespaced kc) (get_ns d)) (get_name d) body))
               (update_children c kc parent observed desired).
Proof.
  intros Hssa Hin Hdec. apply C06_update_children_complete with (key := key) (d := d); auto.
  rewrite Hdec. reflexivity.
Qed.

Corollary C06_update_children_always_creates c kc parent observed desired key d body :
  ssa c = false -> In (key, d) desired ->
  child_decision c kc parent (olookup key observed) d = ActCreate body ->
  always_calls (CApi (rq_create (ch_res kc) (eff_ns (ch_namespaced kc) (get_ns d)) (get_name d) body))
               (update_children c kc parent observed desired).
Proof.
  intros Hssa Hin Hdec. apply C06_update_children_complete with (key := key) (d := d); auto.
  rewrite Hdec. reflexivity.
Qed.

(* soundness: nothing else is ever sent *)
Theorem C06_update_children_sound c kc parent observed desired :
  ssa c = false ->
  all_calls (fun cl => exists key d,
               In (key, d) desired /\
               request_of_action kc d (child_decision c kc parent (olookup key observed) d) = Some cl)
            (update_children c kc parent observed desired).
Proof.
  intros Hssa. rewrite update_children_fold. apply all_calls_foldM.
  intros s [key d] Hin. unfold update_step. cbn [fst snd]. rewrite Hssa.
  destruct (child_decision c kc parent (olookup key observed) d) as [ | | |uid|body|body] eqn:Hdec;
    try apply AC_ret.
  - apply all_calls_bind.
    + apply all_calls_api. exists key, d. split; [exact Hin|]. rewrite Hdec. reflexivity.
    + intros r. destruct r as [x|e]; [apply AC_ret|]. destruct e; apply AC_ret.
  - apply all_calls_bind.
    + apply all_calls_api. exists key, d. split; [exact Hin|]. rewrite Hdec. reflexivity.
    + intros r. destruct r as [x|e]; [apply AC_ret|]. destruct e; apply AC_ret.
  - apply all_calls_bind.
    + apply all_calls_api. exists key, d. split; [exact Hin|]. rewrite Hdec. reflexivity.
    + intros r. destruct r as [x|e]; [apply AC_ret|]. destruct e; apply AC_ret.
Qed.

(* hence: under OnDelete update_children never updates or deletes an observed child *)
Theorem C06_on_delete_only_creates c kc parent observed desired :
  ssa c = false ->
  method_of c (group_of (ch_api_version kc)) (ch_kind kc) = method_on_delete ->
  all_calls (fun cl => exists q, cl = CApi q /\ q_verb q = VCreate)
            (update_children c kc parent observed desired).
Proof.
  intros Hssa Hm.
  eapply all_calls_weaken; [|apply C06_update_children_sound; exact Hssa].
  intros cl (key & d & Hin & Hreq).
  destruct (olookup key observed) as [old|] eqn:Hlk.
  - destruct (C06_on_delete c kc parent old d Hm) as [H | [H | H]];
      rewrite H in Hreq; discriminate.
  - cbn [child_decision request_of_action] in Hreq. injection Hreq as Hreq. subst cl.
    eexists. split; reflexivity.
Qed.

Print Assumptions C06_on_delete.
Print Assumptions method_of_default.
Print Assumptions C06_recreate.
Print Assumptions C06_in_place.
Print Assumptions C06_equal_no_write.
Print Assumptions C06_pending_no_write.
Print Assumptions C06_unknown_method_error.
Print Assumptions methods_distinct.
Print Assumptions C06_undesired_deleted_background.
Print Assumptions C06_undesired_always_deleted.
Print Assumptions C06_update_children_complete.
Print Assumptions C06_update_children_sound.
Print Assumptions C06_on_delete_only_creates.
Print Assumptions always_calls_in_trace.
