(* RollPanic.v — helpers for C12Proofs.v / C13Proofs.v.
   (1) [post_all Q p]: every result p can return, whatever the answers, satisfies Q;
   (2) [benign]: every call of the phases around the hook call is an API request
       or a [note] (CHook HCustomize), never a sync / finalize hook call. *)
From MC Require Import Generated.
From MC Require Import Model.Rolling.
From MC Require Import Proofs.C06Proofs.
Local Open Scope list_scope.

(* ------------------------------------------------------------------ *)
(* results on every path                                               *)
(* ------------------------------------------------------------------ *)
Inductive post_all {R} (Q : R -> Prop) : prog R -> Prop :=
| PA_ret r : Q r -> post_all Q (Ret r)
| PA_do c k : (forall a, post_all Q (k a)) -> post_all Q (Do c k).

Lemma post_all_bind {A B} (Q : A -> Prop) (Q' : B -> Prop) (p : prog A) (f : A -> prog B) :
  post_all Q p -> (forall a, Q a -> post_all Q' (f a)) -> post_all Q' (bind p f).
Proof.
  intros Hp Hf. induction Hp as [r Hr|cl k Hk IH]; cbn [bind].
  - apply Hf. exact Hr.
  - apply PA_do. exact IH.
Qed.

Lemma post_all_any {A B} (Q' : B -> Prop) (p : prog A) (f : A -> prog B) :
  (forall a, post_all Q' (f a)) -> post_all Q' (bind p f).
Proof.
  intros Hf. induction p as [r|cl k IH]; cbn [bind].
  - apply Hf.
  - apply PA_do. exact IH.
Qed.

Lemma post_all_weaken {R} (Q Q' : R -> Prop) (p : prog R) :
  (forall r, Q r -> Q' r) -> post_all Q p -> post_all Q' p.
Proof.
  intros Hi Hp. induction Hp as [r Hr|cl k Hk IH].
  - apply PA_ret. apply Hi. exact Hr.
  - apply PA_do. exact IH.
Qed.

Lemma post_all_run {R} (Q : R -> Prop) (p : prog R) (e : env) :
  post_all Q p -> forall h, Q (snd (run p e h)).
Proof.
  intros Hp. induction Hp as [r Hr|cl k Hk IH]; intros h; cbn [run].
  - cbn [snd]. exact Hr.
  - cbv zeta. apply IH.
Qed.

(* ------------------------------------------------------------------ *)
(* benign calls                                                        *)
(* ------------------------------------------------------------------ *)
Definition benign (cl : call) : Prop :=
  match cl with
  | CApi _ => True
  | CHook HCustomize _ => True
  | CHook _ _ => False
  end.

Lemma benign_api q : benign (CApi q).
Proof. exact I. Qed.

Lemma bn_api q : all_calls benign (api q).
Proof. apply all_calls_api. exact I. Qed.

Lemma bn_atomic_update res ns name uid status f :
  forall fuel, all_calls benign (atomic_update fuel res ns name uid status f).
Proof.
  induction fuel as [|n IH]; cbn [atomic_update]; [apply AC_ret|].
  assert (Hretry : all_calls benign (match n with
                                     | O => Ret (RErr EConflict)
                                     | S _ => atomic_update n res ns name uid status f end)).
  { destruct n; [apply AC_ret|exact IH]. }
  unfold api at 1. cbn [bind]. apply AC_do; [exact I|].
  intros a. destruct a as [cur|e|b| |z]; cbn [bind]; try apply AC_ret.
  - destruct (negb (String.eqb (get_uid cur) uid)); [apply AC_ret|].
    destruct (f cur) as [upd|] eqn:Hf; [|apply AC_ret].
    unfold api at 1. cbn [bind]. apply AC_do; [exact I|].
    intros a2. destruct a2 as [o|e|b| |z]; cbn [bind]; try apply AC_ret.
    destruct e; try apply AC_ret. exact Hretry.
  - destruct e; try apply AC_ret. exact Hretry.
Qed.

Lemma bn_update_with_retries ns name uid f :
  forall fuel, all_calls benign (update_with_retries fuel ns name uid f).
Proof.
  induction fuel as [|n IH]; cbn [update_with_retries]; [apply AC_ret|].
  assert (Hretry : all_calls benign (match n with
                                     | O => Ret (RErr EConflict)
                                     | S _ => update_with_retries n ns name uid f end)).
  { destruct n; [apply AC_ret|exact IH]. }
  unfold api at 1. cbn [bind]. apply AC_do; [exact I|].
  intros a. destruct a as [cur|e|b| |z]; cbn [bind]; try apply AC_ret.
  - destruct (negb (String.eqb (get_uid cur) uid)); [apply AC_ret|].
    destruct (f cur) as [upd|] eqn:Hf; [|apply AC_ret].
    unfold api at 1. cbn [bind]. apply AC_do; [exact I|].
    intros a2. destruct a2 as [o|e|b| |z]; cbn [bind]; try apply AC_ret.
    destruct e; try apply AC_ret. exact Hretry.
  - destruct e; try apply AC_ret. exact Hretry.
Qed.

Lemma bn_sync_finalizer c parent : all_calls benign (sync_finalizer c parent).
Proof.
  unfold sync_finalizer. cbv zeta.
  destruct (Bool.eqb (has_finalizer parent (finalizer_name c)) (has_finalize c)); [apply AC_ret|].
  destruct (has_finalize c).
  - destruct (is_deleting parent); [apply AC_ret|]. apply bn_atomic_update.
  - apply bn_atomic_update.
Qed.

Lemma bn_can_adopt_check c parent : all_calls benign (can_adopt_check c parent).
Proof.
  unfold can_adopt_check. apply all_calls_bind; [apply bn_api|].
  intros g. destruct g; apply AC_ret.
Qed.

Lemma bn_claim_one c k parent sel st o : all_calls benign (claim_one c k parent sel st o).
Proof.
  unfold claim_one. destruct st as [[once claimed] failed]. cbv zeta.
  destruct (claim_decision (get_uid parent) (is_deleting parent) sel o).
  - apply AC_ret.
  - apply AC_ret.
  - apply all_calls_bind; [apply bn_atomic_update|].
    intros r. destruct r as [x|e]; [apply AC_ret|]. destruct e; apply AC_ret.
  - apply all_calls_bind.
    + destruct once as [b|]; [apply AC_ret|].
      apply all_calls_bind; [apply bn_can_adopt_check|]. intros b. apply AC_ret.
    + intros [once' can]. destruct (negb can); [apply AC_ret|].
      apply all_calls_bind; [apply bn_atomic_update|].
      intros r. destruct r as [x|e]; [apply AC_ret|]. destruct e; apply AC_ret.
Qed.

Lemma bn_claim_children c k parent : all_calls benign (claim_children c k parent).
Proof.
  unfold claim_children. destruct (make_selector c parent) as [sel|]; [|apply AC_ret].
  apply all_calls_foldM. intros acc kc _. destruct acc as [m|]; [|apply AC_ret].
  cbv zeta. apply all_calls_bind.
  - apply all_calls_foldM. intros st o _. apply bn_claim_one.
  - intros [[once claimed] failed]. destruct failed; apply AC_ret.
Qed.

Lemma bn_call_note tag j : all_calls benign (note tag j).
Proof. unfold note. apply AC_do; [exact I|]. intros a. apply AC_ret. Qed.

Lemma bn_delete_children kc observed desired : all_calls benign (delete_children kc observed desired).
Proof.
  unfold delete_children. apply all_calls_foldM. intros failed p _. cbv zeta.
  destruct (is_deleting (snd p)); [apply AC_ret|].
  destruct (olookup (fst p) desired); [apply AC_ret|].
  apply all_calls_bind; [apply bn_api|].
  intros r. destruct r as [x|e]; [apply AC_ret|]. destruct e; apply AC_ret.
Qed.

Lemma bn_ssa_child c kc parent observed d : all_calls benign (ssa_child c kc parent observed d).
Proof.
  unfold ssa_child. cbv zeta. apply all_calls_bind.
  - destruct observed as [old|]; [|apply AC_ret].
    destruct (get_annotation old last_applied_annotation); [apply bn_api|apply AC_ret].
  - intros r1. destruct r1 as [x|e]; [|apply AC_ret].
    apply all_calls_bind; [apply bn_api|]. intros r2. destruct r2; apply AC_ret.
Qed.

Lemma bn_update_children c kc parent observed desired :
  all_calls benign (update_children c kc parent observed desired).
Proof.
  unfold update_children. apply all_calls_foldM. intros failed p _. cbv zeta.
  destruct (ssa c).
  - apply all_calls_bind; [apply bn_ssa_child|]. intros f. apply AC_ret.
  - destruct (child_decision c kc parent (olookup (fst p) observed) (snd p)) as [ | | |uid|body|body];
      try apply AC_ret.
    + apply all_calls_bind; [apply bn_api|].
      intros r. destruct r as [x|e]; [apply AC_ret|]. destruct e; apply AC_ret.
    + apply all_calls_bind; [apply bn_api|].
      intros r. destruct r as [x|e]; [apply AC_ret|]. destruct e; apply AC_ret.
    + apply all_calls_bind; [apply bn_api|].
      intros r. destruct r as [x|e]; [apply AC_ret|]. destruct e; apply AC_ret.
Qed.

Lemma bn_manage_children c parent observed desired :
  all_calls benign (manage_children c parent observed desired).
Proof.
  unfold manage_children. apply all_calls_bind.
  - apply all_calls_foldM. intros failed [[av kd] os] _.
    destruct (lookup_kind c av kd) as [kc|]; [|apply AC_ret].
    apply all_calls_bind; [apply bn_delete_children|]. intros f. apply AC_ret.
  - intros f1. apply all_calls_foldM. intros failed [[av kd] ds] _.
    destruct (lookup_kind c av kd) as [kc|]; [|apply AC_ret].
    apply all_calls_bind; [apply bn_update_children|]. intros f. apply AC_ret.
Qed.

Lemma bn_update_parent_status c parent st : all_calls benign (update_parent_status c parent st).
Proof. unfold update_parent_status. cbv zeta. apply bn_atomic_update. Qed.

Lemma bn_finish_sync c parent observed r : all_calls benign (finish_sync c parent observed r).
Proof.
  unfold finish_sync. destruct (desired_map (hr_children r) []) as [d0|]; [|apply AC_ret].
  apply all_calls_bind.
  { destruct (positive_number (hr_resync r)); [apply bn_call_note|apply AC_ret]. }
  intros _. apply all_calls_bind.
  { destruct (hr_finalized r); [apply bn_atomic_update|apply AC_ret]. }
  intros pr. destruct pr as [p2|e]; [|apply AC_ret].
  destruct (make_selector c p2) as [sel|]; [|apply AC_ret].
  destruct (enforce_labels c p2 sel (uobjects d0)) as [ds|]; [|apply AC_ret].
  cbv zeta. apply all_calls_bind.
  { destruct (negb (is_deleting p2) || should_finalize c p2); [apply bn_manage_children|apply AC_ret]. }
  intros failed. apply all_calls_bind; [apply bn_update_parent_status|].
  intros sr. destruct sr as [x|e]; [apply AC_ret|]. destruct e; apply AC_ret.
Qed.

Lemma bn_claim_rev_one c parent sel st o : all_calls benign (claim_rev_one c parent sel st o).
Proof.
  unfold claim_rev_one. destruct st as [[once claimed] failed]. cbv zeta.
  destruct (claim_decision (get_uid parent) (is_deleting parent) sel o).
  - apply AC_ret.
  - apply AC_ret.
  - apply all_calls_bind; [apply bn_update_with_retries|].
    intros r. destruct r as [x|e]; [apply AC_ret|]. destruct e; apply AC_ret.
  - apply all_calls_bind.
    + destruct once as [b|]; [apply AC_ret|].
      apply all_calls_bind; [apply bn_can_adopt_check|]. intros b. apply AC_ret.
    + intros [once' can]. destruct (negb can); [apply AC_ret|].
      apply all_calls_bind; [apply bn_update_with_retries|].
      intros r. destruct r as [x|e]; [apply AC_ret|]. destruct e; apply AC_ret.
Qed.

Lemma bn_claim_revisions c k parent : all_calls benign (claim_revisions c k parent).
Proof.
  unfold claim_revisions. destruct (revision_selector c parent) as [sel|]; [|apply AC_ret].
  cbv zeta. apply all_calls_bind.
  - apply all_calls_foldM. intros st o _. apply bn_claim_rev_one.
  - intros [[once claimed] failed]. apply AC_ret.
Qed.

Lemma bn_run_until_error ps :
  (forall p, In p ps -> all_calls benign p) -> all_calls benign (run_until_error ps).
Proof.
  induction ps as [|p ps IH]; intros Hps; cbn [run_until_error]; [apply AC_ret|].
  apply all_calls_bind; [apply Hps; now left|].
  intros r. destruct r as [x|e]; [|apply AC_ret].
  apply IH. intros p' Hin. apply Hps. now right.
Qed.

Lemma bn_manage_revisions ns observed desired : all_calls benign (manage_revisions ns observed desired).
Proof.
  unfold manage_revisions. cbv zeta. apply bn_run_until_error.
  intros p Hin. apply in_app_or in Hin. destruct Hin as [Hin|Hin].
  - apply in_flat_map in Hin. destruct Hin as [o [_ Hin]].
    destruct (existsb (fun d => String.eqb (rev_name d) (rev_name o)) desired); [destruct Hin|].
    destruct Hin as [<-|[]]. apply bn_api.
  - apply in_flat_map in Hin. destruct Hin as [d [_ Hin]].
    destruct (find (fun o => String.eqb (rev_name o) (rev_name d)) (rev observed)) as [o|].
    + destruct (rev_equal o d); [destruct Hin|]. destruct Hin as [<-|[]]. apply bn_api.
    + destruct (String.eqb ns ""); destruct Hin as [<-|[]]; [apply AC_ret|apply bn_api].
Qed.

Print Assumptions post_all_run.
Print Assumptions bn_finish_sync.
Print Assumptions bn_claim_children.
Print Assumptions bn_manage_revisions.
