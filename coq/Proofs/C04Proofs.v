(* C04Proofs.v — C04: ControllerRef rules.
   claim_decision table, owner-reference list edits, the adoption recheck
   protocol of claim_one, the label invariant of enforce_labels. *)
From MC Require Import Generated.
From MC Require Import Model.Composite.
From MC Require Import Proofs.AssocLemmas.
Local Open Scope string_scope.
Local Open Scope list_scope.

(* ================================================================== *)
(* 1. the decision table of claim_decision                             *)
(* ================================================================== *)

Lemma controlled_by_iff o uid :
  controlled_by o uid = true <-> exists r, controller_of o = Some r /\ or_uid r = uid.
Proof.
  unfold controlled_by. destruct (controller_of o) as [r|] eqn:Hc.
  - rewrite String.eqb_eq. split.
    + intros Hu. exists r. split; [reflexivity | exact Hu].
    + intros [r' [Hr Hu]]. injection Hr as Hr. subst r'. exact Hu.
  - split; [discriminate|]. intros [r [Hr _]]. discriminate.
Qed.

Theorem claim_other_controller puid pd sel o r :
  controller_of o = Some r -> or_uid r <> puid ->
  claim_decision puid pd sel o = ClIgnore.
Proof.
  intros Hc Hne. unfold claim_decision. rewrite Hc.
  apply String.eqb_neq in Hne. rewrite Hne. reflexivity.
Qed.

Theorem claim_ours_match puid pd sel o :
  controlled_by o puid = true -> sel_matches sel (get_labels o) = true ->
  claim_decision puid pd sel o = ClKeep.
Proof.
  intros Hc Hm. apply controlled_by_iff in Hc. destruct Hc as [r [Hc Hu]].
  unfold claim_decision. rewrite Hc, Hm.
  apply String.eqb_eq in Hu. rewrite Hu. reflexivity.
Qed.

Theorem claim_ours_nomatch_parent_deleting puid sel o :
  controlled_by o puid = true -> sel_matches sel (get_labels o) = false ->
  claim_decision puid true sel o = ClIgnore.
Proof.
  intros Hc Hm. apply controlled_by_iff in Hc. destruct Hc as [r [Hc Hu]].
  unfold claim_decision. rewrite Hc, Hm.
  apply String.eqb_eq in Hu. rewrite Hu. reflexivity.
Qed.

Theorem claim_ours_nomatch_release puid sel o :
  controlled_by o puid = true -> sel_matches sel (get_labels o) = false ->
  claim_decision puid false sel o = ClRelease.
Proof.
  intros Hc Hm. apply controlled_by_iff in Hc. destruct Hc as [r [Hc Hu]].
  unfold claim_decision. rewrite Hc, Hm.
  apply String.eqb_eq in Hu. rewrite Hu. reflexivity.
Qed.

Theorem claim_orphan_parent_deleting puid sel o :
  controller_of o = None -> claim_decision puid true sel o = ClIgnore.
Proof. intros Hc. unfold claim_decision. rewrite Hc. reflexivity. Qed.

Theorem claim_orphan_nomatch puid pd sel o :
  controller_of o = None -> sel_matches sel (get_labels o) = false ->
  claim_decision puid pd sel o = ClIgnore.
Proof.
  intros Hc Hm. unfold claim_decision. rewrite Hc, Hm.
  rewrite Bool.orb_true_r. reflexivity.
Qed.

Theorem claim_orphan_deleting puid pd sel o :
  controller_of o = None -> is_deleting o = true ->
  claim_decision puid pd sel o = ClIgnore.
Proof.
  intros Hc Hd. unfold claim_decision. rewrite Hc, Hd.
  destruct (pd || negb (sel_matches sel (get_labels o))); reflexivity.
Qed.

Theorem claim_orphan_adopt puid sel o :
  controller_of o = None -> sel_matches sel (get_labels o) = true -> is_deleting o = false ->
  claim_decision puid false sel o = ClAdopt.
Proof.
  intros Hc Hm Hd. unfold claim_decision. rewrite Hc, Hm, Hd. reflexivity.
Qed.

(* converse characterisations *)
Theorem claim_adopt_iff puid pd sel o :
  claim_decision puid pd sel o = ClAdopt <->
  controller_of o = None /\ pd = false /\ sel_matches sel (get_labels o) = true /\ is_deleting o = false.
Proof.
  unfold claim_decision. split.
  - destruct (controller_of o) as [r|] eqn:Hc.
    + destruct (negb (String.eqb (or_uid r) puid)); [discriminate|].
      destruct (sel_matches sel (get_labels o)); [discriminate|].
      destruct pd; discriminate.
    + destruct pd; [discriminate|].
      destruct (sel_matches sel (get_labels o)) eqn:Hm; [|discriminate].
      destruct (is_deleting o) eqn:Hd; [discriminate|]. auto.
  - intros (Hc & Hp & Hm & Hd). rewrite Hc, Hp, Hm, Hd. reflexivity.
Qed.

Theorem claim_release_iff puid pd sel o :
  claim_decision puid pd sel o = ClRelease <->
  controlled_by o puid = true /\ sel_matches sel (get_labels o) = false /\ pd = false.
Proof.
  unfold claim_decision, controlled_by. split.
  - destruct (controller_of o) as [r|] eqn:Hc.
    + destruct (String.eqb (or_uid r) puid) eqn:Hu; [|discriminate]. cbn [negb].
      destruct (sel_matches sel (get_labels o)); [discriminate|].
      destruct pd; [discriminate|]. auto.
    + destruct (pd || negb (sel_matches sel (get_labels o))); [discriminate|].
      destruct (is_deleting o); discriminate.
  - intros (Hc & Hm & Hp). destruct (controller_of o) as [r|]; [|discriminate].
    rewrite Hc, Hm, Hp. reflexivity.
Qed.

Theorem claim_keep_iff puid pd sel o :
  claim_decision puid pd sel o = ClKeep <->
  controlled_by o puid = true /\ sel_matches sel (get_labels o) = true.
Proof.
  unfold claim_decision, controlled_by. split.
  - destruct (controller_of o) as [r|] eqn:Hc.
    + destruct (String.eqb (or_uid r) puid) eqn:Hu; [|discriminate]. cbn [negb].
      destruct (sel_matches sel (get_labels o)); [auto|].
      destruct pd; discriminate.
    + destruct (pd || negb (sel_matches sel (get_labels o))); [discriminate|].
      destruct (is_deleting o); discriminate.
  - intros (Hc & Hm). destruct (controller_of o) as [r|]; [|discriminate].
    rewrite Hc, Hm. reflexivity.
Qed.

(* an object controlled by somebody is never adopted; an object not
   controlled by us is never kept or released *)
Corollary claim_never_steals puid pd sel o r :
  controller_of o = Some r -> or_uid r <> puid ->
  claim_decision puid pd sel o <> ClAdopt /\
  claim_decision puid pd sel o <> ClRelease /\
  claim_decision puid pd sel o <> ClKeep.
Proof.
  intros Hc Hne. rewrite (claim_other_controller puid pd sel o r Hc Hne).
  repeat split; discriminate.
Qed.

(* ================================================================== *)
(* 2. owner-reference lists                                            *)
(* ================================================================== *)

Definition other_uid (u : string) (r : oref) : bool := negb (String.eqb (or_uid r) u).

Lemma remove_owner_ref_filter l u : remove_owner_ref l u = filter (other_uid u) l.
Proof. reflexivity. Qed.

Theorem remove_owner_ref_In l u r :
  In r (remove_owner_ref l u) <-> In r l /\ or_uid r <> u.
Proof.
  unfold remove_owner_ref. rewrite filter_In, Bool.negb_true_iff, String.eqb_neq. reflexivity.
Qed.

Theorem remove_owner_ref_no_uid l u : ~ In u (map or_uid (remove_owner_ref l u)).
Proof.
  intros Hin. apply in_map_iff in Hin. destruct Hin as [r [Hu Hr]].
  apply remove_owner_ref_In in Hr. destruct Hr as [_ Hne]. contradiction.
Qed.

Theorem remove_owner_ref_absent l u :
  (forall r, In r l -> or_uid r <> u) -> remove_owner_ref l u = l.
Proof.
  intros Hall. unfold remove_owner_ref. induction l as [|r l IH]; [reflexivity|].
  cbn [filter]. assert (Hr : or_uid r <> u) by (apply Hall; left; reflexivity).
  apply String.eqb_neq in Hr. rewrite Hr. cbn [negb]. f_equal.
  apply IH. intros r' Hin. apply Hall. right. exact Hin.
Qed.

(* add_owner_ref: references with another uid are kept, in order *)
Lemma other_uid_self add : other_uid (or_uid add) add = false.
Proof. unfold other_uid. rewrite String.eqb_refl. reflexivity. Qed.

Lemma add_owner_ref_aux_others l add found :
  filter (other_uid (or_uid add)) (add_owner_ref_aux l add found) =
  filter (other_uid (or_uid add)) l.
Proof.
  revert found. induction l as [|r l IH]; intros found.
  - cbn [add_owner_ref_aux]. destruct found; [reflexivity|].
    cbn [filter]. rewrite other_uid_self. reflexivity.
  - cbn [add_owner_ref_aux]. destruct (String.eqb (or_uid r) (or_uid add)) eqn:E.
    + assert (Hr : other_uid (or_uid add) r = false) by (unfold other_uid; rewrite E; reflexivity).
      cbn [filter]. rewrite other_uid_self, Hr. apply IH.
    + assert (Hr : other_uid (or_uid add) r = true) by (unfold other_uid; rewrite E; reflexivity).
      cbn [filter]. rewrite Hr. f_equal. apply IH.
Qed.

Theorem add_owner_ref_others l add :
  filter (other_uid (or_uid add)) (add_owner_ref l add) = filter (other_uid (or_uid add)) l.
Proof. apply add_owner_ref_aux_others. Qed.

Corollary add_owner_ref_keeps l add r :
  In r l -> or_uid r <> or_uid add -> In r (add_owner_ref l add).
Proof.
  intros Hin Hne.
  assert (H : In r (filter (other_uid (or_uid add)) (add_owner_ref l add))).
  { rewrite add_owner_ref_others. apply filter_In. split; [exact Hin|].
    unfold other_uid. apply Bool.negb_true_iff. apply String.eqb_neq. exact Hne. }
  apply filter_In in H. destruct H as [H _]. exact H.
Qed.

(* nothing is invented: every element of the result is from l or is add *)
Lemma add_owner_ref_aux_from l add found r :
  In r (add_owner_ref_aux l add found) -> r = add \/ In r l.
Proof.
  revert found. induction l as [|x l IH]; intros found Hin.
  - cbn [add_owner_ref_aux] in Hin. destruct found; [destruct Hin|].
    destruct Hin as [Hin | []]. left. symmetry. exact Hin.
  - cbn [add_owner_ref_aux] in Hin. destruct (String.eqb (or_uid x) (or_uid add)).
    + destruct Hin as [Hin | Hin]; [left; symmetry; exact Hin|].
      destruct (IH _ Hin) as [H | H]; [left; exact H | right; right; exact H].
    + destruct Hin as [Hin | Hin]; [right; left; exact Hin|].
      destruct (IH _ Hin) as [H | H]; [left; exact H | right; right; exact H].
Qed.

Theorem add_owner_ref_from l add r :
  In r (add_owner_ref l add) -> r = add \/ (In r l /\ or_uid r <> or_uid add).
Proof.
  intros Hin. destruct (String.eqb (or_uid r) (or_uid add)) eqn:E.
  - (* same uid: it must be add itself, since all others with that uid were replaced *)
    assert (Hgen : forall l found, In r (add_owner_ref_aux l add found) ->
                                   String.eqb (or_uid r) (or_uid add) = true -> r = add).
    { clear. induction l as [|x l IH]; intros found Hin E.
      - cbn [add_owner_ref_aux] in Hin. destruct found; [destruct Hin|].
        destruct Hin as [Hin | []]. symmetry. exact Hin.
      - cbn [add_owner_ref_aux] in Hin. destruct (String.eqb (or_uid x) (or_uid add)) eqn:Ex.
        + destruct Hin as [Hin | Hin]; [symmetry; exact Hin | apply (IH _ Hin E)].
        + destruct Hin as [Hin | Hin]; [subst x; congruence | apply (IH _ Hin E)]. }
    left. apply (Hgen l false Hin E).
  - apply String.eqb_neq in E.
    destruct (add_owner_ref_aux_from l add false r Hin) as [H | H].
    + subst r. contradiction E. reflexivity.
    + right. split; assumption.
Qed.

Theorem add_owner_ref_contains l add : In add (add_owner_ref l add).
Proof.
  unfold add_owner_ref. induction l as [|r l IH].
  - cbn [add_owner_ref_aux]. left. reflexivity.
  - cbn [add_owner_ref_aux]. destruct (String.eqb (or_uid r) (or_uid add)).
    + left. reflexivity.
    + right. exact IH.
Qed.

Theorem add_owner_ref_fresh l add :
  (forall r, In r l -> or_uid r <> or_uid add) -> add_owner_ref l add = l ++ [add].
Proof.
  unfold add_owner_ref. induction l as [|r l IH]; intros Hall.
  - reflexivity.
  - cbn [add_owner_ref_aux]. assert (Hr : or_uid r <> or_uid add) by (apply Hall; left; reflexivity).
    apply String.eqb_neq in Hr. rewrite Hr. cbn [app]. f_equal.
    apply IH. intros r' Hin. apply Hall. right. exact Hin.
Qed.

(* the list of uids is unchanged once ours was met, so replacing never duplicates *)
Lemma add_owner_ref_aux_uids_found l add :
  map or_uid (add_owner_ref_aux l add true) = map or_uid l.
Proof.
  induction l as [|r l IH]; [reflexivity|].
  cbn [add_owner_ref_aux]. destruct (String.eqb (or_uid r) (or_uid add)) eqn:E.
  - cbn [map]. apply String.eqb_eq in E. rewrite E. f_equal. exact IH.
  - cbn [map]. f_equal. exact IH.
Qed.

Theorem add_owner_ref_uids l add :
  map or_uid (add_owner_ref l add) =
  if existsb (fun r => String.eqb (or_uid r) (or_uid add)) l
  then map or_uid l else map or_uid l ++ [or_uid add].
Proof.
  unfold add_owner_ref. induction l as [|r l IH]; [reflexivity|].
  cbn [add_owner_ref_aux existsb]. destruct (String.eqb (or_uid r) (or_uid add)) eqn:E.
  - cbn [orb map]. apply String.eqb_eq in E. rewrite E. f_equal.
    apply add_owner_ref_aux_uids_found.
  - cbn [orb map]. rewrite IH.
    destruct (existsb (fun r0 => String.eqb (or_uid r0) (or_uid add)) l); reflexivity.
Qed.

Lemma NoDup_app_tail {A} (l : list A) (x : A) : NoDup l -> ~ In x l -> NoDup (l ++ [x]).
Proof.
  intros Hnd Hx. induction Hnd as [|y l Hy Hnd IH].
  - cbn [app]. apply NoDup_cons; [intros []|apply NoDup_nil].
  - cbn [app]. apply NoDup_cons.
    + intros Hin. apply in_app_or in Hin. destruct Hin as [Hin | [Hin | []]].
      * contradiction.
      * subst y. apply Hx. left. reflexivity.
    + apply IH. intros Hin. apply Hx. right. exact Hin.
Qed.

Theorem add_owner_ref_NoDup l add :
  NoDup (map or_uid l) -> NoDup (map or_uid (add_owner_ref l add)).
Proof.
  intros Hnd. rewrite add_owner_ref_uids.
  destruct (existsb (fun r => String.eqb (or_uid r) (or_uid add)) l) eqn:Hex; [exact Hnd|].
  apply NoDup_app_tail.
  - exact Hnd.
  - intros Hin. apply in_map_iff in Hin. destruct Hin as [r [Hu Hr]].
    assert (Hex' : existsb (fun r => String.eqb (or_uid r) (or_uid add)) l = true).
    { apply existsb_exists. exists r. split; [exact Hr|]. apply String.eqb_eq. exact Hu. }
    congruence.
Qed.

(* ================================================================== *)
(* 3. adoption only after the live recheck                             *)
(* ================================================================== *)

(* a history-aware Hoare logic on programs: the history is what [run]
   accumulates (most recent first) *)
Definition hist := list (call * answer).

Inductive hist_post {R} (Phi : hist -> call -> Prop) (Q : hist -> R -> Prop) : hist -> prog R -> Prop :=
| HP_ret h r : Q h r -> hist_post Phi Q h (Ret r)
| HP_do h c k : Phi h c -> (forall a, hist_post Phi Q ((c, a) :: h) (k a)) -> hist_post Phi Q h (Do c k).

Lemma hist_post_bind {A B} Phi (Q : hist -> A -> Prop) (Q' : hist -> B -> Prop) h (p : prog A) (f : A -> prog B) :
  hist_post Phi Q h p ->
  (forall h' a, Q h' a -> hist_post Phi Q' h' (f a)) ->
  hist_post Phi Q' h (bind p f).
Proof.
  intros Hp Hf. induction Hp as [h r Hq | h c k Hc Hk IH].
  - cbn [bind]. apply Hf. exact Hq.
  - cbn [bind]. apply HP_do; [exact Hc | exact IH].
Qed.

Lemma hist_post_weaken {R} (Phi Psi : hist -> call -> Prop) (Q Q' : hist -> R -> Prop) h (p : prog R) :
  (forall h c, Phi h c -> Psi h c) -> (forall h r, Q h r -> Q' h r) ->
  hist_post Phi Q h p -> hist_post Psi Q' h p.
Proof.
  intros H1 H2 Hp. induction Hp as [h r Hq | h c k Hc Hk IH].
  - apply HP_ret. apply H2. exact Hq.
  - apply HP_do; [apply H1; exact Hc | exact IH].
Qed.

Lemma hist_post_foldM {A S} Phi (I : hist -> S -> Prop) (f : S -> A -> prog S) (l : list A) :
  (forall h s a, In a l -> I h s -> hist_post Phi I h (f s a)) ->
  forall h s, I h s -> hist_post Phi I h (foldM f l s).
Proof.
  induction l as [|a l IH]; intros Hf h s Hi.
  - cbn [foldM]. apply HP_ret. exact Hi.
  - cbn [foldM]. apply hist_post_bind with (Q := I).
    + apply Hf; [left; reflexivity | exact Hi].
    + intros h' s' Hi'. apply IH; [|exact Hi'].
      intros h0 s0 a0 Hin. apply Hf. right. exact Hin.
Qed.

Lemma exists_last_or_nil {A} (l : list A) : l = [] \/ exists l' x, l = l' ++ [x].
Proof.
  induction l as [|x l' _] using rev_ind; [left; reflexivity|].
  right. exists l', x. reflexivity.
Qed.

(* adequacy: what hist_post says holds of every run *)
Lemma hist_post_run {R} Phi (Q : hist -> R -> Prop) h (p : prog R) (e : env) :
  hist_post Phi Q h p ->
  Q (fst (run p e h)) (snd (run p e h)) /\
  exists new, fst (run p e h) = new ++ h /\
              forall post c a pre, new = post ++ (c, a) :: pre -> Phi (pre ++ h) c.
Proof.
  intros Hp. induction Hp as [h r Hq | h c k Hc Hk IH].
  - cbn [run fst snd]. split; [exact Hq|]. exists []. split; [reflexivity|].
    intros post c a pre Heq. destruct post; discriminate.
  - cbn [run]. destruct (IH (e h c)) as [Hq [new [Hnew Hall]]].
    split; [exact Hq|]. exists (new ++ [(c, e h c)]). split.
    + rewrite Hnew. rewrite <- app_assoc. reflexivity.
    + intros post c0 a0 pre Heq.
      destruct (exists_last_or_nil pre) as [Hpre | [pre' [x Hpre]]].
      * subst pre. apply app_inj_tail in Heq. destruct Heq as [_ Heq]. injection Heq as Hc0 _. subst c0.
        cbn [app]. exact Hc.
      * subst pre. rewrite app_comm_cons, app_assoc in Heq.
        apply app_inj_tail in Heq. destruct Heq as [Heq Hx]. subst x.
        rewrite <- app_assoc. cbn [app]. apply (Hall post c0 a0 pre'). exact Heq.
Qed.

(* h' extends h by calls that all satisfy T *)
Definition ext (T : call -> Prop) (h h' : hist) : Prop :=
  exists new, h' = new ++ h /\ Forall (fun ca => T (fst ca)) new.

Lemma ext_refl (T : call -> Prop) h : ext T h h.
Proof. exists []. split; [reflexivity | apply Forall_nil]. Qed.

Lemma ext_cons (T : call -> Prop) c a h h' : T c -> ext T ((c, a) :: h) h' -> ext T h h'.
Proof.
  intros Hc [new [Heq Hall]]. exists (new ++ [(c, a)]). split.
  - rewrite <- app_assoc. exact Heq.
  - apply Forall_app. split; [exact Hall|]. apply Forall_cons; [exact Hc | apply Forall_nil].
Qed.

Lemma ext_step (T : call -> Prop) c a h : T c -> ext T h ((c, a) :: h).
Proof. intros Hc. apply ext_cons with (c := c) (a := a); [exact Hc | apply ext_refl]. Qed.

Lemma ext_incl (T : call -> Prop) h h' : ext T h h' -> incl h h'.
Proof. intros [new [Heq _]]. subst h'. apply incl_appr. apply incl_refl. Qed.

Lemma ext_weaken (T T' : call -> Prop) h h' : (forall c, T c -> T' c) -> ext T h h' -> ext T' h h'.
Proof.
  intros Himp [new [Heq Hall]]. exists new. split; [exact Heq|].
  eapply Forall_impl; [|exact Hall]. intros ca. apply Himp.
Qed.

(* the requests atomic_update may send to its target *)
Definition au_call res ns name status (cl : call) : Prop :=
  cl = CApi (rq_get res ns name) \/ exists upd, cl = CApi (rq_put status res ns name upd).

(* what atomic_update can send: GETs of the target, and PUTs of [f cur]
   for a [cur] the server returned to one of those GETs with the expected uid *)
Lemma atomic_update_hist (Phi : hist -> call -> Prop) (Q : hist -> apires -> Prop)
      res ns name uid status (f : json -> option json) :
  forall fuel h,
  (forall h', ext (au_call res ns name status) h h' -> Phi h' (CApi (rq_get res ns name))) ->
  (forall h' cur upd, ext (au_call res ns name status) h h' ->
                      In (CApi (rq_get res ns name), AObj cur) h' ->
                      get_uid cur = uid -> f cur = Some upd ->
                      Phi h' (CApi (rq_put status res ns name upd))) ->
  (forall h' r, ext (au_call res ns name status) h h' -> Q h' r) ->
  hist_post Phi Q h (atomic_update fuel res ns name uid status f).
Proof.
  set (T := au_call res ns name status).
  assert (Tget : T (CApi (rq_get res ns name))) by (left; reflexivity).
  assert (Tput : forall upd, T (CApi (rq_put status res ns name upd))) by (intros upd; right; exists upd; reflexivity).
  induction fuel as [|n IH]; intros h Hget Hput Hq.
  - cbn [atomic_update]. apply HP_ret. apply Hq. apply ext_refl.
  - cbn [atomic_update]. unfold api at 1. cbn [bind].
    apply HP_do; [apply Hget; apply ext_refl|].
    intros a.
    assert (Hq1 : forall r, Q ((CApi (rq_get res ns name), a) :: h) r).
    { intros r. apply Hq. apply ext_step. exact Tget. }
    assert (Hretry : hist_post Phi Q ((CApi (rq_get res ns name), a) :: h)
                       (match n with O => Ret (RErr EConflict)
                                | S _ => atomic_update n res ns name uid status f end)).
    { destruct n as [|n'].
      - apply HP_ret. apply Hq1.
      - apply IH.
        + intros h' Hi. apply Hget. apply ext_cons in Hi; [exact Hi | exact Tget].
        + intros h' cur upd Hi. apply Hput. apply ext_cons in Hi; [exact Hi | exact Tget].
        + intros h' r Hi. apply Hq. apply ext_cons in Hi; [exact Hi | exact Tget]. }
    destruct a as [cur|e|b| |z]; cbn [bind]; try (apply HP_ret; apply Hq1).
    + destruct (negb (String.eqb (get_uid cur) uid)) eqn:Hu; [apply HP_ret; apply Hq1|].
      apply Bool.negb_false_iff in Hu. apply String.eqb_eq in Hu.
      destruct (f cur) as [upd|] eqn:Hf; [|apply HP_ret; apply Hq1].
      unfold api at 1. cbn [bind].
      apply HP_do.
      { apply Hput with (cur := cur); [apply ext_step; exact Tget | left; reflexivity | exact Hu | exact Hf]. }
      intros a2.
      assert (Hq2 : forall r, Q ((CApi (rq_put status res ns name upd), a2) :: (CApi (rq_get res ns name), AObj cur) :: h) r).
      { intros r. apply Hq. apply ext_cons with (c := CApi (rq_get res ns name)) (a := AObj cur); [exact Tget|].
        apply ext_step. apply Tput. }
      assert (Hretry2 : hist_post Phi Q
                 ((CApi (rq_put status res ns name upd), a2) :: (CApi (rq_get res ns name), AObj cur) :: h)
                 (match n with O => Ret (RErr EConflict)
                          | S _ => atomic_update n res ns name uid status f end)).
      { destruct n as [|n'].
        - apply HP_ret. apply Hq2.
        - apply IH.
          + intros h' Hi. apply Hget.
            apply ext_cons in Hi; [|apply Tput]. apply ext_cons in Hi; [exact Hi | exact Tget].
          + intros h' cur' upd' Hi. apply Hput.
            apply ext_cons in Hi; [|apply Tput]. apply ext_cons in Hi; [exact Hi | exact Tget].
          + intros h' r Hi. apply Hq.
            apply ext_cons in Hi; [|apply Tput]. apply ext_cons in Hi; [exact Hi | exact Tget]. }
      destruct a2 as [o2|e2|b2| |z2]; cbn [bind]; try (apply HP_ret; apply Hq2).
      destruct e2; try (apply HP_ret; apply Hq2). exact Hretry2.
    + destruct e; try (apply HP_ret; apply Hq1). exact Hretry.
Qed.

Section Claim.
  Variables (c : ccfg) (k : child_cfg) (parent : json) (sel : selector).

  Definition cstate := (option bool * list json * bool)%type.

  (* the uncached GET of the parent done by canAdoptFunc *)
  Definition parent_get : call :=
    CApi (rq_get (p_res c) (eff_ns (p_namespaced c) (get_ns parent)) (get_name parent)).

  (* the recheck was made and passed: the live parent has our uid and is not being deleted *)
  Definition passed (h : hist) : Prop :=
    exists fresh, In (parent_get, AObj fresh) h /\
                  get_uid fresh = get_uid parent /\ is_deleting fresh = false.

  Definition our_ref : oref :=
    controller_ref (p_api_version c) (p_kind c) (get_name parent) (get_uid parent).
  Definition adopt_edit (cur : json) : json :=
    set_owner_refs cur (add_owner_ref (get_owner_refs cur) our_ref).
  Definition release_edit (cur : json) : json :=
    set_owner_refs cur (remove_owner_ref (get_owner_refs cur) (get_uid parent)).

  Definition child_ns (o : json) : string := eff_ns (ch_namespaced k) (get_ns o).
  Definition child_get (o : json) : call := CApi (rq_get (ch_res k) (child_ns o) (get_name o)).
  Definition child_put (o body : json) : call :=
    CApi (rq_put false (ch_res k) (child_ns o) (get_name o) body).
  Definition child_call (o : json) : call -> Prop :=
    au_call (ch_res k) (child_ns o) (get_name o) false.

  (* a request of the adoption / release of o: the GET of the child, or the
     PUT of the edit of an object the server returned for that GET, with o's uid *)
  Definition edit_call (edit : json -> json) (o : json) (h : hist) (cl : call) : Prop :=
    cl = child_get o \/
    exists cur, In (child_get o, AObj cur) h /\ get_uid cur = get_uid o /\ cl = child_put o (edit cur).

  Definition decision (o : json) : claim_action :=
    claim_decision (get_uid parent) (is_deleting parent) sel o.

  Lemma passed_incl h h' : incl h h' -> passed h -> passed h'.
  Proof.
    intros Hi [fresh [Hin Hrest]]. exists fresh. split; [apply Hi; exact Hin | exact Hrest].
  Qed.

  (* ---- the three states of the once-cell ---- *)

  (* not yet asked: the first call is the GET of the parent *)
  Theorem C04_adopt_first_asks claimed failed o :
    decision o = ClAdopt ->
    exists kont, claim_one c k parent sel (None, claimed, failed) o = Do parent_get kont.
  Proof.
    intros Hd. unfold decision in Hd. unfold claim_one. rewrite Hd.
    unfold can_adopt_check, api. cbn [bind]. eexists. reflexivity.
  Qed.

  (* asked and refused: no call at all, the state records a failure *)
  Theorem C04_adopt_refused_no_call claimed failed o :
    decision o = ClAdopt ->
    claim_one c k parent sel (Some false, claimed, failed) o = Ret (Some false, claimed, true).
  Proof.
    intros Hd. unfold decision in Hd. unfold claim_one. rewrite Hd. reflexivity.
  Qed.

  (* asked and passed: straight to the atomic update of the child *)
  Theorem C04_adopt_passed_no_recheck claimed failed o :
    decision o = ClAdopt ->
    claim_one c k parent sel (Some true, claimed, failed) o =
    (r <~ atomic_update retry_steps (ch_res k) (child_ns o) (get_name o) (get_uid o) false
            (fun cur => Some (adopt_edit cur)) ;;
     match r with
     | ROk _ => Ret (Some true, claimed ++ [o], failed)
     | RErr ENotFound => Ret (Some true, claimed, failed)
     | RErr _ => Ret (Some true, claimed, true)
     end).
  Proof.
    intros Hd. unfold decision in Hd. unfold claim_one. rewrite Hd. reflexivity.
  Qed.

  (* the atomic update that writes our controller reference: every request is
     the child GET or the PUT of the adoption edit, and the recheck has passed *)
  Definition adopt_prog (o : json) (claimed : list json) (failed : bool) : prog cstate :=
    r <~ atomic_update retry_steps (ch_res k) (child_ns o) (get_name o) (get_uid o) false
           (fun cur => Some (adopt_edit cur)) ;;
    match r with
    | ROk _ => Ret (Some true, claimed ++ [o], failed)
    | RErr ENotFound => Ret (Some true, claimed, failed)
    | RErr _ => Ret (Some true, claimed, true)
    end.

  Lemma adopt_prog_tight o h claimed failed :
    passed h ->
    hist_post (fun h cl => edit_call adopt_edit o h cl /\ passed h)
              (fun h st => fst (fst st) = Some true /\ passed h)
              h (adopt_prog o claimed failed).
  Proof.
    intros Hp. unfold adopt_prog.
    apply hist_post_bind with (Q := fun h' (_ : apires) => passed h').
    - apply atomic_update_hist.
      + intros h' He. split.
        * left. reflexivity.
        * eapply passed_incl; [eapply ext_incl; exact He | exact Hp].
      + intros h' cur upd He Hin Hu Hf. injection Hf as Hf. subst upd. split.
        * right. exists cur. split; [exact Hin|]. split; [exact Hu | reflexivity].
        * eapply passed_incl; [eapply ext_incl; exact He | exact Hp].
      + intros h' r He. eapply passed_incl; [eapply ext_incl; exact He | exact Hp].
    - intros h' r Hp'. destruct r as [x|e]; [apply HP_ret; split; [reflexivity | exact Hp']|].
      destruct e; apply HP_ret; (split; [reflexivity | exact Hp']).
  Qed.

  (* without assuming anything about the history: only child requests *)
  Lemma adopt_prog_calls o h claimed failed :
    hist_post (fun h cl => edit_call adopt_edit o h cl) (fun _ _ => True)
              h (adopt_prog o claimed failed).
  Proof.
    unfold adopt_prog.
    apply hist_post_bind with (Q := fun _ (_ : apires) => True).
    - apply atomic_update_hist.
      + intros h' He. left. reflexivity.
      + intros h' cur upd He Hin Hu Hf. injection Hf as Hf. subst upd.
        right. exists cur. split; [exact Hin|]. split; [exact Hu | reflexivity].
      + intros h' r He. exact I.
    - intros h' r _. destruct r as [x|e]; [apply HP_ret; exact I|].
      destruct e; apply HP_ret; exact I.
  Qed.

  (* one orphan, once-cell empty: the parent GET comes first and only then,
     and any request on the child comes after a passed recheck *)
  Theorem C04_adopt_one_after_recheck claimed failed o :
    decision o = ClAdopt ->
    hist_post (fun h cl => (h = [] /\ cl = parent_get) \/
                           (edit_call adopt_edit o h cl /\ passed h))
              (fun h st => (fst (fst st) = Some true /\ passed h) \/
                           (st = (Some false, claimed, true)))
              [] (claim_one c k parent sel (None, claimed, failed) o).
  Proof.
    intros Hd. unfold decision in Hd. unfold claim_one. rewrite Hd.
    unfold can_adopt_check, api. cbn [bind].
    apply HP_do; [left; split; reflexivity|].
    intros a. destruct a as [fresh|e|b| |z]; cbn [bind negb];
      try (apply HP_ret; right; reflexivity).
    destruct (String.eqb (get_uid fresh) (get_uid parent) && negb (is_deleting fresh)) eqn:Hchk;
      cbn [negb]; [|apply HP_ret; right; reflexivity].
    apply Bool.andb_true_iff in Hchk. destruct Hchk as [Hu Hdel].
    apply String.eqb_eq in Hu. apply Bool.negb_true_iff in Hdel.
    eapply hist_post_weaken; [| |apply (adopt_prog_tight o _ claimed failed)].
    - intros h cl Hc. right. exact Hc.
    - intros h st Hq. left. exact Hq.
    - exists fresh. split; [left; reflexivity|]. split; assumption.
  Qed.

  (* once-cell Some true: no parent GET is repeated, only requests on the child *)
  Theorem C04_adopt_passed_calls claimed failed o h :
    decision o = ClAdopt ->
    hist_post (fun h cl => edit_call adopt_edit o h cl) (fun _ _ => True)
              h (claim_one c k parent sel (Some true, claimed, failed) o).
  Proof.
    intros Hd. rewrite C04_adopt_passed_no_recheck by exact Hd.
    apply adopt_prog_calls.
  Qed.

  (* ---- the protocol as a history-aware triple ---- *)

  (* N is an abstract "nothing asked yet" marker, instantiated below *)
  Variable N : hist -> Prop.

  Definition inv (h : hist) (st : cstate) : Prop :=
    match fst (fst st) with
    | None => N h
    | Some true => passed h
    | Some false => snd st = true
    end.

  Definition PhiO (o : json) (h : hist) (cl : call) : Prop :=
    (cl = parent_get /\ N h) \/
    (decision o = ClRelease /\ edit_call release_edit o h cl) \/
    (decision o = ClAdopt /\ edit_call adopt_edit o h cl /\ passed h).

  Lemma N_ext o h h' :
    (forall h cl a, N h -> child_call o cl -> N ((cl, a) :: h)) ->
    N h -> ext (child_call o) h h' -> N h'.
  Proof.
    intros Hstep Hn [new [Heq Hall]]. subst h'.
    induction Hall as [|[cl a] new Hcl Hall IH].
    - exact Hn.
    - cbn [app]. apply Hstep; [exact IH | exact Hcl].
  Qed.

  Lemma inv_ext o h h' once cl cl' f f' :
    (forall h cl a, N h -> child_call o cl -> N ((cl, a) :: h)) ->
    inv h (once, cl, f) -> ext (child_call o) h h' -> (f = true -> f' = true) ->
    inv h' (once, cl', f').
  Proof.
    intros Hstep Hi He Hf. unfold inv in *. cbn [fst snd] in *.
    destruct once as [[|]|].
    - eapply passed_incl; [eapply ext_incl; exact He | exact Hi].
    - apply Hf. exact Hi.
    - eapply N_ext; [exact Hstep | exact Hi | exact He].
  Qed.

  Lemma adopt_update_triple o h claimed failed :
    decision o = ClAdopt -> passed h ->
    hist_post (PhiO o) inv h (adopt_prog o claimed failed).
  Proof.
    intros Hd Hp.
    eapply hist_post_weaken; [| |apply (adopt_prog_tight o h claimed failed Hp)].
    - intros h' cl [Hc Hp']. right. right. split; [exact Hd|]. split; assumption.
    - intros h' [[once cl] f] [Ho Hp']. cbn [fst snd] in Ho. subst once. exact Hp'.
  Qed.

  Theorem claim_one_triple o :
    (forall h cl a, N h -> child_call o cl -> N ((cl, a) :: h)) ->
    forall h st, inv h st -> hist_post (PhiO o) inv h (claim_one c k parent sel st o).
  Proof.
    intros Hstep h [[once claimed] failed] Hi.
    unfold claim_one.
    destruct (claim_decision (get_uid parent) (is_deleting parent) sel o) eqn:Hd.
    - apply HP_ret. exact Hi.
    - apply HP_ret. exact Hi.
    - (* release *)
      apply hist_post_bind with (Q := fun h' (_ : apires) => ext (child_call o) h h').
      + apply atomic_update_hist.
        * intros h' He. right. left. split; [exact Hd|]. left. reflexivity.
        * intros h' cur upd He Hin Hu Hf. injection Hf as Hf. subst upd.
          right. left. split; [exact Hd|]. right. exists cur.
          split; [exact Hin|]. split; [exact Hu | reflexivity].
        * intros h' r He. exact He.
      + intros h' r He.
        destruct r as [x|e].
        * apply HP_ret. eapply inv_ext; [exact Hstep | exact Hi | exact He | auto].
        * destruct e; apply HP_ret;
            (eapply inv_ext; [exact Hstep | exact Hi | exact He | auto]).
    - (* adopt *)
      destruct once as [b|].
      + cbn [bind]. destruct b; cbn [negb].
        * apply adopt_update_triple; [exact Hd | exact Hi].
        * apply HP_ret. reflexivity.
      + unfold can_adopt_check, api. cbn [bind].
        apply HP_do; [left; split; [reflexivity | exact Hi]|].
        intros a. destruct a as [fresh|e|b| |z]; cbn [bind negb];
          try (apply HP_ret; reflexivity).
        destruct (String.eqb (get_uid fresh) (get_uid parent) && negb (is_deleting fresh)) eqn:Hchk;
          cbn [negb]; [|apply HP_ret; reflexivity].
        apply Bool.andb_true_iff in Hchk. destruct Hchk as [Hu Hdel].
        apply String.eqb_eq in Hu. apply Bool.negb_true_iff in Hdel.
        apply adopt_update_triple; [exact Hd|].
        exists fresh. split; [left; reflexivity|]. split; assumption.
  Qed.
End Claim.

(* ---- the whole manager: foldM (claim_one ...) over the cached objects ---- *)

(* every request of a claiming round is the parent recheck, a release of an
   object whose decision is ClRelease, or an adoption request for an object
   whose decision is ClAdopt, the latter only after the recheck passed *)
Theorem C04_adopt_only_after_recheck c k parent sel all :
  hist_post
    (fun h cl =>
       cl = parent_get c parent \/
       exists o, In o all /\
         ((decision parent sel o = ClRelease /\ edit_call k (release_edit parent) o h cl) \/
          (decision parent sel o = ClAdopt /\ edit_call k (adopt_edit c parent) o h cl /\
           passed c parent h)))
    (fun h st => match fst (fst st) with
                 | Some true => passed c parent h
                 | Some false => snd st = true
                 | None => True
                 end)
    [] (foldM (claim_one c k parent sel) all (None, [], false)).
Proof.
  apply hist_post_foldM with (I := inv c parent (fun _ => True)); [|exact I].
  intros h st o Hin Hi.
  eapply hist_post_weaken; [| |apply (claim_one_triple c k parent sel (fun _ => True) o)].
  - intros h' cl [[Hc _] | [[Hd Hc] | [Hd [Hc Hp]]]].
    + left. exact Hc.
    + right. exists o. split; [exact Hin|]. left. split; assumption.
    + right. exists o. split; [exact Hin|]. right. split; [exact Hd|]. split; assumption.
  - intros h' st' Hi'. exact Hi'.
  - intros h' cl a _ _. exact I.
  - exact Hi.
Qed.

(* at most one live recheck per manager (when no cached child is addressed
   exactly like the parent, so that the two GETs cannot be confused) *)
Definition nocheck (c : ccfg) (parent : json) (h : hist) : Prop :=
  forall a, ~ In (parent_get c parent, a) h.

Theorem C04_one_recheck_per_manager c k parent sel all :
  (forall o, In o all -> child_get k o <> parent_get c parent) ->
  hist_post (fun h cl => cl = parent_get c parent -> nocheck c parent h)
            (fun _ _ => True)
            [] (foldM (claim_one c k parent sel) all (None, [], false)).
Proof.
  intros Hdist.
  eapply hist_post_weaken with (Q := inv c parent (nocheck c parent));
    [intros h cl Hc; exact Hc | intros h r _; exact I |].
  apply hist_post_foldM; [|intros a []].
  intros h st o Hin Hi.
  assert (Hne : forall cl, child_call k o cl -> cl <> parent_get c parent).
  { intros cl [Hcl | [upd Hcl]] Heq; subst cl.
    - apply (Hdist o Hin). exact Heq.
    - discriminate Heq. }
  eapply hist_post_weaken; [| |apply (claim_one_triple c k parent sel (nocheck c parent) o)].
  - intros h' cl [[Hc Hn] | [[Hd Hc] | [Hd [Hc Hp]]]] Heq.
    + exact Hn.
    + exfalso. subst cl. destruct Hc as [Hc | [cur [_ [_ Hc]]]].
      * apply (Hdist o Hin). symmetry. exact Hc.
      * discriminate Hc.
    + exfalso. subst cl. destruct Hc as [Hc | [cur [_ [_ Hc]]]].
      * apply (Hdist o Hin). symmetry. exact Hc.
      * discriminate Hc.
  - intros h' st' Hi'. exact Hi'.
  - intros h' cl a Hn Hcl a' [Hin' | Hin'].
    + injection Hin' as Hc _. apply (Hne cl Hcl). exact Hc.
    + apply (Hn a'). exact Hin'.
  - exact Hi.
Qed.

(* in every run of a claiming round the parent is re-read at most once *)
Corollary C04_one_recheck_in_run c k parent sel all (e : env) :
  (forall o, In o all -> child_get k o <> parent_get c parent) ->
  forall post a pre a',
    fst (run (foldM (claim_one c k parent sel) all (None, [], false)) e []) =
      post ++ (parent_get c parent, a) :: pre ->
    ~ In (parent_get c parent, a') pre.
Proof.
  intros Hdist post a pre a' Hrun.
  destruct (hist_post_run _ _ _ _ e (C04_one_recheck_per_manager c k parent sel all Hdist))
    as [_ [new [Hnew Hall]]].
  rewrite app_nil_r in Hnew. rewrite Hnew in Hrun.
  specialize (Hall post (parent_get c parent) a pre Hrun eq_refl).
  rewrite app_nil_r in Hall. apply Hall.
Qed.

(* ================================================================== *)
(* 4. the label invariant on desired children                          *)
(* ================================================================== *)

Definition is_jstr (kv : string * json) : bool := match snd kv with JStr _ => true | _ => false end.
Definition unjstr (kv : string * json) : string * string :=
  (fst kv, match snd kv with JStr s => s | _ => "" end).
Definition mkjstr (kv : string * string) : string * json := (fst kv, JStr (snd kv)).

(* metadata.labels read strictly: absent = empty, otherwise a map of strings *)
Definition strict_labels (d : json) : option smap :=
  match nested_get (obj_map d) ["metadata"; "labels"] with
  | NFound (JObj m) => if forallb is_jstr m then Some (map unjstr m) else None
  | NMissing => Some []
  | _ => None
  end.

Lemma strict_labels_get d ls : strict_labels d = Some ls -> get_labels d = ls.
Proof.
  unfold strict_labels, get_labels, string_map_at.
  destruct (nested_get (obj_map d) ["metadata"; "labels"]) as [v| |].
  - destruct v; try discriminate.
    change (fun kv : string * json => match snd kv with JStr _ => true | _ => false end) with is_jstr.
    change (fun kv : string * json => (fst kv, match snd kv with JStr s => s | _ => "" end)) with unjstr.
    destruct (forallb is_jstr m); [|discriminate].
    intros H. injection H as H. exact H.
  - intros H. injection H as H. exact H.
  - discriminate.
Qed.

(* the label defaulting of one desired child *)
Definition label_step (c : ccfg) (parent d : json) (ls : smap) : json * smap :=
  if gen_selector c then
    match slookup "controller-uid" ls with
    | Some _ => (d, ls)
    | None =>
        let ls2 := ls ++ [("controller-uid", get_uid parent)] in
        (match d with
         | JObj m => match nested_set m ["metadata"; "labels"] (JObj (map mkjstr ls2)) with
                     | Some m' => JObj m' | None => d end
         | _ => d end, ls2)
    end
  else (d, ls).

Lemma enforce_labels_cons c parent sel d ds :
  enforce_labels c parent sel (d :: ds) =
  match strict_labels d with
  | None => None
  | Some ls =>
      let '(d', ls') := label_step c parent d ls in
      if sel_matches sel ls' then
        match enforce_labels c parent sel ds with
        | Some r => Some (d' :: r) | None => None end
      else None
  end.
Proof.
  cbn [enforce_labels]. unfold strict_labels.
  destruct (nested_get (obj_map d) ["metadata"; "labels"]) as [v| |]; reflexivity.
Qed.

Lemma labels_roundtrip (ls : smap) :
  forallb is_jstr (map mkjstr ls) = true /\ map unjstr (map mkjstr ls) = ls.
Proof.
  induction ls as [|[a b] ls [IH1 IH2]]; [split; reflexivity|].
  cbn [map forallb]. split.
  - unfold is_jstr at 1. cbn [mkjstr snd]. exact IH1.
  - unfold unjstr at 1. cbn [mkjstr fst snd]. rewrite IH2. reflexivity.
Qed.

Lemma nested_get_set2 m a b v m' :
  nested_set m [a; b] v = Some m' -> nested_get m' [a; b] = NFound v.
Proof.
  cbn [nested_set]. destruct (alookup a m) as [x|] eqn:Ha.
  - destruct x; try discriminate. intros H. injection H as H. subst m'.
    cbn [nested_get]. rewrite alookup_aset_same. rewrite alookup_aset_same. reflexivity.
  - intros H. injection H as H. subst m'.
    cbn [nested_get]. rewrite alookup_aset_same. cbn [aset alookup].
    rewrite String.eqb_refl. reflexivity.
Qed.

(* SetLabels silently does nothing when metadata is present and not a map
   (in particular: null) *)
Definition meta_settable (d : json) : bool :=
  match d with
  | JObj m => match alookup "metadata" m with
              | None | Some (JObj _) => true
              | Some _ => false end
  | _ => false
  end.

Definition labels_settable (c : ccfg) (ds : list json) : bool :=
  negb (gen_selector c) || forallb meta_settable ds.

Lemma slookup_app_none k (ls : smap) v :
  slookup k ls = None -> slookup k (ls ++ [(k, v)]) = Some v.
Proof.
  induction ls as [|[k' v'] ls IH]; cbn [app slookup].
  - rewrite String.eqb_refl. reflexivity.
  - destruct (String.eqb k k'); [discriminate | exact IH].
Qed.

Definition uid_label_ok (parent d d' : json) : Prop :=
  exists v, slookup "controller-uid" (get_labels d') = Some v /\
            (slookup "controller-uid" (get_labels d) = Some v \/
             (slookup "controller-uid" (get_labels d) = None /\ v = get_uid parent)).

Definition label_ok (c : ccfg) (parent : json) (sel : selector) (d d' : json) : Prop :=
  strict_labels d' = Some (get_labels d') /\
  sel_matches sel (get_labels d') = true /\
  (gen_selector c = true -> uid_label_ok parent d d').

Lemma label_step_spec c parent d ls d' ls' :
  strict_labels d = Some ls ->
  label_step c parent d ls = (d', ls') ->
  negb (gen_selector c) || meta_settable d = true ->
  strict_labels d' = Some ls' /\ (gen_selector c = true -> uid_label_ok parent d d').
Proof.
  intros Hs Hstep Hset. unfold label_step in Hstep.
  pose proof (strict_labels_get d ls Hs) as Hg.
  destruct (gen_selector c) eqn:Hgen.
  - cbn [negb orb] in Hset.
    destruct (slookup "controller-uid" ls) as [v|] eqn:Hl.
    + injection Hstep as Hd Hl'. subst d' ls'. split; [exact Hs|].
      intros _. exists v. rewrite Hg. split; [exact Hl | left; exact Hl].
    + apply pair_equal_spec in Hstep. destruct Hstep as [Hd Hl']. subst ls'.
      set (ls2 := ls ++ [("controller-uid", get_uid parent)]) in *.
      assert (Hs' : strict_labels d' = Some ls2).
      { destruct d as [| | | | | | |m]; try discriminate Hset.
        unfold meta_settable in Hset.
        assert (Hok : exists m', nested_set m ["metadata"; "labels"] (JObj (map mkjstr ls2)) = Some m').
        { cbn [nested_set]. destruct (alookup "metadata" m) as [x|].
          - destruct x; try discriminate Hset. eexists. reflexivity.
          - eexists. reflexivity. }
        destruct Hok as [m' Hm']. rewrite Hm' in Hd. subst d'.
        unfold strict_labels. cbn [obj_map]. rewrite (nested_get_set2 _ _ _ _ _ Hm').
        destruct (labels_roundtrip ls2) as [R1 R2]. rewrite R1, R2. reflexivity. }
      split; [exact Hs'|]. intros _. exists (get_uid parent).
      rewrite (strict_labels_get d' ls2 Hs'), Hg. split.
      * apply slookup_app_none. exact Hl.
      * right. split; [exact Hl | reflexivity].
  - injection Hstep as Hd Hl'. subst d' ls'. split; [exact Hs | discriminate].
Qed.

(* YOUR WORDING: "enforce_labels c parent sel ds = Some ds' -> every element of
   ds' has strict string labels ls with sel_matches sel ls = true ..."
   is false for a desired child whose metadata is present but not a map
   (e.g. null) under generateSelector: SetLabels fails silently, the selector
   is checked against the labels that were meant to be written. *)
Definition cx_cfg : ccfg :=
  mkCfg "cc" "v1" "P" "ps" true true true sel_everything [] true false [] false false [["spec"]] [].
Definition cx_parent : json := JObj [("metadata", JObj [("uid", JStr "p")])].
Definition cx_sel : selector := SelReqs [mkReq "controller-uid" OpIn ["p"]].
Definition cx_child : json := JObj [("metadata", JNull)].

Example C04_label_invariant_counterexample :
  enforce_labels cx_cfg cx_parent cx_sel [cx_child] = Some [cx_child] /\
  make_selector cx_cfg cx_parent = Some cx_sel /\
  get_labels cx_child = [] /\
  sel_matches cx_sel (get_labels cx_child) = false /\
  labels_settable cx_cfg [cx_child] = false.
Proof. vm_compute. repeat split. Qed.

(* the closest true statement: with the boolean side condition *)
Theorem C04_label_invariant_partial c parent sel ds ds' :
  labels_settable c ds = true ->
  enforce_labels c parent sel ds = Some ds' ->
  Forall2 (label_ok c parent sel) ds ds'.
Proof.
  unfold labels_settable. revert ds'. induction ds as [|d ds IH]; intros ds' Hset Henf.
  - cbn [enforce_labels] in Henf. injection Henf as Henf. subst ds'. apply Forall2_nil.
  - rewrite enforce_labels_cons in Henf.
    destruct (strict_labels d) as [ls|] eqn:Hs; [|discriminate].
    destruct (label_step c parent d ls) as [d' ls'] eqn:Hstep.
    destruct (sel_matches sel ls') eqn:Hm; [|discriminate].
    destruct (enforce_labels c parent sel ds) as [r|] eqn:Hr; [|discriminate].
    injection Henf as Henf. subst ds'.
    assert (Hset1 : negb (gen_selector c) || meta_settable d = true).
    { destruct (gen_selector c); [|reflexivity]. cbn [negb orb forallb] in *.
      apply Bool.andb_true_iff in Hset. destruct Hset as [H _]. exact H. }
    assert (Hset2 : negb (gen_selector c) || forallb meta_settable ds = true).
    { destruct (gen_selector c); [|reflexivity]. cbn [negb orb forallb] in *.
      apply Bool.andb_true_iff in Hset. destruct Hset as [_ H]. exact H. }
    destruct (label_step_spec c parent d ls d' ls' Hs Hstep Hset1) as [Hs' Hu].
    apply Forall2_cons.
    + unfold label_ok. rewrite (strict_labels_get d' ls' Hs').
      split; [exact Hs'|]. split; [exact Hm | exact Hu].
    + apply IH; [exact Hset2 | reflexivity].
Qed.

(* the three parts of the requested statement, as corollaries *)
Corollary C04_label_invariant_matches c parent sel ds ds' :
  labels_settable c ds = true ->
  enforce_labels c parent sel ds = Some ds' ->
  Forall (fun d' => exists ls, strict_labels d' = Some ls /\ get_labels d' = ls /\
                               sel_matches sel ls = true) ds'.
Proof.
  intros Hset Henf. pose proof (C04_label_invariant_partial c parent sel ds ds' Hset Henf) as H.
  clear Hset Henf.
  induction H as [|d d' ds ds' [Hs [Hm _]] _ IH]; [apply Forall_nil|].
  apply Forall_cons; [|exact IH]. exists (get_labels d'). repeat split; assumption.
Qed.

Corollary C04_label_invariant_uid c parent sel ds ds' :
  labels_settable c ds = true -> gen_selector c = true ->
  enforce_labels c parent sel ds = Some ds' ->
  Forall2 (uid_label_ok parent) ds ds'.
Proof.
  intros Hset Hgen Henf. pose proof (C04_label_invariant_partial c parent sel ds ds' Hset Henf) as H.
  clear Hset Henf.
  induction H as [|d d' ds ds' [_ [_ Hu]] _ IH]; [apply Forall2_nil|].
  apply Forall2_cons; [apply Hu; exact Hgen | exact IH].
Qed.

(* the length is preserved unconditionally *)
Theorem C04_label_length c parent sel ds ds' :
  enforce_labels c parent sel ds = Some ds' -> List.length ds' = List.length ds.
Proof.
  revert ds'. induction ds as [|d ds IH]; intros ds' Henf.
  - cbn [enforce_labels] in Henf. injection Henf as Henf. subst ds'. reflexivity.
  - rewrite enforce_labels_cons in Henf.
    destruct (strict_labels d) as [ls|]; [|discriminate].
    destruct (label_step c parent d ls) as [d' ls'].
    destruct (sel_matches sel ls'); [|discriminate].
    destruct (enforce_labels c parent sel ds) as [r|]; [|discriminate].
    injection Henf as Henf. subst ds'. cbn [List.length]. f_equal. apply IH. reflexivity.
Qed.

(* without generateSelector nothing is rewritten, and the statement holds as worded *)
Theorem C04_label_invariant_no_gen c parent sel ds ds' :
  gen_selector c = false ->
  enforce_labels c parent sel ds = Some ds' ->
  ds' = ds /\ Forall (fun d => strict_labels d = Some (get_labels d) /\
                               sel_matches sel (get_labels d) = true) ds.
Proof.
  intros Hgen Henf.
  assert (Hset : labels_settable c ds = true) by (unfold labels_settable; rewrite Hgen; reflexivity).
  pose proof (C04_label_invariant_partial c parent sel ds ds' Hset Henf) as H.
  assert (Heq : ds' = ds).
  { clear H Hset. revert ds' Henf. induction ds as [|d ds IH]; intros ds' Henf.
    - cbn [enforce_labels] in Henf. injection Henf as Henf. symmetry. exact Henf.
    - rewrite enforce_labels_cons in Henf.
      destruct (strict_labels d) as [ls|]; [|discriminate].
      unfold label_step in Henf. rewrite Hgen in Henf.
      destruct (sel_matches sel ls); [|discriminate].
      destruct (enforce_labels c parent sel ds) as [r|]; [|discriminate].
      injection Henf as Henf. subst ds'. f_equal. apply IH. reflexivity. }
  split; [exact Heq|]. subst ds'. clear Hset Henf.
  induction H as [|d d' ds ds' [Hs [Hm _]] _ IH]; [apply Forall_nil|].
  apply Forall_cons; [split; assumption | exact IH].
Qed.

(* rejected labels: finish_sync stops before any child or status request *)
Theorem finish_sync_labels_rejected c parent observed r desired0 sel :
  hr_finalized r = false ->
  desired_map (hr_children r) [] = Some desired0 ->
  make_selector c parent = Some sel ->
  enforce_labels c parent sel (uobjects desired0) = None ->
  all_calls (fun cl => forall q, cl <> CApi q) (finish_sync c parent observed r) /\
  forall e, result_of (finish_sync c parent observed r) e = SErr.
Proof.
  intros Hfin Hdm Hsel Henf. unfold finish_sync, result_of. rewrite Hdm, Hfin.
  destruct (positive_number (hr_resync r)).
  - unfold note. cbn [bind]. rewrite Hsel, Henf. split.
    + apply AC_do; [intros q; discriminate|]. intros a. apply AC_ret.
    + intros e. reflexivity.
  - cbn [bind]. rewrite Hsel, Henf. split.
    + apply AC_ret.
    + intros e. reflexivity.
Qed.

Print Assumptions claim_other_controller.
Print Assumptions claim_ours_match.
Print Assumptions claim_ours_nomatch_parent_deleting.
Print Assumptions claim_ours_nomatch_release.
Print Assumptions claim_orphan_parent_deleting.
Print Assumptions claim_orphan_nomatch.
Print Assumptions claim_orphan_deleting.
Print Assumptions claim_orphan_adopt.
Print Assumptions claim_adopt_iff.
Print Assumptions claim_release_iff.
Print Assumptions claim_keep_iff.
Print Assumptions claim_never_steals.
Print Assumptions remove_owner_ref_In.
Print Assumptions remove_owner_ref_absent.
Print Assumptions add_owner_ref_others.
Print Assumptions add_owner_ref_keeps.
Print Assumptions add_owner_ref_from.
Print Assumptions add_owner_ref_contains.
Print Assumptions add_owner_ref_fresh.
Print Assumptions add_owner_ref_uids.
Print Assumptions add_owner_ref_NoDup.
Print Assumptions hist_post_run.
Print Assumptions atomic_update_hist.
Print Assumptions C04_adopt_first_asks.
Print Assumptions C04_adopt_refused_no_call.
Print Assumptions C04_adopt_passed_no_recheck.
Print Assumptions C04_adopt_one_after_recheck.
Print Assumptions C04_adopt_passed_calls.
Print Assumptions claim_one_triple.
Print Assumptions C04_adopt_only_after_recheck.
Print Assumptions C04_one_recheck_per_manager.
Print Assumptions C04_one_recheck_in_run.
Print Assumptions C04_label_invariant_counterexample.
Print Assumptions C04_label_invariant_partial.
Print Assumptions C04_label_invariant_matches.
Print Assumptions C04_label_invariant_uid.
Print Assumptions C04_label_length.
Print Assumptions C04_label_invariant_no_gen.
Print Assumptions finish_sync_labels_rejected.
