(* C12Proofs.v — C12: behaviour under faults.
   1. no answer function (however faulty) makes sync / sync_r panic;
   2. what processNextWorkItem does with the queue for each sync result;
   3. one bad child blocks nothing: in finish_sync the request for every desired
      child whose decision is a create / update / delete, and the delete of every
      observed-but-undesired child, is issued whatever the answers to the other
      requests are, and the status update is always attempted afterwards. *)
From MC Require Import Generated.
From MC Require Import Model.Rolling.
From MC Require Import Proofs.C06Proofs Proofs.C11Proofs Proofs.C13Proofs.
Local Open Scope string_scope.
Local Open Scope list_scope.

(* ================================================================== *)
(* 1. arbitrary (faulty) environments                                  *)
(* ================================================================== *)
Theorem C12_no_panic_on_fault :
  forall c k e, result_of (sync c k) e <> SPanic /\ result_of (sync_r c k) e <> SPanic.
Proof. intros c k e. split; [apply C13_no_panic|apply C13_no_panic_r]. Qed.

(* ================================================================== *)
(* 2. processNextWorkItem                                              *)
(* ================================================================== *)
(* pkg/controller/composite/controller.go:
     key := queue.Get(); defer queue.Done(key)
     if err := sync(key); err != nil { queue.AddRateLimited(key); return }
     queue.Forget(key)
   and inside sync, for a TooManyRequestError: queue.AddAfter(key, after); return nil.
   SPanic: the panic unwinds through processNextWorkItem; only the deferred Done runs
   (by C12_no_panic_on_fault this row is never used). *)
Definition queue_ops (key : string) (r : sync_result) : list (string * string) :=
  match r with
  | SErr => [("AddRateLimited", key); ("Done", key)]
  | SDone => [("Forget", key); ("Done", key)]
  | SRequeue _ => [("AddAfter", key); ("Forget", key); ("Done", key)]
  | SPanic => [("Done", key)]
  end.

Definition readds (op : string) : bool :=
  String.eqb op "AddRateLimited" || String.eqb op "AddAfter" || String.eqb op "Add".

Theorem C12_requeue key :
  (* error: requeued with back-off, the failure count is kept *)
  (In ("AddRateLimited", key) (queue_ops key SErr) /\ ~ In ("Forget", key) (queue_ops key SErr)) /\
  (* success: forgotten and not re-added *)
  (In ("Forget", key) (queue_ops key SDone) /\
   forall op k', In (op, k') (queue_ops key SDone) -> readds op = false) /\
  (* 429: delayed requeue, forgotten, no rate-limited add *)
  (forall n, In ("AddAfter", key) (queue_ops key (SRequeue n)) /\
             In ("Forget", key) (queue_ops key (SRequeue n)) /\
             ~ In ("AddRateLimited", key) (queue_ops key (SRequeue n))) /\
  (* every result: exactly one Done, and it is the last operation *)
  (forall r, exists pre, queue_ops key r = pre ++ [("Done", key)] /\
                         forall k', ~ In ("Done", k') pre) /\
  (* every operation is about the key that was dequeued *)
  (forall r op k', In (op, k') (queue_ops key r) -> k' = key).
Proof.
  split; [|split; [|split; [|split]]].
  - split; [left; reflexivity|]. cbn [queue_ops In]. intros [H|[H|[]]]; discriminate.
  - split; [left; reflexivity|]. cbn [queue_ops In]. intros op k' [H|[H|[]]]; inversion H; reflexivity.
  - intros n. split; [left; reflexivity|]. split; [right; left; reflexivity|].
    cbn [queue_ops In]. intros [H|[H|[H|[]]]]; discriminate.
  - intros r. destruct r as [| |n|].
    + exists [("Forget", key)]. split; [reflexivity|]. intros k' [H|[]]. discriminate.
    + exists [("AddRateLimited", key)]. split; [reflexivity|]. intros k' [H|[]]. discriminate.
    + exists [("AddAfter", key); ("Forget", key)]. split; [reflexivity|]. intros k' [H|[H|[]]]; discriminate.
    + exists []. split; [reflexivity|]. intros k' [].
  - intros r op k' H. destruct r as [| |n|]; cbn [queue_ops In] in H;
      repeat (destruct H as [H|H]; [inversion H; reflexivity|]); destruct H.
Qed.

(* the queue operations of one round, for either controller flavour, in any environment *)
Definition round_ops (key : string) (c : ccfg) (k : cache) (e : env) : list (string * string) :=
  queue_ops key (result_of (sync c k) e).

Corollary C12_round_always_done key c k e :
  exists pre, round_ops key c k e = pre ++ [("Done", key)] /\
              (In ("AddRateLimited", key) pre \/ In ("Forget", key) pre).
Proof.
  unfold round_ops. pose proof (C13_no_panic c k e) as Hp.
  destruct (result_of (sync c k) e) as [| |n|]; [| | |congruence].
  - exists [("Forget", key)]. split; [reflexivity|]. right. left. reflexivity.
  - exists [("AddRateLimited", key)]. split; [reflexivity|]. left. left. reflexivity.
  - exists [("AddAfter", key); ("Forget", key)]. split; [reflexivity|]. right. right. left. reflexivity.
Qed.

(* ================================================================== *)
(* 3. one bad child blocks nothing                                     *)
(* ================================================================== *)

(* "on every path c1 is issued and, later, c2 is issued" *)
Inductive always_then {R} (c1 c2 : call) : prog R -> Prop :=
| AT_here k : (forall a, always_calls c2 (k a)) -> always_then c1 c2 (Do c1 k)
| AT_later c' k : (forall a, always_then c1 c2 (k a)) -> always_then c1 c2 (Do c' k).

Lemma always_then_bind {A B} (c1 c2 : call) (p : prog A) (f : A -> prog B) :
  always_calls c1 p -> (forall a, always_calls c2 (f a)) -> always_then c1 c2 (bind p f).
Proof.
  intros Hp Hf. induction Hp as [k|c' k Hk IH]; cbn [bind].
  - apply AT_here. intros a. apply always_calls_bind_right. exact Hf.
  - apply AT_later. exact IH.
Qed.

Lemma always_then_bind_right {A B} (c1 c2 : call) (p : prog A) (f : A -> prog B) :
  (forall a, always_then c1 c2 (f a)) -> always_then c1 c2 (bind p f).
Proof.
  intros Hf. induction p as [r|c' k IH]; cbn [bind].
  - apply Hf.
  - apply AT_later. exact IH.
Qed.

Lemma always_then_bind_left {A B} (c1 c2 : call) (p : prog A) (f : A -> prog B) :
  always_then c1 c2 p -> always_then c1 c2 (bind p f).
Proof.
  intros Hp. induction Hp as [k Hk|c' k Hk IH]; cbn [bind].
  - apply AT_here. intros a. apply always_calls_bind_left. apply Hk.
  - apply AT_later. exact IH.
Qed.

Lemma always_then_first {R} c1 c2 (p : prog R) : always_then c1 c2 p -> always_calls c1 p.
Proof. induction 1 as [k Hk|c' k Hk IH]; [apply AC_here|apply AC_later; exact IH]. Qed.

Lemma always_then_second {R} c1 c2 (p : prog R) : always_then c1 c2 p -> always_calls c2 p.
Proof. induction 1 as [k Hk|c' k Hk IH]; apply AC_later; assumption. Qed.

(* adequacy: in every run, from every history *)
Lemma run_extends {R} (p : prog R) (e : env) : forall h, exists new, fst (run p e h) = new ++ h.
Proof.
  induction p as [r|cl k IH]; intros h; cbn [run].
  - exists []. reflexivity.
  - cbv zeta. destruct (IH (e h cl) ((cl, e h cl) :: h)) as [new Hn].
    exists (new ++ [(cl, e h cl)]). rewrite Hn, <- app_assoc. reflexivity.
Qed.

Lemma always_calls_run_split {R} (cl : call) (p : prog R) (e : env) :
  always_calls cl p -> forall h, exists a post pre, fst (run p e h) = post ++ (cl, a) :: pre ++ h.
Proof.
  intros Hp. induction Hp as [k|c' k Hk IH]; intros h; cbn [run]; cbv zeta.
  - destruct (run_extends (k (e h cl)) e ((cl, e h cl) :: h)) as [new Hn].
    exists (e h cl), new, []. exact Hn.
  - destruct (IH (e h c') ((c', e h c') :: h)) as (a & post & pre & Heq).
    exists a, post, (pre ++ [(c', e h c')]). rewrite Heq, <- app_assoc. reflexivity.
Qed.

Lemma always_then_run_split {R} (c1 c2 : call) (p : prog R) (e : env) :
  always_then c1 c2 p -> forall h,
  exists a1 a2 post mid pre, fst (run p e h) = post ++ (c2, a2) :: mid ++ (c1, a1) :: pre ++ h.
Proof.
  intros Hp. induction Hp as [k Hk|c' k Hk IH]; intros h; cbn [run]; cbv zeta.
  - destruct (always_calls_run_split c2 (k (e h c1)) e (Hk (e h c1)) ((c1, e h c1) :: h))
      as (a2 & post & mid & Heq).
    exists (e h c1), a2, post, mid, []. exact Heq.
  - destruct (IH (e h c') ((c', e h c') :: h)) as (a1 & a2 & post & mid & pre & Heq).
    exists a1, a2, post, mid, (pre ++ [(c', e h c')]). rewrite Heq, <- app_assoc. reflexivity.
Qed.

(* in the trace (oldest first) c1 occurs, and c2 occurs after it *)
Theorem always_then_in_trace {R} (c1 c2 : call) (p : prog R) (e : env) :
  always_then c1 c2 p ->
  exists a1 a2 l1 l2 l3, trace_of p e = l1 ++ (c1, a1) :: l2 ++ (c2, a2) :: l3.
Proof.
  intros Hp. destruct (always_then_run_split c1 c2 p e Hp []) as (a1 & a2 & post & mid & pre & Heq).
  exists a1, a2, (rev pre), (rev mid), (rev post). unfold trace_of. rewrite Heq, app_nil_r.
  rewrite rev_app_distr. cbn [rev]. rewrite rev_app_distr. cbn [rev].
  rewrite <- !app_assoc. cbn [app]. reflexivity.
Qed.

(* ---------- (a) through manage_children ---------- *)
Lemma always_calls_manage_update c parent observed desired av kd ds kc key d cl :
  In (av, kd, ds) desired -> lookup_kind c av kd = Some kc -> In (key, d) ds -> ssa c = false ->
  request_of_action kc d
    (child_decision c kc parent
       (olookup key (match ufind_group av kd observed with Some o => o | None => [] end)) d) = Some cl ->
  always_calls cl (manage_children c parent observed desired).
Proof.
  intros Hg Hlk Hin Hssa Hreq. unfold manage_children.
  apply always_calls_bind_right. intros f1.
  apply always_calls_foldM with (a := (av, kd, ds)); [exact Hg|].
  intros s. cbv beta iota. rewrite Hlk. apply always_calls_bind_left.
  apply C06_update_children_complete with (key := key) (d := d); assumption.
Qed.

Lemma always_calls_manage_delete c parent observed desired av kd os kc key o :
  In (av, kd, os) observed -> lookup_kind c av kd = Some kc -> In (key, o) os ->
  is_deleting o = false ->
  olookup key (match ufind_group av kd desired with Some d => d | None => [] end) = None ->
  always_calls (CApi (delete_req_of kc o)) (manage_children c parent observed desired).
Proof.
  intros Hg Hlk Hin Hdel Hund. unfold manage_children.
  apply always_calls_bind_left.
  apply always_calls_foldM with (a := (av, kd, os)); [exact Hg|].
  intros s. cbv beta iota. rewrite Hlk. apply always_calls_bind_left.
  apply C06_undesired_always_deleted with (key := key); assumption.
Qed.

(* ---------- (b) the status update is always attempted ---------- *)
Lemma always_calls_status c parent st : always_calls (status_get c parent) (update_parent_status c parent st).
Proof. destruct (C11_status_starts_with_get c parent st) as [k ->]. apply AC_here. Qed.

Lemma always_calls_status_tail c parent st failed :
  always_calls (status_get c parent) (status_tail c parent st failed).
Proof. unfold status_tail. apply always_calls_bind_left. apply always_calls_status. Qed.

Lemma after_labels_split c parent observed r ds :
  after_labels c parent observed r ds =
  bind (children_phase c parent observed (fold_left (fun m o => uinsert o m) ds []))
       (fun failed => status_tail c parent (hr_status r) failed).
Proof. reflexivity. Qed.

Theorem C12_status_always_attempted c parent observed r ds :
  always_calls (status_get c parent) (after_labels c parent observed r ds).
Proof.
  rewrite after_labels_split. apply always_calls_bind_right. intros failed. apply always_calls_status_tail.
Qed.

(* ---------- (c) the child's request, and afterwards the status GET ---------- *)
Theorem C12_child_then_status c parent observed r ds cl :
  negb (is_deleting parent) || should_finalize c parent = true ->
  always_calls cl (manage_children c parent observed (fold_left (fun m o => uinsert o m) ds [])) ->
  always_then cl (status_get c parent) (after_labels c parent observed r ds).
Proof.
  intros Hc Hcl. rewrite after_labels_split. apply always_then_bind.
  - unfold children_phase. rewrite Hc. exact Hcl.
  - intros failed. apply always_calls_status_tail.
Qed.

(* finish_sync, syntactically: after the guards it is after_labels *)
Lemma finish_sync_tail c parent observed r d0 sel ds :
  desired_map (hr_children r) [] = Some d0 ->
  hr_finalized r = false ->
  make_selector c parent = Some sel ->
  enforce_labels c parent sel (uobjects d0) = Some ds ->
  forall cl1 cl2,
  always_then cl1 cl2
    (failed <~ children_phase c parent observed (fold_left (fun m o => uinsert o m) ds []) ;;
     sr <~ update_parent_status c parent (hr_status r) ;;
     match sr with
     | RErr ENotFound | RErr EConflict => Ret (if failed then SErr else SDone)
     | RErr _ => Ret SErr
     | ROk _ => Ret (if failed then SErr else SDone)
     end) ->
  always_then cl1 cl2 (finish_sync c parent observed r).
Proof.
  intros Hd Hfin Hsel Hlab cl1 cl2 H. unfold finish_sync. rewrite Hd.
  apply always_then_bind_right. intros _. rewrite Hfin. cbn [bind]. rewrite Hsel, Hlab.
  cbv zeta. exact H.
Qed.

Lemma always_then_finish_sync c parent observed r d0 sel ds cl :
  desired_map (hr_children r) [] = Some d0 ->
  hr_finalized r = false ->
  make_selector c parent = Some sel ->
  enforce_labels c parent sel (uobjects d0) = Some ds ->
  negb (is_deleting parent) || should_finalize c parent = true ->
  always_calls cl (manage_children c parent observed (fold_left (fun m o => uinsert o m) ds [])) ->
  always_then cl (status_get c parent) (finish_sync c parent observed r).
Proof.
  intros Hd Hfin Hsel Hlab Hc Hcl.
  apply (finish_sync_tail c parent observed r d0 sel ds Hd Hfin Hsel Hlab).
  apply always_then_bind.
  - unfold children_phase. rewrite Hc. exact Hcl.
  - intros failed. apply always_calls_bind_left. apply always_calls_status.
Qed.

(* the status update is attempted on every path of finish_sync that gets past the guards,
   whether or not children are managed *)
Theorem C12_finish_sync_status_always c parent observed r d0 sel ds :
  desired_map (hr_children r) [] = Some d0 ->
  hr_finalized r = false ->
  make_selector c parent = Some sel ->
  enforce_labels c parent sel (uobjects d0) = Some ds ->
  always_calls (status_get c parent) (finish_sync c parent observed r).
Proof.
  intros Hd Hfin Hsel Hlab. unfold finish_sync. rewrite Hd.
  apply always_calls_bind_right. intros _. rewrite Hfin. cbn [bind]. rewrite Hsel, Hlab. cbv zeta.
  apply always_calls_bind_right. intros failed. apply always_calls_bind_left. apply always_calls_status.
Qed.

(* the statement: a desired child whose decision is a create / update / delete gets its
   request whatever happened to the requests about the other children, and the status
   update is attempted afterwards *)
Theorem C12_one_bad_child c parent observed r d0 sel ds av kd gds kc key d cl :
  desired_map (hr_children r) [] = Some d0 ->
  hr_finalized r = false ->
  make_selector c parent = Some sel ->
  enforce_labels c parent sel (uobjects d0) = Some ds ->
  negb (is_deleting parent) || should_finalize c parent = true ->
  ssa c = false ->
  In (av, kd, gds) (fold_left (fun m o => uinsert o m) ds []) ->
  lookup_kind c av kd = Some kc ->
  In (key, d) gds ->
  request_of_action kc d
    (child_decision c kc parent
       (olookup key (match ufind_group av kd observed with Some o => o | None => [] end)) d) = Some cl ->
  always_then cl (status_get c parent) (finish_sync c parent observed r).
Proof.
  intros Hd Hfin Hsel Hlab Hc Hssa Hg Hlk Hin Hreq.
  apply (always_then_finish_sync c parent observed r d0 sel ds cl Hd Hfin Hsel Hlab Hc).
  apply always_calls_manage_update with (av := av) (kd := kd) (ds := gds) (kc := kc) (key := key) (d := d);
    assumption.
Qed.

(* the same for the delete of an observed child the hook no longer wants *)
Theorem C12_one_bad_child_delete c parent observed r d0 sel ds av kd os kc key o :
  desired_map (hr_children r) [] = Some d0 ->
  hr_finalized r = false ->
  make_selector c parent = Some sel ->
  enforce_labels c parent sel (uobjects d0) = Some ds ->
  negb (is_deleting parent) || should_finalize c parent = true ->
  In (av, kd, os) observed ->
  lookup_kind c av kd = Some kc ->
  In (key, o) os ->
  is_deleting o = false ->
  olookup key (match ufind_group av kd (fold_left (fun m o => uinsert o m) ds []) with
               | Some d => d | None => [] end) = None ->
  always_then (CApi (delete_req_of kc o)) (status_get c parent) (finish_sync c parent observed r).
Proof.
  intros Hd Hfin Hsel Hlab Hc Hg Hlk Hin Hdel Hund.
  apply (always_then_finish_sync c parent observed r d0 sel ds _ Hd Hfin Hsel Hlab Hc).
  apply always_calls_manage_delete with (av := av) (kd := kd) (os := os) (key := key); assumption.
Qed.

(* run-level reading: in every environment — in particular one that fails every other
   child request — the trace of finish_sync contains the child's request and, later, the
   GET that opens the status update *)
Corollary C12_one_bad_child_trace c parent observed r d0 sel ds av kd gds kc key d cl (e : env) :
  desired_map (hr_children r) [] = Some d0 ->
  hr_finalized r = false ->
  make_selector c parent = Some sel ->
  enforce_labels c parent sel (uobjects d0) = Some ds ->
  negb (is_deleting parent) || should_finalize c parent = true ->
  ssa c = false ->
  In (av, kd, gds) (fold_left (fun m o => uinsert o m) ds []) ->
  lookup_kind c av kd = Some kc ->
  In (key, d) gds ->
  request_of_action kc d
    (child_decision c kc parent
       (olookup key (match ufind_group av kd observed with Some o => o | None => [] end)) d) = Some cl ->
  exists a1 a2 l1 l2 l3,
    trace_of (finish_sync c parent observed r) e = l1 ++ (cl, a1) :: l2 ++ (status_get c parent, a2) :: l3.
Proof.
  intros Hd Hfin Hsel Hlab Hc Hssa Hg Hlk Hin Hreq. apply always_then_in_trace.
  apply (C12_one_bad_child c parent observed r d0 sel ds av kd gds kc key d cl); assumption.
Qed.

Print Assumptions C12_no_panic_on_fault.
Print Assumptions C12_requeue.
Print Assumptions C12_round_always_done.
Print Assumptions always_then_in_trace.
Print Assumptions C12_status_always_attempted.
Print Assumptions C12_child_then_status.
Print Assumptions C12_finish_sync_status_always.
Print Assumptions C12_one_bad_child.
Print Assumptions C12_one_bad_child_delete.
Print Assumptions C12_one_bad_child_trace.
